(* SrvModel: executable transition model of jrpc2.Server (server.go).

   One label per critical section or blocking-primitive operation of the Go code.
   "Release" labels (LRelXxx) correspond to a goroutine passing one of the verif
   scheduling points (internal/verifhook.Point sites) and running until it parks
   at the next point or blocks; [settle] then runs the consequences that happen
   without passing a scheduling point (wake-ups of blocked goroutines).
   Environment labels are what the peer, the transport, the handlers and the API
   callers do.  [step] returns the new state and the observations the window
   produces (handler entries, messages sent, API returns), which the
   correspondence check compares with the real server's log. *)
From Coq Require Import List NArith ZArith Bool Arith Lia.
From RecordUpdate Require Import RecordUpdate.
From JV Require Import Bytes Msg.
Import ListNotations.

(** * Data *)
Inductive stopcause := SCStop | SCEOF | SCClosing | SCOther.
Inductive feed := FMsg (i : inbound) | FMsgEOF (i : inbound) | FErr (c : stopcause).

Inductive outcome := ORes (raw : bytes) | OErr (code : Z) (msg : bytes).
Inductive body := BRes (raw : bytes) | BErr (code : Z) (msg : bytes) | BWild.
Record rsp := { r_id : bytes; r_body : body }.

Inductive tst :=
| TSkip                      (* failed in checkAndAssign: never runs *)
| TAtAcquire                 (* goroutine parked before sem.Acquire *)
| TWaiting                   (* queued in the semaphore *)
| TRunning                   (* handler entered, waiting for the harness gate *)
| TAtHandled (o : outcome)   (* handler returned, parked before release/marshal *)
| TDone (b : option body).   (* invoke returned: Some body for a call, None for a notification *)

Record task := mkTask {
  t_unit : nat;
  t_id : bytes;              (* fixID'ed raw id; [] = none *)
  t_method : bytes;
  t_params : bytes;
  t_pre : option (Z * bytes);(* error recorded by checkAndAssign (code, message) *)
  t_hasctx : bool;           (* setContext ran *)
  t_builtin : bool;          (* rpc.serverInfo *)
  t_cancelled : bool;        (* its context has been cancelled *)
  t_st : tst
}.
#[export] Instance eta_task : Settable _ :=
  settable! mkTask <t_unit; t_id; t_method; t_params; t_pre; t_hasctx; t_builtin; t_cancelled; t_st>.

Inductive ust := UAtBarrier | UBarrierWait | URunning | UAtDeliver | UFinished.
Record unit_ := mkUnit {
  u_batch : bool;
  u_notes : nat;             (* runnable notifications: argument of waitForBarrier *)
  u_chok : bool;             (* channel captured at dequeue was non-nil *)
  u_st : ust
}.
#[export] Instance eta_unit : Settable _ := settable! mkUnit <u_batch; u_notes; u_chok; u_st>.

Inductive why := WCancel | WDeadline.
Inductive wpc := WBlocked | WParked | WDone.
Inductive cbres := CRes (raw : bytes) | CErr (code : Z) (msg : bytes).
Record cb := mkCb {
  cb_op : nat;               (* harness operation number of the Callback call *)
  cb_id : bytes;             (* decimal id *)
  cb_slot : option cbres;    (* value written to the 1-buffered slot *)
  cb_ctx : option why;       (* caller's context ended (cancel / deadline) *)
  cb_cancelled : bool;       (* cbctx cancelled (caller ctx, Stop, or wait() after delivery) *)
  cb_watch : wpc;
  cb_ret : bool              (* Callback has already returned to its caller (send failure) *)
}.
#[export] Instance eta_cb : Settable _ := settable! mkCb <cb_op; cb_id; cb_slot; cb_ctx; cb_cancelled; cb_watch; cb_ret>.

Inductive op :=
| OpStop (n : nat) | OpCancel (n : nat) (id : bytes)
| OpPush (n : nat) (wantid : bool) (method params : bytes).

Inductive rdpc := RNone | RIdle | RHold (f : feed) | RExited.
Inductive dppc := DNone | DAtNext | DWaitWork | DAtBarrier (u : nat) | DBarrierWait (u : nat) | DExited.
Inductive crashkind := CrNilChannel | CrSendOnClosedWork | CrCloseOfClosedWork | CrQueueNotEmpty | CrUsedNotEmpty
                     | CrNegativeBarrier | CrAlreadyRunning.

Inductive apires :=
| APushUnsupported | AConnClosed | AOk | ASendFailed
| ACbRes (raw : bytes) | ACbErr (code : Z) (msg : bytes) | ACbCtx (w : why).

Inductive obs :=
| OStart (params : bytes) (cancelled : bool)
| OGate (params : bytes) (cancelled : bool)
| OSend (ok : bool) (batch : bool) (rs : list rsp)
| OSendReq (ok : bool) (id method params : bytes)
| OClose
| ORet (n : nat) (r : apires)
| OWaitRet (c : option stopcause)
| OCrash (k : crashkind).

Record state := mkState {
  c_K : nat; c_push : bool; c_builtin : bool; c_methods : list bytes; c_unblock : bool;
  ch_in : list feed;
  send_fail : bool;          (* the transport currently fails every Send *)
  running : bool; stop_err : option stopcause; work_closed : bool;
  closes : nat; starts : nat;
  rd : rdpc; dp : dppc;
  inq : list (bool * list jmsg);
  units : list unit_; tasks : list task;
  nbar : nat; sem_free : nat; sem_wait : list nat;
  used : list (bytes * nat);
  calls : list (bytes * nat); call_id : nat; cbs : list cb;
  wg : nat; ops : list op; waits : nat;
  ended : list (nat * why);  (* caller contexts that ended before their Callback registered *)
  crash : option crashkind
}.
#[export] Instance eta_state : Settable _ :=
  settable! mkState <c_K; c_push; c_builtin; c_methods; c_unblock; ch_in; send_fail; running; stop_err; work_closed;
                     closes; starts; rd; dp; inq; units; tasks; nbar; sem_free; sem_wait; used;
                     calls; call_id; cbs; wg; ops; waits; ended; crash>.

Definition init (K : nat) (push builtin : bool) (methods : list bytes) (unblock : bool) : state :=
  mkState K push builtin methods unblock [] false false None false 0 0 RNone DNone [] [] [] 0 K [] [] [] 1 [] 0 [] 0 [] None.

Inductive label :=
(* environment *)
| LStart
| LFeed (f : feed)
| LSendFault (b : bool)
| LGate (params : bytes) (o : outcome)
| LCallStop (n : nat) | LCallCancel (n : nat) (id : bytes)
| LCallPush (n : nat) (wantid : bool) (method params : bytes)
| LCallWait
| LCbCtxEnd (n : nat) (w : why)
(* scheduling points *)
| LRelRead | LRelNext | LRelBarrier
| LRelAcquire (k : nat) | LRelHandled (k : nat) | LRelDeliver (u : nat)
| LRelStop (n : nat) | LRelCancel (n : nat) | LRelPush (n : nat) | LRelCbWatch (c : nat).

(** * Helpers *)
Fixpoint upd_nth {A} (n : nat) (f : A -> A) (l : list A) : list A :=
  match l, n with
  | [], _ => []
  | x :: r, O => f x :: r
  | x :: r, S n' => x :: upd_nth n' f r
  end.

Fixpoint assoc {A} (k : bytes) (m : list (bytes * A)) : option A :=
  match m with [] => None | (k', v) :: r => if beq k k' then Some v else assoc k r end.
Fixpoint assoc_del {A} (k : bytes) (m : list (bytes * A)) : list (bytes * A) :=
  match m with [] => [] | (k', v) :: r => if beq k k' then assoc_del k r else (k', v) :: assoc_del k r end.

Fixpoint mem_bytes (k : bytes) (l : list bytes) : bool :=
  match l with [] => false | x :: r => beq k x || mem_bytes k r end.
Fixpoint count_bytes (k : bytes) (l : list bytes) : nat :=
  match l with [] => 0 | x :: r => (if beq k x then 1 else 0) + count_bytes k r end.

Definition is_nil (b : bytes) : bool := match b with [] => true | _ => false end.

(* decimal text of a nat (callback ids) *)
Fixpoint dec_digits (fuel n : nat) (acc : bytes) : bytes :=
  match fuel with
  | O => acc
  | S f => let d := N.of_nat (n mod 10) in
           let acc' := (48 + d)%N :: acc in
           if n / 10 =? 0 then acc' else dec_digits f (n / 10) acc'
  end.
Definition dec_of_nat (n : nat) : bytes := dec_digits (S n) n [].

(* error values of error.go, as (code, message) *)
Definition s_dup : bytes := [100;117;112;108;105;99;97;116;101;32;114;101;113;117;101;115;116;32;73;68]%N.           (* duplicate request ID *)
Definition s_empty_method : bytes := [101;109;112;116;121;32;109;101;116;104;111;100;32;110;97;109;101]%N.           (* empty method name *)
Definition s_not_found : bytes := [109;101;116;104;111;100;32;110;111;116;32;102;111;117;110;100]%N.                 (* method not found *)
Definition s_invalid_value : bytes := [105;110;118;97;108;105;100;32;114;101;113;117;101;115;116;32;118;97;108;117;101]%N. (* invalid request value *)
Definition s_empty_batch : bytes := [101;109;112;116;121;32;114;101;113;117;101;115;116;32;98;97;116;99;104]%N.     (* empty request batch *)
Definition s_ctx_canceled : bytes := [99;111;110;116;101;120;116;32;99;97;110;99;101;108;101;100]%N.                (* context canceled *)
Definition s_ctx_deadline : bytes :=
  [99;111;110;116;101;120;116;32;100;101;97;100;108;105;110;101;32;101;120;99;101;101;100;101;100]%N.              (* context deadline exceeded *)
Definition err_dup := (InvalidRequest, s_dup).
Definition err_empty_method := (InvalidRequest, s_empty_method).
Definition err_not_found := (MethodNotFound, s_not_found).

Definition rpc_prefix : bytes := [114; 112; 99; 46]%N.
Definition rpc_server_info : bytes := [114;112;99;46;115;101;114;118;101;114;73;110;102;111]%N.

(* assignLocked: Some true = built-in rpc.serverInfo, Some false = user handler *)
Definition assign_method (s : state) (m : bytes) : option bool :=
  if c_builtin s && has_prefix rpc_prefix m then
    if beq m rpc_server_info then Some true else None
  else if mem_bytes m (c_methods s) then Some false else None.

(** * checkAndAssignLocked *)
Definition pre_err (s : state) (ids : list bytes) (m : jmsg) : option (Z * bytes) :=
  let fid := fix_id (j_id m) in
  if negb (is_nil fid) && ((match assoc fid (used s) with Some _ => true | None => false end)
                            || (1 <? count_bytes fid ids)) then Some err_dup
  else match j_err m with Some e => Some (we_code e, we_msg e) | None => None end.

Definition mk_task (s : state) (u : nat) (ids : list bytes) (m : jmsg) : task :=
  let fid := fix_id (j_id m) in
  match pre_err s ids m with
  | Some e => mkTask u fid (j_method m) (j_params m) (Some e) false false false TSkip
  | None =>
      if is_nil (j_method m) then mkTask u fid (j_method m) (j_params m) (Some err_empty_method) false false false TSkip
      else match assign_method s (j_method m) with
           | None => mkTask u fid (j_method m) (j_params m) (Some err_not_found) true false false TSkip
           | Some b => mkTask u fid (j_method m) (j_params m) None true b false TAtAcquire
           end
  end.

Definition runnable (t : task) : bool := match t_pre t with None => true | Some _ => false end.
Definition is_note (t : task) : bool := is_nil (t_id t).

Fixpoint reserve (base : nat) (ts : list task) (us : list (bytes * nat)) : list (bytes * nat) :=
  match ts with
  | [] => us
  | t :: r => let us' := if t_hasctx t && negb (is_nil (t_id t)) then (t_id t, base) :: assoc_del (t_id t) us else us in
              reserve (S base) r us'
  end.

(** * tasks.responses *)
Definition task_body (t : task) : body :=
  match t_pre t with
  | Some (c, m) => BErr c m
  | None => match t_st t with TDone (Some b) => b | _ => BWild end
  end.
Definition response_of (t : task) : option rsp :=
  if is_note t then
    match t_pre t with
    | Some (c, m) => if (c =? ParseError)%Z || (c =? InvalidRequest)%Z
                     then Some {| r_id := null_bytes; r_body := BErr c m |} else None
    | None => None
    end
  else Some {| r_id := t_id t; r_body := task_body t |}.
Fixpoint responses (ts : list task) : list rsp :=
  match ts with
  | [] => []
  | t :: r => match response_of t with Some x => x :: responses r | None => responses r end
  end.

(* the tasks of dispatch unit number i, in request order *)
Definition unit_tasks (s : state) (i : nat) : list task := filter (fun t => t_unit t =? i) (tasks s).
Definition finished (t : task) : bool := match t_st t with TSkip | TDone _ => true | _ => false end.

(** * semaphore *)
Definition cancel_err : body := BErr Cancelled s_ctx_canceled.

(* give free slots to the waiters at the head of the queue (notifyWaiters); a granted
   waiter enters its handler: observation OStart *)
Fixpoint grant (fuel : nat) (s : state) (acc : list obs) : state * list obs :=
  match fuel with
  | O => (s, acc)
  | S f =>
      match sem_wait s, sem_free s with
      | k :: r, S fr =>
          match nth_error (tasks s) k with
          | Some t =>
              if t_builtin t
              then grant f (s <| sem_wait := r |> <| sem_free := fr |>
                              <| tasks ::= upd_nth k (fun t => t <| t_st := TAtHandled (ORes []) |>) |>) acc
              else grant f (s <| sem_wait := r |> <| sem_free := fr |>
                              <| tasks ::= upd_nth k (fun t => t <| t_st := TRunning |>) |>)
                         (acc ++ [OStart (t_params t) (t_cancelled t)])
          | None => (s, acc)
          end
      | _, _ => (s, acc)
      end
  end.

(* the context of task k is cancelled: a queued waiter gives up at once *)
Definition cancel_task (k : nat) (s : state) : state :=
  match nth_error (tasks s) k with
  | Some t =>
      let s1 := s <| tasks ::= upd_nth k (fun t => t <| t_cancelled := true |>) |> in
      match t_st t with
      | TWaiting => s1 <| sem_wait ::= filter (fun j => negb (j =? k)) |>
                       <| tasks ::= upd_nth k (fun t => t <| t_st := TDone (Some cancel_err) |>) |>
      | _ => s1
      end
  | None => s
  end.

(** * stopLocked *)
Definition keep_note (m : jmsg) : bool := is_notification m && match j_err m with None => true | Some _ => false end.
Definition stop_queue (q : list (bool * list jmsg)) : list (bool * list jmsg) :=
  concat (map (fun bm => map (fun m => (fst bm, [m])) (filter keep_note (snd bm))) q).

Definition stop_locked (c : stopcause) (s : state) : state * list obs :=
  if negb (running s) then (s, [])
  else
    let s1 := s <| closes ::= S |> <| inq ::= stop_queue |> in
    let s2 := if work_closed s1 then s1 <| crash := Some CrCloseOfClosedWork |> else s1 <| work_closed := true |> in
    (* cancel callbacks: every registered callback's context *)
    let s3 := s2 <| cbs ::= map (fun c => match assoc (cb_id c) (calls s2) with
                                          | Some _ => c <| cb_cancelled := true |>
                                                        <| cb_watch := match cb_watch c with WBlocked => WParked | w => w end |>
                                          | None => c end) |> in
    (* cancel and release every reservation *)
    let s4 := fold_left (fun st p => cancel_task (snd p) st) (used s3) s3 in
    let s5 := s4 <| used := [] |> <| stop_err := Some c |> <| running := false |> in
    (* a Recv blocked on a channel whose Close unblocks it returns a closing error *)
    let s6 := if c_unblock s5 then s5 <| ch_in ::= fun q => q ++ [FErr SCClosing] |> else s5 in
    (s6, [OClose]).

(** * unhooked consequences *)
Definition is_nil_list {A} (l : list A) : bool := match l with [] => true | _ => false end.
Definition set_unit (i : nat) (f : unit_ -> unit_) (s : state) : state := s <| units ::= upd_nth i f |>.
Definition set_task (k : nat) (f : task -> task) (s : state) : state := s <| tasks ::= upd_nth k f |>.
Definition all_finished (s : state) (i : nat) : bool := forallb finished (unit_tasks s i).

(* the dispatcher's nextRequest critical section (after the lock is taken) *)
Definition dequeue (s : state) : state :=
  match inq s with
  | [] => if running s then s <| dp := DWaitWork |> else s <| dp := DExited |> <| wg ::= pred |>
  | (batch, ms) :: q =>
      let u := length (units s) in
      let ids := map (fun m => fix_id (j_id m)) ms in
      let ts := map (mk_task s u ids) ms in
      let notes := length (filter (fun t => runnable t && is_note t) ts) in
      s <| inq := q |>
        <| used := reserve (length (tasks s)) ts (used s) |>
        <| units ::= fun us => us ++ [mkUnit batch notes (running s) UAtBarrier] |>
        <| tasks ::= fun l => l ++ ts |>
        <| dp := DAtBarrier u |>
  end.

Fixpoint find_idx {A} (p : A -> bool) (i : nat) (l : list A) : option nat :=
  match l with [] => None | x :: r => if p x then Some i else find_idx p (S i) r end.

Definition unit_complete (s : state) (i : nat) (u : unit_) : bool :=
  match u_st u with URunning => all_finished s i | _ => false end.

Fixpoint find_unit (p : nat -> unit_ -> bool) (i : nat) (l : list unit_) : option nat :=
  match l with [] => None | x :: r => if p i x then Some i else find_unit p (S i) r end.

Definition settle1 (s : state) : option (state * list obs) :=
  match rd s, ch_in s with
  | RIdle, f :: q => Some (s <| rd := RHold f |> <| ch_in := q |>, [])
  | _, _ =>
  match (match dp s with
         | DWaitWork => if negb (running s) || negb (is_nil_list (inq s)) then Some (dequeue s, []) else None
         | DBarrierWait u =>
             if nbar s =? 0 then
               match nth_error (units s) u with
               | Some un => Some (set_unit u (fun x => x <| u_st := URunning |>) s
                                    <| nbar := u_notes un |> <| wg ::= S |> <| dp := DAtNext |>, [])
               | None => None
               end
             else None
         | _ => None
         end) with
  | Some r => Some r
  | None =>
  match find_unit (unit_complete s) 0 (units s) with
  | Some i =>
      match nth_error (units s) i with
      | Some un =>
          if is_nil_list (responses (unit_tasks s i))
          then Some (set_unit i (fun x => x <| u_st := UFinished |>) s <| wg ::= pred |>, [])
          else Some (set_unit i (fun x => x <| u_st := UAtDeliver |>) s, [])
      | None => None
      end
  | None =>
      if (0 <? waits s) && (wg s =? 0) then
        if is_nil_list (inq s)
        then Some (s <| waits ::= pred |>, [OWaitRet (stop_err s)])
        else Some (s <| waits ::= pred |> <| crash := Some CrQueueNotEmpty |>, [OCrash CrQueueNotEmpty])
      else None
  end end end.

Fixpoint settle (fuel : nat) (s : state) (acc : list obs) : state * list obs :=
  match fuel with
  | O => (s, acc)
  | S f => match settle1 s with
           | Some (s', os) => settle f s' (acc ++ os)
           | None => (s, acc)
           end
  end.

Definition settle_fuel (s : state) : nat := 8 + 2 * length (units s) + length (ch_in s) + length (inq s) + waits s.

(** * critical sections *)
Definition push_error (s : state) (code : Z) (msg : bytes) : state * list obs :=
  (s, [OSend (running s && negb (send_fail s)) false [{| r_id := null_bytes; r_body := BErr code msg |}]]).

(* the watcher of callback c wakes when its context is cancelled *)
Definition wake_watch (c : cb) : cb :=
  c <| cb_cancelled := true |> <| cb_watch := match cb_watch c with WBlocked => WParked | w => w end |>.

Definition ctx_res (code : Z) (msg : bytes) : apires :=
  if (code =? Cancelled)%Z then ACbCtx WCancel
  else if (code =? DeadlineExceeded)%Z then ACbCtx WDeadline
  else ACbErr code msg.

(* a value is written to the slot of callback number i: the caller's wait() settles it,
   cancels the callback context (waking the watcher) and Callback returns *)
Definition complete_cb (i : nat) (r : cbres) (s : state) : state * list obs :=
  match nth_error (cbs s) i with
  | Some c =>
      (s <| cbs ::= upd_nth i (fun c => wake_watch (c <| cb_slot := Some r |>)) |>
         <| calls ::= assoc_del (cb_id c) |>,
       if cb_ret c then []
       else [ORet (cb_op c) (match r with CRes raw => ACbRes raw | CErr code msg => ctx_res code msg end)])
  | None => (s, [])
  end.

Definition has_reply_fields (m : jmsg) : bool :=
  match j_error m with Some _ => true | None => negb (is_nil (j_result m)) end.

Fixpoint filter_batch (ms : list jmsg) (s : state) (keep : list jmsg) (acc : list obs) : state * list jmsg * list obs :=
  match ms with
  | [] => (s, rev keep, acc)
  | m :: r =>
      if is_req_or_notif m then filter_batch r s (m :: keep) acc
      else
        let id := fix_id (j_id m) in
        match assoc id (calls s) with
        | Some i =>
            let v := match j_error m with Some e => CErr (we_code e) (we_msg e) | None => CRes (j_result m) end in
            let '(s', os) := complete_cb i v s in
            filter_batch r s' keep (acc ++ os)
        | None =>
            if c_push s && is_nil (j_method m) && has_reply_fields m
            then filter_batch r s keep acc
            else filter_batch r s (m :: keep) acc
        end
  end.

Definition read_cs (f : feed) (s : state) : state * list obs :=
  match f with
  | FErr c => let '(s', os) := stop_locked c s in (s' <| rd := RExited |> <| wg ::= pred |>, os)
  | FMsg i | FMsgEOF i =>
      if negb (running s) then (s <| rd := RExited |> <| wg ::= pred |>, [])
      else match i with
           | InBad => let '(s', os) := push_error s ParseError s_invalid_value in (s' <| rd := RIdle |>, os)
           | InMsgs _ [] => let '(s', os) := push_error s InvalidRequest s_empty_batch in (s' <| rd := RIdle |>, os)
           | InMsgs b ms =>
               let '(s1, keep, os) := filter_batch ms s [] [] in
               match keep with
               | [] => (s1 <| rd := RIdle |>, os)
               | _ => let s2 := s1 <| inq ::= fun q => q ++ [(b, keep)] |> <| rd := RIdle |> in
                      if work_closed s2 && (length (inq s2) =? 1)
                      then (s2 <| crash := Some CrSendOnClosedWork |>, os ++ [OCrash CrSendOnClosedWork])
                      else (s2, os)
               end
           end
  end.

Definition body_of_outcome (t : task) (o : outcome) : option body :=
  if is_note t then None
  else if t_builtin t then Some BWild
  else match o with ORes raw => Some (BRes raw) | OErr c m => Some (BErr c m) end.

Definition unit_running (s : state) (t : task) : bool :=
  match nth_error (units s) (t_unit t) with
  | Some u => match u_st u with URunning => true | _ => false end
  | None => false
  end.

Definition op_num (o : op) : nat := match o with OpStop n | OpCancel n _ | OpPush n _ _ _ => n end.
Definition find_op (n : nat) (l : list op) : option op := find (fun o => op_num o =? n) l.
Definition del_op (n : nat) (l : list op) : list op := filter (fun o => negb (op_num o =? n)) l.

Fixpoint release_ids (ts : list task) (s : state) : state :=
  match ts with
  | [] => s
  | t :: r =>
      let s' := if t_hasctx t && negb (is_note t) then
                  match assoc (t_id t) (used s) with
                  | Some owner => (cancel_task owner s) <| used ::= assoc_del (t_id t) |>
                  | None => s
                  end
                else s in
      release_ids r s'
  end.

Definition step_raw (s : state) (l : label) : option (state * list obs) :=
  match l with
  | LStart =>
      if negb (running s) && (wg s =? 0)
      then Some (s <| running := true |> <| starts ::= S |> <| stop_err := None |> <| work_closed := false |>
                   <| wg := 2 |> <| rd := RIdle |> <| dp := DAtNext |> <| ch_in := [] |>, [])
      else None
  | LFeed f => Some (s <| ch_in ::= fun q => q ++ [f] |>, [])
  | LSendFault b => Some (s <| send_fail := b |>, [])
  | LGate p o =>
      match find_idx (fun t => beq (t_params t) p && match t_st t with TRunning => true | _ => false end) 0 (tasks s) with
      | Some k => match nth_error (tasks s) k with
                  | Some t => Some (set_task k (fun t => t <| t_st := TAtHandled o |>) s, [OGate p (t_cancelled t)])
                  | None => None
                  end
      | None => None
      end
  | LCallStop n => Some (s <| ops ::= fun l => l ++ [OpStop n] |>, [])
  | LCallCancel n id => Some (s <| ops ::= fun l => l ++ [OpCancel n id] |>, [])
  | LCallPush n w m p =>
      if c_push s then Some (s <| ops ::= fun l => l ++ [OpPush n w m p] |>, [])
      else Some (s, [ORet n APushUnsupported])
  | LCallWait => Some (s <| waits ::= S |>, [])
  | LCbCtxEnd n w =>
      match find_idx (fun c => cb_op c =? n) 0 (cbs s) with
      | Some i => Some (s <| cbs ::= upd_nth i (fun c => if cb_cancelled c then c
                                                          else wake_watch (c <| cb_ctx := Some w |>)) |>, [])
      | None => Some (s <| ended ::= fun l => l ++ [(n, w)] |>, [])
      end
  | LRelRead =>
      match rd s with
      | RHold f => Some (read_cs f s)
      | _ => None
      end
  | LRelNext => match dp s with DAtNext => Some (dequeue s, []) | _ => None end
  | LRelBarrier => match dp s with DAtBarrier u => Some (s <| dp := DBarrierWait u |>, []) | _ => None end
  | LRelAcquire k =>
      match nth_error (tasks s) k with
      | Some t =>
          match t_st t with
          | TAtAcquire =>
              if negb (unit_running s t) then None
              else if t_cancelled t then Some (set_task k (fun t => t <| t_st := TDone (Some cancel_err) |>) s, [])
              else match sem_free s, sem_wait s with
                   | S fr, [] =>
                       if t_builtin t
                       then Some (set_task k (fun t => t <| t_st := TAtHandled (ORes []) |>) s <| sem_free := fr |>, [])
                       else Some (set_task k (fun t => t <| t_st := TRunning |>) s <| sem_free := fr |>,
                                  [OStart (t_params t) false])
                   | _, _ => Some (set_task k (fun t => t <| t_st := TWaiting |>) s <| sem_wait ::= fun q => q ++ [k] |>, [])
                   end
          | _ => None
          end
      | None => None
      end
  | LRelHandled k =>
      match nth_error (tasks s) k with
      | Some t =>
          match t_st t with
          | TAtHandled o =>
              let s1 := set_task k (fun t => t <| t_st := TDone (body_of_outcome t o) |>) s <| sem_free ::= S |> in
              let '(s2, os) := grant (S (length (sem_wait s1))) s1 [] in
              if is_note t then
                match nbar s2 with
                | O => Some (s2 <| crash := Some CrNegativeBarrier |>, os ++ [OCrash CrNegativeBarrier])
                | S n => Some (s2 <| nbar := n |>, os)
                end
              else Some (s2, os)
          | _ => None
          end
      | None => None
      end
  | LRelDeliver u =>
      match nth_error (units s) u with
      | Some un =>
          match u_st un with
          | UAtDeliver =>
              let ts := unit_tasks s u in
              let rs := responses ts in
              let s1 := release_ids ts s in
              if negb (u_chok un)
              then Some (s1 <| crash := Some CrNilChannel |>, [OCrash CrNilChannel])
              else Some (set_unit u (fun x => x <| u_st := UFinished |>) s1 <| wg ::= pred |>,
                         [OSend (running s1 && negb (send_fail s1)) (u_batch un) rs])
          | _ => None
          end
      | None => None
      end
  | LRelStop n =>
      match find_op n (ops s) with
      | Some (OpStop _) => let '(s', os) := stop_locked SCStop (s <| ops ::= del_op n |>) in Some (s', os ++ [ORet n AOk])
      | _ => None
      end
  | LRelCancel n =>
      match find_op n (ops s) with
      | Some (OpCancel _ id) =>
          let s1 := s <| ops ::= del_op n |> in
          Some (match assoc id (used s1) with Some owner => cancel_task owner s1 | None => s1 end, [ORet n AOk])
      | _ => None
      end
  | LRelPush n =>
      match find_op n (ops s) with
      | Some (OpPush _ wantid m p) =>
          let s1 := s <| ops ::= del_op n |> in
          if negb (running s1) then Some (s1, [ORet n AConnClosed])
          else if wantid then
            let id := dec_of_nat (call_id s1) in
            let fl := send_fail s1 in
            if fl then
              (* the request could not be sent: the registration is released at once (F14) and the
                 watcher, its context cancelled, runs to its scheduling point *)
              Some (s1 <| call_id ::= S |> <| cbs ::= fun l => l ++ [mkCb n id None None true WParked true] |>,
                    [OSendReq false id m p; ORet n ASendFailed])
            else
            let c := match find (fun e => fst e =? n) (ended s1) with
                     | Some (_, w) => mkCb n id None (Some w) true WParked false
                     | None => mkCb n id None None false WBlocked false
                     end in
            Some (s1 <| call_id ::= S |> <| calls ::= fun l => (id, length (cbs s1)) :: assoc_del id l |>
                     <| cbs ::= fun l => l ++ [c] |>,
                  [OSendReq true id m p])
          else Some (s1, [OSendReq (negb (send_fail s1)) [] m p; ORet n (if send_fail s1 then ASendFailed else AOk)])
      | _ => None
      end
  | LRelCbWatch i =>
      match nth_error (cbs s) i with
      | Some c =>
          match cb_watch c with
          | WParked =>
              let s1 := s <| cbs ::= upd_nth i (fun c => c <| cb_watch := WDone |>) |> in
              match assoc (cb_id c) (calls s1), cb_slot c with
              | Some j, None =>
                  if j =? i then
                    let '(code, msg) := match cb_ctx c with
                                        | Some WDeadline => (DeadlineExceeded, s_ctx_deadline)
                                        | _ => (Cancelled, s_ctx_canceled) end in
                    Some (complete_cb i (CErr code msg) s1)
                  else Some (s1, [])
              | _, _ => Some (s1, [])
              end
          | _ => None
          end
      | None => None
      end
  end.

Definition step (s : state) (l : label) : option (state * list obs) :=
  match crash s with
  | Some _ => None
  | None =>
      match step_raw s l with
      | Some (s1, os) => match crash s1 with
                         | Some _ => Some (s1, os)
                         | None => Some (settle (settle_fuel s1) s1 os)
                         end
      | None => None
      end
  end.

Fixpoint run (s : state) (tr : list label) : option (state * list (list obs)) :=
  match tr with
  | [] => Some (s, [])
  | l :: r => match step s l with
              | Some (s1, os) => match run s1 r with
                                 | Some (s2, oss) => Some (s2, os :: oss)
                                 | None => None
                                 end
              | None => None
              end
  end.

(** * what is parked where: candidate labels for a released scheduling point *)
Inductive site := SRead | SNext | SBarrier | SAcquire | SHandled | SDeliver | SStop | SCancel | SPush | SCbWatch.

Fixpoint idxs_where {A} (p : A -> bool) (i : nat) (l : list A) : list nat :=
  match l with [] => [] | x :: r => (if p x then [i] else []) ++ idxs_where p (S i) r end.

Definition at_acquire (s : state) (t : task) : bool := match t_st t with TAtAcquire => unit_running s t | _ => false end.
Definition at_handled (t : task) : bool := match t_st t with TAtHandled _ => true | _ => false end.
Definition at_deliver (u : unit_) : bool := match u_st u with UAtDeliver => true | _ => false end.
Definition watch_parked (c : cb) : bool := match cb_watch c with WParked => true | _ => false end.

Definition candidates (s : state) (x : site) : list label :=
  match x with
  | SRead => match rd s with RHold _ => [LRelRead] | _ => [] end
  | SNext => match dp s with DAtNext => [LRelNext] | _ => [] end
  | SBarrier => match dp s with DAtBarrier _ => [LRelBarrier] | _ => [] end
  | SAcquire => map LRelAcquire (idxs_where (at_acquire s) 0 (tasks s))
  | SHandled => map LRelHandled (idxs_where at_handled 0 (tasks s))
  | SDeliver => map LRelDeliver (idxs_where at_deliver 0 (units s))
  | SStop => flat_map (fun o => match o with OpStop n => [LRelStop n] | _ => [] end) (ops s)
  | SCancel => flat_map (fun o => match o with OpCancel n _ => [LRelCancel n] | _ => [] end) (ops s)
  | SPush => flat_map (fun o => match o with OpPush n _ _ _ => [LRelPush n] | _ => [] end) (ops s)
  | SCbWatch => map LRelCbWatch (idxs_where watch_parked 0 (cbs s))
  end.

(* how many goroutines are parked at each scheduling point *)
Definition parked_count (s : state) (x : site) : nat := length (candidates s x).

(* every label some parked goroutine could take next: none = quiescent *)
Definition all_sites : list site := [SRead; SNext; SBarrier; SAcquire; SHandled; SDeliver; SStop; SCancel; SPush; SCbWatch].
Definition enabled_rel (s : state) : list label :=
  filter (fun l => match step s l with Some _ => true | None => false end) (flat_map (candidates s) all_sites).
Definition quiescent (s : state) : bool := is_nil_list (enabled_rel s).
