(* SrvMonitors3: two more executable monitors over the two sequences of a run of the server model (the environment
   labels [env_of tr] and the flat observation list [concat oss]; never their interleaving: counting / membership
   only), proved sound for EVERY run and extracted (extract/srvmon.list) so that the runner evaluates them on every
   harness log, racing ones included.  Same pattern as srv/SrvMonitors.v and srv/SrvMonitors2.v.

   (a) [mon_cancel_cause] : (C07, first sentence) a handler observes its context as cancelled ([OStart p true] or
                            [OGate p true]) only if the environment contains a cause: a [LCallCancel _ id] whose id is
                            the (non-empty) id of a fed member with params p, or a stop cause (a [LCallStop], or a
                            fed Recv error [LFeed (FErr _)]).  A report that precedes the first [OClose] of the
                            observation sequence (order of observations only) needs the first kind: stopLocked closes
                            the channel before it cancels any context.
                            The labels that can set a task's cancelled flag in the model are LRelCancel (needs a pending
                            OpCancel, i.e. an LCallCancel), LRelStop (needs an LCallStop), LRelRead holding a Recv error
                            (needs a fed error, or the closing error the model appends when it stops - which needs an
                            earlier stop cause) and LRelDeliver of the task's own unit (after which the task never
                            reports anything).  Proof: srv/SrvMonCancel.v.
   (b) [mon_wait_status]  : (C08) every [OWaitRet (Some c)] has its cause in the environment - Stopped needs an
                            [LCallStop] (or a fed Recv error that is the stop sentinel, which the model's type of Recv
                            errors contains), Closed (EOF or a closing error; the log does not tell them apart) needs a
                            fed EOF or closing error, a failure needs a fed Recv error of the other kind - and there are
                            at most as many [OWaitRet] observations as [LCallWait] labels.
                            Proof: srv/SrvMonWait.v.

   Definitions only (executable, extracted); the proofs are in the two files named above. *)
From Coq Require Import List NArith ZArith Bool Arith Lia.
From RecordUpdate Require Import RecordUpdate.
From JV Require Import Bytes Msg SrvModel SrvLemmas SrvMonitors.
Import ListNotations.

(** * (a) a cancelled handler context has a cause *)
Definition is_stop_label (l : label) : bool :=
  match l with LCallStop _ => true | LFeed (FErr _) => true | _ => false end.
Definition stop_in (env : list label) : bool := existsb is_stop_label env.

Definition cancel_id (l : label) : list bytes := match l with LCallCancel _ id => [id] | _ => [] end.
Definition cancel_ids (env : list label) : list bytes := flat_map cancel_id env.
Definition fed_msgs (env : list label) : list jmsg := flat_map label_msgs env.

(* some fed member with params p has a non-empty id that a CancelRequest call names *)
Definition names_member (cids : list bytes) (p : bytes) (m : jmsg) : bool :=
  beq p (j_params m) && negb (is_nil (idk m)) && mem_bytes (idk m) cids.
Definition cancel_named (env : list label) (p : bytes) : bool :=
  existsb (names_member (cancel_ids env) p) (fed_msgs env).

Definition cancelled_of (o : obs) : list bytes :=
  match o with
  | OStart p c => if c then [p] else []
  | OGate p c => if c then [p] else []
  | _ => []
  end.
Definition cancelled_params (os : list obs) : list bytes := flat_map cancelled_of os.

(* the observations before the first close of the channel (the first thing stopLocked does; it cancels the request
   contexts only afterwards) *)
Fixpoint before_close (os : list obs) : list obs :=
  match os with
  | [] => []
  | OClose :: _ => []
  | o :: r => o :: before_close r
  end.

(* before the first close only CancelRequest is a cause; anywhere, a stop cause in the environment is one too *)
Definition mon_cancel_cause (env : list label) (os : list obs) : bool :=
  forallb (cancel_named env) (cancelled_params (before_close os)) &&
  (stop_in env || forallb (cancel_named env) (cancelled_params os)).

(** * (b) what WaitStatus reports has its cause in the environment; it returns at most once per call *)
Definition is_callstop (l : label) : bool := match l with LCallStop _ => true | _ => false end.
Definition is_callwait (l : label) : bool := match l with LCallWait => true | _ => false end.
Definition is_waitret (o : obs) : bool := match o with OWaitRet _ => true | _ => false end.

(* the classes of stop causes the log distinguishes: stopped / closed / failed *)
Inductive cclass := KStopped | KClosed | KFailed.
Definition class_of (c : stopcause) : cclass :=
  match c with SCStop => KStopped | SCEOF | SCClosing => KClosed | SCOther => KFailed end.
Definition cclass_eqb (a b : cclass) : bool :=
  match a, b with KStopped, KStopped | KClosed, KClosed | KFailed, KFailed => true | _, _ => false end.
Definition feeds_class (k : cclass) (l : label) : bool :=
  match l with LFeed (FErr c) => cclass_eqb k (class_of c) | _ => false end.

Definition cause_in (env : list label) (c : stopcause) : bool :=
  match class_of c with
  | KStopped => existsb is_callstop env || existsb (feeds_class KStopped) env
  | k => existsb (feeds_class k) env
  end.

Definition wait_cause (o : obs) : list stopcause := match o with OWaitRet (Some c) => [c] | _ => [] end.
Definition wait_causes (os : list obs) : list stopcause := flat_map wait_cause os.

Definition mon_wait_status (env : list label) (os : list obs) : bool :=
  forallb (cause_in env) (wait_causes os) && (countb is_waitret os <=? countb is_callwait env).
