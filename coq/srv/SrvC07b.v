(* C07, second part: an id is free iff no unfinished call holds it, hence the next request with that id is accepted;
   delivering a unit leaves the tasks and reservations of the other units alone. *)
From Coq Require Import List NArith ZArith Bool Arith Lia.
From RecordUpdate Require Import RecordUpdate.
From JV Require Import Bytes Msg SrvModel SrvLemmas SrvBasics SrvC07 SrvC01 SrvC08 SrvHist SrvC01b.
From JV Require SrvNoCrash.
Import ListNotations.

(** * free iff no unfinished holder *)
(* no context-carrying task with this id belongs to a unit that has not finished *)
Definition no_holder (s : state) (id : bytes) : Prop :=
  forall k t un, nth_error (tasks s) k = Some t -> t_id t = id -> t_hasctx t = true ->
    nth_error (units s) (t_unit t) = Some un -> u_st un = UFinished.

Theorem c07_free_iff_no_holder_f c s id : reachf c s -> running s = true -> id <> [] ->
  (assoc id (used s) = None <-> no_holder s id).
Proof.
  intros R Rn Ni. destruct (reachf_inv_used _ _ R) as [A B C]. pose proof (no_crash_f _ _ R) as Cr. split.
  - intros As k t un E Ei Hc Eu. destruct (u_st un) eqn:Su; auto; exfalso.
    all: assert (Q : assoc (t_id t) (used s) = Some k)
           by (apply C; auto; [congruence|exists un; split; auto; congruence]).
    all: rewrite Ei in Q; congruence.
  - intros H. destruct (assoc id (used s)) as [k|] eqn:As; auto. exfalso.
    apply assoc_in in As. destruct (A _ _ As) as (t & E & Ei & _ & Hc & un & Eu & Su).
    apply Su. eapply H; eauto.
Qed.

Theorem c07_free_iff_no_holder c s id : reach c s -> running s = true -> id <> [] ->
  (assoc id (used s) = None <-> no_holder s id).
Proof. intros R. apply (c07_free_iff_no_holder_f c). apply reach_reachf; auto. Qed.

(* while the server is stopped nothing is reserved *)
Theorem c07_stopped_nothing_reserved c s : reach c s -> running s = false -> used s = [].
Proof. intros R Rn. destruct (c07_inv_used c s R) as (_ & _ & _ & D). auto. Qed.

(** * hence the next request with that id is accepted *)
(* nextRequest in any state of any window (reachf: also the dequeue done while settling): a member whose id has no
   unfinished holder and is not repeated in its message is not rejected as a duplicate; if it is valid and its
   method is known it gets a context and is parked before the semaphore *)
Theorem c07_free_id_accepted c s b ms q i m : reachf c s -> running s = true -> inq s = (b, ms) :: q ->
  nth_error ms i = Some m -> fix_id (j_id m) <> [] -> no_holder s (fix_id (j_id m)) ->
  count_bytes (fix_id (j_id m)) (msg_ids ms) <= 1 -> j_err m = None ->
  exists t, nth_error (tasks (dequeue s)) (length (tasks s) + i) = Some t /\ t_id t = fix_id (j_id m) /\
    t_pre t <> Some err_dup /\
    (j_method m <> [] -> forall bb, assign_method s (j_method m) = Some bb ->
       t_pre t = None /\ t_hasctx t = true /\ t_st t = TAtAcquire).
Proof.
  intros R Rn Q Em Ni Nh Cn Je.
  apply (c07_free_iff_no_holder_f c s _ R Rn Ni) in Nh.
  unfold dequeue. rewrite Q. cbn. fold (msg_ids ms).
  set (u := length (units s)). set (ids := msg_ids ms).
  exists (mk_task s u ids m). split; [|split; [apply mk_task_id|]].
  { rewrite nth_error_app2 by lia. replace (length (tasks s) + i - length (tasks s)) with i by lia.
    rewrite nth_error_map, Em. reflexivity. }
  destruct (c07_accept_unreserved s u ids m true Nh Cn Je) as [P Acc]. split.
  - unfold mk_task. rewrite P. destruct (is_nil (j_method m)); [cbn; discriminate|].
    destruct (assign_method s (j_method m)); cbn; discriminate.
  - intros Nm bb Am. unfold mk_task. rewrite P. apply is_nil_false in Nm. rewrite Nm, Am. cbn. auto.
Qed.

(* the same for the window of the dispatcher's nextRequest *)
Theorem c07_free_id_accepted_step c s s' os b ms q i m : reach c s -> running s = true ->
  step s LRelNext = Some (s', os) -> inq s = (b, ms) :: q ->
  nth_error ms i = Some m -> fix_id (j_id m) <> [] -> no_holder s (fix_id (j_id m)) ->
  count_bytes (fix_id (j_id m)) (msg_ids ms) <= 1 -> j_err m = None ->
  exists t, nth_error (tasks s') (length (tasks s) + i) = Some t /\ t_id t = fix_id (j_id m) /\
    t_pre t <> Some err_dup /\
    (j_method m <> [] -> forall bb, assign_method s (j_method m) = Some bb ->
       t_pre t = None /\ t_hasctx t = true /\ t_st t = TAtAcquire).
Proof.
  intros R Rn H Q Em Ni Nh Cn Je.
  destruct (c07_free_id_accepted c s b ms q i m (reach_reachf _ _ R) Rn Q Em Ni Nh Cn Je) as (t & E & Rest).
  exists t. split; auto.
  apply step_decompose in H as (_ & s1 & os1 & Hr & Hs). unfold step_raw in Hr.
  destruct (dp s); try discriminate. injection Hr as <- <-.
  destruct Hs as [(_ & -> & _)|(_ & Hs)]; auto. apply (settle_keeps _ _ _ _ _ Hs). auto.
Qed.

(** * delivering a unit leaves the others alone *)
Lemma settled_waitwork s : settle1 s = None -> dp s = DWaitWork -> running s = true /\ inq s = [].
Proof.
  unfold settle1. intros H D. rewrite D in H.
  destruct (negb (running s) || negb (is_nil_list (inq s))) eqn:Cd.
  - destruct (rd s); [| destruct (ch_in s) | |]; discriminate.
  - apply orb_false_iff in Cd as [C1 C2]. apply negb_false_iff in C1, C2. split; auto. apply is_nil_list_true; auto.
Qed.

Definition no_deq (s : state) : Prop := dp s = DWaitWork -> running s = true /\ inq s = [].

Lemma settle_no_dequeue : forall fuel s acc s' os, no_deq s -> settle fuel s acc = (s', os) ->
  used s' = used s /\ length (tasks s') = length (tasks s).
Proof.
  induction fuel as [|f IH]; cbn; intros s acc s' os J H.
  - injection H as <- _. auto.
  - destruct (settle1 s) as [[s1 os1]|] eqn:E; [|injection H as <- _; auto].
    assert (Q : used s1 = used s /\ length (tasks s1) = length (tasks s) /\ no_deq s1).
    { apply settle1_inv in E. destruct E; unfold no_deq in *; cbn; auto.
      - exfalso. destruct (J H0) as [Rn Iq]. rewrite Rn, Iq in H1. discriminate.
      - repeat split; auto; discriminate. }
    destruct Q as (U1 & L1 & J1). destruct (IH _ _ _ _ J1 H) as [U2 L2]. split; congruence.
Qed.

(* the deliver window of a reachable state creates no task, and after its critical section nothing touches the
   reservations *)
Lemma deliver_window_used c s u s' os : reach c s -> step s (LRelDeliver u) = Some (s', os) ->
  exists s1 os1, step_raw s (LRelDeliver u) = Some (s1, os1) /\ used s' = used s1 /\
    length (tasks s') = length (tasks s).
Proof.
  intros R H. pose proof (no_crash _ _ R) as Cr. pose proof (reach_settled _ _ R Cr) as St.
  apply step_decompose in H as (_ & s1 & os1 & Hr & Hs). exists s1, os1. split; auto.
  pose proof Hr as Hr'. unfold step_raw in Hr'.
  destruct (nth_error (units s) u) as [un|] eqn:E; [|discriminate].
  destruct (u_st un) eqn:Su; try discriminate.
  destruct (release_ids_spec (unit_tasks s u) s) as [_ _ L (_ & Ed & _ & _ & Rn & _ & Iq & _) _ _ _].
  assert (Q : dp s1 = dp s /\ running s1 = running s /\ inq s1 = inq s /\ length (tasks s1) = length (tasks s)).
  { destruct (u_chok un); cbn in Hr'; injection Hr' as <- _; cbn; auto. }
  destruct Q as (Q1 & Q2 & Q3 & Q4).
  destruct Hs as [(_ & -> & _)|(_ & Hs)]; [auto|].
  assert (J : no_deq s1).
  { unfold no_deq. rewrite Q1, Q2, Q3. apply settled_waitwork; auto. }
  destruct (settle_no_dequeue _ _ _ _ _ J Hs) as [U Ln]. split; congruence.
Qed.

(* C07: once the reply of a unit has been sent, the ids of its context-carrying calls are free again (whatever the
   outcome: result, error, method not found, cancellation), and no unfinished call holds them *)
Theorem c07_reply_frees_id c s u s' os t : reach c s -> step s (LRelDeliver u) = Some (s', os) ->
  In t (unit_tasks s u) -> t_hasctx t = true -> t_id t <> [] ->
  assoc (t_id t) (used s') = None /\ (running s' = true -> no_holder s' (t_id t)).
Proof.
  intros R H It Hc Ni. destruct (deliver_window_used _ _ _ _ _ R H) as (s1 & os1 & Hr & U & _).
  assert (As : assoc (t_id t) (used s') = None).
  { rewrite U. eapply c07_released_by_deliver; eauto. }
  split; auto. intros Rn. apply (c07_free_iff_no_holder c s' (t_id t)); auto. eapply reach_step; eauto.
Qed.

(* C07: the delivery of a unit (for instance the error reply to a duplicate) leaves the calls of every other unit
   alone: their context is not cancelled and the reservation of their id stays with them *)
Theorem c07_deliver_leaves_others c s u s' os k t : reach c s -> step s (LRelDeliver u) = Some (s', os) ->
  nth_error (tasks s) k = Some t -> t_unit t <> u ->
  exists t', nth_error (tasks s') k = Some t' /\ t_cancelled t' = t_cancelled t /\
    (assoc (t_id t) (used s) = Some k -> assoc (t_id t) (used s') = Some k).
Proof.
  intros R H E Nu. pose proof (reach_reachf _ _ R) as Rf.
  destruct (step_task_le _ _ _ _ _ _ _ Rf H E) as (t' & E' & Le). exists t'. split; auto. split.
  - destruct (t_cancelled t) eqn:C0; [apply (tl_cancelled _ _ Le); auto|].
    destruct (t_cancelled t') eqn:C1; auto. exfalso.
    pose proof (c07_cancel_targets _ _ _ _ _ _ _ _ R H E E' C0 C1) as Cc. inversion Cc. congruence.
  - intros As.
    assert (R' : reach c s') by (eapply reach_step; eauto).
    destruct (reachf_inv_used _ _ Rf) as [A _ _].
    destruct (A _ _ (assoc_in _ _ _ As)) as (t0 & E0 & Ei & Ni & Hc & un & Eu & Su).
    rewrite E in E0. injection E0 as <-.
    assert (Rn : running s = true).
    { destruct (running s) eqn:Rn; auto. rewrite (c07_stopped_nothing_reserved c s R Rn) in As. discriminate. }
    assert (Rn' : running s' = true).
    { destruct (running s') eqn:Rn'; auto. exfalso.
      assert (W : stop_window s s' = true) by (unfold stop_window; rewrite Rn, Rn'; auto).
      destruct (stop_window_label _ _ _ _ _ R H W) as [(n & Q)|(Q & _)]; discriminate. }
    destruct (step_unit_le _ _ _ _ _ _ _ Rf H Eu) as (un' & Eu' & _).
    rewrite <- (tl_id _ _ Le). apply (SrvNoCrash.c07_inflight_reserved c s' R' Rn' k t' un'); auto.
    + rewrite (tl_hasctx _ _ Le). auto.
    + rewrite (tl_id _ _ Le). auto.
    + rewrite (tl_unit _ _ Le). auto.
    + (* the unit of t cannot have finished in this window: it is not the delivered one and it is not silent *)
      intros Sf.
      assert (F0 : ufin s (t_unit t) = false) by (unfold ufin; rewrite Eu; destruct (u_st un); auto; congruence).
      assert (F1 : ufin s' (t_unit t) = true) by (unfold ufin; rewrite Eu', Sf; auto).
      destruct (finish_cause _ _ _ _ _ _ Rf H F0 F1) as [Q|Z]; [congruence|].
      assert (It : In t' (unit_tasks s' (t_unit t))).
      { unfold unit_tasks. apply filter_In. split; [eapply nth_error_In; eauto|].
        rewrite (tl_unit _ _ Le). apply Nat.eqb_refl. }
      rewrite responses_nil_iff in Z. specialize (Z _ It). unfold response_of in Z.
      assert (Nn : is_note t' = false) by (unfold is_note; rewrite (tl_id _ _ Le); apply is_nil_false; auto).
      rewrite Nn in Z. discriminate.
Qed.

(** * Non-vacuity *)
(* request "1" is in flight; the batch ["1"; "2"] behind it is dispatched: its first member is a duplicate.  The
   delivery of that batch's unit leaves request "1" of unit 0 alone *)
Definition ex_tr_dup_deliver : list label :=
  [LStart; LFeed (FMsg (InMsgs false [ex_call [49%N] [91;93]%N])); LRelRead; LRelNext; LRelBarrier; LRelAcquire 0;
   LFeed (FMsg (InMsgs true [ex_call [49%N] []; ex_msg [50%N] [120%N] []])); LRelRead; LRelNext; LRelBarrier].

Example c07_deliver_leaves_others_nonvacuous :
  exists s s' os t, reach ex_cfg s /\ step s (LRelDeliver 1) = Some (s', os) /\ nth_error (tasks s) 0 = Some t /\
    t_unit t <> 1 /\ assoc (t_id t) (used s) = Some 0 /\
    os = [OSend true true [{| r_id := [49%N]; r_body := BErr InvalidRequest s_dup |};
                           {| r_id := [50%N]; r_body := BErr MethodNotFound s_not_found |}]].
Proof.
  exists (st_of ex_cfg ex_tr_dup_deliver). eexists _, _, _. split; [apply reach_st_of; vm_compute; discriminate|].
  vm_compute. repeat split; try reflexivity. intros Q; discriminate Q.
Qed.

Example c07_reply_frees_id_nonvacuous :
  exists s s' os t, reach ex_cfg s /\ step s (LRelDeliver 0) = Some (s', os) /\ In t (unit_tasks s 0) /\
    t_hasctx t = true /\ t_id t = [49%N] /\ assoc [49%N] (used s) = Some 0 /\ running s' = true.
Proof.
  exists (st_of ex_cfg ex_tr_atdeliver). eexists _, _.
  exists (mkTask 0 [49%N] ex_m [91;93]%N None true false false (TDone (Some (BRes [50%N])))).
  split; [apply reach_st_of; vm_compute; discriminate|]. vm_compute. repeat split; try reflexivity. left; reflexivity.
Qed.

(* after the reply the same id arrives again and is accepted *)
Example c07_free_id_accepted_nonvacuous :
  let tr := ex_tr_delivered ++ [LFeed (FMsg (InMsgs false [ex_call [49%N] []])); LRelRead] in
  exists s b ms q m, reach ex_cfg s /\ s = st_of ex_cfg tr /\ running s = true /\ dp s = DAtNext /\ inq s = (b, ms) :: q /\
    nth_error ms 0 = Some m /\ fix_id (j_id m) = [49%N] /\ assoc [49%N] (used s) = None /\
    count_bytes (fix_id (j_id m)) (msg_ids ms) <= 1 /\ j_err m = None.
Proof.
  intros tr. exists (st_of ex_cfg tr). eexists _, _, _, _. split; [apply reach_st_of; vm_compute; discriminate|].
  vm_compute. repeat split; try reflexivity.
Qed.

Example c07_free_iff_no_holder_nonvacuous :
  reach ex_cfg (st_of ex_cfg ex_tr_running) /\ running (st_of ex_cfg ex_tr_running) = true /\
  assoc [49%N] (used (st_of ex_cfg ex_tr_running)) = Some 0 /\ assoc [50%N] (used (st_of ex_cfg ex_tr_running)) = None.
Proof. split; [apply reach_st_of; vm_compute; discriminate|]. vm_compute. repeat split; reflexivity. Qed.
