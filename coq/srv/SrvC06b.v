(* C06, second part: work conservation at the level of one window, and in every reachable state. *)
From Coq Require Import List NArith ZArith Bool Arith Lia.
From RecordUpdate Require Import RecordUpdate.
From JV Require Import Bytes Msg SrvModel SrvLemmas SrvBasics SrvC07 SrvC01 SrvC08 SrvHist SrvC01b.
From JV Require SrvC06.
Import ListNotations.

(** * grant with one free slot: the head waiter gets it *)
Lemma grant_one f s acc j r t : sem_wait s = j :: r -> sem_free s = 1 -> nth_error (tasks s) j = Some t ->
  grant (S (S f)) s acc =
  if t_builtin t
  then (s <| sem_wait := r |> <| sem_free := 0 |> <| tasks ::= upd_nth j (fun t => t <| t_st := TAtHandled (ORes []) |>) |>, acc)
  else (s <| sem_wait := r |> <| sem_free := 0 |> <| tasks ::= upd_nth j (fun t => t <| t_st := TRunning |>) |>,
        acc ++ [OStart (t_params t) (t_cancelled t)]).
Proof.
  intros W F E. cbn [grant]. rewrite W, F, E. destruct (t_builtin t); cbn; destruct r; reflexivity.
Qed.

Lemma settle1_sem_wait s s' os : settle1 s = Some (s', os) -> sem_wait s' = sem_wait s.
Proof.
  intros H. apply settle1_inv in H. destruct H; cbn; auto.
  unfold dequeue. destruct (inq s) as [|[b ms] q]; [destruct (running s)|]; reflexivity.
Qed.

Lemma settle_sem_wait : forall fuel s acc s' os, settle fuel s acc = (s', os) -> sem_wait s' = sem_wait s.
Proof.
  induction fuel as [|f IH]; cbn; intros s acc s' os H.
  - injection H as <- _. auto.
  - destruct (settle1 s) as [[s1 os1]|] eqn:E.
    + rewrite (IH _ _ _ _ H). eapply settle1_sem_wait; eauto.
    + injection H as <- _. auto.
Qed.

(* C06, work conservation in one window: when a handler returns (invoke's release) while requests are queued for a
   slot, the request at the head of the queue gets the slot in that very window: it leaves the queue and enters its
   handler (observation OStart; the built-in, which has no user handler, goes straight to its return point) *)
Theorem c06_release_hands_slot c s k s' os j r tj : reach c s -> step s (LRelHandled k) = Some (s', os) ->
  sem_wait s = j :: r -> nth_error (tasks s) j = Some tj ->
  sem_wait s' = r /\ ~ In j (sem_wait s') /\ sem_free s = 0 /\
  exists tj', nth_error (tasks s') j = Some tj' /\
    if t_builtin tj then t_st tj' = TAtHandled (ORes [])
    else t_st tj' = TRunning /\ In (OStart (t_params tj) (t_cancelled tj)) os.
Proof.
  intros R H W Ej. destruct (SrvC06.wait_queue _ _ R) as (Nd & Wq & Fr).
  assert (F0 : sem_free s = 0).
  { destruct (sem_free s) eqn:F; auto. rewrite Fr in W by lia. discriminate. }
  assert (Nj : ~ In j r) by (rewrite W in Nd; inversion Nd; auto).
  assert (Sj : t_st tj = TWaiting).
  { destruct (proj1 (Wq j)) as (t0 & E0 & S0); [rewrite W; left; auto|]. congruence. }
  apply step_decompose in H as (Cr & s1 & os1 & Hr & Hs).
  unfold step_raw in Hr.
  destruct (nth_error (tasks s) k) as [t|] eqn:E; [|discriminate].
  destruct (t_st t) eqn:St; try discriminate.
  assert (Nk : k <> j) by (intros ->; congruence).
  set (s0 := set_task k (fun t => t <| t_st := TDone (body_of_outcome t o) |>) s <| sem_free ::= S |>) in *.
  assert (W0 : sem_wait s0 = j :: r) by exact W.
  assert (F1 : sem_free s0 = 1) by (unfold s0; cbn; rewrite F0; auto).
  assert (E0 : nth_error (tasks s0) j = Some tj) by (unfold s0; cbn; rewrite nth_error_upd_nth_neq; auto).
  rewrite W0 in Hr. cbn [length] in Hr. rewrite (grant_one _ s0 [] j r tj W0 F1 E0) in Hr.
  (* the state and observations after the critical section *)
  assert (Raw : sem_wait s1 = r /\ exists tj', nth_error (tasks s1) j = Some tj' /\
            if t_builtin tj then t_st tj' = TAtHandled (ORes [])
            else t_st tj' = TRunning /\ In (OStart (t_params tj) (t_cancelled tj)) os1).
  { destruct (t_builtin tj) eqn:B.
    - assert (X : forall sx, sem_wait sx = r -> tasks sx = upd_nth j (fun t => t <| t_st := TAtHandled (ORes []) |>) (tasks s0) ->
                  sem_wait sx = r /\ exists tj', nth_error (tasks sx) j = Some tj' /\ t_st tj' = TAtHandled (ORes [])).
      { intros sx Wx Tx. split; auto. eexists. rewrite Tx. split; [apply nth_error_upd_nth_eq; eauto|reflexivity]. }
      destruct (is_note t); [match type of Hr with match ?n with _ => _ end = _ => destruct n end|];
        injection Hr as <- <-; apply X; reflexivity.
    - assert (X : forall sx, sem_wait sx = r -> tasks sx = upd_nth j (fun t => t <| t_st := TRunning |>) (tasks s0) ->
                  sem_wait sx = r /\ exists tj', nth_error (tasks sx) j = Some tj' /\ t_st tj' = TRunning).
      { intros sx Wx Tx. split; auto. eexists. rewrite Tx. split; [apply nth_error_upd_nth_eq; eauto|reflexivity]. }
      destruct (is_note t); [match type of Hr with match ?n with _ => _ end = _ => destruct n end|];
        injection Hr as <- <-.
      all: match goal with |- sem_wait ?sx = _ /\ _ => destruct (X sx eq_refl eq_refl) as (Wx & tj' & Ex & Sx) end.
      all: split; [exact Wx|]; exists tj'; split; [exact Ex|]; split; [exact Sx|]; cbn; auto. }
  destruct Raw as (W1 & tj' & E1 & Q).
  destruct Hs as [(_ & -> & ->)|(_ & Hs)].
  - split; [auto|]. split; [rewrite W1; auto|]. split; auto. exists tj'. auto.
  - pose proof (settle_sem_wait _ _ _ _ _ Hs) as Ws. pose proof (settle_keeps _ _ _ _ _ Hs) as K.
    apply settle_obs_app in Hs as (extra & -> & _).
    split; [congruence|]. split; [rewrite Ws, W1; auto|]. split; auto. exists tj'. split; [apply K; auto|].
    destruct (t_builtin tj); auto. destruct Q as [Q1 Q2]. split; auto. apply in_or_app. left. auto.
Qed.

(* C06, in the property's words: in every reachable state, a request waits in the semaphore queue only while all
   Concurrency slots are taken (a free slot is never left unused while someone waits) *)
Theorem c06_waits_only_when_full c s k t : reach c s -> nth_error (tasks s) k = Some t -> t_st t = TWaiting ->
  sem_free s = 0 /\ SrvC06.slots_used s = cf_K c /\ In k (sem_wait s).
Proof.
  intros R E St. destruct (SrvC06.wait_queue _ _ R) as (_ & Wq & Fr).
  assert (I : In k (sem_wait s)) by (apply Wq; eauto).
  assert (F0 : sem_free s = 0).
  { destruct (sem_free s) eqn:F; auto. rewrite Fr in I by lia. destruct I. }
  destruct (SrvC06.sem_invariant _ _ R) as [Si _]. repeat split; auto. lia.
Qed.

Theorem c06_free_slot_nobody_waits c s : reach c s -> SrvC06.slots_used s < cf_K c ->
  sem_wait s = [] /\ forall k t, nth_error (tasks s) k = Some t -> t_st t <> TWaiting.
Proof.
  intros R Lt. destruct (SrvC06.sem_invariant _ _ R) as [Si _]. destruct (SrvC06.wait_queue _ _ R) as (_ & _ & Fr).
  split; [apply Fr; lia|]. intros k t E St. destruct (c06_waits_only_when_full c s k t R E St) as (_ & Q & _). lia.
Qed.

(* two calls with one slot: the second waits; when the first returns the second enters in that window *)
Definition ex_tr_wait : list label :=
  [LStart; LRelNext; LFeed (FMsg (InMsgs true [ex_call [49%N] [1%N]; ex_call [50%N] [2%N]])); LRelRead; LRelBarrier;
   LRelAcquire 0; LRelAcquire 1; LGate [1%N] (ORes [51%N])].

Example c06_release_hands_slot_nonvacuous :
  exists s s' os tj, reach ex_cfg s /\ step s (LRelHandled 0) = Some (s', os) /\ sem_wait s = [1] /\
    nth_error (tasks s) 1 = Some tj /\ t_builtin tj = false /\ os = [OStart [2%N] false].
Proof.
  exists (st_of ex_cfg ex_tr_wait). eexists _, _, _. split; [apply reach_st_of; vm_compute; discriminate|].
  vm_compute. repeat split; reflexivity.
Qed.

Example c06_waits_only_when_full_nonvacuous :
  exists s t, reach ex_cfg s /\ nth_error (tasks s) 1 = Some t /\ t_st t = TWaiting.
Proof.
  exists (st_of ex_cfg ex_tr_wait). eexists. split; [apply reach_st_of; vm_compute; discriminate|].
  vm_compute. split; reflexivity.
Qed.

Example c06_free_slot_nobody_waits_nonvacuous :
  reach ex_cfg (st_of ex_cfg ex_tr_running) /\ SrvC06.slots_used (st_of ex_cfg (ex_tr_running ++ [LGate [91;93]%N (ORes []); LRelHandled 0])) < cf_K ex_cfg.
Proof. split; [apply reach_st_of; vm_compute; discriminate|]. vm_compute. lia. Qed.

(** * the cancelled waiter is answered *)
Lemma call_response_in ts t : In t ts -> is_note t = false -> In {| r_id := t_id t; r_body := task_body t |} (responses ts).
Proof.
  induction ts as [|a r IH]; cbn; [tauto|]. intros [->|I] Nt.
  - unfold response_of. rewrite Nt. left. reflexivity.
  - destruct (response_of a); [right|]; auto.
Qed.

(* C06: a call that was cancelled while it waited for a slot (its handler never ran: c01_cancel_err_body) is answered
   with the cancellation error: once its unit has finished, the one message delivered for that unit contains
   the reply (its id, Cancelled / "context canceled") *)
Theorem c06_cancelled_waiter_answered c tr s oss k t : run (init_of c) tr = Some (s, oss) ->
  nth_error (tasks s) k = Some t -> t_st t = TDone (Some cancel_err) -> is_note t = false ->
  ufin s (t_unit t) = true ->
  countb (is_deliver (t_unit t)) tr = 1 /\
  exists b rs, In (t_unit t, b, rs) (unit_sends tr oss) /\ In {| r_id := t_id t; r_body := cancel_err |} rs.
Proof.
  intros H E St Nt F.
  assert (R : reach c s) by (eapply run_reach; [apply reach_init|eauto]).
  assert (It : In t (unit_tasks s (t_unit t))).
  { unfold unit_tasks. apply filter_In. split; [eapply nth_error_In; eauto|apply Nat.eqb_refl]. }
  assert (Ir : In {| r_id := t_id t; r_body := cancel_err |} (responses (unit_tasks s (t_unit t)))).
  { replace cancel_err with (task_body t); [apply call_response_in; auto|].
    destruct (c01_done_body c s k t _ R E St) as [P _]. unfold task_body. rewrite P, St. reflexivity. }
  assert (Ns : responses (unit_tasks s (t_unit t)) <> []) by (intros Z; rewrite Z in Ir; destruct Ir).
  destruct (c01_delivered_iff_nonsilent c tr s oss _ H F) as [A _]. split; [auto|].
  destruct (c01_output_history c tr s oss H) as (Us & _ & Iff).
  exists (ubatch s (t_unit t)), (responses (unit_tasks s (t_unit t))). split; auto.
  rewrite Us. apply in_map_iff. exists (t_unit t). split; auto. apply Iff. auto.
Qed.

Example c06_cancelled_waiter_answered_nonvacuous :
  let tr := ex_tr_cancel_wait ++ [LGate [1%N] (ORes [51%N]); LRelHandled 0; LRelDeliver 0] in
  exists t, run (init_of ex_cfg) tr <> None /\ nth_error (tasks (st_of ex_cfg tr)) 1 = Some t /\
    t_st t = TDone (Some cancel_err) /\ is_note t = false /\ ufin (st_of ex_cfg tr) (t_unit t) = true /\
    unit_sends tr (obs_of ex_cfg tr) =
      [(0, true, [{| r_id := [49%N]; r_body := BRes [51%N] |}; {| r_id := [50%N]; r_body := cancel_err |}])].
Proof. eexists. vm_compute. repeat split; try reflexivity; discriminate. Qed.
