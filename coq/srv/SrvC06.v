(* C06: handler concurrency within the limit, work-conserving, cancelled waiter.
   Invariants of the semaphore part of SrvModel and the lemmas behind props/C06.v. *)
From Coq Require Import List NArith ZArith Bool Arith Lia.
From RecordUpdate Require Import RecordUpdate.
From JV Require Import Bytes Msg SrvModel SrvLemmas.
Import ListNotations.

(** * Definitions *)
Definition holds (t : task) : bool := match t_st t with TRunning | TAtHandled _ => true | _ => false end.
Definition is_running (t : task) : bool := match t_st t with TRunning => true | _ => false end.
Definition slots_used (s : state) : nat := countb holds (tasks s).
Definition executing (s : state) : nat := countb is_running (tasks s).

Definition rank (st : tst) : nat :=
  match st with
  | TAtAcquire => 0 | TWaiting => 1 | TRunning => 2 | TAtHandled _ => 3 | TDone _ => 4 | TSkip => 5
  end.

(** * The well-formedness invariant of (tasks, sem_free, sem_wait, K) *)
Record wfp (ts : list task) (fr : nat) (q : list nat) (K : nat) : Prop := {
  wf_sem : countb holds ts + fr = K;
  wf_nodup : NoDup q;
  wf_wait : forall k, In k q <-> exists t, nth_error ts k = Some t /\ t_st t = TWaiting;
  wf_canc : forall k t, nth_error ts k = Some t -> t_cancelled t = true -> t_st t <> TWaiting;
  wf_bi : forall k t, nth_error ts k = Some t -> t_builtin t = true -> t_st t <> TRunning;
  wf_pre : forall k t, nth_error ts k = Some t -> t_pre t = None \/ t_st t = TSkip
}.

Definition wf0 (s : state) : Prop := wfp (tasks s) (sem_free s) (sem_wait s) (c_K s).
Definition wf (s : state) : Prop := wf0 s /\ (0 < sem_free s -> sem_wait s = []).

Lemma upd_nth_upd_nth {A} k (f g : A -> A) l : upd_nth k g (upd_nth k f l) = upd_nth k (fun x => g (f x)) l.
Proof. revert k; induction l as [|x r IH]; intros [|k]; cbn; auto. f_equal; auto. Qed.

Lemma upd_nth_ext {A} k (f g : A -> A) l :
  (forall x, nth_error l k = Some x -> f x = g x) -> upd_nth k f l = upd_nth k g l.
Proof.
  revert k; induction l as [|x r IH]; intros [|k] H; cbn; auto.
  - f_equal. apply H; reflexivity.
  - f_equal. apply IH. intros y Hy. apply H; exact Hy.
Qed.

(* a point update of task k *)
Lemma wfp_upd ts fr q K k t f fr' q' :
  wfp ts fr q K ->
  nth_error ts k = Some t ->
  (if holds (f t) then 1 else 0) + fr' = (if holds t then 1 else 0) + fr ->
  NoDup q' ->
  (forall j, In j q' <-> (if j =? k then t_st (f t) = TWaiting else In j q)) ->
  (t_cancelled (f t) = true -> t_st (f t) <> TWaiting) ->
  (t_builtin (f t) = true -> t_st (f t) <> TRunning) ->
  (t_pre (f t) = None \/ t_st (f t) = TSkip) ->
  wfp (upd_nth k f ts) fr' q' K.
Proof.
  intros W E Hh Hnd Hq Hc Hb Hp.
  assert (NE : forall j x, nth_error (upd_nth k f ts) j = Some x ->
                 (j = k /\ x = f t) \/ (j <> k /\ nth_error ts j = Some x)).
  { intros j x. rewrite nth_error_upd_nth. destruct (Nat.eqb_spec k j) as [->|N].
    - rewrite E. cbn. intros [= <-]. auto.
    - intros H. right. split; auto. }
  constructor.
  - pose proof (@countb_upd_nth _ holds k f ts t E) as C. pose proof (wf_sem _ _ _ _ W). lia.
  - exact Hnd.
  - intros j. rewrite Hq. destruct (Nat.eqb_spec j k) as [->|N].
    + split.
      * intros H. exists (f t). split; auto. apply nth_error_upd_nth_eq; auto.
      * intros (x & Hx & Sx). destruct (NE _ _ Hx) as [[_ ->]|[N _]]; [auto|congruence].
    + rewrite (wf_wait _ _ _ _ W). rewrite nth_error_upd_nth_neq by auto. tauto.
  - intros j x Hx. destruct (NE _ _ Hx) as [[_ ->]|[N Hj]]; auto. eapply (wf_canc _ _ _ _ W); eauto.
  - intros j x Hx. destruct (NE _ _ Hx) as [[_ ->]|[N Hj]]; auto. eapply (wf_bi _ _ _ _ W); eauto.
  - intros j x Hx. destruct (NE _ _ Hx) as [[_ ->]|[N Hj]]; auto. eapply (wf_pre _ _ _ _ W); eauto.
Qed.

(* an update that keeps the wait queue: the task is not waiting before or after *)
Lemma wfp_upd_noq ts fr q K k t f fr' :
  wfp ts fr q K ->
  nth_error ts k = Some t ->
  (if holds (f t) then 1 else 0) + fr' = (if holds t then 1 else 0) + fr ->
  t_st t <> TWaiting -> t_st (f t) <> TWaiting ->
  (t_builtin (f t) = true -> t_st (f t) <> TRunning) ->
  (t_pre (f t) = None \/ t_st (f t) = TSkip) ->
  wfp (upd_nth k f ts) fr' q K.
Proof.
  intros W E Hh N1 N2 Hb Hp.
  eapply wfp_upd; eauto.
  - exact (wf_nodup _ _ _ _ W).
  - intros j. destruct (Nat.eqb_spec j k) as [->|N]; [|tauto].
    rewrite (wf_wait _ _ _ _ W). split; [|tauto].
    intros (x & Hx & Sx). congruence.
Qed.

Definition fresh (t : task) : Prop :=
  (t_st t = TSkip \/ (t_st t = TAtAcquire /\ t_pre t = None)) /\ t_cancelled t = false.

Lemma countb_fresh ts : Forall fresh ts -> countb holds ts = 0.
Proof.
  induction 1 as [|t r [[H|[H _]] _] _ IH]; cbn; auto; unfold holds; rewrite H; auto.
Qed.

Lemma wfp_app ts fr q K new : wfp ts fr q K -> Forall fresh new -> wfp (ts ++ new) fr q K.
Proof.
  intros W F.
  assert (NE : forall j x, nth_error (ts ++ new) j = Some x -> nth_error ts j = Some x \/ fresh x).
  { intros j x H. destruct (Nat.lt_ge_cases j (length ts)) as [L|L].
    - rewrite nth_error_app1 in H by auto. auto.
    - rewrite nth_error_app2 in H by auto. right. rewrite Forall_forall in F. apply F.
      eapply nth_error_In; eauto. }
  constructor.
  - rewrite countb_app, (countb_fresh _ F). pose proof (wf_sem _ _ _ _ W). lia.
  - exact (wf_nodup _ _ _ _ W).
  - intros j. rewrite (wf_wait _ _ _ _ W). split.
    + intros (x & Hx & Sx). exists x. split; auto. apply nth_error_app_old; auto.
    + intros (x & Hx & Sx). destruct (NE _ _ Hx) as [H|[[H|[H _]] _]]; [eauto|congruence|congruence].
  - intros j x Hx Cx. destruct (NE _ _ Hx) as [H|[[H|[H _]] C]]; [|congruence|congruence].
    eapply (wf_canc _ _ _ _ W); eauto.
  - intros j x Hx Bx. destruct (NE _ _ Hx) as [H|[[H|[H _]] C]]; [|congruence|congruence].
    eapply (wf_bi _ _ _ _ W); eauto.
  - intros j x Hx. destruct (NE _ _ Hx) as [H|[[H|[_ H]] C]]; auto.
    eapply (wf_pre _ _ _ _ W); eauto.
Qed.

(** * How a task record may change *)
Definition same_static (t t' : task) : Prop :=
  t_unit t' = t_unit t /\ t_id t' = t_id t /\ t_method t' = t_method t /\ t_params t' = t_params t /\
  t_pre t' = t_pre t /\ t_hasctx t' = t_hasctx t /\ t_builtin t' = t_builtin t.

Definition evolves (t t' : task) : Prop :=
  same_static t t' /\
  (t_cancelled t = true -> t_cancelled t' = true) /\
  rank (t_st t) <= rank (t_st t') /\
  (4 <= rank (t_st t) -> t_st t' = t_st t).

Lemma same_static_refl t : same_static t t.
Proof. repeat split. Qed.
Lemma same_static_trans a b c : same_static a b -> same_static b c -> same_static a c.
Proof. unfold same_static. intuition congruence. Qed.

Lemma evolves_refl t : evolves t t.
Proof. split; [apply same_static_refl|]. auto. Qed.

Lemma evolves_trans a b c : evolves a b -> evolves b c -> evolves a c.
Proof.
  intros (S1 & C1 & R1 & D1) (S2 & C2 & R2 & D2).
  split; [eapply same_static_trans; eauto|]. split; [auto|]. split; [lia|].
  intros H. rewrite <- (D1 H). apply D2. rewrite (D1 H). exact H.
Qed.

Definition mono (ts ts' : list task) : Prop :=
  forall k t, nth_error ts k = Some t -> exists t', nth_error ts' k = Some t' /\ evolves t t'.

Lemma mono_refl ts : mono ts ts.
Proof. intros k t H. exists t. split; auto. apply evolves_refl. Qed.

Lemma mono_trans a b c : mono a b -> mono b c -> mono a c.
Proof.
  intros H1 H2 k t H. destruct (H1 _ _ H) as (t1 & E1 & V1). destruct (H2 _ _ E1) as (t2 & E2 & V2).
  exists t2. split; auto. eapply evolves_trans; eauto.
Qed.

Lemma mono_app ts new : mono ts (ts ++ new).
Proof. intros k t H. exists t. split; [apply nth_error_app_old; auto|apply evolves_refl]. Qed.

Lemma mono_upd ts k f :
  (forall t, nth_error ts k = Some t -> evolves t (f t)) -> mono ts (upd_nth k f ts).
Proof.
  intros H j t E. rewrite nth_error_upd_nth. destruct (Nat.eqb_spec k j) as [->|N].
  - rewrite E. cbn. exists (f t). split; auto.
  - exists t. split; auto. apply evolves_refl.
Qed.

(* the change made by one run of [grant]: a waiter takes a slot, nothing else *)
Definition gstep (t t' : task) : Prop :=
  same_static t t' /\ t_cancelled t' = t_cancelled t /\
  (t_st t' = t_st t \/
   (t_st t = TWaiting /\ t_st t' = if t_builtin t then TAtHandled (ORes []) else TRunning)).

Lemma gstep_refl t : gstep t t.
Proof. split; [apply same_static_refl|]. auto. Qed.

Lemma gstep_trans a b c : gstep a b -> gstep b c -> gstep a c.
Proof.
  intros (S1 & C1 & R1) (S2 & C2 & R2).
  split; [eapply same_static_trans; eauto|]. split; [congruence|].
  destruct R1 as [R1|[R1 R1']].
  - destruct R2 as [R2|[R2 R2']]; [left; congruence|].
    right. split; [congruence|]. destruct S1 as (_ & _ & _ & _ & _ & _ & B). rewrite <- B. exact R2'.
  - destruct R2 as [R2|[R2 R2']]; [right; split; congruence|].
    exfalso. rewrite R1' in R2. destruct (t_builtin a); discriminate.
Qed.

Lemma gstep_evolves t t' : gstep t t' -> evolves t t'.
Proof.
  intros (S1 & C1 & R1). split; auto. split; [congruence|].
  destruct R1 as [R1|[R1 R1']].
  - rewrite R1. auto.
  - rewrite R1, R1'. cbn. split; [destruct (t_builtin t); cbn; lia|lia].
Qed.

Definition gmono (ts ts' : list task) : Prop :=
  forall k t, nth_error ts k = Some t -> exists t', nth_error ts' k = Some t' /\ gstep t t'.

Lemma gmono_mono a b : gmono a b -> mono a b.
Proof. intros H k t E. destruct (H _ _ E) as (t' & E' & G). exists t'. split; auto. apply gstep_evolves; auto. Qed.

(* a handler entry reported by an observation [OStart p c] *)
Definition started (s s' : state) (p : bytes) (c : bool) : Prop :=
  exists k t t', nth_error (tasks s) k = Some t /\ nth_error (tasks s') k = Some t' /\
    t_params t = p /\ t_params t' = p /\ t_cancelled t = c /\ t_builtin t = false /\
    (t_st t = TAtAcquire \/ t_st t = TWaiting) /\ t_st t' = TRunning.

Definition no_start (os : list obs) : Prop := forall p c, ~ In (OStart p c) os.

(** * cancel_task *)
Lemma cancel_task_frame k s :
  c_K (cancel_task k s) = c_K s /\ sem_free (cancel_task k s) = sem_free s /\
  length (tasks (cancel_task k s)) = length (tasks s).
Proof.
  unfold cancel_task. destruct (nth_error (tasks s) k) as [t|]; auto.
  destruct (t_st t); cbn; rewrite ?upd_nth_length; auto.
Qed.

Lemma holds_set_cancelled t b : holds (t <| t_cancelled := b |>) = holds t.
Proof. reflexivity. Qed.

Lemma wf_cancel_task k s : wf s -> wf (cancel_task k s).
Proof.
  intros [W I4]. unfold wf, wf0, cancel_task.
  destruct (nth_error (tasks s) k) as [t|] eqn:E; [|split; auto].
  assert (G : t_st t <> TWaiting ->
              wfp (upd_nth k (fun t => t <| t_cancelled := true |>) (tasks s)) (sem_free s) (sem_wait s) (c_K s)).
  { intros N. eapply wfp_upd_noq; eauto; cbn.
    - intros B. eapply (wf_bi _ _ _ _ W); eauto.
    - eapply (wf_pre _ _ _ _ W); eauto. }
  destruct (t_st t) eqn:St; cbn; try (split; [apply G; congruence|exact I4]).
  split.
  - rewrite upd_nth_upd_nth. eapply wfp_upd; eauto; cbn.
    + unfold holds. rewrite St. cbn. lia.
    + apply NoDup_filter. exact (wf_nodup _ _ _ _ W).
    + intros j. rewrite filter_In. destruct (Nat.eqb_spec j k) as [->|N]; cbn; split; try tauto; try discriminate.
      intros [_ H]; discriminate.
    + discriminate.
    + discriminate.
    + left. destruct (wf_pre _ _ _ _ W _ _ E) as [H|H]; [auto|congruence].
  - intros H. rewrite (I4 H). reflexivity.
Qed.

Lemma cancel_task_mono k s : mono (tasks s) (tasks (cancel_task k s)).
Proof.
  unfold cancel_task. destruct (nth_error (tasks s) k) as [t|] eqn:E; [|apply mono_refl].
  assert (G : mono (tasks s) (upd_nth k (fun t => t <| t_cancelled := true |>) (tasks s))).
  { apply mono_upd. intros x _. split; [repeat split|]. cbn. auto. }
  destruct (t_st t) eqn:St; cbn; auto.
  rewrite upd_nth_upd_nth. apply mono_upd. intros x Hx.
  assert (x = t) by congruence. subst x.
  split; [repeat split|]. cbn. rewrite St. cbn. split; auto. split; [lia|]. lia.
Qed.

(* 6b: what cancel_task does to a waiter *)
Lemma cancel_task_waiting k s t :
  nth_error (tasks s) k = Some t -> t_st t = TWaiting ->
  nth_error (tasks (cancel_task k s)) k = Some (t <| t_cancelled := true |> <| t_st := TDone (Some cancel_err) |>) /\
  ~ In k (sem_wait (cancel_task k s)) /\
  sem_wait (cancel_task k s) = filter (fun j => negb (j =? k)) (sem_wait s).
Proof.
  intros E St. unfold cancel_task. rewrite E, St. cbn. split; [|split; auto].
  - rewrite upd_nth_upd_nth. erewrite nth_error_upd_nth_eq; eauto.
  - rewrite filter_In. intros [_ H]. rewrite Nat.eqb_refl in H. discriminate.
Qed.

Lemma cancel_task_other k s t :
  nth_error (tasks s) k = Some t -> t_st t <> TWaiting ->
  nth_error (tasks (cancel_task k s)) k = Some (t <| t_cancelled := true |>) /\
  sem_wait (cancel_task k s) = sem_wait s.
Proof.
  intros E St. unfold cancel_task. rewrite E.
  destruct (t_st t) eqn:S; try congruence; cbn; split; auto; apply nth_error_upd_nth_eq; auto.
Qed.

(* folds of cancel_task: stop_locked *)
Lemma fold_cancel_spec {A} (g : A -> nat) (l : list A) : forall s, wf s ->
  let s' := fold_left (fun st p => cancel_task (g p) st) l s in
  wf s' /\ c_K s' = c_K s /\ mono (tasks s) (tasks s').
Proof.
  induction l as [|p r IH]; cbn; intros s W.
  - split; auto. split; auto. apply mono_refl.
  - destruct (IH (cancel_task (g p) s) (wf_cancel_task _ _ W)) as (W' & K' & M').
    split; auto. split.
    + rewrite K'. apply cancel_task_frame.
    + eapply mono_trans; [apply cancel_task_mono|exact M'].
Qed.

(** * grant *)
Lemma grant_spec : forall fuel s acc s' os, wf0 s -> grant fuel s acc = (s', os) ->
  wf0 s' /\ c_K s' = c_K s /\
  (length (sem_wait s) < fuel -> sem_free s' = 0 \/ sem_wait s' = []) /\
  gmono (tasks s) (tasks s') /\
  exists ex, os = acc ++ ex /\
    forall o, In o ex -> exists k t t', o = OStart (t_params t) (t_cancelled t) /\
      nth_error (tasks s) k = Some t /\ nth_error (tasks s') k = Some t' /\
      t_st t = TWaiting /\ t_builtin t = false /\ t_st t' = TRunning /\ t_params t' = t_params t.
Proof.
  induction fuel as [|f IH]; intros s acc s' os W H.
  - cbn in H. injection H as <- <-. split; auto. split; auto. split; [lia|].
    split; [intros k t E; exists t; split; auto; apply gstep_refl|].
    exists []. rewrite app_nil_r. split; auto. intros o [].
  - cbn in H.
    assert (Base : (s, acc) = (s', os) -> (sem_free s = 0 \/ sem_wait s = []) ->
      wf0 s' /\ c_K s' = c_K s /\
      (length (sem_wait s) < S f -> sem_free s' = 0 \/ sem_wait s' = []) /\
      gmono (tasks s) (tasks s') /\
      exists ex, os = acc ++ ex /\
        forall o, In o ex -> exists k t t', o = OStart (t_params t) (t_cancelled t) /\
          nth_error (tasks s) k = Some t /\ nth_error (tasks s') k = Some t' /\
          t_st t = TWaiting /\ t_builtin t = false /\ t_st t' = TRunning /\ t_params t' = t_params t).
    { intros [= <- <-] D. split; auto. split; auto. split; auto.
      split; [intros k t E; exists t; split; auto; apply gstep_refl|].
      exists []. rewrite app_nil_r. split; auto. intros o []. }
    destruct (sem_wait s) as [|k r] eqn:Q; [apply Base; auto|].
    destruct (sem_free s) as [|fr] eqn:F; [apply Base; auto|].
    destruct (proj1 (wf_wait _ _ _ _ W k)) as (t & E & St); [rewrite Q; left; auto|].
    rewrite E in H.
    pose proof (wf_nodup _ _ _ _ W) as ND. rewrite Q in ND. inversion ND as [|? ? NI ND']; subst.
    set (st' := if t_builtin t then TAtHandled (ORes []) else TRunning).
    set (s1 := s <| sem_wait := r |> <| sem_free := fr |>
                 <| tasks ::= upd_nth k (fun t => t <| t_st := st' |>) |>).
    assert (W1 : wf0 s1).
    { unfold wf0, s1. cbn. eapply wfp_upd; try exact W; try exact E; cbn; auto.
      - unfold holds. cbn. rewrite St, F. unfold st'. destruct (t_builtin t); cbn; lia.
      - intros j. rewrite Q. destruct (Nat.eqb_spec j k) as [->|N]; cbn.
        + split; [tauto|]. unfold st'. destruct (t_builtin t); discriminate.
        + split; [auto|]. intros [->|I]; [congruence|auto].
      - unfold st'. destruct (t_builtin t); discriminate.
      - unfold st'. intros ->. discriminate.
      - destruct (wf_pre _ _ _ _ W _ _ E) as [P|P]; [auto|congruence]. }
    assert (G1 : gmono (tasks s) (tasks s1)).
    { unfold s1. cbn. intros j x Ex. rewrite nth_error_upd_nth. destruct (Nat.eqb_spec k j) as [->|N].
      - rewrite Ex. cbn. eexists; split; eauto.
        assert (x = t) by congruence. subst x.
        split; [repeat split|]. cbn. split; [reflexivity|]. right. split; [exact St|reflexivity].
      - exists x. split; auto. apply gstep_refl. }
    assert (Hrec : exists acc1, grant f s1 acc1 = (s', os) /\
               (acc1 = acc \/ (t_builtin t = false /\ acc1 = acc ++ [OStart (t_params t) (t_cancelled t)]))).
    { unfold s1, st'. destruct (t_builtin t); eexists; split; try exact H; auto. }
    destruct Hrec as (acc1 & H1 & Hacc).
    destruct (IH _ _ _ _ W1 H1) as (W' & K' & T' & G' & ex & Eos & Hex).
    split; auto. split; [rewrite K'; reflexivity|].
    split; [intros L; apply T'; unfold s1; cbn; cbn in L; lia|].
    assert (GG : gmono (tasks s) (tasks s')).
    { intros j x Ex. destruct (G1 _ _ Ex) as (x1 & Ex1 & S1). destruct (G' _ _ Ex1) as (x2 & Ex2 & S2).
      exists x2. split; auto. eapply gstep_trans; eauto. }
    split; auto.
    assert (Lift : forall o, In o ex -> exists k t t', o = OStart (t_params t) (t_cancelled t) /\
      nth_error (tasks s) k = Some t /\ nth_error (tasks s') k = Some t' /\
      t_st t = TWaiting /\ t_builtin t = false /\ t_st t' = TRunning /\ t_params t' = t_params t).
    { intros o Io. destruct (Hex _ Io) as (j & x1 & x' & -> & Ex1 & Ex' & Sx1 & Bx1 & Sx' & Px').
      (* the task was already waiting in s *)
      assert (exists x, nth_error (tasks s) j = Some x) as [x Ex].
      { destruct (nth_error (tasks s) j) eqn:N; eauto.
        exfalso. apply nth_error_None in N.
        assert (nth_error (tasks s1) j = None).
        { apply nth_error_None. unfold s1. cbn. rewrite upd_nth_length. auto. }
        congruence. }
      destruct (G1 _ _ Ex) as (y & Ey & (SS & CC & RR)).
      assert (y = x1) by congruence. subst y.
      exists j, x, x'. destruct SS as (_ & _ & _ & P & _ & _ & B).
      rewrite P, CC. split; auto. split; auto. split; auto.
      split; [destruct RR as [RR|[RR RR']]; [congruence|auto]|].
      split; [congruence|]. split; auto. congruence. }
    destruct Hacc as [->|[Bt ->]].
    + exists ex. split; auto.
    + exists (OStart (t_params t) (t_cancelled t) :: ex). split; [rewrite Eos, <- app_assoc; reflexivity|].
      intros o [<-|Io]; [|auto].
      destruct (G1 _ _ E) as (t1 & E1 & (SS1 & CC1 & RR1)).
      destruct (G' _ _ E1) as (t2 & E2 & (SS2 & CC2 & RR2)).
      exists k, t, t2. split; auto. split; auto. split; auto. split; auto. split; auto.
      assert (S1 : t_st t1 = TRunning).
      { destruct RR1 as [RR1|[_ RR1]]; [|rewrite RR1, Bt; reflexivity].
        exfalso. unfold s1 in E1. cbn in E1. erewrite nth_error_upd_nth_eq in E1 by eauto.
        injection E1 as <-. cbn in RR1. unfold st' in RR1. rewrite Bt, St in RR1. discriminate. }
      split.
      * destruct RR2 as [RR2|[RR2 _]]; congruence.
      * destruct SS1 as (_ & _ & _ & P1 & _). destruct SS2 as (_ & _ & _ & P2 & _). congruence.
Qed.

(** * Transitions that leave (K, tasks, sem_free, sem_wait) alone, or only append fresh tasks *)
Definition core_eq (s s' : state) : Prop :=
  c_K s' = c_K s /\ tasks s' = tasks s /\ sem_free s' = sem_free s /\ sem_wait s' = sem_wait s.

Definition extends (s s' : state) : Prop :=
  c_K s' = c_K s /\ sem_free s' = sem_free s /\ sem_wait s' = sem_wait s /\
  exists new, tasks s' = tasks s ++ new /\ Forall fresh new.

Lemma core_eq_refl s : core_eq s s.
Proof. repeat split. Qed.

Lemma core_eq_trans a b c : core_eq a b -> core_eq b c -> core_eq a c.
Proof. unfold core_eq. intuition congruence. Qed.

Lemma core_eq_extends s s' : core_eq s s' -> extends s s'.
Proof.
  intros (K & T & F & Q). split; auto. split; auto. split; auto.
  exists []. rewrite app_nil_r. split; auto.
Qed.

Lemma extends_trans a b c : extends a b -> extends b c -> extends a c.
Proof.
  intros (K1 & F1 & Q1 & n1 & T1 & N1) (K2 & F2 & Q2 & n2 & T2 & N2).
  split; [congruence|]. split; [congruence|]. split; [congruence|].
  exists (n1 ++ n2). split; [rewrite T2, T1, app_assoc; reflexivity|apply Forall_app; auto].
Qed.

Lemma extends_wf s s' : extends s s' -> wf s -> wf s'.
Proof.
  intros (K & F & Q & new & T & N) [W I4]. unfold wf, wf0. rewrite K, F, Q, T. split; auto.
  apply wfp_app; auto.
Qed.

Lemma extends_mono s s' : extends s s' -> mono (tasks s) (tasks s').
Proof. intros (_ & _ & _ & new & -> & _). apply mono_app. Qed.

Lemma extends_nth s s' k t : extends s s' -> nth_error (tasks s) k = Some t -> nth_error (tasks s') k = Some t.
Proof. intros (_ & _ & _ & new & -> & _) H. apply nth_error_app_old; auto. Qed.

Lemma mk_task_fresh s u ids m : fresh (mk_task s u ids m).
Proof.
  unfold mk_task, fresh. destruct (pre_err s ids m); cbn; auto.
  destruct (is_nil (j_method m)); cbn; auto.
  destruct (assign_method s (j_method m)); cbn; auto.
Qed.

Lemma dequeue_extends s : extends s (dequeue s).
Proof.
  unfold dequeue. destruct (inq s) as [|[b ms] q].
  - destruct (running s); apply core_eq_extends; repeat split.
  - cbn. repeat split. eexists. split; [reflexivity|].
    apply Forall_forall. intros x Hx. apply in_map_iff in Hx as (m & <- & _). apply mk_task_fresh.
Qed.

Lemma settle1_extends s s' os : settle1 s = Some (s', os) -> extends s s'.
Proof.
  intros H. apply settle1_inv in H. destruct H; try solve [apply core_eq_extends; unfold core_eq, set_unit; cbn; auto].
  apply dequeue_extends.
Qed.

Lemma settle_extends : forall fuel s acc s' os, settle fuel s acc = (s', os) -> extends s s'.
Proof.
  induction fuel as [|f IH]; cbn; intros s acc s' os H.
  - injection H as <- <-. apply core_eq_extends, core_eq_refl.
  - destruct (settle1 s) as [[s1 os1]|] eqn:E.
    + eapply extends_trans; [eapply settle1_extends; eauto|eapply IH; eauto].
    + injection H as <- <-. apply core_eq_extends, core_eq_refl.
Qed.

(** * The other helpers *)
Lemma no_start_nil : no_start [].
Proof. intros p c []. Qed.

Lemma no_start_app a b : no_start a -> no_start b -> no_start (a ++ b).
Proof. intros A B p c H. apply in_app_or in H as [H|H]; [eapply A|eapply B]; eauto. Qed.

Lemma complete_cb_core i r s s' os : complete_cb i r s = (s', os) -> core_eq s s' /\ no_start os.
Proof.
  unfold complete_cb. destruct (nth_error (cbs s) i) as [c|].
  - intros [= <- <-]. split; [repeat split|].
    destruct (cb_ret c); [apply no_start_nil|]. intros p x [H|[]]. discriminate.
  - intros [= <- <-]. split; [repeat split|apply no_start_nil].
Qed.

Lemma filter_batch_core : forall ms s keep acc s' keep' os,
  filter_batch ms s keep acc = (s', keep', os) -> no_start acc -> core_eq s s' /\ no_start os.
Proof.
  induction ms as [|m r IH]; cbn; intros s keep acc s' keep' os H NA.
  - injection H as <- <- <-. split; auto. apply core_eq_refl.
  - destruct (is_req_or_notif m); [eapply IH; eauto|].
    destruct (assoc (fix_id (j_id m)) (calls s)) as [i|].
    + destruct (complete_cb i _ s) as [s1 os1] eqn:C.
      apply complete_cb_core in C as [C1 C2].
      destruct (IH _ _ _ _ _ _ H) as [I1 I2]; [apply no_start_app; auto|].
      split; auto. eapply core_eq_trans; eauto.
    + destruct (c_push s && is_nil (j_method m) && has_reply_fields m); eapply IH; eauto.
Qed.

(* what a critical section may do: keep wf, keep K, let tasks evolve, report no handler entry *)
Definition quiet_ok (s s' : state) (os : list obs) : Prop :=
  wf s' /\ c_K s' = c_K s /\ mono (tasks s) (tasks s') /\ no_start os.

Lemma extends_quiet s s' os : wf s -> extends s s' -> no_start os -> quiet_ok s s' os.
Proof.
  intros W E N. split; [eapply extends_wf; eauto|]. split; [apply E|]. split; auto. apply extends_mono; auto.
Qed.

Lemma core_quiet s s' os : wf s -> core_eq s s' -> no_start os -> quiet_ok s s' os.
Proof. intros W E N. apply extends_quiet; auto. apply core_eq_extends; auto. Qed.

Lemma quiet_core_post s s' s'' os : quiet_ok s s' os -> core_eq s' s'' -> quiet_ok s s'' os.
Proof.
  intros (W & K & M & N) (K2 & T2 & F2 & Q2). unfold quiet_ok, wf, wf0. rewrite K2, T2, F2, Q2. auto.
Qed.

Lemma stop_locked_ok c s s' os : wf s -> stop_locked c s = (s', os) -> quiet_ok s s' os.
Proof.
  intros W. unfold stop_locked. destruct (running s).
  2: { cbn. intros [= <- <-]. apply core_quiet; auto. apply core_eq_refl. apply no_start_nil. }
  cbn -[fold_left].
  match goal with |- context [fold_left ?f ?l ?s0] =>
    set (s3 := s0); set (L := l); set (F := fold_left f L s3) end.
  assert (C3 : core_eq s s3) by (unfold s3; destruct (work_closed s); repeat split).
  assert (W3 : wf s3).
  { destruct C3 as (K3 & T3 & F3 & Q3). unfold wf, wf0. rewrite K3, T3, F3, Q3. exact W. }
  assert (HF : wf F /\ c_K F = c_K s3 /\ mono (tasks s3) (tasks F))
    by (apply (fold_cancel_spec (@snd bytes nat) L s3 W3)).
  destruct HF as (WF & KF & MF).
  assert (N : no_start [OClose]) by (intros p x [H|[]]; discriminate).
  assert (Q : quiet_ok s F [OClose]).
  { destruct C3 as (K3 & T3 & F3 & Q3). split; auto. split; [congruence|]. split; auto. rewrite <- T3. exact MF. }
  destruct (c_unblock F) eqn:U; intros [= <- <-];
    (eapply quiet_core_post; [exact Q|repeat split]).
Qed.

Lemma wf_core s s' : wf s -> core_eq s s' -> wf s'.
Proof. intros W (K2 & T2 & F2 & Q2). unfold wf, wf0. rewrite K2, T2, F2, Q2. exact W. Qed.

Lemma release_ids_ok : forall ts s, wf s ->
  wf (release_ids ts s) /\ c_K (release_ids ts s) = c_K s /\ mono (tasks s) (tasks (release_ids ts s)).
Proof.
  induction ts as [|t r IH]; cbn; intros s W.
  - split; auto. split; auto. apply mono_refl.
  - match goal with |- context [release_ids r ?x] => set (s1 := x) end.
    assert (H1 : wf s1 /\ c_K s1 = c_K s /\ mono (tasks s) (tasks s1)).
    { unfold s1. destruct (t_hasctx t && negb (is_note t)).
      2: { split; auto. split; auto. apply mono_refl. }
      destruct (assoc (t_id t) (used s)) as [owner|].
      2: { split; auto. split; auto. apply mono_refl. }
      split; [|split].
      - eapply wf_core; [apply (wf_cancel_task owner s W)|repeat split].
      - cbn. apply cancel_task_frame.
      - cbn. apply cancel_task_mono. }
    destruct H1 as (W1 & K1 & M1). destruct (IH s1 W1) as (W2 & K2 & M2).
    split; auto. split; [congruence|]. eapply mono_trans; eauto.
Qed.

Lemma no_start_single o : (forall p c, o <> OStart p c) -> no_start [o].
Proof. intros H p c [E|[]]. eapply H; eauto. Qed.

Lemma read_cs_ok f s s' os : wf s -> read_cs f s = (s', os) -> quiet_ok s s' os.
Proof.
  intros W.
  assert (Msg : forall i,
    (if negb (running s) then (s <| rd := RExited |> <| wg ::= pred |>, [])
      else match i with
           | InBad => let '(s', os) := push_error s ParseError s_invalid_value in (s' <| rd := RIdle |>, os)
           | InMsgs _ [] => let '(s', os) := push_error s InvalidRequest s_empty_batch in (s' <| rd := RIdle |>, os)
           | InMsgs b ms =>
               let '(s1, keep, os) := filter_batch ms s [] [] in
               match keep with
               | [] => (s1 <| rd := RIdle |>, os)
               | _ => let s2 := s1 <| inq ::= fun q => q ++ [(b, keep)] |> <| rd := RIdle |> in
                      if work_closed s2 && (length (inq s2) =? 1)
                      then (s2 <| crash := Some CrSendOnClosedWork |>, os ++ [OCrash CrSendOnClosedWork])
                      else (s2, os)
               end
           end) = (s', os) -> quiet_ok s s' os).
  { intros i. destruct (negb (running s)).
    { intros [= <- <-]. apply core_quiet; auto; [repeat split|apply no_start_nil]. }
    destruct i as [|b ms].
    { cbn. intros [= <- <-]. apply core_quiet; auto; [repeat split|]. apply no_start_single. discriminate. }
    destruct ms as [|m ms].
    { cbn. intros [= <- <-]. apply core_quiet; auto; [repeat split|]. apply no_start_single. discriminate. }
    destruct (filter_batch (m :: ms) s [] []) as [[s1 keep] os1] eqn:FB.
    apply filter_batch_core in FB as [C1 N1]; [|apply no_start_nil].
    destruct keep as [|k0 keep].
    { intros [= <- <-]. apply core_quiet; auto. }
    cbn. match goal with |- context [if ?c then _ else _] => destruct c end; intros [= <- <-].
    - apply core_quiet; auto.
      apply no_start_app; auto. apply no_start_single. discriminate.
    - apply core_quiet; auto. }
  destruct f as [i|i|c]; [apply Msg|apply Msg|]. cbn.
  destruct (stop_locked c s) as [s1 os1] eqn:SL. intros [= <- <-].
  eapply quiet_core_post; [eapply stop_locked_ok; eauto|repeat split].
Qed.

(** * Every critical section *)
Definition raw_ok (s s' : state) (os : list obs) : Prop :=
  wf s' /\ c_K s' = c_K s /\ mono (tasks s) (tasks s') /\
  (forall p c, In (OStart p c) os -> started s s' p c).

Lemma quiet_raw s s' os : quiet_ok s s' os -> raw_ok s s' os.
Proof. intros (W & K & M & N). repeat split; auto; try apply W. intros p c H. destruct (N _ _ H). Qed.

Lemma raw_core_post s s' s'' os os' :
  raw_ok s s' os -> core_eq s' s'' -> (forall p c, In (OStart p c) os' -> In (OStart p c) os) ->
  raw_ok s s'' os'.
Proof.
  intros (W & K & M & St) C I. pose proof (wf_core _ _ W C) as W'.
  destruct C as (K2 & T2 & F2 & Q2).
  split; auto. split; [congruence|]. split; [rewrite T2; auto|].
  intros p c H. destruct (St _ _ (I _ _ H)) as (k & t & t' & H1 & H2 & R).
  exists k, t, t'. rewrite T2. auto.
Qed.

Lemma NoDup_snoc {A} (q : list A) k : NoDup q -> ~ In k q -> NoDup (q ++ [k]).
Proof.
  induction 1 as [|a q NI ND IH]; cbn; intros N.
  - constructor; auto. constructor.
  - constructor; [|apply IH; tauto].
    intros H. apply in_app_or in H as [H|[H|[]]]; [auto|]. apply N. auto.
Qed.

Ltac no_start_tac := let H := fresh in intros ? ? H; cbn in H; intuition discriminate.
Ltac fin St := cbn; try congruence; try (unfold holds; cbn; rewrite ?St; cbn; lia); auto.
Ltac core_tac W :=
  intros [= <- <-]; apply quiet_raw, core_quiet; [exact W|repeat split|try apply no_start_nil; no_start_tac].

Lemma acquire_ok s k s' os : wf s -> step_raw s (LRelAcquire k) = Some (s', os) -> raw_ok s s' os.
Proof.
  intros W. pose proof W as [W0 I4]. cbn.
  destruct (nth_error (tasks s) k) as [t|] eqn:E; [|discriminate].
  destruct (t_st t) eqn:St; try discriminate.
  destruct (negb (unit_running s t)); [discriminate|].
  assert (Pre : t_pre t = None) by (destruct (wf_pre _ _ _ _ W0 _ _ E); congruence).
  assert (Ev : forall st', mono (tasks s) (upd_nth k (fun t => t <| t_st := st' |>) (tasks s))).
  { intros st'. apply mono_upd. intros x Hx. assert (x = t) by congruence. subst x.
    split; [repeat split|]. cbn. rewrite St. cbn. split; auto. split; lia. }
  destruct (t_cancelled t) eqn:C.
  { intros [= <- <-]. unfold set_task. split; [|split; [reflexivity|split; [apply Ev|intros p c []]]].
    split; [|exact I4]. unfold wf0. cbn.
    eapply wfp_upd_noq; eauto; fin St. }
  assert (WaitCase : sem_free s = 0 ->
     raw_ok s (set_task k (fun t => t <| t_st := TWaiting |>) s <| sem_wait ::= fun q => q ++ [k] |>) []).
  { intros F0. unfold set_task. split; [|split; [reflexivity|split; [apply Ev|intros p c []]]].
    split; [|cbn; lia]. unfold wf0. cbn.
    assert (NI : ~ In k (sem_wait s)).
    { intros H. apply (wf_wait _ _ _ _ W0) in H as (x & Hx & Sx). congruence. }
    eapply wfp_upd; eauto; fin St.
    - apply NoDup_snoc; auto. exact (wf_nodup _ _ _ _ W0).
    - intros j. rewrite in_app_iff. cbn. destruct (Nat.eqb_spec j k) as [->|N]; [tauto|].
      split; [intros [H|[H|[]]]; [auto|congruence]|auto]. }
  destruct (sem_free s) as [|fr] eqn:F.
  { intros [= <- <-]. apply WaitCase; auto. }
  destruct (sem_wait s) as [|k0 r] eqn:Q.
  2: { exfalso. assert (H : k0 :: r = []) by (apply I4; lia). discriminate. }
  assert (Take : forall st', holds (t <| t_st := st' |>) = true -> st' <> TWaiting ->
            (t_builtin t = true -> st' <> TRunning) ->
            wf (set_task k (fun t => t <| t_st := st' |>) s <| sem_free := fr |>)).
  { intros st' H1 H2 H3. unfold set_task. split; [|cbn; auto].
    unfold wf0. cbn. eapply wfp_upd_noq; [exact W0|exact E|..]; fin St.
    rewrite H1, F. unfold holds. rewrite St. lia. }
  destruct (t_builtin t) eqn:B; intros [= <- <-].
  - split; [apply Take; [reflexivity|discriminate|discriminate]|].
    split; [reflexivity|]. split; [apply Ev|intros p c []].
  - split; [apply Take; [reflexivity|discriminate|discriminate]|].
    split; [reflexivity|]. split; [apply Ev|].
    intros p c [H|[]]. injection H as <- <-.
    exists k, t, (t <| t_st := TRunning |>). split; auto. split.
    + unfold set_task. cbn. apply nth_error_upd_nth_eq; auto.
    + repeat split; auto.
Qed.

Lemma handled_ok s k s' os : wf s -> step_raw s (LRelHandled k) = Some (s', os) -> raw_ok s s' os.
Proof.
  intros W. pose proof W as [W0 I4]. cbn -[grant].
  destruct (nth_error (tasks s) k) as [t|] eqn:E; [|discriminate].
  destruct (t_st t) eqn:St; try discriminate.
  set (s1 := set_task k (fun t => t <| t_st := TDone (body_of_outcome t o) |>) s <| sem_free ::= S |>).
  destruct (grant (S (length (sem_wait s))) s1 []) as [s2 os2] eqn:G.
  assert (W1 : wf0 s1).
  { unfold wf0, s1, set_task. cbn. eapply wfp_upd_noq; eauto; fin St.
    left. destruct (wf_pre _ _ _ _ W0 _ _ E); congruence. }
  destruct (grant_spec _ _ _ _ _ W1 G) as (W2 & K2 & T2 & G2 & ex & Eos & Hex). cbn in Eos. subst os2.
  assert (E1 : nth_error (tasks s1) k = Some (t <| t_st := TDone (body_of_outcome t o) |>)).
  { unfold s1, set_task. cbn. erewrite nth_error_upd_nth_eq by exact E. reflexivity. }
  assert (R : raw_ok s s2 ex).
  { split; [split; auto; intros H; destruct (T2 (Nat.lt_succ_diag_r _)); [lia|auto]|].
    split; [rewrite K2; reflexivity|]. split.
    - eapply mono_trans; [|apply gmono_mono; exact G2].
      unfold s1, set_task. cbn. apply mono_upd. intros x Hx. assert (x = t) by congruence. subst x.
      split; [repeat split|]. cbn. rewrite St. cbn. split; auto. split; lia.
    - intros p c H. destruct (Hex _ H) as (j & x & x' & Ho & Hx & Hx' & Sx & Bx & Sx' & Px').
      injection Ho as -> ->.
      assert (N : k <> j). { intros <-. rewrite E1 in Hx. injection Hx as <-. discriminate. }
      unfold s1, set_task in Hx. cbn in Hx. rewrite nth_error_upd_nth_neq in Hx by auto.
      exists j, x, x'. repeat split; auto. }
  assert (P1 : forall s3, core_eq s2 s3 -> raw_ok s s3 ex).
  { intros s3 C. eapply raw_core_post; eauto. }
  assert (P2 : forall s3 o', (forall p c, o' <> OStart p c) -> core_eq s2 s3 -> raw_ok s s3 (ex ++ [o'])).
  { intros s3 o' D C. eapply raw_core_post; eauto.
    intros p c H. apply in_app_or in H as [H|H]; auto. destruct H as [H|[]]. destruct (D _ _ H). }
  destruct (is_note t).
  - destruct (nbar s2); intros [= <- <-]; [apply P2; [discriminate|repeat split]|apply P1; repeat split].
  - intros [= <- <-]. apply P1, core_eq_refl.
Qed.

Lemma step_raw_ok s l s' os : wf s -> step_raw s l = Some (s', os) -> raw_ok s s' os.
Proof.
  intros W. destruct l.
  - (* LStart *) cbn. destruct (negb (running s) && (wg s =? 0)); [core_tac W|discriminate].
  - cbn. core_tac W.
  - cbn. core_tac W.
  - (* LGate *) cbn.
    destruct (find_idx _ 0 (tasks s)) as [k|] eqn:FI; [|discriminate].
    destruct (nth_error (tasks s) k) as [t|] eqn:E; [|discriminate].
    apply find_idx_some in FI as (x & Hx & Px & _). rewrite Nat.sub_0_r, E in Hx. injection Hx as <-.
    apply andb_true_iff in Px as [_ Px]. destruct (t_st t) eqn:St; try discriminate.
    intros [= <- <-]. apply quiet_raw. destruct W as [W0 I4]. unfold set_task.
    split; [split; [|exact I4]|split; [reflexivity|split; [|no_start_tac]]].
    + unfold wf0. cbn. eapply wfp_upd_noq; eauto; fin St.
      left. destruct (wf_pre _ _ _ _ W0 _ _ E); congruence.
    + cbn. apply mono_upd. intros x Hx. assert (x = t) by congruence. subst x.
      split; [repeat split|]. cbn. rewrite St. cbn. split; auto. split; lia.
  - cbn. core_tac W.
  - cbn. core_tac W.
  - (* LCallPush *) cbn. destruct (c_push s); core_tac W.
  - cbn. core_tac W.
  - (* LCbCtxEnd *) cbn. destruct (find_idx _ 0 (cbs s)); core_tac W.
  - (* LRelRead *) cbn. destruct (rd s); try discriminate.
    intros [= H]. apply quiet_raw. eapply read_cs_ok; eauto.
  - (* LRelNext *) cbn. destruct (dp s); try discriminate. intros [= <- <-].
    apply quiet_raw, extends_quiet; auto; [apply dequeue_extends|apply no_start_nil].
  - cbn. destruct (dp s); try discriminate. core_tac W.
  - apply acquire_ok; auto.
  - apply handled_ok; auto.
  - (* LRelDeliver *) cbn.
    destruct (nth_error (units s) u) as [un|]; [|discriminate].
    destruct (u_st un); try discriminate.
    destruct (release_ids_ok (unit_tasks s u) s W) as (W1 & K1 & M1).
    destruct (negb (u_chok un)); intros [= <- <-]; apply quiet_raw.
    + eapply quiet_core_post; [split; [exact W1|split; [exact K1|split; [exact M1|]]]|repeat split]. no_start_tac.
    + eapply quiet_core_post; [split; [exact W1|split; [exact K1|split; [exact M1|]]]|unfold set_unit; repeat split].
      no_start_tac.
  - (* LRelStop *) cbn.
    destruct (find_op n (ops s)) as [[]|]; try discriminate.
    destruct (stop_locked SCStop (s <| ops ::= del_op n |>)) as [s1 os1] eqn:SL.
    intros [= <- <-]. apply quiet_raw.
    assert (W1 : wf (s <| ops ::= del_op n |>)) by (eapply wf_core; [exact W|repeat split]).
    destruct (stop_locked_ok _ _ _ _ W1 SL) as (W2 & K2 & M2 & N2).
    split; auto. split; auto. split; auto. apply no_start_app; auto. apply no_start_single. discriminate.
  - (* LRelCancel *) cbn.
    destruct (find_op n (ops s)) as [[]|]; try discriminate.
    intros [= <- <-]. apply quiet_raw.
    set (s1 := s <| ops ::= del_op n |>).
    assert (W1 : wf s1) by (eapply wf_core; [exact W|repeat split]).
    destruct (assoc id (used s)) as [owner|].
    + split; [apply wf_cancel_task; auto|]. split; [exact (proj1 (cancel_task_frame owner s1))|].
      split; [exact (cancel_task_mono owner s1)|no_start_tac].
    + apply core_quiet; auto; [repeat split|no_start_tac].
  - (* LRelPush *) cbn.
    destruct (find_op n (ops s)) as [[]|]; try discriminate.
    destruct (negb (running s)); [core_tac W|].
    destruct wantid; [|core_tac W].
    destruct (send_fail s); [core_tac W|].
    core_tac W.
  - (* LRelCbWatch *) cbn -[complete_cb].
    destruct (nth_error (cbs s) c) as [cb0|]; [|discriminate].
    destruct (cb_watch cb0); try discriminate.
    set (s1 := s <| cbs ::= upd_nth c (fun c0 : cb => c0 <| cb_watch := WDone |>) |>).
    assert (C1 : core_eq s s1) by (unfold s1; repeat split).
    assert (D : forall s2 os2, core_eq s s2 -> no_start os2 -> raw_ok s s2 os2).
    { intros s2 os2 C N. apply quiet_raw, core_quiet; auto. }
    destruct (assoc (cb_id cb0) (calls s)) as [j|]; [|intros [= <- <-]; apply D; auto; apply no_start_nil].
    destruct (cb_slot cb0); [intros [= <- <-]; apply D; auto; apply no_start_nil|].
    destruct (j =? c); [|intros [= <- <-]; apply D; auto; apply no_start_nil].
    destruct (cb_ctx cb0) as [[]|]; intros [= H];
    match type of H with complete_cb c ?r ?s0 = _ => destruct (complete_cb_core _ _ _ _ _ H) as [C2 N2] end;
    (apply D; auto; eapply core_eq_trans; eauto).
Qed.

(** * Windows ([step]) and reachable states *)
Lemma raw_extends_post s s1 s' os os' :
  raw_ok s s1 os -> extends s1 s' -> (forall p c, In (OStart p c) os' -> In (OStart p c) os) ->
  raw_ok s s' os'.
Proof.
  intros (W & K & M & St) X I.
  split; [eapply extends_wf; eauto|]. split; [destruct X as (K2 & _); congruence|].
  split; [eapply mono_trans; [exact M|apply extends_mono; auto]|].
  intros p c H. destruct (St _ _ (I _ _ H)) as (k & t & t' & H1 & H2 & R).
  exists k, t, t'. split; auto. split; auto. eapply extends_nth; eauto.
Qed.

Lemma step_ok s l s' os : wf s -> step s l = Some (s', os) -> raw_ok s s' os.
Proof.
  intros W H. apply step_decompose in H as (_ & s1 & os1 & R & [(_ & -> & ->)|(_ & S)]).
  - eapply step_raw_ok; eauto.
  - pose proof (step_raw_ok _ _ _ _ W R) as R1.
    destruct (settle_obs_app _ _ _ _ _ S) as (ex & -> & Fx).
    eapply raw_extends_post; [exact R1|eapply settle_extends; eauto|].
    intros p c I. apply in_app_or in I as [I|I]; auto.
    rewrite Forall_forall in Fx. destruct (Fx _ I).
Qed.

Lemma wf_init c : wf (init_of c).
Proof.
  split; [|reflexivity]. unfold wf0, init_of, init. cbn. constructor; cbn; auto.
  - constructor.
  - intros k. split; [intros []|]. intros (t & H & _). destruct k; discriminate.
  - intros [|k] t H; discriminate.
  - intros [|k] t H; discriminate.
  - intros [|k] t H; discriminate.
Qed.

Lemma inv_reachf c s : reachf c s -> wf s /\ c_K s = cf_K c.
Proof.
  induction 1 as [|s l s' os R [W K] C H|s s' os R [W K] H].
  - split; [apply wf_init|reflexivity].
  - destruct (step_raw_ok _ _ _ _ W H) as (W' & K' & _). split; auto. congruence.
  - apply settle1_extends in H. split; [eapply extends_wf; eauto|]. destruct H as (K' & _). congruence.
Qed.

Lemma inv_reach c s : reach c s -> wf s /\ c_K s = cf_K c.
Proof. intros R. apply inv_reachf, reach_reachf, R. Qed.

(** * 1. semaphore invariant *)
Lemma sem_invariant_f c s : reachf c s -> slots_used s + sem_free s = cf_K c /\ c_K s = cf_K c.
Proof.
  intros R. destruct (inv_reachf _ _ R) as [[W _] K]. split; auto. rewrite <- K. exact (wf_sem _ _ _ _ W).
Qed.

Lemma sem_invariant c s : reach c s -> slots_used s + sem_free s = cf_K c /\ c_K s = cf_K c.
Proof. intros R. apply sem_invariant_f, reach_reachf, R. Qed.

(** * 2. bound *)
Lemma countb_le {A} (p q : A -> bool) l : (forall x, p x = true -> q x = true) -> countb p l <= countb q l.
Proof.
  intros H. induction l as [|x r IH]; cbn; auto.
  destruct (p x) eqn:P; [rewrite (H _ P); lia|destruct (q x); lia].
Qed.

Lemma executing_le_used s : executing s <= slots_used s.
Proof. apply countb_le. intros x. unfold is_running, holds. destruct (t_st x); auto. Qed.

Lemma bound_f c s : reachf c s -> executing s <= slots_used s /\ slots_used s <= cf_K c.
Proof. intros R. split; [apply executing_le_used|]. destruct (sem_invariant_f _ _ R). lia. Qed.

Lemma bound c s : reach c s -> executing s <= slots_used s /\ slots_used s <= cf_K c.
Proof. intros R. apply bound_f, reach_reachf, R. Qed.

Lemma bound_trace c tr s oss : run (init_of c) tr = Some (s, oss) -> executing s <= cf_K c.
Proof.
  intros H. assert (R : reach c s) by (eapply run_reach; [apply reach_init|exact H]).
  destruct (bound _ _ R). lia.
Qed.

(* every prefix of a trace is a trace: the bound holds at every instant *)
Lemma run_app s tr1 tr2 s2 oss :
  run s (tr1 ++ tr2) = Some (s2, oss) ->
  exists s1 oss1 oss2, run s tr1 = Some (s1, oss1) /\ run s1 tr2 = Some (s2, oss2) /\ oss = oss1 ++ oss2.
Proof.
  revert s oss. induction tr1 as [|l r IH]; cbn; intros s oss H.
  - exists s, [], oss. auto.
  - destruct (step s l) as [[sa os]|]; [|discriminate].
    destruct (run sa (r ++ tr2)) as [[sb ossb]|] eqn:E; [|discriminate]. injection H as <- <-.
    destruct (IH _ _ E) as (s1 & o1 & o2 & H1 & H2 & ->).
    exists s1, (os :: o1), o2. rewrite H1. auto.
Qed.

Lemma bound_every_instant c tr1 tr2 s2 oss :
  run (init_of c) (tr1 ++ tr2) = Some (s2, oss) ->
  exists s1 oss1, run (init_of c) tr1 = Some (s1, oss1) /\ executing s1 <= cf_K c.
Proof.
  intros H. apply run_app in H as (s1 & o1 & o2 & H1 & _ & _).
  exists s1, o1. split; auto. eapply bound_trace; eauto.
Qed.

(** * 3. handler entries take a slot *)
Lemma start_takes_slot c s l s' os p cancelled :
  reach c s -> step s l = Some (s', os) -> In (OStart p cancelled) os ->
  exists k t t', nth_error (tasks s) k = Some t /\ nth_error (tasks s') k = Some t' /\
    t_params t = p /\ t_params t' = p /\ t_cancelled t = cancelled /\ t_builtin t = false /\
    (t_st t = TAtAcquire \/ t_st t = TWaiting) /\ t_st t' = TRunning.
Proof.
  intros R H I. destruct (inv_reach _ _ R) as [W _].
  destruct (step_ok _ _ _ _ W H) as (_ & _ & _ & St). exact (St _ _ I).
Qed.

Lemma builtin_never_running c s k t :
  reach c s -> nth_error (tasks s) k = Some t -> t_builtin t = true -> t_st t <> TRunning.
Proof. intros R. destruct (inv_reach _ _ R) as [[W _] _]. exact (wf_bi _ _ _ _ W k t). Qed.

(* a built-in takes a slot like any handler (it is counted by [holds]) but reports no handler entry *)
Lemma builtin_takes_slot s k t s' os :
  nth_error (tasks s) k = Some t -> t_builtin t = true -> t_cancelled t = false ->
  step_raw s (LRelAcquire k) = Some (s', os) ->
  os = [] /\
  ((sem_free s' = pred (sem_free s) /\ 0 < sem_free s /\
    nth_error (tasks s') k = Some (t <| t_st := TAtHandled (ORes []) |>) /\
    holds (t <| t_st := TAtHandled (ORes []) |>) = true) \/
   (sem_free s' = sem_free s /\ nth_error (tasks s') k = Some (t <| t_st := TWaiting |>))).
Proof.
  intros E B C. cbn. rewrite E.
  destruct (t_st t); try discriminate.
  destruct (negb (unit_running s t)); [discriminate|]. rewrite C.
  assert (Wt : forall s' os,
     Some (set_task k (fun t => t <| t_st := TWaiting |>) s <| sem_wait ::= fun q => q ++ [k] |>, @nil obs) = Some (s', os) ->
     os = [] /\ sem_free s' = sem_free s /\ nth_error (tasks s') k = Some (t <| t_st := TWaiting |>)).
  { intros s2 os2 [= <- <-]. unfold set_task. cbn. split; auto. split; auto. apply nth_error_upd_nth_eq; auto. }
  destruct (sem_free s) as [|fr] eqn:F.
  { intros H. destruct (Wt _ _ H) as (-> & H1 & H2). split; auto. }
  destruct (sem_wait s).
  - rewrite B. intros [= <- <-]. split; auto. left. unfold set_task. cbn. split; auto. split; [lia|].
    split; auto. apply nth_error_upd_nth_eq; auto.
  - intros H. destruct (Wt _ _ H) as (-> & H1 & H2). split; auto.
Qed.

(** * 4. wait queue *)
Lemma wait_queue c s : reach c s ->
  NoDup (sem_wait s) /\
  (forall k, In k (sem_wait s) <-> exists t, nth_error (tasks s) k = Some t /\ t_st t = TWaiting) /\
  (0 < sem_free s -> sem_wait s = []).
Proof.
  intros R. destruct (inv_reach _ _ R) as [[W I4] _].
  split; [exact (wf_nodup _ _ _ _ W)|]. split; [exact (wf_wait _ _ _ _ W)|exact I4].
Qed.

(** * 5. work conservation *)
Lemma idxs_where_in {A} (p : A -> bool) : forall (l : list A) i k x,
  nth_error l k = Some x -> p x = true -> In (i + k) (idxs_where p i l).
Proof.
  induction l as [|y r IH]; intros i [|k] x H P; cbn in *; try discriminate.
  - injection H as ->. rewrite P. rewrite Nat.add_0_r. left; auto.
  - apply in_or_app. right. replace (i + S k) with (S i + k) by lia. eapply IH; eauto.
Qed.

Lemma acquire_enabled s k t :
  crash s = None -> nth_error (tasks s) k = Some t -> at_acquire s t = true ->
  exists r, step s (LRelAcquire k) = Some r.
Proof.
  intros C E A. unfold at_acquire in A. destruct (t_st t) eqn:St; try discriminate.
  assert (R : exists s1 os1, step_raw s (LRelAcquire k) = Some (s1, os1)).
  { cbn. rewrite E, St, A. cbn.
    destruct (t_cancelled t); [eauto|].
    destruct (sem_free s); [eauto|]. destruct (sem_wait s); [|eauto].
    destruct (t_builtin t); eauto. }
  destruct R as (s1 & os1 & R). unfold step. rewrite C, R.
  destruct (crash s1); eauto.
Qed.

Lemma acquire_in_enabled s k t :
  crash s = None -> nth_error (tasks s) k = Some t -> at_acquire s t = true ->
  In (LRelAcquire k) (enabled_rel s).
Proof.
  intros C E A. unfold enabled_rel. apply filter_In. split.
  - apply in_flat_map. exists SAcquire. split; [cbn; auto 10|].
    cbn. apply in_map. apply (idxs_where_in (at_acquire s) (tasks s) 0 k t E A).
  - destruct (acquire_enabled _ _ _ C E A) as (r & ->). reflexivity.
Qed.

Lemma work_conserving c s :
  reach c s -> crash s = None -> quiescent s = true -> 0 < sem_free s ->
  forall k t, nth_error (tasks s) k = Some t -> t_st t <> TWaiting /\ at_acquire s t = false.
Proof.
  intros R C Q F k t E. destruct (wait_queue _ _ R) as (_ & Wq & I4). split.
  - intros St. assert (I : In k (sem_wait s)) by (apply Wq; eauto). rewrite (I4 F) in I. destruct I.
  - destruct (at_acquire s t) eqn:A; auto.
    pose proof (acquire_in_enabled _ _ _ C E A) as I.
    unfold quiescent in Q. apply is_nil_list_true in Q. rewrite Q in I. destruct I.
Qed.

(** * 6. the cancelled waiter *)
Lemma cancelled_not_waiting c s k t :
  reach c s -> nth_error (tasks s) k = Some t -> t_cancelled t = true -> t_st t <> TWaiting.
Proof. intros R. destruct (inv_reach _ _ R) as [[W _] _]. exact (wf_canc _ _ _ _ W k t). Qed.

Lemma cancelled_not_queued c s k t :
  reach c s -> nth_error (tasks s) k = Some t -> t_cancelled t = true -> ~ In k (sem_wait s).
Proof.
  intros R E C I. destruct (wait_queue _ _ R) as (_ & Wq & _).
  apply Wq in I as (x & Hx & Sx). assert (x = t) by congruence. subst x.
  eapply cancelled_not_waiting; eauto.
Qed.

Lemma acquire_cancelled_raw s k t s' os :
  nth_error (tasks s) k = Some t -> t_st t = TAtAcquire -> t_cancelled t = true ->
  step_raw s (LRelAcquire k) = Some (s', os) ->
  os = [] /\ nth_error (tasks s') k = Some (t <| t_st := TDone (Some cancel_err) |>) /\
  sem_free s' = sem_free s /\ sem_wait s' = sem_wait s.
Proof.
  intros E St C. cbn. rewrite E, St, C.
  destruct (negb (unit_running s t)); [discriminate|]. intros [= <- <-].
  unfold set_task. cbn. split; auto. split; auto. apply nth_error_upd_nth_eq; auto.
Qed.

Lemma acquire_cancelled_step s k t s' os :
  nth_error (tasks s) k = Some t -> t_st t = TAtAcquire -> t_cancelled t = true ->
  step s (LRelAcquire k) = Some (s', os) ->
  (forall p c, ~ In (OStart p c) os) /\
  nth_error (tasks s') k = Some (t <| t_st := TDone (Some cancel_err) |>) /\
  sem_free s' = sem_free s /\ sem_wait s' = sem_wait s.
Proof.
  intros E St C H. apply step_decompose in H as (_ & s1 & os1 & R & D).
  destruct (acquire_cancelled_raw _ _ _ _ _ E St C R) as (-> & N & F & Q).
  destruct D as [(_ & -> & ->)|(_ & S)].
  - split; auto.
  - destruct (settle_obs_app _ _ _ _ _ S) as (ex & -> & Fx).
    pose proof (settle_extends _ _ _ _ _ S) as X.
    split; [|split; [eapply extends_nth; eauto|destruct X as (_ & F2 & Q2 & _); split; congruence]].
    intros p c I. cbn in I. rewrite Forall_forall in Fx. destruct (Fx _ I).
Qed.

(* its reply is the cancellation error with its id *)
Lemma cancelled_response c s k t b :
  reach c s -> nth_error (tasks s) k = Some t -> (t_st t = TWaiting \/ t_st t = TAtAcquire) ->
  let t' := t <| t_cancelled := b |> <| t_st := TDone (Some cancel_err) |> in
  task_body t' = BErr Cancelled s_ctx_canceled /\
  response_of t' = if is_note t then None else Some {| r_id := t_id t; r_body := BErr Cancelled s_ctx_canceled |}.
Proof.
  intros R E St. destruct (inv_reach _ _ R) as [[W _] _].
  assert (P : t_pre t = None) by (destruct (wf_pre _ _ _ _ W _ _ E) as [P|P]; [auto|destruct St; congruence]).
  cbn. unfold task_body, response_of, is_note, task_body. cbn. rewrite P. cbn. split; auto.
Qed.

Lemma cancelled_done_response c s k t :
  reach c s -> nth_error (tasks s) k = Some t -> t_st t = TDone (Some cancel_err) ->
  task_body t = BErr Cancelled s_ctx_canceled /\
  response_of t = if is_note t then None else Some {| r_id := t_id t; r_body := BErr Cancelled s_ctx_canceled |}.
Proof.
  intros R E St. destruct (inv_reach _ _ R) as [[W _] _].
  assert (P : t_pre t = None) by (destruct (wf_pre _ _ _ _ W _ _ E) as [P|P]; [auto|congruence]).
  unfold response_of, task_body. rewrite P, St. split; auto.
Qed.

(** * 6d. task status only moves forward *)
Definition forward (ts ts' : list task) : Prop :=
  forall k t, nth_error ts k = Some t ->
  exists t', nth_error ts' k = Some t' /\
    rank (t_st t) <= rank (t_st t') /\ (4 <= rank (t_st t) -> t_st t' = t_st t) /\
    t_id t' = t_id t /\ t_method t' = t_method t /\ t_params t' = t_params t /\
    (t_cancelled t = true -> t_cancelled t' = true).

Lemma mono_forward ts ts' : mono ts ts' -> forward ts ts'.
Proof.
  intros M k t E. destruct (M _ _ E) as (t' & E' & (_ & I & Me & P & _) & C & R & D).
  exists t'. repeat split; auto.
Qed.

Lemma forward_raw c s l s' os : reachf c s -> step_raw s l = Some (s', os) -> forward (tasks s) (tasks s').
Proof.
  intros R H. destruct (inv_reachf _ _ R) as [W _]. apply mono_forward.
  destruct (step_raw_ok _ _ _ _ W H) as (_ & _ & M & _). exact M.
Qed.

Lemma forward_settle1 s s' os : settle1 s = Some (s', os) -> forward (tasks s) (tasks s').
Proof. intros H. apply mono_forward, extends_mono. eapply settle1_extends; eauto. Qed.

Lemma mono_step c s l s' os : reach c s -> step s l = Some (s', os) -> mono (tasks s) (tasks s').
Proof.
  intros R H. destruct (inv_reach _ _ R) as [W _].
  destruct (step_ok _ _ _ _ W H) as (_ & _ & M & _). exact M.
Qed.

Lemma mono_run c : forall tr s s' oss, reach c s -> run s tr = Some (s', oss) -> mono (tasks s) (tasks s').
Proof.
  induction tr as [|l r IH]; cbn; intros s s' oss R H.
  - injection H as <- <-. apply mono_refl.
  - destruct (step s l) as [[s1 os]|] eqn:E; [|discriminate].
    destruct (run s1 r) as [[s2 oss2]|] eqn:E2; [|discriminate]. injection H as <- <-.
    eapply mono_trans; [eapply mono_step; eauto|].
    eapply IH; [|exact E2]. eapply reach_step; eauto.
Qed.

Lemma forward_step c s l s' os : reach c s -> step s l = Some (s', os) -> forward (tasks s) (tasks s').
Proof. intros R H. apply mono_forward. eapply mono_step; eauto. Qed.

Lemma forward_run c tr s s' oss : reach c s -> run s tr = Some (s', oss) -> forward (tasks s) (tasks s').
Proof. intros R H. apply mono_forward. eapply mono_run; eauto. Qed.

(* a task that is done (in particular: done with the cancellation error, having been
   cancelled while waiting or before Acquire) stays so: its handler never runs *)
Lemma done_never_runs c s k t b tr s' oss :
  reach c s -> nth_error (tasks s) k = Some t -> t_st t = TDone b ->
  run s tr = Some (s', oss) ->
  exists t', nth_error (tasks s') k = Some t' /\ t_st t' = TDone b /\ is_running t' = false.
Proof.
  intros R E St H. destruct (forward_run _ _ _ _ _ R H _ _ E) as (t' & E' & _ & D & _).
  exists t'. split; auto. rewrite St in D. cbn in D. rewrite (D (le_n _)).
  unfold is_running. rewrite (D (le_n _)). auto.
Qed.

(* and no later handler entry is its own *)
Lemma done_never_started c s k t b l s' os p cancelled :
  reach c s -> nth_error (tasks s) k = Some t -> t_st t = TDone b ->
  step s l = Some (s', os) -> In (OStart p cancelled) os ->
  exists k' t1 t1', k' <> k /\ nth_error (tasks s) k' = Some t1 /\ nth_error (tasks s') k' = Some t1' /\
    t_params t1 = p /\ (t_st t1 = TAtAcquire \/ t_st t1 = TWaiting) /\ t_st t1' = TRunning.
Proof.
  intros R E St H I.
  destruct (start_takes_slot _ _ _ _ _ _ _ R H I) as (k' & t1 & t1' & E1 & E1' & P & _ & _ & _ & S1 & S1').
  exists k', t1, t1'. repeat split; auto.
  intros ->. assert (t1 = t) by congruence. subst t1. destruct S1; congruence.
Qed.

(** * Non-vacuity: concrete reachable states and windows.
    K = 2, one method "m", a batch of three calls (params 1, 2, 3; ids "1", "2", "3"). *)
Definition after (c : config) (tr : list label) : state :=
  match run (init_of c) tr with Some (s, _) => s | None => init_of c end.
Definition run_ok (c : config) (tr : list label) : bool :=
  match run (init_of c) tr with Some _ => true | None => false end.

Lemma after_reach c tr : reach c (after c tr).
Proof.
  unfold after. destruct (run (init_of c) tr) as [[s oss]|] eqn:E; [|apply reach_init].
  eapply run_reach; [apply reach_init|exact E].
Qed.

Definition ex_cfg : config :=
  {| cf_K := 2; cf_push := false; cf_builtin := true; cf_methods := [[109%N]]; cf_unblock := false |}.
Definition ex_call (id p : N) : jmsg :=
  {| j_id := [id]; j_method := [109%N]; j_params := [p]; j_error := None; j_result := []; j_err := None |}.
Definition ex_batch : inbound := InMsgs true [ex_call 49 1; ex_call 50 2; ex_call 51 3].
Definition ex_dispatch (i : inbound) : list label := [LStart; LFeed (FMsg i); LRelRead; LRelNext; LRelBarrier].
(* two running, one waiting *)
Definition ex_tr_full : list label := ex_dispatch ex_batch ++ [LRelAcquire 0; LRelAcquire 1; LRelAcquire 2].
(* ... then rpc.Cancel of the waiter *)
Definition ex_tr_cancel : list label := ex_tr_full ++ [LCallCancel 7 [51%N]; LRelCancel 7].
(* ... then the first handler returns and releases its slot *)
Definition ex_tr_release : list label := ex_tr_full ++ [LGate [1%N] (ORes [53%N])].
(* a single call, everything parked: one slot free *)
Definition ex_tr_one : list label :=
  ex_dispatch (InMsgs false [ex_call 49 1]) ++ [LRelNext; LRelAcquire 0].
(* the built-in *)
Definition ex_bi : jmsg :=
  {| j_id := [49%N]; j_method := rpc_server_info; j_params := []; j_error := None; j_result := []; j_err := None |}.
Definition ex_tr_bi : list label := ex_dispatch (InMsgs false [ex_bi]) ++ [LRelNext].
(* a call cancelled before its goroutine reaches Acquire *)
Definition ex_tr_early : list label := ex_dispatch ex_batch ++ [LCallCancel 7 [49%N]; LRelCancel 7].

Example sem_invariant_nonvacuous :
  run_ok ex_cfg ex_tr_full = true /\ reach ex_cfg (after ex_cfg ex_tr_full) /\
  map t_st (tasks (after ex_cfg ex_tr_full)) = [TRunning; TRunning; TWaiting] /\
  slots_used (after ex_cfg ex_tr_full) = 2 /\ sem_free (after ex_cfg ex_tr_full) = 0 /\
  (* and a state with a free slot *)
  run_ok ex_cfg ex_tr_one = true /\
  slots_used (after ex_cfg ex_tr_one) = 1 /\ sem_free (after ex_cfg ex_tr_one) = 1.
Proof. split; [vm_compute; reflexivity|]. split; [apply after_reach|]. vm_compute. repeat split. Qed.

(* the bound is attained: K = 2 handlers executing, a third request dispatched *)
Example bound_nonvacuous :
  exists s oss, run (init_of ex_cfg) ex_tr_full = Some (s, oss) /\ executing s = cf_K ex_cfg /\
                length (tasks s) = 3.
Proof. eexists _, _. split; [vm_compute; reflexivity|]. vm_compute. auto. Qed.

(* handler entries: directly at Acquire, and by a grant when a slot is released *)
Example start_takes_slot_nonvacuous :
  (exists s' os, reach ex_cfg (after ex_cfg (ex_dispatch ex_batch)) /\
     step (after ex_cfg (ex_dispatch ex_batch)) (LRelAcquire 0) = Some (s', os) /\ In (OStart [1%N] false) os) /\
  (exists s' os, reach ex_cfg (after ex_cfg ex_tr_release) /\
     step (after ex_cfg ex_tr_release) (LRelHandled 0) = Some (s', os) /\ In (OStart [3%N] false) os /\
     map t_st (tasks (after ex_cfg ex_tr_release)) = [TAtHandled (ORes [53%N]); TRunning; TWaiting] /\
     map t_st (tasks s') = [TDone (Some (BRes [53%N])); TRunning; TRunning]).
Proof.
  split; eexists _, _; (split; [apply after_reach|]); (split; [vm_compute; reflexivity|]); vm_compute; auto.
Qed.

Example builtin_takes_slot_nonvacuous :
  exists t s' os, reach ex_cfg (after ex_cfg ex_tr_bi) /\
    nth_error (tasks (after ex_cfg ex_tr_bi)) 0 = Some t /\ t_builtin t = true /\ t_cancelled t = false /\
    step_raw (after ex_cfg ex_tr_bi) (LRelAcquire 0) = Some (s', os) /\
    os = [] /\ slots_used s' = 1 /\ executing s' = 0 /\ sem_free s' = 1.
Proof.
  eexists _, _, _. split; [apply after_reach|]. split; [vm_compute; reflexivity|].
  split; [reflexivity|]. split; [reflexivity|]. split; [vm_compute; reflexivity|]. vm_compute. auto.
Qed.

Example wait_queue_nonvacuous :
  reach ex_cfg (after ex_cfg ex_tr_full) /\ sem_wait (after ex_cfg ex_tr_full) = [2] /\
  (exists t, nth_error (tasks (after ex_cfg ex_tr_full)) 2 = Some t /\ t_st t = TWaiting) /\
  reach ex_cfg (after ex_cfg ex_tr_one) /\ 0 < sem_free (after ex_cfg ex_tr_one) /\
  sem_wait (after ex_cfg ex_tr_one) = [].
Proof.
  split; [apply after_reach|]. split; [vm_compute; reflexivity|].
  split; [eexists; split; vm_compute; reflexivity|].
  split; [apply after_reach|]. vm_compute. auto.
Qed.

Example work_conserving_nonvacuous :
  reach ex_cfg (after ex_cfg ex_tr_one) /\ crash (after ex_cfg ex_tr_one) = None /\
  quiescent (after ex_cfg ex_tr_one) = true /\ 0 < sem_free (after ex_cfg ex_tr_one) /\
  exists t, nth_error (tasks (after ex_cfg ex_tr_one)) 0 = Some t /\ t_st t = TRunning.
Proof.
  split; [apply after_reach|]. split; [vm_compute; reflexivity|]. split; [vm_compute; reflexivity|].
  split; [vm_compute; auto|]. eexists; split; vm_compute; reflexivity.
Qed.

(* with all slots taken the waiter does wait: the hypothesis 0 < sem_free matters *)
Example work_conserving_needs_free_slot :
  sem_free (after ex_cfg ex_tr_full) = 0 /\
  exists t, nth_error (tasks (after ex_cfg ex_tr_full)) 2 = Some t /\ t_st t = TWaiting.
Proof. split; [vm_compute; reflexivity|]. eexists; split; vm_compute; reflexivity. Qed.

Example acquire_enabled_nonvacuous :
  exists t, crash (after ex_cfg (ex_dispatch ex_batch)) = None /\
    nth_error (tasks (after ex_cfg (ex_dispatch ex_batch))) 1 = Some t /\
    at_acquire (after ex_cfg (ex_dispatch ex_batch)) t = true.
Proof. eexists. split; [vm_compute; reflexivity|]. split; vm_compute; reflexivity. Qed.

Example cancelled_not_waiting_nonvacuous :
  exists t, reach ex_cfg (after ex_cfg ex_tr_cancel) /\
    nth_error (tasks (after ex_cfg ex_tr_cancel)) 2 = Some t /\ t_cancelled t = true /\
    t_st t = TDone (Some cancel_err) /\ sem_wait (after ex_cfg ex_tr_cancel) = [].
Proof. eexists. split; [apply after_reach|]. split; [vm_compute; reflexivity|]. vm_compute. auto. Qed.

Example cancel_task_waiting_nonvacuous :
  exists t, reach ex_cfg (after ex_cfg ex_tr_full) /\
    nth_error (tasks (after ex_cfg ex_tr_full)) 2 = Some t /\ t_st t = TWaiting /\
    In 2 (sem_wait (after ex_cfg ex_tr_full)) /\
    (* and rpc.Cancel of its id does call cancel_task 2 *)
    map t_st (tasks (after ex_cfg ex_tr_cancel)) = [TRunning; TRunning; TDone (Some cancel_err)].
Proof. eexists. split; [apply after_reach|]. split; [vm_compute; reflexivity|]. vm_compute. auto. Qed.

Example acquire_cancelled_nonvacuous :
  exists t s' os, reach ex_cfg (after ex_cfg ex_tr_early) /\
    nth_error (tasks (after ex_cfg ex_tr_early)) 0 = Some t /\ t_st t = TAtAcquire /\ t_cancelled t = true /\
    step (after ex_cfg ex_tr_early) (LRelAcquire 0) = Some (s', os) /\ os = [] /\ sem_free s' = 2.
Proof.
  eexists _, _, _. split; [apply after_reach|]. split; [vm_compute; reflexivity|].
  split; [reflexivity|]. split; [reflexivity|]. split; [vm_compute; reflexivity|]. vm_compute. auto.
Qed.

Example cancelled_response_nonvacuous :
  exists t, nth_error (tasks (after ex_cfg ex_tr_cancel)) 2 = Some t /\
    t_st t = TDone (Some cancel_err) /\ is_note t = false /\
    response_of t = Some {| r_id := [51%N]; r_body := BErr Cancelled s_ctx_canceled |}.
Proof. eexists. split; [vm_compute; reflexivity|]. vm_compute. auto. Qed.

(* forward progress: the cancelled waiter stays done while the others run on and a slot is released *)
Example done_never_runs_nonvacuous :
  exists t s' oss, reach ex_cfg (after ex_cfg ex_tr_cancel) /\
    nth_error (tasks (after ex_cfg ex_tr_cancel)) 2 = Some t /\ t_st t = TDone (Some cancel_err) /\
    run (after ex_cfg ex_tr_cancel) [LGate [1%N] (ORes [53%N]); LRelHandled 0] = Some (s', oss) /\
    map t_st (tasks s') = [TDone (Some (BRes [53%N])); TRunning; TDone (Some cancel_err)] /\
    sem_free s' = 1 /\ oss = [[OGate [1%N] false]; []].
Proof.
  eexists _, _, _. split; [apply after_reach|]. split; [vm_compute; reflexivity|].
  split; [reflexivity|]. split; [vm_compute; reflexivity|]. vm_compute. auto.
Qed.

Example forward_nonvacuous :
  exists s' os, step (after ex_cfg ex_tr_full) (LGate [2%N] (OErr 5 [])) = Some (s', os) /\
    map (fun t => rank (t_st t)) (tasks (after ex_cfg ex_tr_full)) = [2; 2; 1] /\
    map (fun t => rank (t_st t)) (tasks s') = [2; 3; 1].
Proof. eexists _, _. split; [vm_compute; reflexivity|]. vm_compute. auto. Qed.

(** * 6b at the level of a window: rpc.Cancel (Server.CancelRequest) of a call waiting for a slot *)
Lemma cancel_waiter_step s n n' id k t s' os :
  find_op n (ops s) = Some (OpCancel n' id) -> assoc id (used s) = Some k ->
  nth_error (tasks s) k = Some t -> t_st t = TWaiting ->
  step s (LRelCancel n) = Some (s', os) ->
  (forall p c, ~ In (OStart p c) os) /\
  nth_error (tasks s') k = Some (t <| t_cancelled := true |> <| t_st := TDone (Some cancel_err) |>) /\
  ~ In k (sem_wait s') /\ sem_free s' = sem_free s.
Proof.
  intros Fo A E St H. apply step_decompose in H as (_ & s1 & os1 & R & D).
  cbn in R. rewrite Fo in R. cbn in R. rewrite A in R. injection R as <- <-.
  set (s0 := s <| ops ::= del_op n |>) in *.
  destruct (cancel_task_waiting k s0 t E St) as (N & Q & _).
  assert (F : sem_free (cancel_task k s0) = sem_free s) by exact (proj1 (proj2 (cancel_task_frame k s0))).
  assert (NS : forall p c, ~ In (OStart p c) [ORet n AOk]) by (intros p c [X|[]]; discriminate).
  destruct D as [(_ & -> & ->)|(_ & S)].
  - repeat split; auto.
  - destruct (settle_obs_app _ _ _ _ _ S) as (ex & -> & Fx).
    pose proof (settle_extends _ _ _ _ _ S) as X.
    split; [|split; [eapply extends_nth; eauto|destruct X as (_ & F2 & Q2 & _); split; [rewrite Q2; auto|congruence]]].
    intros p c I. apply in_app_or in I as [I|I]; [eapply NS; eauto|].
    rewrite Forall_forall in Fx. destruct (Fx _ I).
Qed.

Example cancel_waiter_step_nonvacuous :
  exists t s' os,
    let s := after ex_cfg (ex_tr_full ++ [LCallCancel 7 [51%N]]) in
    reach ex_cfg s /\ find_op 7 (ops s) = Some (OpCancel 7 [51%N]) /\ assoc [51%N] (used s) = Some 2 /\
    nth_error (tasks s) 2 = Some t /\ t_st t = TWaiting /\ step s (LRelCancel 7) = Some (s', os) /\
    os = [ORet 7 AOk] /\ executing s' = 2.
Proof.
  eexists _, _, _. cbn zeta. split; [apply after_reach|]. split; [vm_compute; reflexivity|].
  split; [vm_compute; reflexivity|]. split; [vm_compute; reflexivity|]. split; [reflexivity|].
  split; [vm_compute; reflexivity|]. vm_compute. auto.
Qed.
