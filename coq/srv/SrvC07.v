(* C07: cancellation hits only its target; ids are reserved exactly while in flight. *)
From Coq Require Import List NArith ZArith Bool Arith Lia.
From RecordUpdate Require Import RecordUpdate.
From JV Require Import Bytes Msg SrvModel SrvLemmas SrvBasics.
Import ListNotations.

(** * association lists with distinct keys *)
Lemma nodup_assoc_del {A} k (m : list (bytes * A)) : NoDup (map fst m) -> NoDup (map fst (assoc_del k m)).
Proof.
  induction m as [|[k' v] m IH]; cbn; intros ND; auto. inversion ND; subst.
  destruct (beq k k'); auto. cbn. constructor; auto.
  intros I. apply in_map_iff in I as ([k2 v2] & E & I). cbn in E. subst k2.
  apply in_assoc_del in I as [I _]. apply H1. apply in_map_iff. exists (k', v2). auto.
Qed.

Lemma assoc_del_notin {A} k (m : list (bytes * A)) : ~ In k (map fst (assoc_del k m)).
Proof. apply assoc_none. apply assoc_del_same. Qed.

Lemma in_nodup_assoc {A} k v (m : list (bytes * A)) : NoDup (map fst m) -> In (k, v) m -> assoc k m = Some v.
Proof.
  induction m as [|[k' v'] m IH]; cbn; intros ND I; [tauto|]. inversion ND; subst.
  destruct I as [E|I].
  - injection E as -> ->. rewrite beq_refl. auto.
  - destruct (beq_spec k k') as [->|N]; auto.
    exfalso. apply H1. apply in_map_iff. exists (k', v). auto.
Qed.

Lemma nodup_rel_used ts : forall us, NoDup (map fst us) -> NoDup (map fst (rel_used ts us)).
Proof.
  induction ts as [|t r IH]; cbn; intros us ND; auto.
  apply IH. destruct (t_hasctx t && negb (is_note t)); auto. apply nodup_assoc_del; auto.
Qed.

(** * reserve *)
Definition reserves (t : task) : bool := t_hasctx t && negb (is_nil (t_id t)).

Lemma reserve_in ts : forall base us id k, In (id, k) (reserve base ts us) ->
  In (id, k) us \/ exists i t, k = base + i /\ nth_error ts i = Some t /\ reserves t = true /\ t_id t = id.
Proof.
  induction ts as [|a r IH]; cbn; intros base us id k H; auto.
  apply IH in H as [H|(i & t & -> & E & Rt & Ei)].
  - destruct (t_hasctx a && negb (is_nil (t_id a))) eqn:Ra; auto.
    destruct H as [H|H].
    + injection H as <- <-. right. exists 0, a. rewrite Nat.add_0_r. auto.
    + apply in_assoc_del in H. tauto.
  - right. exists (S i), t. repeat split; auto. lia.
Qed.

Lemma reserve_nodup ts : forall base us, NoDup (map fst us) -> NoDup (map fst (reserve base ts us)).
Proof.
  induction ts as [|a r IH]; cbn; intros base us ND; auto.
  apply IH. destruct (t_hasctx a && negb (is_nil (t_id a))); auto.
  cbn. constructor; [apply assoc_del_notin|apply nodup_assoc_del; auto].
Qed.

Lemma reserve_other ts : forall base us id,
  (forall t, In t ts -> reserves t = true -> t_id t <> id) -> assoc id (reserve base ts us) = assoc id us.
Proof.
  induction ts as [|a r IH]; cbn; intros base us id H; auto.
  rewrite IH by (intros; apply H; auto).
  destruct (t_hasctx a && negb (is_nil (t_id a))) eqn:Ra; auto.
  assert (N : t_id a <> id) by (apply H; auto).
  cbn. destruct (beq_spec id (t_id a)); [congruence|]. apply assoc_del_other; auto.
Qed.

Lemma reserve_last ts : forall base us i t,
  nth_error ts i = Some t -> reserves t = true ->
  (forall j t', i < j -> nth_error ts j = Some t' -> reserves t' = true -> t_id t' <> t_id t) ->
  assoc (t_id t) (reserve base ts us) = Some (base + i).
Proof.
  induction ts as [|a r IH]; intros base us [|i] t E Rt Later; cbn in E; try discriminate.
  - injection E as ->. cbn. unfold reserves in Rt. rewrite Rt.
    rewrite reserve_other.
    + cbn. rewrite beq_refl. f_equal. lia.
    + intros t' I Rt'. apply In_nth_error in I as [j Ej]. apply (Later (S j)); auto. lia.
  - cbn. rewrite (IH (S base) _ i t); auto.
    + f_equal. lia.
    + intros j t' Lt Ej. apply (Later (S j)); auto. lia.
Qed.

(** * mk_task and duplicates *)
Lemma mk_task_hasctx s u ids m : t_hasctx (mk_task s u ids m) = true -> pre_err s ids m = None.
Proof.
  unfold mk_task. destruct (pre_err s ids m); cbn; [discriminate|auto].
Qed.

Lemma pre_err_none s ids m : pre_err s ids m = None ->
  fix_id (j_id m) = [] \/ (assoc (fix_id (j_id m)) (used s) = None /\ count_bytes (fix_id (j_id m)) ids <= 1).
Proof.
  unfold pre_err. intros H.
  destruct (is_nil (fix_id (j_id m))) eqn:Nl; [left; apply is_nil_true; auto|].
  right. destruct (assoc (fix_id (j_id m)) (used s)); [discriminate|].
  destruct (1 <? count_bytes (fix_id (j_id m)) ids) eqn:C; [discriminate|].
  split; auto. apply Nat.ltb_ge in C; auto.
Qed.

Lemma count_bytes_two x ids : forall i j, i < j -> nth_error ids i = Some x -> nth_error ids j = Some x ->
  2 <= count_bytes x ids.
Proof.
  induction ids as [|y r IH]; intros [|i] [|j] Lt Ei Ej; cbn in *; try discriminate; try lia.
  - injection Ei as ->. rewrite beq_refl.
    assert (1 <= count_bytes x r); [|lia].
    clear -Ej. revert j Ej. induction r as [|z r IH]; intros [|j] E; cbn in *; try discriminate.
    + injection E as ->. rewrite beq_refl. lia.
    + specialize (IH _ E). lia.
  - assert (2 <= count_bytes x r) by (apply (IH i j); auto; lia). lia.
Qed.

Lemma is_nil_false (b : bytes) : is_nil b = false <-> b <> [].
Proof. destruct b; cbn; split; congruence. Qed.

Lemma reserves_spec t : reserves t = true <-> t_hasctx t = true /\ t_id t <> [].
Proof.
  unfold reserves. rewrite andb_true_iff, negb_true_iff, is_nil_false. tauto.
Qed.

(** * The reservation invariant *)
Definition unit_unfinished (s : state) (t : task) : Prop :=
  exists un, nth_error (units s) (t_unit t) = Some un /\ u_st un <> UFinished.

Record inv_used (s : state) : Prop := {
  iu_in : forall id k, In (id, k) (used s) ->
      exists t, nth_error (tasks s) k = Some t /\ t_id t = id /\ id <> [] /\ t_hasctx t = true /\ unit_unfinished s t;
  iu_nodup : NoDup (map fst (used s));
  iu_rec : running s = true -> crash s = None ->
      forall k t, nth_error (tasks s) k = Some t -> t_hasctx t = true -> t_id t <> [] -> unit_unfinished s t ->
      assoc (t_id t) (used s) = Some k
}.

Lemma back_task s s' k t' : tasks_ext (tasks s) (tasks s') -> length (tasks s') = length (tasks s) ->
  nth_error (tasks s') k = Some t' -> exists t, nth_error (tasks s) k = Some t /\ task_le t t'.
Proof.
  intros X L E. destruct (nth_error (tasks s) k) as [t|] eqn:Et.
  - destruct (X _ _ Et) as (t2 & E2 & Le). rewrite E in E2. injection E2 as <-. eauto.
  - apply nth_error_None in Et. apply nth_error_some_lt in E. lia.
Qed.

(* steps that leave reservations and units alone *)
Lemma used_same_step s s' : inv_used s -> used s' = used s -> tasks_ext (tasks s) (tasks s') ->
  length (tasks s') = length (tasks s) -> units s' = units s ->
  (running s' = true -> crash s' = None -> running s = true /\ crash s = None) -> inv_used s'.
Proof.
  intros [A B C] U X L Un RC. constructor; rewrite ?U; auto.
  - intros id k I. destruct (A _ _ I) as (t & E & Ei & Ni & Hc & un & Eu & Su).
    destruct (X _ _ E) as (t' & E' & Le). exists t'. destruct Le as [Lu Li Lm Lp Lpre Lc Lb Lcan Lst].
    repeat split; auto; try congruence. exists un. rewrite Un, Lu. auto.
  - intros R Cr k t' E' Hc Ni (un & Eu & Su). destruct (RC R Cr) as [R0 C0].
    destruct (back_task _ _ _ _ X L E') as (t & E & Le). destruct Le as [Lu Li Lm Lp Lpre Lc Lb Lcan Lst].
    rewrite Li. apply C; auto; try congruence. exists un. rewrite <- Un, <- Lu. auto.
Qed.

Lemma used_empty_step s' : used s' = [] -> running s' = false -> inv_used s'.
Proof.
  intros U R. constructor; rewrite ?U, ?R; cbn; try tauto; try discriminate. constructor.
Qed.

(* a unit changes status; tasks and reservations stay *)
Lemma used_unit_step s s' i x un : inv_used s -> used s' = used s -> tasks s' = tasks s ->
  nth_error (units s) i = Some un -> units s' = upd_nth i (fun y => y <| u_st := x |>) (units s) ->
  u_st un <> UFinished ->
  (x = UFinished -> forall t, In t (unit_tasks s i) -> is_note t = true) ->
  (running s' = true -> crash s' = None -> running s = true /\ crash s = None) -> inv_used s'.
Proof.
  intros [A B C] U T Ei Un Su Fin RC.
  assert (Fwd : forall t, unit_unfinished s t -> (t_unit t = i -> x <> UFinished) -> unit_unfinished s' t).
  { intros t (un0 & E0 & S0) Hx. unfold unit_unfinished. rewrite Un, nth_error_upd_nth.
    destruct (Nat.eqb_spec i (t_unit t)) as [Eq|N].
    - rewrite E0. cbn. eexists; split; eauto.
    - eauto. }
  assert (Bwd : forall t, unit_unfinished s' t -> unit_unfinished s t /\ (t_unit t = i -> x <> UFinished)).
  { intros t (un0 & E0 & S0). rewrite Un, nth_error_upd_nth in E0.
    destruct (Nat.eqb_spec i (t_unit t)) as [Eq|N].
    - rewrite <- Eq, Ei in E0. cbn in E0. injection E0 as <-. cbn in S0. split; [|auto].
      exists un. rewrite <- Eq. auto.
    - split; [exists un0; auto|]. intros; congruence. }
  constructor; rewrite ?U, ?T; auto.
  - intros id k I. destruct (A _ _ I) as (t & E & Ei' & Ni & Hc & Uf). exists t. repeat split; auto.
    apply Fwd; auto. intros Eq Ex. specialize (Fin Ex t).
    assert (N : is_note t = true).
    { apply Fin. unfold unit_tasks. apply filter_In. split; [eapply nth_error_In; eauto|]. apply Nat.eqb_eq; auto. }
    unfold is_note in N. apply is_nil_true in N. congruence.
  - intros R Cr k t E Hc Ni Uf. destruct (RC R Cr) as [R0 C0]. apply C; auto. apply Bwd; auto.
Qed.

Lemma responses_nil_notes ts : responses ts = [] -> forall t, In t ts -> is_note t = true.
Proof.
  induction ts as [|a r IH]; cbn; intros H t I; [tauto|].
  destruct (response_of a) eqn:Ra; [discriminate|]. destruct I as [<-|I]; auto.
  unfold response_of in Ra. destruct (is_note a); auto. discriminate.
Qed.

(* dequeue *)
Lemma used_dequeue s : inv s -> inv_used s -> inv_used (dequeue s).
Proof.
  intros I [A B C]. unfold dequeue. destruct (inq s) as [|[batch ms] q].
  { destruct (running s) eqn:R; constructor; cbn; auto.
    all: intros R' Cr; apply C; auto; congruence. }
  set (u := length (units s)). set (ids := map (fun m => fix_id (j_id m)) ms).
  set (ts := map (mk_task s u ids) ms).
  assert (Hts : forall i t, nth_error ts i = Some t -> exists m, nth_error ms i = Some m /\ t = mk_task s u ids m).
  { intros i t E. unfold ts in E. rewrite nth_error_map in E. destruct (nth_error ms i) as [m|]; [|discriminate].
    injection E as <-. eauto. }
  assert (Hids : forall i m, nth_error ms i = Some m -> nth_error ids i = Some (fix_id (j_id m))).
  { intros i m E. unfold ids. rewrite nth_error_map, E. auto. }
  assert (Hnew : forall t, In t ts -> reserves t = true -> assoc (t_id t) (used s) = None).
  { intros t It Rt. apply In_nth_error in It as [i Ei]. destruct (Hts _ _ Ei) as (m & Em & ->).
    apply reserves_spec in Rt as [Hc Ni]. rewrite mk_task_id in *.
    apply mk_task_hasctx, pre_err_none in Hc as [Z|[Z _]]; [congruence|auto]. }
  constructor; cbn.
  - intros id k Hin. apply reserve_in in Hin as [Hin|(i & t & -> & Ei & Rt & Eid)].
    + destruct (A _ _ Hin) as (t & E & Ei & Ni & Hc & un & Eu & Su). exists t. repeat split; auto.
      * apply nth_error_app_old; auto.
      * exists un. split; auto. apply nth_error_app_old; auto.
    + exists t. apply reserves_spec in Rt as [Hc Ni]. repeat split; auto; try congruence.
      * rewrite nth_error_app2 by lia. replace (length (tasks s) + i - length (tasks s)) with i by lia. auto.
      * destruct (Hts _ _ Ei) as (m & Em & ->). unfold unit_unfinished. cbn. rewrite mk_task_unit.
        eexists. split; [apply nth_error_app_new|]. cbn. discriminate.
  - apply reserve_nodup; auto.
  - intros R Cr k t E Hc Ni (un & Eu & Su). cbn in Eu.
    destruct (Nat.lt_ge_cases k (length (tasks s))) as [Lt|Ge].
    + rewrite nth_error_app1 in E by auto.
      assert (Lu : t_unit t < length (units s)) by (eapply (i_unit _ I); eauto).
      rewrite nth_error_app1 in Eu by auto.
      assert (As : assoc (t_id t) (used s) = Some k) by (apply C; auto; exists un; auto).
      rewrite reserve_other; auto.
      intros t' It Rt Eq. rewrite <- Eq, (Hnew _ It Rt) in As. discriminate.
    + rewrite nth_error_app2 in E by auto.
      rewrite (reserve_last ts (length (tasks s)) (used s) (k - length (tasks s)) t E); [f_equal; lia| |].
      * apply reserves_spec; auto.
      * intros j t' Lt Ej Rt' Eq.
        destruct (Hts _ _ E) as (m & Em & ->). destruct (Hts _ _ Ej) as (m' & Em' & ->).
        rewrite !mk_task_id in *.
        apply mk_task_hasctx, pre_err_none in Hc as [Z|[_ Z]]; [congruence|].
        pose proof (count_bytes_two (fix_id (j_id m)) ids _ _ Lt (Hids _ _ Em)) as Two.
        pose proof (Hids _ _ Em') as Ej'. rewrite Eq in Ej'. specialize (Two Ej'). lia.
Qed.

(* how the task-only labels act on reservations, the running flag and the queue *)
Lemma raw_taskonly_used s l s' os : inv s -> taskonly_label l = true -> step_raw s l = Some (s', os) ->
  length (tasks s') = length (tasks s) /\
  ((used s' = used s /\ running s' = running s /\ inq s' = inq s) \/
   (used s' = [] /\ running s' = false /\ inq s' = stop_queue (inq s))).
Proof.
  intros I Tl H. destruct l; try discriminate Tl; unfold step_raw in H.
  - destruct (find_idx _ 0 (tasks s)) as [k|]; [|discriminate].
    destruct (nth_error (tasks s) k) as [t|]; [|discriminate]. injection H as <- <-. cbn.
    rewrite upd_nth_length. auto.
  - destruct (nth_error (tasks s) k) as [t|]; [|discriminate].
    destruct (t_st t); try discriminate.
    destruct (negb (unit_running s t)); [discriminate|].
    destruct (t_cancelled t); [injection H as <- <-; cbn; rewrite upd_nth_length; auto|].
    destruct (sem_free s); [injection H as <- <-; cbn; rewrite upd_nth_length; auto|].
    destruct (sem_wait s); [|injection H as <- <-; cbn; rewrite upd_nth_length; auto].
    destruct (t_builtin t); injection H as <- <-; cbn; rewrite upd_nth_length; auto.
  - destruct (nth_error (tasks s) k) as [t|] eqn:E; [|discriminate].
    destruct (t_st t) eqn:St; try discriminate.
    set (s1 := set_task k (fun t => t <| t_st := TDone (body_of_outcome t o) |>) s <| sem_free ::= S |>) in *.
    assert (W1 : wait_ok s1).
    { unfold wait_ok, s1; cbn. apply wait_ok_upd; [apply I|]. eapply wait_not_in; eauto; [apply I|congruence]. }
    pose proof (grant_spec (S (length (sem_wait s1))) s1 [] W1) as G.
    destruct (grant (S (length (sem_wait s1))) s1 []) as [s2 os2]. cbn [fst snd] in G.
    destruct G as [_ _ L2 (_ & _ & _ & _ & Rn & _ & Iq & _) U2 _ _ _].
    assert (L1 : length (tasks s1) = length (tasks s)) by (unfold s1; cbn; apply upd_nth_length).
    destruct (is_note t); [destruct (nbar s2)|]; injection H as <- <-; cbn; split; try congruence; left; auto.
  - destruct (find_op n (ops s)) as [[n0|n0 id|n0 w m p]|]; try discriminate.
    destruct (stop_locked SCStop (s <| ops ::= del_op n |>)) as [s1 os1] eqn:St. injection H as <- <-.
    apply stop_locked_spec in St as [(_ & -> & _)|(_ & _ & P)]; auto. destruct P. cbn in *. auto.
  - destruct (find_op n (ops s)) as [[n0|n0 id|n0 w m p]|]; try discriminate.
    injection H as <- <-. destruct (assoc id _); auto.
    destruct (cancel_task_env n1 (s <| ops ::= del_op n |>)) as (_ & _ & _ & _ & Rn & _ & Iq & _).
    rewrite cancel_task_len, cancel_task_used. auto.
Qed.

(* the reservations are dropped by deliver for exactly the answered context-carrying calls *)
Lemma used_deliver s u s' os : inv s -> inv_used s -> crash s = None ->
  step_raw s (LRelDeliver u) = Some (s', os) -> inv_used s'.
Proof.
  intros I [A B C] Cr H. unfold step_raw in H.
  destruct (nth_error (units s) u) as [un|] eqn:E; [|discriminate].
  destruct (u_st un) eqn:Su; try discriminate.
  destruct (release_ids_spec (unit_tasks s u) s) as [_ X L (Eu & _ & _ & _ & Rn & _ & _ & Ecr & _) _ U _].
  set (s1 := release_ids (unit_tasks s u) s) in *.
  assert (A1 : forall id k, In (id, k) (used s1) ->
      exists t t', nth_error (tasks s) k = Some t /\ nth_error (tasks s1) k = Some t' /\ task_le t t' /\
                   t_id t = id /\ id <> [] /\ t_hasctx t = true /\ unit_unfinished s t /\ t_unit t <> u).
  { intros id k Hin. pose proof Hin as Hin0. rewrite U in Hin. apply in_rel_used in Hin.
    destruct (A _ _ Hin) as (t & Et & Ei & Ni & Hc & Uf).
    destruct (X _ _ Et) as (t' & Et' & Le). exists t, t'.
    split; [auto|]. split; [auto|]. split; [auto|]. split; [auto|]. split; [auto|]. split; [auto|]. split; [auto|].
    intros Eq. assert (G : assoc id (used s1) = None).
    { rewrite U, <- Ei. apply assoc_rel_used_gone; auto.
      - unfold unit_tasks. apply filter_In. split; [eapply nth_error_In; eauto|]. apply Nat.eqb_eq; auto.
      - unfold is_note. apply is_nil_false. congruence. }
    apply assoc_none in G. apply G. apply in_map_iff. exists (id, k). auto. }
  assert (B1 : NoDup (map fst (used s1))) by (rewrite U; apply nodup_rel_used; auto).
  destruct (u_chok un); cbn in H; injection H as <- <-.
  - constructor; cbn; auto.
    + intros id k Hin. destruct (A1 _ _ Hin) as (t & t' & Et & Et' & Le & Ei & Ni & Hc & (un0 & Eu0 & Su0) & Nu).
      destruct Le as [Lu Li Lm Lp Lpre Lc Lb Lcan Lst]. exists t'. repeat split; auto; try congruence.
      unfold unit_unfinished; cbn. exists un0. rewrite Lu, Eu, nth_error_upd_nth_neq; auto.
    + intros R _ k t' Et' Hc Ni (un0 & Eu0 & Su0).
      destruct (back_task _ _ _ _ X L Et') as (t & Et & Le).
      destruct Le as [Lu Li Lm Lp Lpre Lc Lb Lcan Lst].
      cbn in Eu0. rewrite Eu, nth_error_upd_nth in Eu0.
      destruct (Nat.eqb_spec u (t_unit t')) as [Eq|Nu].
      { rewrite <- Eq, E in Eu0. cbn in Eu0. injection Eu0 as <-. cbn in Su0. congruence. }
      assert (As : assoc (t_id t) (used s) = Some k).
      { apply C; auto; try congruence. exists un0. rewrite <- Lu. auto. }
      rewrite U, Li, assoc_rel_used_keep; auto.
      intros t0 I0 Hc0 Nn0 Eq. unfold unit_tasks in I0. apply filter_In in I0 as [I0 Eu1]. apply Nat.eqb_eq in Eu1.
      apply In_nth_error in I0 as [k0 E0].
      assert (As0 : assoc (t_id t0) (used s) = Some k0).
      { apply C; auto; try congruence.
        exists un. rewrite Eu1. split; auto. congruence. }
      rewrite Eq, As in As0. injection As0 as <-. rewrite Et in E0. injection E0 as <-. congruence.
  - constructor; cbn; auto; [|discriminate].
    intros id k Hin. destruct (A1 _ _ Hin) as (t & t' & Et & Et' & Le & Ei & Ni & Hc & (un0 & Eu0 & Su0) & Nu).
    destruct Le as [Lu Li Lm Lp Lpre Lc Lb Lcan Lst]. exists t'. repeat split; auto; try congruence.
    unfold unit_unfinished; cbn. exists un0. rewrite Lu, Eu. auto.
Qed.

Lemma used_refl_step s s' : inv_used s -> used s' = used s -> tasks s' = tasks s -> units s' = units s ->
  (running s' = true -> crash s' = None -> running s = true /\ crash s = None) -> inv_used s'.
Proof.
  intros Iu U T Un RC. eapply used_same_step; eauto; rewrite T; auto. apply tasks_ext_refl.
Qed.

Lemma used_raw s l s' os : inv s -> inv2 s -> inv_used s -> crash s = None ->
  step_raw s l = Some (s', os) -> inv_used s'.
Proof.
  intros I I2 Iu Cr H. destruct (frame_label l) eqn:Fl.
  { apply step_raw_frame in H as (C & Cr' & _); auto. unfold core in C. injection C as T U Us W F D R G Rn B.
    eapply used_refl_step; eauto; intros; split; congruence. }
  destruct (taskonly_label l) eqn:Tl.
  { destruct (raw_taskonly_used _ _ _ _ I Tl H) as (L & [(U & Rn & _)|(U & Rn & _)]).
    - destruct (raw_taskonly _ _ _ _ I Tl H) as (Un & _).
      destruct (raw_step_ok _ _ _ _ I H) as [_ [X _]].
      eapply used_same_step; eauto; intros; split; congruence.
    - apply used_empty_step; auto. }
  destruct l; try discriminate Fl; try discriminate Tl.
  - (* LStart *)
    unfold step_raw in H. destruct (negb (running s) && (wg s =? 0)) eqn:C; [|discriminate]. injection H as <- <-.
    apply andb_true_iff in C as [_ C]. apply Nat.eqb_eq in C. destruct Iu as [A B _].
    constructor; cbn; auto. intros _ _ k t E Hc Ni (un & Eu & Su).
    exfalso. apply Su. eapply wg0_all_finished; eauto.
  - (* LRelRead *)
    unfold step_raw in H. destruct (rd s) as [| |f|] eqn:R; try discriminate. injection H as H.
    destruct f as [i|i|c].
    3:{ cbn in H. destruct (stop_locked c s) as [s1 os1] eqn:St. injection H as <- <-.
        apply stop_locked_spec in St as [(_ & -> & _)|(_ & _ & P)].
        - eapply used_refl_step; eauto.
        - destruct P. apply used_empty_step; cbn; auto. }
    all: destruct (running s) eqn:Rn;
      [ eapply read_cs_msg in H as (C & _); eauto; unfold core0 in C; injection C as T U Us W F D Gw Rn' Bn;
        eapply used_refl_step; eauto; intros; split; congruence
      | cbn in H; rewrite Rn in H; cbn in H; injection H as <- <-; eapply used_refl_step; eauto ].
  - (* LRelNext *)
    unfold step_raw in H. destruct (dp s); try discriminate. injection H as <- <-. apply used_dequeue; auto.
  - (* LRelBarrier *)
    unfold step_raw in H. destruct (dp s); try discriminate. injection H as <- <-. eapply used_refl_step; eauto.
  - eapply used_deliver; eauto.
Qed.

Lemma used_settle s s' os : inv s -> inv_used s -> settle1 s = Some (s', os) -> inv_used s'.
Proof.
  intros I Iu H. apply settle1_inv in H. destruct H.
  - eapply used_refl_step; eauto.
  - apply used_dequeue; auto.
  - destruct (i_dp _ I u (or_intror H)) as (un' & E' & S'). rewrite H1 in E'. injection E' as <-.
    eapply (used_unit_step s _ u URunning un); eauto; try discriminate; try congruence.
  - apply find_unit_some in H as (un' & E' & C & _). rewrite Nat.sub_0_r, H0 in E'. injection E' as <-.
    apply unit_complete_inv in C as [Su Fin].
    eapply (used_unit_step s _ i UFinished un); eauto; try congruence.
    intros _. apply responses_nil_notes; auto.
  - apply find_unit_some in H as (un' & E' & C & _). rewrite Nat.sub_0_r, H0 in E'. injection E' as <-.
    apply unit_complete_inv in C as [Su Fin].
    eapply (used_unit_step s _ i UAtDeliver un); eauto; try congruence; try discriminate.
  - eapply used_refl_step; eauto.
  - eapply used_refl_step; eauto. cbn. intros; discriminate.
Qed.

Theorem reachf_inv_used c s : reachf c s -> inv_used s.
Proof.
  induction 1.
  - constructor; cbn; try tauto; [constructor|discriminate].
  - eapply used_raw; eauto; [eapply reachf_inv|eapply reachf_inv2]; eauto.
  - eapply used_settle; eauto. eapply reachf_inv; eauto.
Qed.

(** * While the server is stopped nothing is reserved and only id-less notifications are queued *)
Definition notes_only (q : list (bool * list jmsg)) : Prop :=
  Forall (fun bm => Forall (fun m => fix_id (j_id m) = []) (snd bm)) q.
Definition inv_idle (s : state) : Prop := running s = false -> used s = [] /\ notes_only (inq s).

Lemma stop_queue_notes q : notes_only (stop_queue q).
Proof.
  unfold notes_only, stop_queue. apply Forall_forall. intros bm Hin.
  apply in_concat in Hin as (l & Hl & Hin). apply in_map_iff in Hl as (bm0 & <- & _).
  apply in_map_iff in Hin as (m & <- & Hm). apply filter_In in Hm as [_ Hk]. cbn.
  constructor; [|constructor]. unfold keep_note, is_notification in Hk.
  apply andb_true_iff in Hk as [Hk _]. apply andb_true_iff in Hk as [_ Hk]. apply beq_eq in Hk. auto.
Qed.

Lemma reserve_notes ts : forall base us, (forall t, In t ts -> t_id t = []) -> reserve base ts us = us.
Proof.
  induction ts as [|a r IH]; cbn; intros base us H; auto.
  rewrite (H a (or_introl eq_refl)). cbn. rewrite andb_false_r. apply IH. auto.
Qed.

Lemma rel_used_nil ts : rel_used ts [] = [].
Proof. induction ts as [|a r IH]; cbn; auto. destruct (t_hasctx a && negb (is_note a)); auto. Qed.

Lemma idle_same s s' : inv_idle s -> (running s' = false -> running s = false /\ used s' = used s /\ inq s' = inq s) ->
  inv_idle s'.
Proof. intros Ii H R. destruct (H R) as (R0 & U & Q). rewrite U, Q. auto. Qed.

Lemma idle_dequeue s : inv_idle s -> inv_idle (dequeue s).
Proof.
  intros Ii. unfold dequeue. destruct (inq s) as [|[batch ms] q] eqn:Q.
  - destruct (running s) eqn:R; intros R'; cbn in *; [congruence|]. rewrite Q. destruct (Ii R) as [U _].
    split; auto. constructor.
  - intros R. cbn in *. destruct (Ii R) as [U N]. rewrite Q in N.
    pose proof (Forall_inv N) as Hx. pose proof (Forall_inv_tail N) as Hl. cbn in Hx. split; auto.
    rewrite U. apply reserve_notes. intros t Ht. apply in_map_iff in Ht as (m & <- & Hm).
    rewrite mk_task_id. rewrite Forall_forall in Hx. auto.
Qed.

Lemma idle_raw s l s' os : inv s -> inv_idle s -> step_raw s l = Some (s', os) -> inv_idle s'.
Proof.
  intros I Ii H. destruct (frame_label l) eqn:Fl.
  { apply step_raw_frame in H as (C & _ & Q); auto. unfold core in C. injection C as T U Us W F D R G Rn B.
    apply (idle_same s); auto. intros; repeat split; congruence. }
  destruct (taskonly_label l) eqn:Tl.
  { destruct (raw_taskonly_used _ _ _ _ I Tl H) as (L & [(U & Rn & Q)|(U & Rn & Q)]).
    - apply (idle_same s); auto. intros; repeat split; congruence.
    - intros _. rewrite U, Q. split; auto. apply stop_queue_notes. }
  destruct l; try discriminate Fl; try discriminate Tl; unfold step_raw in H.
  - destruct (negb (running s) && (wg s =? 0)); [|discriminate]. injection H as <- <-. intros R. discriminate.
  - destruct (rd s) as [| |f|] eqn:R; try discriminate. injection H as H.
    destruct f as [i|i|c].
    3:{ cbn in H. destruct (stop_locked c s) as [s1 os1] eqn:St. injection H as <- <-.
        apply stop_locked_spec in St as [(_ & -> & _)|(_ & _ & P)].
        - apply (idle_same s); auto.
        - destruct P. intros _. cbn. rewrite sp_used, sp_inq. split; auto. apply stop_queue_notes. }
    all: destruct (running s) eqn:Rn;
      [ eapply read_cs_msg in H as (C & _); eauto; unfold core0 in C; injection C as T U Us W F D Gw Rn' Bn;
        intros R'; congruence
      | cbn in H; rewrite Rn in H; cbn in H; injection H as <- <-; apply (idle_same s); auto ].
  - destruct (dp s); try discriminate. injection H as <- <-. apply idle_dequeue; auto.
  - destruct (dp s); try discriminate. injection H as <- <-. apply (idle_same s); auto.
  - destruct (nth_error (units s) u) as [un|] eqn:E; [|discriminate].
    destruct (u_st un) eqn:Su; try discriminate.
    destruct (release_ids_spec (unit_tasks s u) s) as [_ _ _ (_ & _ & _ & _ & Rn & _ & Q & _) _ U _].
    set (s1 := release_ids (unit_tasks s u) s) in *.
    destruct (u_chok un); cbn in H; injection H as <- <-; intros R; cbn in *;
      rewrite Rn in R; destruct (Ii R) as [U0 N]; rewrite U, U0, Q, rel_used_nil; auto.
Qed.

Lemma idle_settle s s' os : inv_idle s -> settle1 s = Some (s', os) -> inv_idle s'.
Proof.
  intros Ii H. apply settle1_inv in H. destruct H; try (apply (idle_same s); auto; fail).
  apply idle_dequeue; auto.
Qed.

Theorem reachf_inv_idle c s : reachf c s -> inv_idle s.
Proof.
  induction 1.
  - intros _. cbn. split; auto. constructor.
  - eapply idle_raw; eauto. eapply reachf_inv; eauto.
  - eapply idle_settle; eauto.
Qed.

(** * C07.1: an id is reserved exactly from dequeue to deliver *)
Theorem c07_inv_used c s : reach c s ->
  (forall id k, In (id, k) (used s) ->
     exists t un, nth_error (tasks s) k = Some t /\ t_id t = id /\ id <> [] /\ t_hasctx t = true /\
                  nth_error (units s) (t_unit t) = Some un /\ u_st un <> UFinished) /\
  NoDup (map fst (used s)) /\
  (running s = true -> crash s = None ->
   forall k t un, nth_error (tasks s) k = Some t -> t_hasctx t = true -> t_id t <> [] ->
     nth_error (units s) (t_unit t) = Some un -> u_st un <> UFinished -> assoc (t_id t) (used s) = Some k) /\
  (running s = false -> used s = []).
Proof.
  intros R. apply reach_reachf in R. destruct (reachf_inv_used _ _ R) as [A B C].
  split; [|split; [|split]]; auto.
  - intros id k Hin. destruct (A _ _ Hin) as (t & E & Ei & Ni & Hc & un & Eu & Su). exists t, un. repeat split; auto.
  - intros Rn Cr k t un E Hc Ni Eu Su. apply C; auto. exists un. auto.
  - intros Rn. apply (reachf_inv_idle _ _ R Rn).
Qed.


(* C07.1 split: the direction "reserved => in flight" at full strength ... *)
Theorem c07_reserved_inflight c s : reach c s ->
  (forall id k, In (id, k) (used s) ->
     exists t un, nth_error (tasks s) k = Some t /\ t_id t = id /\ id <> [] /\ t_hasctx t = true /\
                  nth_error (units s) (t_unit t) = Some un /\ u_st un <> UFinished) /\
  NoDup (map fst (used s)) /\
  (running s = false -> used s = []).
Proof. intros R. destruct (c07_inv_used c s R) as (A & B & _ & D). auto. Qed.

(* ... and the converse "in flight => reserved under its own index" for states that have not crashed.
   FULL STATEMENT (not proved): the same without the hypothesis [crash s = None].  Missing: the invariant that a
   unit dequeued while the server was stopped (u_chok = false) cannot be unfinished while running = true
   (a restart needs wg = 0, i.e. all units finished), which excludes the only crash (CrNilChannel in deliver,
   after release_ids) that separates [used] from the unfinished units. *)
Theorem c07_inflight_reserved_partial c s : reach c s -> running s = true -> crash s = None ->
  forall k t un, nth_error (tasks s) k = Some t -> t_hasctx t = true -> t_id t <> [] ->
    nth_error (units s) (t_unit t) = Some un -> u_st un <> UFinished -> assoc (t_id t) (used s) = Some k.
Proof. intros R. destruct (c07_inv_used c s R) as (_ & _ & C & _). exact C. Qed.

(** * C07.2: who can cancel a context *)
Lemma find_op_some n l o : find_op n l = Some o -> In o l /\ op_num o = n.
Proof. unfold find_op. intros H. apply find_some in H as [I E]. apply Nat.eqb_eq in E. auto. Qed.

Inductive cancel_cause (s : state) (k : nat) (t : task) : label -> Prop :=
| CC_cancel n id : find_op n (ops s) = Some (OpCancel n id) -> assoc id (used s) = Some k -> t_id t = id ->
    cancel_cause s k t (LRelCancel n)
| CC_stop n : cancel_cause s k t (LRelStop n)
| CC_read_err e : rd s = RHold (FErr e) -> cancel_cause s k t LRelRead
| CC_deliver : cancel_cause s k t (LRelDeliver (t_unit t)).

Lemma cancel_targets_raw c s l s1 os k t t' : reachf c s -> crash s = None -> step_raw s l = Some (s1, os) ->
  nth_error (tasks s) k = Some t -> nth_error (tasks s1) k = Some t' ->
  t_cancelled t = false -> t_cancelled t' = true -> cancel_cause s k t l.
Proof.
  intros R Cr H E E' C0 C1.
  pose proof (reachf_inv _ _ R) as I. pose proof (reachf_inv_used _ _ R) as Iu.
  pose proof (reachf_inv_idle _ _ R) as Ii.
  assert (Same : tasks s1 = tasks s -> cancel_cause s k t l).
  { intros T. rewrite T, E in E'. injection E' as <-. congruence. }
  destruct (frame_label l) eqn:Fl.
  { apply step_raw_frame in H as (C & _); auto. unfold core in C. injection C as T _. auto. }
  destruct l; try discriminate Fl; unfold step_raw in H.
  - destruct (negb (running s) && (wg s =? 0)); [|discriminate]. injection H as <- <-. auto.
  - destruct (find_idx _ 0 (tasks s)) as [j|]; [|discriminate].
    destruct (nth_error (tasks s) j) as [tj|] eqn:Ej; [|discriminate]. injection H as <- <-.
    cbn in E'. rewrite nth_error_upd_nth, E in E'. destruct (j =? k); cbn in E'; injection E' as <-; cbn in C1; congruence.
  - destruct (rd s) as [| |f|] eqn:Rd; try discriminate. injection H as H.
    destruct f as [i|i|e]; [| |eapply CC_read_err; eauto].
    all: destruct (running s) eqn:Rn;
      [ eapply read_cs_msg in H as (C & _); eauto; unfold core0 in C; injection C as T _; auto
      | cbn in H; rewrite Rn in H; cbn in H; injection H as <- <-; auto ].
  - destruct (dp s); try discriminate. injection H as <- <-.
    unfold dequeue in E'.
    destruct (inq s) as [|[b ms] q]; [destruct (running s); cbn in E'; rewrite E in E'; injection E' as <-; congruence|].
    cbn in E'. rewrite (nth_error_app_old _ _ _ _ E) in E'. injection E' as <-. congruence.
  - destruct (dp s); try discriminate. injection H as <- <-. auto.
  - destruct (nth_error (tasks s) k0) as [tj|] eqn:Ej; [|discriminate].
    destruct (t_st tj); try discriminate.
    destruct (negb (unit_running s tj)); [discriminate|].
    assert (Q : forall x, nth_error (upd_nth k0 (fun t => t <| t_st := x |>) (tasks s)) k = Some t' -> False).
    { intros x Q. rewrite nth_error_upd_nth, E in Q. destruct (k0 =? k); cbn in Q; injection Q as <-; cbn in C1; congruence. }
    destruct (t_cancelled tj); [injection H as <- <-; destruct (Q _ E')|].
    destruct (sem_free s); [injection H as <- <-; destruct (Q _ E')|].
    destruct (sem_wait s); [|injection H as <- <-; destruct (Q _ E')].
    destruct (t_builtin tj); injection H as <- <-; destruct (Q _ E').
  - destruct (nth_error (tasks s) k0) as [tj|] eqn:Ej; [|discriminate].
    destruct (t_st tj) eqn:St; try discriminate.
    set (s0 := set_task k0 (fun t => t <| t_st := TDone (body_of_outcome t o) |>) s <| sem_free ::= S |>) in *.
    assert (W0 : wait_ok s0).
    { unfold wait_ok, s0; cbn. apply wait_ok_upd; [apply I|]. eapply wait_not_in; eauto; [apply I|congruence]. }
    pose proof (grant_spec (S (length (sem_wait s0))) s0 [] W0) as G.
    destruct (grant (S (length (sem_wait s0))) s0 []) as [s2 os2]. cbn [fst snd] in G.
    assert (E2 : nth_error (tasks s2) k = Some t').
    { destruct (is_note tj); [destruct (nbar s2)|]; injection H as <- <-; exact E'. }
    assert (E0 : exists t0, nth_error (tasks s0) k = Some t0 /\ t_cancelled t0 = false).
    { unfold s0; cbn. rewrite nth_error_upd_nth, E. destruct (k0 =? k); cbn; eauto. }
    destruct E0 as (t0 & E0 & C00). rewrite (gp_canc _ _ _ _ G _ _ _ E0 E2) in C1. congruence.
  - destruct (nth_error (units s) u) as [un|] eqn:Eu; [|discriminate].
    destruct (u_st un) eqn:Su; try discriminate.
    destruct (release_ids_spec (unit_tasks s u) s) as [_ _ _ (_ & _) _ _ Cn].
    set (s0 := release_ids (unit_tasks s u) s) in *.
    assert (E0 : nth_error (tasks s0) k = Some t').
    { destruct (u_chok un); cbn in H; injection H as <- <-; exact E'. }
    destruct (Cn _ _ _ E E0 C0 C1) as (t0 & I0 & Hc0 & Nn0 & As0).
    destruct (running s) eqn:Rn.
    2:{ destruct (Ii Rn) as [U0 _]. rewrite U0 in As0. discriminate. }
    unfold unit_tasks in I0. apply filter_In in I0 as [I0 Eu0]. apply Nat.eqb_eq in Eu0.
    apply In_nth_error in I0 as [k1 E1].
    assert (As1 : assoc (t_id t0) (used s) = Some k1).
    { apply (iu_rec _ Iu); auto.
      - apply is_nil_false. exact Nn0.
      - exists un. rewrite Eu0. split; auto. congruence. }
    rewrite As0 in As1. injection As1 as <-. rewrite E in E1. injection E1 as <-.
    rewrite <- Eu0. apply CC_deliver.
  - apply CC_stop.
  - destruct (find_op n (ops s)) as [[n0|n0 id|n0 w m p]|] eqn:Fo; try discriminate.
    injection H as <- <-. cbn in E'.
    destruct (assoc id (used s)) as [owner|] eqn:As; [|cbn in E'; rewrite E in E'; injection E' as <-; congruence].
    destruct (Nat.eq_dec k owner) as [->|N].
    + apply find_op_some in Fo as Fo'. destruct Fo' as [_ Fn]. cbn in Fn. subst n0.
      eapply CC_cancel; eauto.
      apply assoc_in in As. destruct (iu_in _ Iu _ _ As) as (t1 & E1 & Ei & _). congruence.
    + rewrite cancel_task_other in E' by auto. cbn in E'. rewrite E in E'. injection E' as <-. congruence.
Qed.

Theorem c07_cancel_targets c s l s' os k t t' : reach c s -> step s l = Some (s', os) ->
  nth_error (tasks s) k = Some t -> nth_error (tasks s') k = Some t' ->
  t_cancelled t = false -> t_cancelled t' = true -> cancel_cause s k t l.
Proof.
  intros R H E E' C0 C1. apply reach_reachf in R.
  apply step_decompose in H as (Cr & s1 & os1 & Hr & [(_ & -> & _)|(_ & Hs)]).
  - eapply cancel_targets_raw; eauto.
  - apply settle_keeps in Hs.
    destruct (raw_step_ok _ _ _ _ (reachf_inv _ _ R) Hr) as [_ [X _]].
    destruct (X _ _ E) as (t1 & E1 & _). pose proof (Hs _ _ E1) as E1'. rewrite E' in E1'. injection E1' as ->.
    eapply cancel_targets_raw; eauto.
Qed.

Example c07_cancel_targets_nonvacuous :
  exists c s l s' os k t t', reach c s /\ step s l = Some (s', os) /\
    nth_error (tasks s) k = Some t /\ nth_error (tasks s') k = Some t' /\
    t_cancelled t = false /\ t_cancelled t' = true.
Proof.
  exists ex_cfg, (st_of ex_cfg (ex_tr_running ++ [LCallCancel 7 [49%N]])), (LRelCancel 7).
  eexists _, _, 0, _, _. split; [apply reach_st_of; vm_compute; discriminate|].
  compute. repeat split; reflexivity.
Qed.

(* the same for a delivery (its own) and for a stop *)
Example c07_cancel_by_deliver_nonvacuous :
  exists s s' os t t', reach ex_cfg s /\ step s (LRelDeliver 0) = Some (s', os) /\
    nth_error (tasks s) 0 = Some t /\ nth_error (tasks s') 0 = Some t' /\
    t_cancelled t = false /\ t_cancelled t' = true /\ t_unit t = 0.
Proof.
  exists (st_of ex_cfg ex_tr_atdeliver). eexists _, _, _, _.
  split; [apply reach_st_of; vm_compute; discriminate|]. compute. repeat split; reflexivity.
Qed.

Example c07_cancel_by_stop_nonvacuous :
  exists s s' os t t', reach ex_cfg s /\ step s (LRelStop 3) = Some (s', os) /\
    nth_error (tasks s) 0 = Some t /\ nth_error (tasks s') 0 = Some t' /\
    t_cancelled t = false /\ t_cancelled t' = true.
Proof.
  exists (st_of ex_cfg (ex_tr_running ++ [LCallStop 3])). eexists _, _, _, _.
  split; [apply reach_st_of; vm_compute; discriminate|]. compute. repeat split; reflexivity.
Qed.

Example c07_inv_used_nonvacuous :
  exists s, reach ex_cfg s /\ used s = [([49%N], 0)] /\ running s = true /\ crash s = None.
Proof.
  exists (st_of ex_cfg ex_tr_running). split; [apply reach_st_of; vm_compute; discriminate|].
  vm_compute. repeat split; reflexivity.
Qed.

(** * C07.3: CancelRequest for an id that is not reserved does nothing *)
Theorem c07_cancel_unknown_noop s n id :
  find_op n (ops s) = Some (OpCancel n id) -> assoc id (used s) = None ->
  step_raw s (LRelCancel n) = Some (s <| ops ::= del_op n |>, [ORet n AOk]).
Proof. intros F A. unfold step_raw. rewrite F. cbn. rewrite A. reflexivity. Qed.

(* at the level of a whole window: no task changes, and the call returns nil *)
Theorem c07_cancel_unknown_noop_step s n id s' os :
  find_op n (ops s) = Some (OpCancel n id) -> assoc id (used s) = None ->
  step s (LRelCancel n) = Some (s', os) ->
  (forall k t, nth_error (tasks s) k = Some t -> nth_error (tasks s') k = Some t) /\
  exists extra, os = ORet n AOk :: extra /\ Forall settle_obs extra.
Proof.
  intros F A H. apply step_decompose in H as (Cr & s1 & os1 & Hr & Hs).
  rewrite (c07_cancel_unknown_noop _ _ _ F A) in Hr. injection Hr as <- <-.
  destruct Hs as [(_ & -> & ->)|(_ & Hs)].
  - split; [intros k t E; exact E|]. exists []. split; auto.
  - split.
    + apply settle_keeps in Hs. intros k t E. apply Hs. exact E.
    + apply settle_obs_app in Hs as (extra & -> & Fa). exists extra. split; auto.
Qed.

Example c07_cancel_unknown_noop_nonvacuous :
  exists s n id, reach ex_cfg s /\ find_op n (ops s) = Some (OpCancel n id) /\ assoc id (used s) = None /\
                 used s <> [].
Proof.
  exists (st_of ex_cfg (ex_tr_running ++ [LCallCancel 7 [50%N]])), 7, [50%N].
  split; [apply reach_st_of; vm_compute; discriminate|]. vm_compute. repeat split; try reflexivity. discriminate.
Qed.

(** * C07.4: a duplicate id is rejected without disturbing the call that owns it *)
Definition msg_ids (ms : list jmsg) : list bytes := map (fun m => fix_id (j_id m)) ms.

Lemma pre_err_dup s ids m : fix_id (j_id m) <> [] ->
  assoc (fix_id (j_id m)) (used s) <> None \/ 2 <= count_bytes (fix_id (j_id m)) ids ->
  pre_err s ids m = Some err_dup.
Proof.
  intros Ni D. unfold pre_err. apply is_nil_false in Ni. rewrite Ni. cbn [negb andb].
  destruct (assoc (fix_id (j_id m)) (used s)) eqn:A; cbn [orb]; auto.
  destruct D as [D|D]; [congruence|]. apply Nat.ltb_lt in D. rewrite D. auto.
Qed.

Theorem c07_duplicate_rejected s batch ms q i m :
  inq s = (batch, ms) :: q -> nth_error ms i = Some m ->
  fix_id (j_id m) <> [] ->
  assoc (fix_id (j_id m)) (used s) <> None \/ 2 <= count_bytes (fix_id (j_id m)) (msg_ids ms) ->
  exists t, nth_error (tasks (dequeue s)) (length (tasks s) + i) = Some t /\
    t_id t = fix_id (j_id m) /\ t_pre t = Some err_dup /\ t_hasctx t = false /\ t_st t = TSkip /\
    assoc (fix_id (j_id m)) (used (dequeue s)) = assoc (fix_id (j_id m)) (used s) /\
    (forall k t0, nth_error (tasks s) k = Some t0 -> nth_error (tasks (dequeue s)) k = Some t0).
Proof.
  intros Q Em Ni D. unfold dequeue. rewrite Q. cbn.
  fold (msg_ids ms). set (u := length (units s)). set (ids := msg_ids ms).
  exists (mk_task s u ids m).
  assert (Pm : forall m', fix_id (j_id m') = fix_id (j_id m) -> pre_err s ids m' = Some err_dup).
  { intros m' Eq. apply pre_err_dup; rewrite Eq; auto. }
  split; [|split; [apply mk_task_id|]].
  { rewrite nth_error_app2 by lia. replace (length (tasks s) + i - length (tasks s)) with i by lia.
    rewrite nth_error_map, Em. reflexivity. }
  unfold mk_task at 1 2 3. rewrite (Pm m eq_refl). cbn. repeat split; auto.
  - apply reserve_other. intros t It Rt Eq. apply in_map_iff in It as (m' & <- & _).
    rewrite mk_task_id in Eq. apply reserves_spec in Rt as [Hc _].
    apply mk_task_hasctx in Hc. rewrite (Pm m' Eq) in Hc. discriminate.
  - intros k t0 E. apply nth_error_app_old; auto.
Qed.

(* a request "1" is in flight, a second message [ "1", "1" ] is queued behind it *)
Definition ex_tr_dup : list label :=
  ex_tr_running ++ [LFeed (FMsg (InMsgs true [ex_call [49%N] []; ex_call [49%N] []; ex_call [50%N] []])); LRelRead].

Example c07_duplicate_rejected_nonvacuous :
  exists s batch ms q m, reach ex_cfg s /\ inq s = (batch, ms) :: q /\ nth_error ms 1 = Some m /\
    fix_id (j_id m) <> [] /\ assoc (fix_id (j_id m)) (used s) <> None /\ 2 <= count_bytes (fix_id (j_id m)) (msg_ids ms).
Proof.
  (* the dispatcher is parked before nextRequest: the queue holds the second message *)
  exists (st_of ex_cfg ([LStart; LFeed (FMsg (InMsgs false [ex_call [49%N] [91;93]%N])); LRelRead; LRelNext; LRelBarrier;
                         LFeed (FMsg (InMsgs true [ex_call [49%N] []; ex_call [49%N] []; ex_call [50%N] []])); LRelRead])).
  eexists _, _, _, _. split; [apply reach_st_of; vm_compute; discriminate|].
  compute. repeat split; try reflexivity; try discriminate; lia.
Qed.

(** * C07.5: after the reply has been delivered the id can be used again *)
Theorem c07_released_by_deliver s u s1 os t :
  step_raw s (LRelDeliver u) = Some (s1, os) -> In t (unit_tasks s u) -> t_hasctx t = true -> t_id t <> [] ->
  assoc (t_id t) (used s1) = None.
Proof.
  intros H It Hc Ni. unfold step_raw in H.
  destruct (nth_error (units s) u) as [un|]; [|discriminate].
  destruct (u_st un); try discriminate.
  destruct (release_ids_spec (unit_tasks s u) s) as [_ _ _ _ _ U _].
  assert (G : assoc (t_id t) (used (release_ids (unit_tasks s u) s)) = None).
  { rewrite U. apply assoc_rel_used_gone; auto. apply is_nil_false; auto. }
  destruct (u_chok un); cbn in H; injection H as <- <-; exact G.
Qed.

(* an id that is not reserved and not repeated within its message passes the duplicate check; a valid
   request for a known method is then given a context and parked before the semaphore *)
Theorem c07_accept_unreserved s u ids m b :
  assoc (fix_id (j_id m)) (used s) = None -> count_bytes (fix_id (j_id m)) ids <= 1 -> j_err m = None ->
  pre_err s ids m = None /\
  (j_method m <> [] -> assign_method s (j_method m) = Some b ->
   let t := mk_task s u ids m in t_pre t = None /\ t_hasctx t = true /\ t_st t = TAtAcquire).
Proof.
  intros A C E.
  assert (P : pre_err s ids m = None).
  { unfold pre_err. rewrite A, E. apply Nat.ltb_ge in C. rewrite C. cbn. rewrite andb_false_r. auto. }
  split; auto. intros Nm Am. unfold mk_task. rewrite P. apply is_nil_false in Nm. rewrite Nm, Am. cbn. auto.
Qed.

Theorem c07_reusable_after_reply s u s1 os t ids m :
  step_raw s (LRelDeliver u) = Some (s1, os) -> In t (unit_tasks s u) -> t_hasctx t = true -> t_id t <> [] ->
  fix_id (j_id m) = t_id t -> count_bytes (t_id t) ids <= 1 -> j_err m = None ->
  pre_err s1 ids m = None.
Proof.
  intros H It Hc Ni Eq C E.
  apply (c07_accept_unreserved s1 0 ids m true); auto; rewrite Eq; auto.
  eapply c07_released_by_deliver; eauto.
Qed.

Example c07_reusable_after_reply_nonvacuous :
  exists s s1 os t, reach ex_cfg s /\ step_raw s (LRelDeliver 0) = Some (s1, os) /\ In t (unit_tasks s 0) /\
    t_hasctx t = true /\ t_id t = [49%N] /\ assoc [49%N] (used s) = Some 0.
Proof.
  exists (st_of ex_cfg ex_tr_atdeliver). eexists _, _.
  exists (mkTask 0 [49%N] ex_m [91;93]%N None true false false (TDone (Some (BRes [50%N])))).
  split; [apply reach_st_of; vm_compute; discriminate|]. compute. repeat split; try reflexivity. left; reflexivity.
Qed.

(* end to end: the same id is used again after the reply and its handler starts *)
Example c07_reuse_run :
  exists s t, reach ex_cfg s /\ nth_error (tasks s) 1 = Some t /\ t_id t = [49%N] /\ t_pre t = None /\ t_st t = TRunning.
Proof.
  exists (st_of ex_cfg (ex_tr_delivered ++ [LFeed (FMsg (InMsgs false [ex_call [49%N] []])); LRelRead; LRelNext; LRelBarrier; LRelAcquire 1])).
  eexists. split; [apply reach_st_of; vm_compute; discriminate|]. compute. repeat split; reflexivity.
Qed.

(* C07.2 with the causes spelled out *)
Theorem c07_cancel_targets_explicit c s l s' os k t t' : reach c s -> step s l = Some (s', os) ->
  nth_error (tasks s) k = Some t -> nth_error (tasks s') k = Some t' ->
  t_cancelled t = false -> t_cancelled t' = true ->
  (exists n id, l = LRelCancel n /\ find_op n (ops s) = Some (OpCancel n id) /\ assoc id (used s) = Some k /\ t_id t = id)
  \/ (exists n, l = LRelStop n)
  \/ (l = LRelRead /\ exists e, rd s = RHold (FErr e))
  \/ l = LRelDeliver (t_unit t).
Proof.
  intros R H E E' C0 C1. destruct (c07_cancel_targets _ _ _ _ _ _ _ _ R H E E' C0 C1).
  - left. exists n, id. auto.
  - right. left. eauto.
  - right. right. left. eauto.
  - right. right. right. auto.
Qed.
