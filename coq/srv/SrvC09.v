(* C09: server push (Notify / Callback): gate, one request each, unique ids, matching,
   late replies inert, replies pass the barrier, exactly-once return.
   Proofs about SrvModel; the theorems are restated in props/C09.v. *)
From Coq Require Import List NArith ZArith Bool Arith Lia.
From RecordUpdate Require Import RecordUpdate.
From JV Require Import Bytes Msg SrvModel SrvLemmas.
Import ListNotations.

(** * Frame: the part of the state the push machinery (and the channel) lives in.
    Everything that is not a push / stop / start label leaves it alone. *)
Definition pv (s : state) :=
  (c_push s, running s, closes s, starts s, (calls s, call_id s, cbs s), (ops s, ended s, send_fail s)).

Lemma cancel_task_pv k s : pv (cancel_task k s) = pv s.
Proof.
  unfold cancel_task. destruct (nth_error (tasks s) k) as [t|]; auto.
  destruct (t_st t); reflexivity.
Qed.

Lemma grant_pv : forall fuel s acc s' os, grant fuel s acc = (s', os) -> pv s' = pv s.
Proof.
  induction fuel as [|f IH]; cbn; intros s acc s' os H.
  - injection H as <- <-; auto.
  - destruct (sem_wait s) as [|k r]; [injection H as <- <-; auto|].
    destruct (sem_free s) as [|fr]; [injection H as <- <-; auto|].
    destruct (nth_error (tasks s) k) as [t|]; [|injection H as <- <-; auto].
    destruct (t_builtin t); apply IH in H; rewrite H; reflexivity.
Qed.

Definition is_start_obs (o : obs) : Prop := match o with OStart _ _ => True | _ => False end.

Lemma grant_obs : forall fuel s acc s' os, grant fuel s acc = (s', os) ->
  exists extra, os = acc ++ extra /\ Forall is_start_obs extra.
Proof.
  induction fuel as [|f IH]; cbn; intros s acc s' os H.
  - injection H as <- <-. exists []. rewrite app_nil_r; auto.
  - destruct (sem_wait s) as [|k r]; [injection H as <- <-; exists []; rewrite app_nil_r; auto|].
    destruct (sem_free s) as [|fr]; [injection H as <- <-; exists []; rewrite app_nil_r; auto|].
    destruct (nth_error (tasks s) k) as [t|]; [|injection H as <- <-; exists []; rewrite app_nil_r; auto].
    destruct (t_builtin t).
    + apply IH in H; auto.
    + apply IH in H. destruct H as (ex & -> & F).
      exists (OStart (t_params t) (t_cancelled t) :: ex). rewrite <- app_assoc. split; auto.
      constructor; cbn; auto.
Qed.

Lemma dequeue_pv s : pv (dequeue s) = pv s.
Proof.
  unfold dequeue. destruct (inq s) as [|[b ms] q].
  - destruct (running s); reflexivity.
  - reflexivity.
Qed.

Lemma release_ids_pv : forall ts s, pv (release_ids ts s) = pv s.
Proof.
  induction ts as [|t r IH]; cbn; intros s; auto.
  rewrite IH.
  destruct (t_hasctx t && negb (is_note t)); auto.
  destruct (assoc (t_id t) (used s)); auto.
  change (pv (cancel_task n s) = pv s). apply cancel_task_pv.
Qed.

Lemma fold_cancel_pv : forall (l : list (bytes * nat)) s,
  pv (fold_left (fun st p => cancel_task (snd p) st) l s) = pv s.
Proof.
  induction l as [|p l IH]; cbn; intros s; auto. rewrite IH. apply cancel_task_pv.
Qed.

Lemma settle1_pv s s' os : settle1 s = Some (s', os) -> pv s' = pv s.
Proof.
  intros H. apply settle1_inv in H. destruct H; try reflexivity.
  apply dequeue_pv.
Qed.

Lemma settle_pv : forall fuel s acc s' os, settle fuel s acc = (s', os) -> pv s' = pv s.
Proof.
  induction fuel as [|f IH]; cbn; intros s acc s' os H.
  - injection H as <- <-; auto.
  - destruct (settle1 s) as [[s1 os1]|] eqn:E.
    + apply IH in H. rewrite H. eapply settle1_pv; eauto.
    + injection H as <- <-; auto.
Qed.

(* projections out of a [pv] equality *)
Lemma pv_fields s s' : pv s' = pv s ->
  c_push s' = c_push s /\ running s' = running s /\ closes s' = closes s /\ starts s' = starts s /\
  calls s' = calls s /\ call_id s' = call_id s /\ cbs s' = cbs s /\ ops s' = ops s /\ ended s' = ended s /\
  send_fail s' = send_fail s.
Proof. unfold pv. intros H. injection H; intros; repeat split; assumption. Qed.

(* labels that do not belong to the push / stop / start machinery *)
Definition neutral (l : label) : bool :=
  match l with
  | LFeed _ | LGate _ _ | LCallWait | LRelNext | LRelBarrier | LRelAcquire _ | LRelHandled _ | LRelDeliver _ => true
  | _ => false
  end.

Definition is_ret (o : obs) : Prop := match o with ORet _ _ => True | _ => False end.

Lemma set_task_pv k f s : pv (set_task k f s) = pv s.
Proof. reflexivity. Qed.
Lemma set_unit_pv k f s : pv (set_unit k f s) = pv s.
Proof. reflexivity. Qed.

Lemma step_raw_neutral s l s' os :
  neutral l = true -> step_raw s l = Some (s', os) -> pv s' = pv s /\ Forall (fun o => ~ is_ret o) os.
Proof.
  destruct l; cbn [neutral]; try discriminate; intros _; cbn [step_raw]; intros H.
  - (* LFeed *) injection H as <- <-. split; [reflexivity|constructor].
  - (* LGate *)
    destruct (find_idx _ 0 (tasks s)) as [k|]; [|discriminate].
    destruct (nth_error (tasks s) k) as [t|]; [|discriminate].
    injection H as <- <-. split; [reflexivity|repeat constructor; cbn; auto].
  - (* LCallWait *) injection H as <- <-. split; [reflexivity|constructor].
  - (* LRelNext *) destruct (dp s); try discriminate. injection H as <- <-. split; [apply dequeue_pv|constructor].
  - (* LRelBarrier *) destruct (dp s); try discriminate. injection H as <- <-. split; [reflexivity|constructor].
  - (* LRelAcquire *)
    destruct (nth_error (tasks s) k) as [t|]; [|discriminate].
    destruct (t_st t); try discriminate.
    destruct (negb (unit_running s t)); [discriminate|].
    destruct (t_cancelled t); [injection H as <- <-; split; [reflexivity|constructor]|].
    destruct (sem_free s) as [|fr]; [injection H as <- <-; split; [reflexivity|constructor]|].
    destruct (sem_wait s); [|injection H as <- <-; split; [reflexivity|constructor]].
    destruct (t_builtin t); injection H as <- <-; (split; [reflexivity|repeat constructor; cbn; auto]).
  - (* LRelHandled *)
    destruct (nth_error (tasks s) k) as [t|]; [|discriminate].
    destruct (t_st t); try discriminate.
    match type of H with context [grant ?f ?s1 []] => destruct (grant f s1 []) as [s2 os2] eqn:G end.
    pose proof (grant_pv _ _ _ _ _ G) as P. destruct (grant_obs _ _ _ _ _ G) as (ex & -> & F). cbn [app] in *.
    assert (NR : Forall (fun o => ~ is_ret o) ex).
    { eapply Forall_impl; [|exact F]. intros [] Hs; cbn in *; tauto. }
    destruct (is_note t).
    + destruct (nbar s2); injection H as <- <-; (split; [transitivity (pv s2); [reflexivity|rewrite P; reflexivity]|]); auto.
      apply Forall_app; split; auto.
    + injection H as <- <-. split; auto.
  - (* LRelDeliver *)
    destruct (nth_error (units s) u) as [un|]; [|discriminate].
    destruct (u_st un); try discriminate.
    pose proof (release_ids_pv (unit_tasks s u) s) as P.
    destruct (negb (u_chok un)); injection H as <- <-;
      (split; [transitivity (pv (release_ids (unit_tasks s u) s)); [reflexivity|exact P]|repeat constructor; cbn; auto]).
Qed.

(** * C09.1 the push gate *)
Lemma gate_push_off s n w m p :
  c_push s = false -> step_raw s (LCallPush n w m p) = Some (s, [ORet n APushUnsupported]).
Proof. intros H. cbn. rewrite H. reflexivity. Qed.

Lemma gate_conn_closed s n s' os :
  running s = false -> step_raw s (LRelPush n) = Some (s', os) ->
  s' = s <| ops ::= del_op n |> /\ os = [ORet n AConnClosed].
Proof.
  intros R. cbn [step_raw]. destruct (find_op n (ops s)) as [[| |n' w m p]|]; try discriminate.
  cbn. rewrite R. cbn. intros [= <- <-]. auto.
Qed.

(** * Characterisation of the helpers that touch the push state *)
Definition stop_cb (cl : list (bytes * nat)) (c : cb) : cb :=
  match assoc (cb_id c) cl with
  | Some _ => c <| cb_cancelled := true |> <| cb_watch := match cb_watch c with WBlocked => WParked | w => w end |>
  | None => c
  end.

Lemma stop_locked_spec sc s s' os :
  stop_locked sc s = (s', os) ->
  (running s = false /\ s' = s /\ os = []) \/
  (running s = true /\ os = [OClose] /\ running s' = false /\ closes s' = S (closes s) /\ starts s' = starts s /\
   c_push s' = c_push s /\ calls s' = calls s /\ call_id s' = call_id s /\ ops s' = ops s /\ ended s' = ended s /\
   send_fail s' = send_fail s /\ cbs s' = map (stop_cb (calls s)) (cbs s)).
Proof.
  unfold stop_locked. destruct (running s) eqn:R; cbn [negb].
  2:{ intros [= <- <-]. left; auto. }
  intros H. right. split; auto.
  match type of H with context [fold_left ?f ?l ?s3] =>
    pose proof (fold_cancel_pv l s3) as P; remember (fold_left f l s3) as s4 eqn:E4; clear E4 end.
  apply pv_fields in P. destruct P as (P1 & P2 & P3 & P4 & P5 & P6 & P7 & P8 & P9 & P10).
  destruct (work_closed s) eqn:W; cbn in P1, P2, P3, P4, P5, P6, P7, P8, P9, P10, H; rewrite ?W in *; cbn in *.
  all: destruct (c_unblock s4); injection H as <- <-; cbn; repeat split; auto.
Qed.

(** * List facts *)
Lemma NoDup_assoc_del {A} k (m : list (bytes * A)) : NoDup (map fst m) -> NoDup (map fst (assoc_del k m)).
Proof.
  induction m as [|[k' v] m IH]; cbn; auto.
  intros H. inversion H as [|? ? Hn Hd]; subst.
  destruct (beq k k'); auto. cbn. constructor; auto.
  intros I. apply Hn. apply in_map_iff in I as ([k2 v2] & E & I). cbn in E; subst.
  apply in_assoc_del in I as [I _]. apply in_map_iff. exists (k', v2); auto.
Qed.

Lemma NoDup_assoc {A} k (v : A) m : NoDup (map fst m) -> In (k, v) m -> assoc k m = Some v.
Proof.
  induction m as [|[k' v'] m IH]; cbn; [tauto|].
  intros H. inversion H as [|? ? Hn Hd]; subst.
  intros [E|I].
  - injection E as -> ->. rewrite beq_refl; auto.
  - destruct (beq_spec k k') as [->|N]; auto.
    exfalso. apply Hn. apply in_map_iff. exists (k', v); auto.
Qed.

Lemma in_assoc_del_intro {A} k (m : list (bytes * A)) p : In p m -> fst p <> k -> In p (assoc_del k m).
Proof.
  induction m as [|[k2 v2] m IH]; cbn; [tauto|].
  intros [<-|I] N; cbn in *.
  - destruct (beq_spec k k2); [congruence|cbn; auto].
  - destruct (beq k k2); cbn; auto.
Qed.

Lemma assoc_del_some {A} k k' (m : list (bytes * A)) v : assoc k' (assoc_del k m) = Some v -> assoc k' m = Some v /\ k <> k'.
Proof.
  intros H. destruct (beq_spec k k') as [->|N].
  - rewrite assoc_del_same in H; discriminate.
  - rewrite assoc_del_other in H; auto.
Qed.

Lemma upd_nth_upd_nth {A} n (f g : A -> A) l : upd_nth n f (upd_nth n g l) = upd_nth n (fun x => f (g x)) l.
Proof. revert n; induction l as [|x r IH]; intros [|n]; cbn; auto. f_equal; auto. Qed.

Lemma map_upd_nth_same {A B} (h : A -> B) n (f : A -> A) l :
  (forall x, h (f x) = h x) -> map h (upd_nth n f l) = map h l.
Proof. intros H. revert n; induction l as [|x r IH]; intros [|n]; cbn; auto; f_equal; auto. Qed.

Lemma nth_error_map_some {A B} (h : A -> B) l n y :
  nth_error (map h l) n = Some y -> exists x, nth_error l n = Some x /\ y = h x.
Proof.
  revert n; induction l as [|x r IH]; intros [|n]; cbn; try discriminate; eauto.
  intros [= <-]; eauto.
Qed.

(** * Decimal numerals are injective: a left inverse *)
Definition dec_step (a : nat) (d : N) : nat := 10 * a + N.to_nat (d - 48).
Definition nat_of_dec (b : bytes) : nat := fold_left dec_step b 0.

Lemma dec_digits_value : forall fuel n acc, n < fuel ->
  fold_left dec_step (dec_digits fuel n acc) 0 = fold_left dec_step acc n.
Proof.
  induction fuel as [|f IH]; intros n acc L; [lia|].
  cbn [dec_digits].
  assert (D : dec_step 0 (48 + N.of_nat (n mod 10))%N = n mod 10).
  { unfold dec_step. rewrite N.add_comm, N.add_sub, Nnat.Nat2N.id. lia. }
  pose proof (Nat.div_mod n 10 ltac:(lia)) as DM.
  destruct (Nat.eqb_spec (n / 10) 0) as [Z|Z].
  - cbn [fold_left]. rewrite D. f_equal. lia.
  - rewrite IH.
    + cbn [fold_left]. f_equal. unfold dec_step. rewrite N.add_comm, N.add_sub, Nnat.Nat2N.id. lia.
    + assert (n / 10 < n) by (apply Nat.div_lt; lia). lia.
Qed.

Lemma nat_of_dec_of_nat n : nat_of_dec (dec_of_nat n) = n.
Proof. unfold nat_of_dec, dec_of_nat. rewrite dec_digits_value; [reflexivity|lia]. Qed.

Lemma dec_of_nat_inj a b : dec_of_nat a = dec_of_nat b -> a = b.
Proof. intros H. rewrite <- (nat_of_dec_of_nat a), <- (nat_of_dec_of_nat b), H. reflexivity. Qed.

Example dec_of_nat_nonvacuous : dec_of_nat 0 = [48]%N /\ dec_of_nat 10 = [49; 48]%N /\ dec_of_nat 907 = [57; 48; 55]%N.
Proof. vm_compute. auto. Qed.

(** * The push invariant *)
(* what holds of a callback as long as it is registered in [calls] *)
Definition cb_ok (run : bool) (c : cb) : Prop :=
  cb_slot c = None /\ cb_ret c = false /\
  cb_watch c = (if cb_cancelled c then WParked else WBlocked) /\
  (cb_ctx c <> None -> cb_cancelled c = true) /\ (run = false -> cb_cancelled c = true).

Definition reg_ok (s : state) (k : bytes) (i : nat) : Prop :=
  exists c, nth_error (cbs s) i = Some c /\ cb_id c = k /\ cb_ok (running s) c.

Record inv_push (s : state) : Prop := {
  ip_ids : forall k i, In (k, i) (calls s) -> exists j, j < call_id s /\ k = dec_of_nat j;
  ip_nodup : NoDup (map fst (calls s));
  ip_reg : forall k i, In (k, i) (calls s) -> reg_ok s k i;
  ip_cbids : forall i c, nth_error (cbs s) i = Some c -> exists j, j < call_id s /\ cb_id c = dec_of_nat j;
  ip_cbnodup : NoDup (map cb_id (cbs s))
}.

(* the invariant as worded in the property: keys are numerals below the counter, pairwise
   distinct, and each maps to its own, still empty, callback record *)
Definition inv_calls (s : state) : Prop :=
  (forall k i, In (k, i) (calls s) -> exists j, j < call_id s /\ k = dec_of_nat j) /\
  NoDup (map fst (calls s)) /\
  (forall k i, In (k, i) (calls s) ->
     exists c, i < length (cbs s) /\ nth_error (cbs s) i = Some c /\ cb_id c = k /\ cb_slot c = None).

Lemma inv_push_calls s : inv_push s -> inv_calls s.
Proof.
  intros [H1 H2 H3 _ _]. repeat split; auto.
  intros k i I. destruct (H3 _ _ I) as (c & N & E & S & _). exists c. repeat split; auto.
  apply nth_error_Some. congruence.
Qed.

Lemma cb_ok_run r r' c : (r' = false -> r = false) -> cb_ok r c -> cb_ok r' c.
Proof. unfold cb_ok. intros H (A & B & C & D & E). repeat split; auto. Qed.

Lemma ip_frame s s' :
  calls s' = calls s -> cbs s' = cbs s -> call_id s' = call_id s -> (running s' = false -> running s = false) ->
  inv_push s -> inv_push s'.
Proof.
  intros E1 E2 E3 R [H1 H2 H3 H4 H5].
  split; rewrite ?E1, ?E2, ?E3; auto.
  intros k i I. destruct (H3 _ _ I) as (c & N & E & O). exists c. rewrite E2. split; [|split]; auto.
  eapply cb_ok_run; eauto.
Qed.

Lemma ip_pv s s' : pv s' = pv s -> inv_push s -> inv_push s'.
Proof.
  intros P. apply pv_fields in P. destruct P as (P1 & P2 & P3 & P4 & P5 & P6 & P7 & P8 & P9 & P10).
  apply ip_frame; auto. congruence.
Qed.

(* a callback record changes, registrations stay *)
Lemma ip_upd s s' i f :
  calls s' = calls s -> cbs s' = upd_nth i f (cbs s) -> call_id s' = call_id s -> running s' = running s ->
  (forall x, cb_id (f x) = cb_id x) ->
  (forall c, nth_error (cbs s) i = Some c -> In (cb_id c, i) (calls s) -> cb_ok (running s) c -> cb_ok (running s) (f c)) ->
  inv_push s -> inv_push s'.
Proof.
  intros E1 E2 E3 E4 Fid Fok [H1 H2 H3 H4 H5].
  split; rewrite ?E1, ?E2, ?E3; auto.
  - intros k i0 I. destruct (H3 _ _ I) as (c & N & E & O). unfold reg_ok. rewrite E2, E4.
    destruct (Nat.eq_dec i i0) as [<-|Ne].
    + exists (f c). rewrite (nth_error_upd_nth_eq _ _ _ _ N). split; [|split]; auto.
      * rewrite Fid; auto.
      * apply Fok; auto. rewrite E; auto.
    + exists c. rewrite nth_error_upd_nth_neq; auto.
  - intros i0 c N. rewrite nth_error_upd_nth in N.
    destruct (i =? i0); [|eauto].
    destruct (nth_error (cbs s) i0) as [x|] eqn:Nx; cbn in N; [|discriminate].
    injection N as <-. rewrite Fid. eauto.
  - rewrite map_upd_nth_same; auto.
Qed.

(* callback [i] is completed: its record changes and its id is unregistered *)
Lemma ip_complete s s' i c f :
  nth_error (cbs s) i = Some c ->
  calls s' = assoc_del (cb_id c) (calls s) -> cbs s' = upd_nth i f (cbs s) -> call_id s' = call_id s ->
  running s' = running s -> (forall x, cb_id (f x) = cb_id x) ->
  inv_push s -> inv_push s'.
Proof.
  intros N E1 E2 E3 E4 Fid [H1 H2 H3 H4 H5].
  split; rewrite ?E1, ?E2, ?E3; auto.
  - intros k i0 I. apply in_assoc_del in I as [I _]. eauto.
  - apply NoDup_assoc_del; auto.
  - intros k i0 I. apply in_assoc_del in I as [I Nk]. cbn in Nk.
    destruct (H3 _ _ I) as (c' & N' & E & O). unfold reg_ok. rewrite E2, E4.
    assert (i <> i0) by (intros <-; congruence).
    exists c'. rewrite nth_error_upd_nth_neq; auto.
  - intros i0 c0 N0. rewrite nth_error_upd_nth in N0.
    destruct (i =? i0); [|eauto].
    destruct (nth_error (cbs s) i0) as [x|] eqn:Nx; cbn in N0; [|discriminate].
    injection N0 as <-. rewrite Fid. eauto.
  - rewrite map_upd_nth_same; auto.
Qed.

Lemma stop_cb_id cl c : cb_id (stop_cb cl c) = cb_id c.
Proof. unfold stop_cb. destruct (assoc (cb_id c) cl); reflexivity. Qed.

Lemma ip_stop s s' :
  calls s' = calls s -> cbs s' = map (stop_cb (calls s)) (cbs s) -> call_id s' = call_id s ->
  inv_push s -> inv_push s'.
Proof.
  intros E1 E2 E3 [H1 H2 H3 H4 H5].
  split; rewrite ?E1, ?E2, ?E3; auto.
  - intros k i I. destruct (H3 _ _ I) as (c & N & E & (O1 & O2 & O3 & O4 & O5)).
    exists (stop_cb (calls s) c). rewrite E2. split; [apply map_nth_error; auto|].
    rewrite stop_cb_id. split; auto.
    unfold stop_cb. rewrite E, (NoDup_assoc _ _ _ H2 I).
    unfold cb_ok; cbn. repeat split; auto.
    rewrite O3. destruct (cb_cancelled c); auto.
  - intros i c N. apply nth_error_map_some in N as (x & N & ->). rewrite stop_cb_id. eauto.
  - rewrite map_map. erewrite map_ext; [exact H5|]. intros; apply stop_cb_id.
Qed.

Lemma nth_error_snoc {A} (l : list A) x n y :
  nth_error (l ++ [x]) n = Some y -> nth_error l n = Some y \/ (n = length l /\ y = x).
Proof.
  intros H. destruct (Nat.lt_ge_cases n (length l)) as [L|L].
  - rewrite nth_error_app1 in H; auto.
  - rewrite nth_error_app2 in H; auto. right.
    destruct (n - length l) as [|d] eqn:D; cbn in H; [injection H as <-; split; auto; lia|].
    destruct d; discriminate.
Qed.

Lemma NoDup_snoc {A} (l : list A) x : NoDup l -> ~ In x l -> NoDup (l ++ [x]).
Proof.
  induction l as [|y l IH]; cbn; intros H N; [repeat constructor; auto|].
  inversion H; subst. constructor; [|apply IH; auto].
  rewrite in_app_iff. cbn. intros [I|[E|[]]]; auto.
Qed.

(* a new callback record with the next id, not (yet) registered *)
Lemma ip_append s s' c :
  calls s' = calls s -> cbs s' = cbs s ++ [c] -> call_id s' = S (call_id s) -> running s' = running s ->
  cb_id c = dec_of_nat (call_id s) ->
  inv_push s -> inv_push s'.
Proof.
  intros E1 E2 E3 E4 Eid [H1 H2 H3 H4 H5].
  split; rewrite ?E1, ?E2, ?E3; auto.
  - intros k i I. destruct (H1 _ _ I) as (j & L & ->). exists j; split; auto.
  - intros k i I. destruct (H3 _ _ I) as (c' & N & E & O). exists c'. rewrite E2, E4.
    split; [|split]; auto. apply nth_error_app_old; auto.
  - intros i c0 N. apply nth_error_snoc in N as [N|[-> ->]].
    + destruct (H4 _ _ N) as (j & L & E). exists j; split; auto.
    + exists (call_id s); split; auto.
  - rewrite map_app. cbn. apply NoDup_snoc; auto.
    intros I. apply in_map_iff in I as (x & Ex & I). apply In_nth_error in I as (i & N).
    destruct (H4 _ _ N) as (j & L & E). rewrite Eid, E in Ex. apply dec_of_nat_inj in Ex. lia.
Qed.

(* registration of an existing, unregistered record *)
Lemma ip_register s s' k i c :
  calls s' = (k, i) :: assoc_del k (calls s) -> cbs s' = cbs s -> call_id s' = call_id s -> running s' = running s ->
  (exists j, j < call_id s /\ k = dec_of_nat j) ->
  nth_error (cbs s) i = Some c -> cb_id c = k -> cb_ok (running s) c ->
  inv_push s -> inv_push s'.
Proof.
  intros E1 E2 E3 E4 Hk N Eid Ok [H1 H2 H3 H4 H5].
  split; rewrite ?E1, ?E2, ?E3; auto.
  - intros k0 i0 [E|I]; [injection E as <- <-; auto|]. apply in_assoc_del in I as [I _]. eauto.
  - cbn. constructor; [|apply NoDup_assoc_del; auto].
    apply assoc_none. apply assoc_del_same.
  - intros k0 i0 [E|I].
    + injection E as <- <-. exists c. rewrite E2, E4. auto.
    + apply in_assoc_del in I as [I _]. destruct (H3 _ _ I) as (c' & N' & E & O).
      exists c'. rewrite E2, E4. auto.
Qed.

Ltac ipf H := eapply ip_frame; [| | | |exact H]; [reflexivity|reflexivity|reflexivity|cbn; try discriminate; auto].

Lemma wake_watch_id c : cb_id (wake_watch c) = cb_id c.
Proof. reflexivity. Qed.

Lemma complete_cb_ip i r s : inv_push s -> inv_push (fst (complete_cb i r s)).
Proof.
  intros H. unfold complete_cb. destruct (nth_error (cbs s) i) as [c|] eqn:N; cbn [fst]; auto.
  eapply ip_complete with (i := i) (c := c) (f := fun c => wake_watch (c <| cb_slot := Some r |>)); eauto; reflexivity.
Qed.

Lemma filter_batch_ip : forall ms s keep acc, inv_push s -> inv_push (fst (fst (filter_batch ms s keep acc))).
Proof.
  induction ms as [|m r IH]; intros s keep acc H; cbn [filter_batch]; auto.
  destruct (is_req_or_notif m); auto.
  destruct (assoc (fix_id (j_id m)) (calls s)) as [i|].
  - match goal with |- context [complete_cb ?i ?v ?s] =>
      pose proof (complete_cb_ip i v s H) as H'; destruct (complete_cb i v s) as [s' os] end.
    apply IH; auto.
  - destruct (c_push s && is_nil (j_method m) && has_reply_fields m); auto.
Qed.

Lemma stop_locked_ip sc s : inv_push s -> inv_push (fst (stop_locked sc s)).
Proof.
  intros H. destruct (stop_locked sc s) as [s' os] eqn:E. cbn [fst].
  apply stop_locked_spec in E as [(_ & -> & _)|(R & _ & R' & _ & _ & _ & C & CI & _ & _ & _ & CB)]; auto.
  eapply ip_stop; eauto.
Qed.

Lemma read_cs_ip f s s' os : inv_push s -> read_cs f s = (s', os) -> inv_push s'.
Proof.
  intros H E. unfold read_cs in E.
  destruct f as [i|i|sc].
  1,2: destruct (negb (running s)); [injection E as <- <-; ipf H|];
       destruct i as [|b ms]; [cbn in E; injection E as <- <-; ipf H|];
       destruct ms as [|m0 ms0]; [cbn in E; injection E as <- <-; ipf H|];
       pose proof (filter_batch_ip (m0 :: ms0) s [] [] H) as H';
       destruct (filter_batch (m0 :: ms0) s [] []) as [[s1 keep] os1]; cbn [fst] in H';
       destruct keep; [injection E as <- <-; ipf H'|];
       match type of E with (if ?b then _ else _) = _ => destruct b end;
       injection E as <- <-; ipf H'.
  pose proof (stop_locked_ip sc s H) as H'. destruct (stop_locked sc s) as [s2 os2]. cbn [fst] in *.
  injection E as <- <-. ipf H'.
Qed.

Lemma inv_push_reachf c s : reachf c s -> inv_push s.
Proof.
  induction 1 as [|s l s' os R IH C H|s s' os R IH H].
  - split; cbn; try constructor; try tauto; intros [|?] ?; discriminate.
  - destruct (neutral l) eqn:Neu.
    { apply step_raw_neutral in H as [P _]; auto. eapply ip_pv; eauto. }
    destruct l; try discriminate Neu; cbn [step_raw] in H.
    + (* LStart *)
      destruct (negb (running s) && (wg s =? 0)); [|discriminate]. injection H as <- <-.
      ipf IH.
    + (* LSendFault *) injection H as <- <-. ipf IH.
    + (* LCallStop *) injection H as <- <-. ipf IH.
    + (* LCallCancel *) injection H as <- <-. ipf IH.
    + (* LCallPush *) destruct (c_push s); injection H as <- <-; auto. ipf IH.
    + (* LCbCtxEnd *)
      destruct (find_idx (fun c => cb_op c =? n) 0 (cbs s)) as [i|]; injection H as <- <-.
      2:{ ipf IH. }
      eapply ip_upd with (i := i); [| | | | | |exact IH]; [reflexivity|reflexivity|reflexivity|reflexivity| | ].
      * intros x. cbv beta. destruct (cb_cancelled x); reflexivity.
      * intros c0 N I (O1 & O2 & O3 & O4 & O5). cbv beta. destruct (cb_cancelled c0) eqn:CC; unfold cb_ok; [rewrite CC; auto|].
        cbn. rewrite O3. repeat split; auto.
    + (* LRelRead *)
      destruct (rd s); try discriminate. injection H as E.
      eapply read_cs_ip; eauto.
    + (* LRelStop *)
      destruct (find_op n (ops s)) as [[| |]|]; try discriminate.
      assert (H0 : inv_push (s <| ops ::= del_op n |>)) by (ipf IH).
      pose proof (stop_locked_ip SCStop _ H0) as H'.
      destruct (stop_locked SCStop (s <| ops ::= del_op n |>)) as [s2 os2]. injection H as <- <-. exact H'.
    + (* LRelCancel *)
      destruct (find_op n (ops s)) as [[| |]|]; try discriminate. cbn in H.
      destruct (assoc id (used s)); injection H as <- <-.
      * eapply ip_pv; [apply cancel_task_pv|]. ipf IH.
      * ipf IH.
    + (* LRelPush *)
      destruct (find_op n (ops s)) as [[| |n' wantid m p]|]; try discriminate.
      assert (H0 : inv_push (s <| ops ::= del_op n |>)) by (ipf IH).
      cbn in H. destruct (running s) eqn:Run; cbn in H; [|injection H as <- <-; auto].
      destruct wantid; [|injection H as <- <-; auto].
      destruct (send_fail s) eqn:SF.
      * injection H as <- <-. eapply ip_append; [| | | | |exact H0]; reflexivity.
      * injection H as <- <-.
        set (cnew := match find (fun e => fst e =? n) (ended s) with
                     | Some (_, w) => mkCb n (dec_of_nat (call_id s)) None (Some w) true WParked false
                     | None => mkCb n (dec_of_nat (call_id s)) None None false WBlocked false end).
        assert (Hid : cb_id cnew = dec_of_nat (call_id s)).
        { unfold cnew. destruct (find _ (ended s)) as [[? ?]|]; reflexivity. }
        assert (Hok : cb_ok true cnew).
        { unfold cnew. destruct (find _ (ended s)) as [[? ?]|]; unfold cb_ok; cbn; repeat split; auto; congruence. }
        assert (H1 : inv_push (s <| ops ::= del_op n |> <| call_id ::= S |> <| cbs ::= fun l => l ++ [cnew] |>)).
        { eapply ip_append; [| | | | |exact H0]; try reflexivity. exact Hid. }
        eapply ip_register with (c := cnew); [| | | | | | | |exact H1]; try reflexivity.
        -- exists (call_id s). cbn. split; auto.
        -- cbn. apply nth_error_app_new.
        -- exact Hid.
        -- cbn. rewrite Run. exact Hok.
    + (* LRelCbWatch *)
      rename c0 into i.
      destruct (nth_error (cbs s) i) as [cb0|] eqn:N; [|discriminate].
      destruct (cb_watch cb0) eqn:W; try discriminate.
      (* if callback i is registered, the watcher completes it *)
      replace (calls (s <| cbs ::= upd_nth i (fun c => c <| cb_watch := WDone |>) |>)) with (calls s) in H by reflexivity.
      destruct (assoc (cb_id cb0) (calls s)) as [j|] eqn:A.
      2:{ injection H as <- <-. eapply ip_upd with (i := i); [| | | | | |exact IH]; [reflexivity|reflexivity|reflexivity|reflexivity| | ].
          - reflexivity.
          - intros c1 N1 I. apply (NoDup_assoc _ _ _ (ip_nodup _ IH)) in I. congruence. }
      destruct (cb_slot cb0) eqn:SL.
      { injection H as <- <-. eapply ip_upd with (i := i); [| | | | | |exact IH]; [reflexivity|reflexivity|reflexivity|reflexivity| | ].
        - reflexivity.
        - intros c1 N1 I (O1 & _). congruence. }
      destruct (Nat.eqb_spec j i) as [->|Ne].
      2:{ injection H as <- <-. eapply ip_upd with (i := i); [| | | | | |exact IH]; [reflexivity|reflexivity|reflexivity|reflexivity| | ].
          - reflexivity.
          - intros c1 N1 I. apply (NoDup_assoc _ _ _ (ip_nodup _ IH)) in I. congruence. }
      assert (E : exists v, complete_cb i v (s <| cbs ::= upd_nth i (fun c => c <| cb_watch := WDone |>) |>) = (s', os)).
      { destruct (cb_ctx cb0) as [[|]|]; injection H as H; eauto. }
      destruct E as (v & E). clear H.
      replace s' with (fst (complete_cb i v (s <| cbs ::= upd_nth i (fun c => c <| cb_watch := WDone |>) |>)))
        by (rewrite E; reflexivity).
      clear E.
      unfold complete_cb.
      match goal with |- context [nth_error ?l i] =>
        change l with (upd_nth i (fun c => c <| cb_watch := WDone |>) (cbs s)) end.
      rewrite (nth_error_upd_nth_eq _ _ _ _ N). cbn [fst].
      eapply ip_complete with (i := i) (c := cb0)
        (f := fun x => wake_watch ((x <| cb_watch := WDone |>) <| cb_slot := Some v |>)); eauto; try reflexivity.
      cbn. rewrite upd_nth_upd_nth. reflexivity.
  - eapply ip_pv; [eapply settle1_pv; eauto|auto].
Qed.

Lemma inv_push_reach c s : reach c s -> inv_push s.
Proof. intros H. eapply inv_push_reachf, reach_reachf; eauto. Qed.

Lemma inv_calls_reach c s : reach c s -> inv_calls s.
Proof. intros H. eapply inv_push_calls, inv_push_reach; eauto. Qed.

(** * filter_batch / complete_cb change nothing but [cbs] and [calls] *)
Definition same_but_cb (s s' : state) : Prop := s' = s <| cbs := cbs s' |> <| calls := calls s' |>.

Lemma sbc_refl s : same_but_cb s s.
Proof. destruct s; reflexivity. Qed.

Lemma sbc_trans s1 s2 s3 : same_but_cb s1 s2 -> same_but_cb s2 s3 -> same_but_cb s1 s3.
Proof. unfold same_but_cb. intros H1 H2. rewrite H2. rewrite H1 at 1. destruct s1; reflexivity. Qed.

Lemma complete_cb_sbc i r s : same_but_cb s (fst (complete_cb i r s)).
Proof.
  unfold complete_cb. destruct (nth_error (cbs s) i); cbn [fst]; [|apply sbc_refl].
  destruct s; reflexivity.
Qed.

Lemma filter_batch_sbc : forall ms s keep acc, same_but_cb s (fst (fst (filter_batch ms s keep acc))).
Proof.
  induction ms as [|m r IH]; intros s keep acc; cbn [filter_batch]; [apply sbc_refl|].
  destruct (is_req_or_notif m); auto.
  destruct (assoc (fix_id (j_id m)) (calls s)) as [i|].
  - match goal with |- context [complete_cb ?i ?v ?s] =>
      pose proof (complete_cb_sbc i v s) as H'; destruct (complete_cb i v s) as [s' os] end.
    eapply sbc_trans; [exact H'|apply IH].
  - destruct (c_push s && is_nil (j_method m) && has_reply_fields m); auto.
Qed.

Lemma sbc_fields s s' : same_but_cb s s' ->
  c_push s' = c_push s /\ running s' = running s /\ closes s' = closes s /\ starts s' = starts s /\
  call_id s' = call_id s /\ ops s' = ops s /\ ended s' = ended s /\ send_fail s' = send_fail s /\
  inq s' = inq s /\ tasks s' = tasks s /\ units s' = units s /\ rd s' = rd s /\ dp s' = dp s /\ nbar s' = nbar s /\
  crash s' = crash s /\ work_closed s' = work_closed s /\ used s' = used s /\ wg s' = wg s.
Proof. intros H. rewrite H. repeat split; reflexivity. Qed.

(** * C09.5 a late, duplicate or unsolicited reply is inert *)
Definition late_reply (s : state) (m : jmsg) : Prop :=
  c_push s = true /\ is_req_or_notif m = false /\ j_method m = [] /\ has_reply_fields m = true /\
  assoc (fix_id (j_id m)) (calls s) = None.

Lemma late_reply_skipped s m r keep acc :
  late_reply s m -> filter_batch (m :: r) s keep acc = filter_batch r s keep acc.
Proof.
  intros (P & Q & M & F & A). cbn [filter_batch]. rewrite Q, A, P, M, F. reflexivity.
Qed.

Lemma late_reply_inert s m : late_reply s m -> filter_batch [m] s [] [] = (s, [], []).
Proof. intros H. rewrite late_reply_skipped; auto. Qed.

(* consequently the reader's critical section queues nothing, creates no task and sends nothing *)
Lemma late_reply_read_cs s b m :
  running s = true -> late_reply s m ->
  read_cs (FMsg (InMsgs b [m])) s = (s <| rd := RIdle |>, []).
Proof.
  intros R H. unfold read_cs. rewrite R. cbn [negb]. rewrite late_reply_inert; auto.
Qed.

(* the state [filter_batch] has reached after a prefix of the batch *)
Definition fb_state (ms : list jmsg) (s : state) : state := fst (fst (filter_batch ms s [] [])).

Lemma filter_batch_app : forall ms1 ms2 s keep acc,
  filter_batch (ms1 ++ ms2) s keep acc =
  let '(s1, _, _) := filter_batch ms1 s keep acc in
  filter_batch ms2 s1 (rev (snd (fst (filter_batch ms1 s keep acc)))) (snd (filter_batch ms1 s keep acc)).
Proof.
  induction ms1 as [|m r IH]; intros ms2 s keep acc; cbn [app filter_batch].
  - cbn. rewrite rev_involutive. reflexivity.
  - destruct (is_req_or_notif m); [apply IH|].
    destruct (assoc (fix_id (j_id m)) (calls s)) as [i|].
    + destruct (complete_cb i _ s) as [s' os]. apply IH.
    + destruct (c_push s && is_nil (j_method m) && has_reply_fields m); apply IH.
Qed.

Lemma filter_batch_state_indep : forall ms s keep acc keep' acc',
  fst (fst (filter_batch ms s keep acc)) = fst (fst (filter_batch ms s keep' acc')).
Proof.
  induction ms as [|m r IH]; intros; cbn [filter_batch]; auto.
  destruct (is_req_or_notif m); auto.
  destruct (assoc (fix_id (j_id m)) (calls s)) as [i|].
  - destruct (complete_cb i _ s) as [s' os]. apply IH.
  - destruct (c_push s && is_nil (j_method m) && has_reply_fields m); apply IH.
Qed.

(* general form: inside a longer batch the late member is skipped and the others are
   processed exactly as if it were not there ("late" is judged when its turn comes, so a
   second reply to a callback completed earlier in the same batch is covered) *)
Lemma late_reply_skipped_in_batch ms1 m ms2 s keep acc :
  late_reply (fst (fst (filter_batch ms1 s keep acc))) m ->
  filter_batch (ms1 ++ m :: ms2) s keep acc = filter_batch (ms1 ++ ms2) s keep acc.
Proof.
  intros H. rewrite !filter_batch_app.
  destruct (filter_batch ms1 s keep acc) as [[s1 k1] a1]. cbn [fst snd] in *.
  apply late_reply_skipped; auto.
Qed.

(* lateness is stable while the batch is processed: [calls] only shrinks *)
Lemma complete_cb_assoc_none i r s k : assoc k (calls s) = None -> assoc k (calls (fst (complete_cb i r s))) = None.
Proof.
  intros H. unfold complete_cb. destruct (nth_error (cbs s) i) as [c|]; cbn [fst]; auto.
  change (assoc k (assoc_del (cb_id c) (calls s)) = None).
  destruct (beq_spec (cb_id c) k) as [->|N]; [apply assoc_del_same|rewrite assoc_del_other; auto].
Qed.

Lemma filter_batch_assoc_none : forall ms s keep acc k,
  assoc k (calls s) = None -> assoc k (calls (fst (fst (filter_batch ms s keep acc)))) = None.
Proof.
  induction ms as [|m r IH]; intros s keep acc k H; cbn [filter_batch]; auto.
  destruct (is_req_or_notif m); auto.
  destruct (assoc (fix_id (j_id m)) (calls s)) as [i|].
  - match goal with |- context [complete_cb ?i ?v ?s] =>
      pose proof (complete_cb_assoc_none i v s k H) as H'; destruct (complete_cb i v s) as [s' os] end.
    apply IH; auto.
  - destruct (c_push s && is_nil (j_method m) && has_reply_fields m); auto.
Qed.

Lemma late_reply_stable ms s keep acc m : late_reply s m -> late_reply (fst (fst (filter_batch ms s keep acc))) m.
Proof.
  intros (P & Q & M & F & A).
  destruct (sbc_fields _ _ (filter_batch_sbc ms s keep acc)) as (E & _).
  repeat split; auto; [congruence|apply filter_batch_assoc_none; auto].
Qed.

Lemma late_reply_inert_in_batch ms1 m ms2 s keep acc :
  late_reply s m -> filter_batch (ms1 ++ m :: ms2) s keep acc = filter_batch (ms1 ++ ms2) s keep acc.
Proof. intros H. apply late_reply_skipped_in_batch, late_reply_stable; auto. Qed.

(** * Sample configurations and messages for the non-vacuity examples *)
Definition cfg_push : config := {| cf_K := 2; cf_push := true; cf_builtin := false; cf_methods := [[109]%N]; cf_unblock := false |}.
Definition cfg_nopush : config := {| cf_K := 2; cf_push := false; cf_builtin := false; cf_methods := [[109]%N]; cf_unblock := false |}.
Definition reply_msg (id result : bytes) : jmsg :=
  {| j_id := id; j_method := []; j_params := []; j_error := None; j_result := result; j_err := None |}.
Definition error_msg (id : bytes) (code : Z) (msg : bytes) : jmsg :=
  {| j_id := id; j_method := []; j_params := []; j_error := Some {| we_code := code; we_msg := msg; we_data := [] |};
     j_result := []; j_err := None |}.
Definition note_msg (method params : bytes) : jmsg :=
  {| j_id := []; j_method := method; j_params := params; j_error := None; j_result := []; j_err := None |}.
Definition call_msg (id method params : bytes) : jmsg :=
  {| j_id := id; j_method := method; j_params := params; j_error := None; j_result := []; j_err := None |}.

Definition run_state (c : config) (tr : list label) : option state := option_map fst (run (init_of c) tr).

Lemma run_state_reach c tr s : run_state c tr = Some s -> reach c s.
Proof.
  unfold run_state. destruct (run (init_of c) tr) as [[s' oss]|] eqn:E; [|discriminate].
  intros [= <-]. eapply run_reach; [constructor|exact E].
Qed.

(** C09.1 examples *)
Example gate_push_off_nonvacuous :
  exists s, reach cfg_nopush s /\ c_push s = false /\ running s = true /\
    step s (LCallPush 5 true [109]%N []) = Some (s, [ORet 5 APushUnsupported]).
Proof.
  destruct (run_state cfg_nopush [LStart]) as [s|] eqn:E; [|discriminate E].
  exists s. split; [eapply run_state_reach; eauto|].
  vm_compute in E. injection E as <-. vm_compute. auto.
Qed.

Example gate_conn_closed_nonvacuous :
  exists s s', reach cfg_push s /\ running s = false /\
    step s (LRelPush 5) = Some (s', [ORet 5 AConnClosed]).
Proof.
  destruct (run_state cfg_push [LStart; LCallStop 1; LRelStop 1; LCallPush 5 true [109]%N []]) as [s|] eqn:E; [|discriminate E].
  exists s. eexists. split; [eapply run_state_reach; eauto|].
  vm_compute in E. injection E as <-. vm_compute. auto.
Qed.

(** C09.5 example: a reply for callback id 7 that was never issued, arriving at a running push server *)
Example late_reply_nonvacuous :
  exists s, reach cfg_push s /\ running s = true /\ late_reply s (reply_msg [55]%N [49]%N) /\
    exists s', step s LRelRead = Some (s', []) /\ inq s' = [] /\ tasks s' = [] /\ calls s' = calls s /\ cbs s' = cbs s.
Proof.
  destruct (run_state cfg_push [LStart; LFeed (FMsg (InMsgs false [reply_msg [55]%N [49]%N]))]) as [s|] eqn:E; [|discriminate E].
  exists s. split; [eapply run_state_reach; eauto|].
  vm_compute in E. injection E as <-. vm_compute. repeat split; auto. eexists; repeat split.
Qed.

(** * C09.2 one request per push, fresh callback id *)
Definition is_sendreq (o : obs) : bool := match o with OSendReq _ _ _ _ => true | _ => false end.

Lemma settle_obs_no_sendreq extra : Forall settle_obs extra -> filter is_sendreq extra = [].
Proof. induction 1 as [|o l H _ IH]; cbn; auto. destruct o; cbn in *; auto; tauto. Qed.

Lemma find_op_num n l o : find_op n l = Some o -> op_num o = n /\ In o l.
Proof.
  unfold find_op. intros H. apply find_some in H as [I E]. apply Nat.eqb_eq in E. auto.
Qed.

Lemma push_one_request_raw s n s' os :
  step_raw s (LRelPush n) = Some (s', os) -> running s = true ->
  exists w m p, find_op n (ops s) = Some (OpPush n w m p) /\ In (OpPush n w m p) (ops s) /\
    os = OSendReq (negb (send_fail s)) (if w then dec_of_nat (call_id s) else []) m p ::
         (if w && negb (send_fail s) then [] else [ORet n (if send_fail s then ASendFailed else AOk)]) /\
    call_id s' = (if w then S (call_id s) else call_id s) /\
    ops s' = del_op n (ops s).
Proof.
  cbn [step_raw]. intros H R.
  destruct (find_op n (ops s)) as [[| |n' w m p]|] eqn:F; try discriminate.
  apply find_op_num in F as [F1 F2]. cbn in F1. subst n'.
  exists w, m, p. split; auto. split; auto.
  cbn in H. rewrite R in H. cbn in H.
  destruct w.
  - destruct (send_fail s); injection H as <- <-; cbn; auto.
  - destruct (send_fail s); injection H as <- <-; cbn; auto.
Qed.

Lemma push_one_request_step s n s' os :
  step s (LRelPush n) = Some (s', os) -> running s = true ->
  exists w m p, In (OpPush n w m p) (ops s) /\
    filter is_sendreq os = [OSendReq (negb (send_fail s)) (if w then dec_of_nat (call_id s) else []) m p] /\
    call_id s' = (if w then S (call_id s) else call_id s).
Proof.
  intros H R. apply step_decompose in H as (C & s1 & os1 & Raw & D).
  destruct (push_one_request_raw _ _ _ _ Raw R) as (w & m & p & _ & I & Eo & Ec & _).
  exists w, m, p. split; auto.
  assert (F1 : filter is_sendreq os1 = [OSendReq (negb (send_fail s)) (if w then dec_of_nat (call_id s) else []) m p]).
  { rewrite Eo. cbn. destruct (w && negb (send_fail s)); reflexivity. }
  destruct D as [(_ & -> & ->)|(_ & S)]; auto.
  pose proof (settle_pv _ _ _ _ _ S) as P. apply pv_fields in P.
  destruct (settle_obs_app _ _ _ _ _ S) as (ex & -> & Fx).
  rewrite filter_app, (settle_obs_no_sendreq _ Fx), app_nil_r. split; auto.
  destruct P as (_ & _ & _ & _ & _ & -> & _). auto.
Qed.

(* the id handed out next is not the id of any registered callback, nor of any callback record *)
Lemma fresh_id s : inv_push s ->
  (forall k i, In (k, i) (calls s) -> k <> dec_of_nat (call_id s)) /\
  (forall i c, nth_error (cbs s) i = Some c -> cb_id c <> dec_of_nat (call_id s)).
Proof.
  intros [H1 _ _ H4 _]. split.
  - intros k i I E. destruct (H1 _ _ I) as (j & L & ->). apply dec_of_nat_inj in E. lia.
  - intros i c N E. destruct (H4 _ _ N) as (j & L & E'). rewrite E' in E. apply dec_of_nat_inj in E. lia.
Qed.

(* ids of distinct callback records are distinct *)
Lemma cb_ids_distinct s i j ci cj : inv_push s ->
  nth_error (cbs s) i = Some ci -> nth_error (cbs s) j = Some cj -> cb_id ci = cb_id cj -> i = j.
Proof.
  intros [_ _ _ _ H5] Ni Nj E.
  eapply (proj1 (NoDup_nth_error (map cb_id (cbs s))) H5).
  - rewrite map_length. apply nth_error_Some. congruence.
  - rewrite (map_nth_error cb_id _ _ Ni), (map_nth_error cb_id _ _ Nj). congruence.
Qed.

(** * C09.4 a callback is completed only by the reply bearing its id, or by its own watcher *)
Definition member_val (m : jmsg) : cbres :=
  match j_error m with Some e => CErr (we_code e) (we_msg e) | None => CRes (j_result m) end.
Definition res_of_val (v : cbres) : apires :=
  match v with CRes raw => ACbRes raw | CErr code msg => ctx_res code msg end.
Definition member_res (m : jmsg) : apires := res_of_val (member_val m).
Definition ctx_why (c : cb) : why := match cb_ctx c with Some WDeadline => WDeadline | _ => WCancel end.

(* observation [o] is the return of the callback registered under the id of some reply member of [ms] *)
Definition reply_ret (s : state) (ms : list jmsg) (o : obs) : Prop :=
  exists m i c, In m ms /\ is_req_or_notif m = false /\ assoc (fix_id (j_id m)) (calls s) = Some i /\
    nth_error (cbs s) i = Some c /\ cb_id c = fix_id (j_id m) /\ o = ORet (cb_op c) (member_res m).

(* what one completion does, when the index is registered *)
Lemma complete_cb_reg k i v s :
  inv_push s -> In (k, i) (calls s) ->
  exists c, nth_error (cbs s) i = Some c /\ cb_id c = k /\ cb_ret c = false /\ cb_slot c = None /\
    complete_cb i v s =
      (s <| cbs ::= upd_nth i (fun c => wake_watch (c <| cb_slot := Some v |>)) |> <| calls ::= assoc_del k |>,
       [ORet (cb_op c) (res_of_val v)]).
Proof.
  intros H I. destruct (ip_reg _ H _ _ I) as (c & N & E & (O1 & O2 & _)).
  exists c. repeat split; auto. unfold complete_cb. rewrite N, O2, E. reflexivity.
Qed.

(* records keep their op number and id *)
Lemma complete_cb_cbs i v s j c' :
  nth_error (cbs (fst (complete_cb i v s))) j = Some c' ->
  exists c, nth_error (cbs s) j = Some c /\ cb_id c = cb_id c' /\ cb_op c = cb_op c'.
Proof.
  unfold complete_cb. destruct (nth_error (cbs s) i) as [c0|] eqn:N; cbn [fst]; [|eauto].
  change (nth_error (upd_nth i (fun c => wake_watch (c <| cb_slot := Some v |>)) (cbs s)) j = Some c' -> 
          exists c, nth_error (cbs s) j = Some c /\ cb_id c = cb_id c' /\ cb_op c = cb_op c').
  rewrite nth_error_upd_nth. destruct (i =? j); [|eauto].
  destruct (nth_error (cbs s) j) as [x|]; cbn; [|discriminate]. intros [= <-]. eauto.
Qed.

Lemma complete_cb_calls i v s k j :
  assoc k (calls (fst (complete_cb i v s))) = Some j -> assoc k (calls s) = Some j.
Proof.
  unfold complete_cb. destruct (nth_error (cbs s) i) as [c0|] eqn:N; cbn [fst]; auto.
  change (assoc k (assoc_del (cb_id c0) (calls s)) = Some j -> assoc k (calls s) = Some j).
  intros H. apply assoc_del_some in H as [H _]. auto.
Qed.

Lemma reply_ret_back i v s ms m o :
  reply_ret (fst (complete_cb i v s)) ms o -> reply_ret s (m :: ms) o.
Proof.
  intros (m' & j & c' & I & Q & A & N & E & ->).
  apply complete_cb_calls in A. apply complete_cb_cbs in N as (c & N & Ei & Eo).
  exists m', j, c. rewrite Eo. repeat split; auto; [right; auto|congruence].
Qed.

Lemma reply_ret_cons s ms m o : reply_ret s ms o -> reply_ret s (m :: ms) o.
Proof.
  intros (m' & j & c' & I & Q & A & N & E & ->). exists m', j, c'. repeat split; auto. right; auto.
Qed.

Lemma filter_batch_matches : forall ms s keep acc s' keep' acc',
  inv_push s -> filter_batch ms s keep acc = (s', keep', acc') ->
  exists extra, acc' = acc ++ extra /\ Forall (reply_ret s ms) extra.
Proof.
  induction ms as [|m r IH]; intros s keep acc s' keep' acc' H E; cbn [filter_batch] in E.
  - injection E as <- <- <-. exists []. rewrite app_nil_r. auto.
  - destruct (is_req_or_notif m) eqn:Q.
    { destruct (IH _ _ _ _ _ _ H E) as (ex & -> & F). exists ex. split; auto.
      eapply Forall_impl; [|exact F]. intros; apply reply_ret_cons; auto. }
    destruct (assoc (fix_id (j_id m)) (calls s)) as [i|] eqn:A.
    2:{ assert (E' : filter_batch r s keep acc = (s', keep', acc') \/ filter_batch r s (m :: keep) acc = (s', keep', acc')).
        { destruct (c_push s && is_nil (j_method m) && has_reply_fields m); auto. }
        destruct E' as [E'|E']; destruct (IH _ _ _ _ _ _ H E') as (ex & -> & F); exists ex; (split; auto);
          (eapply Forall_impl; [|exact F]); intros; apply reply_ret_cons; auto. }
    pose proof (assoc_in _ _ _ A) as I.
    destruct (complete_cb_reg _ _ (member_val m) _ H I) as (c & N & Eid & _ & _ & Ec).
    fold (member_val m) in E. 
    pose proof (complete_cb_ip i (member_val m) s H) as H1.
    assert (RB : forall o, reply_ret (fst (complete_cb i (member_val m) s)) r o -> reply_ret s (m :: r) o)
      by (intros; eapply reply_ret_back; eauto).
    rewrite Ec in E, H1, RB. cbn [fst] in H1, RB.
    destruct (IH _ _ _ _ _ _ H1 E) as (ex & -> & F).
    exists (ORet (cb_op c) (res_of_val (member_val m)) :: ex). rewrite <- app_assoc. split; auto.
    constructor.
    + exists m, i, c. repeat split; auto. left; auto.
    + eapply Forall_impl; [|exact F]. auto.
Qed.

(* the watcher: completes only its own, still registered callback, with its context's error *)
Lemma ctx_res_cancel : ctx_res Cancelled s_ctx_canceled = ACbCtx WCancel.
Proof. reflexivity. Qed.
Lemma ctx_res_deadline : ctx_res DeadlineExceeded s_ctx_deadline = ACbCtx WDeadline.
Proof. reflexivity. Qed.

Lemma watch_own s i s' os :
  inv_push s -> step_raw s (LRelCbWatch i) = Some (s', os) ->
  exists c, nth_error (cbs s) i = Some c /\ cb_watch c = WParked /\
    ((~ In (cb_id c, i) (calls s) /\ os = [] /\ calls s' = calls s) \/
     (In (cb_id c, i) (calls s) /\ os = [ORet (cb_op c) (ACbCtx (ctx_why c))] /\
      calls s' = assoc_del (cb_id c) (calls s))).
Proof.
  intros IH H. cbn [step_raw] in H.
  destruct (nth_error (cbs s) i) as [cb0|] eqn:N; [|discriminate].
  destruct (cb_watch cb0) eqn:W; try discriminate.
  exists cb0. split; auto. split; auto.
  replace (calls (s <| cbs ::= upd_nth i (fun c => c <| cb_watch := WDone |>) |>)) with (calls s) in H by reflexivity.
  assert (NR : forall P : Prop, (In (cb_id cb0, i) (calls s) -> P -> False) -> P -> Some (s <| cbs ::= upd_nth i (fun c => c <| cb_watch := WDone |>) |>, @nil obs) = Some (s', os) ->
     ~ In (cb_id cb0, i) (calls s) /\ os = [] /\ calls s' = calls s).
  { intros P HP p [= <- <-]. repeat split; auto. }
  destruct (assoc (cb_id cb0) (calls s)) as [j|] eqn:A.
  2:{ left. apply (NR (assoc (cb_id cb0) (calls s) = None)); auto.
      intros I A'. apply (NoDup_assoc _ _ _ (ip_nodup _ IH)) in I. congruence. }
  destruct (cb_slot cb0) eqn:SL.
  { left. apply (NR (cb_slot cb0 <> None)); auto; [|congruence].
    intros I A'. destruct (ip_reg _ IH _ _ I) as (c' & N' & _ & (O1 & _)). congruence. }
  destruct (Nat.eqb_spec j i) as [->|Ne].
  2:{ left. apply (NR (j <> i)); auto.
      intros I A'. apply (NoDup_assoc _ _ _ (ip_nodup _ IH)) in I. congruence. }
  right. pose proof (assoc_in _ _ _ A) as I. split; auto.
  destruct (ip_reg _ IH _ _ I) as (c' & N' & _ & (_ & O2 & _)).
  assert (c' = cb0) by congruence. subst c'.
  assert (E : exists v, res_of_val v = ACbCtx (ctx_why cb0) /\
     complete_cb i v (s <| cbs ::= upd_nth i (fun c => c <| cb_watch := WDone |>) |>) = (s', os)).
  { unfold ctx_why. destruct (cb_ctx cb0) as [[|]|]; injection H as H; eexists; (split; [|exact H]); reflexivity. }
  destruct E as (v & Ev & E). clear H.
  unfold complete_cb in E.
  match type of E with context [nth_error ?l i] =>
    change l with (upd_nth i (fun c => c <| cb_watch := WDone |>) (cbs s)) in E end.
  rewrite (nth_error_upd_nth_eq _ _ _ _ N) in E. cbn [cb_ret cb_op cb_id] in E.
  change (cb_ret (cb0 <| cb_watch := WDone |>)) with (cb_ret cb0) in E. rewrite O2 in E.
  injection E as <- <-. rewrite <- Ev. split; reflexivity.
Qed.

Definition is_completion (r : apires) : bool :=
  match r with ACbRes _ | ACbErr _ _ | ACbCtx _ => true | _ => false end.

Definition msgs_feed (f : feed) (ms : list jmsg) : Prop := exists b, f = FMsg (InMsgs b ms) \/ f = FMsgEOF (InMsgs b ms).

Lemma read_cs_obs f s s' os n r :
  inv_push s -> read_cs f s = (s', os) -> In (ORet n r) os ->
  exists ms, msgs_feed f ms /\ running s = true /\ reply_ret s ms (ORet n r).
Proof.
  intros H E I. unfold read_cs in E.
  destruct f as [i|i|sc].
  1,2: destruct (running s) eqn:Run; cbn [negb] in E; [|injection E as <- <-; destruct I];
       destruct i as [|b ms]; [cbn in E; injection E as <- <-; destruct I as [I|[]]; discriminate I|];
       destruct ms as [|m0 ms0]; [cbn in E; injection E as <- <-; destruct I as [I|[]]; discriminate I|];
       destruct (filter_batch (m0 :: ms0) s [] []) as [[s1 keep] os1] eqn:FB;
       destruct (filter_batch_matches _ _ _ _ _ _ _ H FB) as (ex & -> & F); cbn [app] in *;
       assert (I' : In (ORet n r) ex) by
         (destruct keep; [injection E as <- <-; auto|];
          match type of E with (if ?b then _ else _) = _ => destruct b end; injection E as <- <-; auto;
          apply in_app_iff in I as [I|[I|[]]]; [auto|discriminate I]);
       exists (m0 :: ms0); split; [exists b; auto|split; auto];
       rewrite Forall_forall in F; auto.
  destruct (stop_locked sc s) as [s2 os2] eqn:SL. injection E as <- <-.
  apply stop_locked_spec in SL as [(_ & _ & ->)|(_ & -> & _)]; [destruct I|destruct I as [I|[]]; discriminate I].
Qed.

Lemma raw_completion_sources s l s' os n r :
  inv_push s -> step_raw s l = Some (s', os) -> In (ORet n r) os -> is_completion r = true ->
  (exists f ms, l = LRelRead /\ rd s = RHold f /\ msgs_feed f ms /\ running s = true /\ reply_ret s ms (ORet n r)) \/
  (exists i c, l = LRelCbWatch i /\ nth_error (cbs s) i = Some c /\ In (cb_id c, i) (calls s) /\
               n = cb_op c /\ r = ACbCtx (ctx_why c)).
Proof.
  intros IH H I K.
  destruct (neutral l) eqn:Neu.
  { apply step_raw_neutral in H as [_ F]; auto. rewrite Forall_forall in F. exfalso. apply (F _ I). exact Logic.I. }
  destruct l; try discriminate Neu; cbn [step_raw] in H.
  - destruct (negb (running s) && (wg s =? 0)); [|discriminate]. injection H as <- <-. destruct I.
  - injection H as <- <-. destruct I.
  - injection H as <- <-. destruct I.
  - injection H as <- <-. destruct I.
  - destruct (c_push s); injection H as <- <-; [destruct I|].
    destruct I as [I|[]]. injection I as <- <-. discriminate K.
  - destruct (find_idx _ 0 (cbs s)); injection H as <- <-; destruct I.
  - destruct (rd s) eqn:Rd; try discriminate. injection H as H.
    destruct (read_cs_obs _ _ _ _ _ _ IH H I) as (ms & M & Run & RR).
    left. exists f, ms. auto.
  - destruct (find_op n0 (ops s)) as [[| |]|]; try discriminate.
    destruct (stop_locked SCStop _) as [s2 os2] eqn:SL. injection H as <- <-.
    apply in_app_iff in I as [I|[I|[]]]; [|injection I as <- <-; discriminate K].
    apply stop_locked_spec in SL as [(_ & _ & ->)|(_ & -> & _)]; [destruct I|destruct I as [I|[]]; discriminate I].
  - destruct (find_op n0 (ops s)) as [[| |]|]; try discriminate. injection H as <- <-.
    destruct I as [I|[]]. injection I as <- <-. discriminate K.
  - destruct (find_op n0 (ops s)) as [[| |n' w m p]|]; try discriminate. cbn in H.
    destruct (running s); cbn in H.
    2:{ injection H as <- <-. destruct I as [I|[]]. injection I as <- <-. discriminate K. }
    destruct w.
    + destruct (send_fail s); injection H as <- <-.
      * destruct I as [I|[I|[]]]; [discriminate I|]. injection I as <- <-. discriminate K.
      * destruct I as [I|[]]; discriminate I.
    + injection H as <- <-. destruct I as [I|[I|[]]]; [discriminate I|]. injection I as <- <-.
      destruct (send_fail s); discriminate K.
  - destruct (watch_own _ _ _ _ IH H) as (cb0 & N & W & [(_ & -> & _)|(Ic & -> & _)]); [destruct I|].
    destruct I as [I|[]]. injection I as <- <-. right. exists c, cb0. auto.
Qed.

Lemma settle_obs_not_ret extra n r : Forall settle_obs extra -> ~ In (ORet n r) extra.
Proof. intros F I. rewrite Forall_forall in F. apply (F _ I). Qed.

Lemma step_obs_raw s l s' os :
  step s l = Some (s', os) ->
  crash s = None /\ exists s1 os1 extra, step_raw s l = Some (s1, os1) /\ os = os1 ++ extra /\ Forall settle_obs extra /\
    pv s' = pv s1.
Proof.
  intros H. apply step_decompose in H as (C & s1 & os1 & Raw & D). split; auto.
  exists s1, os1. destruct D as [(_ & -> & ->)|(_ & S)].
  - exists []. rewrite app_nil_r. auto.
  - destruct (settle_obs_app _ _ _ _ _ S) as (ex & -> & Fx). exists ex. repeat split; auto.
    eapply settle_pv; eauto.
Qed.

(* C09.4, for every window of every run *)
Lemma reply_matches c s l s' os n r :
  reach c s -> step s l = Some (s', os) -> In (ORet n r) os -> is_completion r = true ->
  exists i cb, nth_error (cbs s) i = Some cb /\ In (cb_id cb, i) (calls s) /\ cb_op cb = n /\
    ((exists f ms m, l = LRelRead /\ rd s = RHold f /\ msgs_feed f ms /\ In m ms /\ is_req_or_notif m = false /\
                     fix_id (j_id m) = cb_id cb /\ r = member_res m) \/
     (l = LRelCbWatch i /\ r = ACbCtx (ctx_why cb))).
Proof.
  intros R H I K. pose proof (inv_push_reach _ _ R) as IP.
  apply step_obs_raw in H as (_ & s1 & os1 & ex & Raw & -> & Fx & _).
  apply in_app_iff in I as [I|I]; [|exfalso; eapply settle_obs_not_ret; eauto].
  destruct (raw_completion_sources _ _ _ _ _ _ IP Raw I K) as
    [(f & ms & -> & Rd & M & Run & (m & i & cb0 & Im & Q & A & N & Eid & Eo))|(i & cb0 & -> & N & Ic & -> & ->)].
  - injection Eo as -> ->. exists i, cb0. repeat split; auto.
    + rewrite Eid. apply assoc_in; auto.
    + left. exists f, ms, m. repeat split; auto.
  - exists i, cb0. repeat split; auto.
Qed.

(** * C09.6 replies pass the barrier: the reader is never blocked by dispatch *)
Lemma reader_enabled_raw s f : rd s = RHold f -> step_raw s LRelRead = Some (read_cs f s).
Proof. intros H. cbn. rewrite H. reflexivity. Qed.

Lemma reader_enabled s f : crash s = None -> rd s = RHold f -> exists s' os, step s LRelRead = Some (s', os).
Proof.
  intros C H. unfold step. rewrite C, (reader_enabled_raw _ _ H).
  destruct (read_cs f s) as [s1 os1]. destruct (crash s1); eauto.
  destruct (settle (settle_fuel s1) s1 os1); eauto.
Qed.

Lemma res_of_val_completion v : is_completion (res_of_val v) = true.
Proof.
  destruct v as [raw|code msg]; cbn; auto. unfold ctx_res.
  destruct (code =? Cancelled)%Z; auto. destruct (code =? DeadlineExceeded)%Z; auto.
Qed.

Lemma filter_batch_completes : forall ms s keep acc s' keep' acc' m i c,
  inv_push s -> filter_batch ms s keep acc = (s', keep', acc') ->
  In m ms -> is_req_or_notif m = false -> assoc (fix_id (j_id m)) (calls s) = Some i -> nth_error (cbs s) i = Some c ->
  assoc (fix_id (j_id m)) (calls s') = None /\ exists r, In (ORet (cb_op c) r) acc' /\ is_completion r = true.
Proof.
  induction ms as [|m0 r IH]; intros s keep acc s' keep' acc' m i c H E Im Q A N; [destruct Im|].
  cbn [filter_batch] in E.
  destruct (is_req_or_notif m0) eqn:Q0.
  { destruct Im as [->|Im]; [congruence|]. eapply IH; eauto. }
  destruct (assoc (fix_id (j_id m0)) (calls s)) as [i0|] eqn:A0.
  2:{ destruct Im as [->|Im]; [congruence|].
      destruct (c_push s && is_nil (j_method m0) && has_reply_fields m0); eapply IH; eauto. }
  pose proof (assoc_in _ _ _ A0) as I0.
  destruct (complete_cb_reg _ _ (member_val m0) _ H I0) as (c0 & N0 & Eid0 & _ & _ & Ec).
  fold (member_val m0) in E.
  pose proof (complete_cb_ip i0 (member_val m0) s H) as H1.
  rewrite Ec in E, H1. cbn [fst] in H1.
  destruct (beq_spec (fix_id (j_id m0)) (fix_id (j_id m))) as [Eq|Ne].
  - (* this member completes it *)
    rewrite Eq in *. assert (i0 = i) by congruence. subst i0. assert (c0 = c) by congruence. subst c0.
    destruct (filter_batch_matches _ _ _ _ _ _ _ H1 E) as (ex & -> & _).
    split.
    + match type of E with filter_batch r ?s1 ?k ?a = _ =>
        pose proof (filter_batch_assoc_none r s1 k a (fix_id (j_id m))) as An end.
      rewrite E in An. cbn [fst] in An. apply An. apply assoc_del_same.
    + exists (res_of_val (member_val m0)). split; [|apply res_of_val_completion].
      rewrite !in_app_iff. left; right; left; auto.
  - destruct Im as [->|Im]; [congruence|].
    assert (Ne' : i0 <> i).
    { intros ->. assert (c0 = c) by congruence. subst c0.
      destruct (ip_reg _ H _ _ (assoc_in _ _ _ A)) as (c' & N' & E' & _). congruence. }
    eapply IH with (c := c) (i := i); [exact H1|exact E|auto|auto| |].
    + cbn. rewrite assoc_del_other; auto.
    + cbn. rewrite nth_error_upd_nth_neq; auto.
Qed.

Lemma reply_completes_raw s f ms m i c s' os :
  inv_push s -> running s = true -> rd s = RHold f -> msgs_feed f ms ->
  In m ms -> is_req_or_notif m = false -> assoc (fix_id (j_id m)) (calls s) = Some i -> nth_error (cbs s) i = Some c ->
  step_raw s LRelRead = Some (s', os) ->
  assoc (fix_id (j_id m)) (calls s') = None /\ exists r, In (ORet (cb_op c) r) os /\ is_completion r = true.
Proof.
  intros H Run Rd (b & M) Im Q A N E. rewrite (reader_enabled_raw _ _ Rd) in E. injection E as E.
  unfold read_cs in E.
  assert (X : (if negb (running s) then (s <| rd := RExited |> <| wg ::= pred |>, [])
      else match InMsgs b ms with
           | InBad => let '(s', os) := push_error s ParseError s_invalid_value in (s' <| rd := RIdle |>, os)
           | InMsgs _ [] => let '(s', os) := push_error s InvalidRequest s_empty_batch in (s' <| rd := RIdle |>, os)
           | InMsgs b ms =>
               let '(s1, keep, os) := filter_batch ms s [] [] in
               match keep with
               | [] => (s1 <| rd := RIdle |>, os)
               | _ => let s2 := s1 <| inq ::= fun q => q ++ [(b, keep)] |> <| rd := RIdle |> in
                      if work_closed s2 && (length (inq s2) =? 1)
                      then (s2 <| crash := Some CrSendOnClosedWork |>, os ++ [OCrash CrSendOnClosedWork])
                      else (s2, os)
               end
           end) = (s', os)) by (destruct M as [->| ->]; exact E).
  clear E. rewrite Run in X. cbn [negb] in X.
  destruct ms as [|m0 ms0]; [destruct Im|].
  destruct (filter_batch (m0 :: ms0) s [] []) as [[s1 keep] os1] eqn:FB.
  destruct (filter_batch_completes _ _ _ _ _ _ _ _ _ _ H FB Im Q A N) as (An & r & Ir & Kr).
  destruct keep.
  - injection X as <- <-. split; auto. exists r; auto.
  - match type of X with (if ?b then _ else _) = _ => destruct b end; injection X as <- <-; (split; auto); exists r; split; auto.
    apply in_app_iff; auto.
Qed.

(* for every value of dp, nbar, inq: none of them is a hypothesis *)
Lemma reply_passes_barrier c s f ms m i cb0 :
  reach c s -> crash s = None -> running s = true -> rd s = RHold f -> msgs_feed f ms ->
  In m ms -> is_req_or_notif m = false -> assoc (fix_id (j_id m)) (calls s) = Some i -> nth_error (cbs s) i = Some cb0 ->
  exists s' os, step s LRelRead = Some (s', os) /\
    assoc (fix_id (j_id m)) (calls s') = None /\ exists r, In (ORet (cb_op cb0) r) os /\ is_completion r = true.
Proof.
  intros R C Run Rd M Im Q A N.
  destruct (reader_enabled _ _ C Rd) as (s' & os & St). exists s', os. split; auto.
  pose proof (inv_push_reach _ _ R) as IP.
  destruct (step_obs_raw _ _ _ _ St) as (_ & s1 & os1 & ex & Raw & -> & _ & P).
  destruct (reply_completes_raw _ _ _ _ _ _ _ _ IP Run Rd M Im Q A N Raw) as (An & r & Ir & Kr).
  apply pv_fields in P. destruct P as (_ & _ & _ & _ & -> & _). split; auto.
  exists r. split; auto. apply in_app_iff; auto.
Qed.

(* single reply: the exact value *)
Lemma reply_single s b m i c :
  inv_push s -> running s = true -> is_req_or_notif m = false ->
  assoc (fix_id (j_id m)) (calls s) = Some i -> nth_error (cbs s) i = Some c ->
  snd (read_cs (FMsg (InMsgs b [m])) s) = [ORet (cb_op c) (member_res m)].
Proof.
  intros H Run Q A N. unfold read_cs. rewrite Run. cbn [negb filter_batch]. rewrite Q, A.
  destruct (complete_cb_reg _ _ (member_val m) _ H (assoc_in _ _ _ A)) as (c0 & N0 & _ & _ & _ & Ec).
  fold (member_val m). rewrite Ec. assert (c0 = c) by congruence. subst c0. reflexivity.
Qed.

(** Examples for C09.2, C09.4, C09.6 *)
Definition tr_callback : list label := [LStart; LCallPush 5 true [109]%N [49]%N].

Example push_one_request_nonvacuous :
  exists s s', reach cfg_push s /\ running s = true /\
    step s (LRelPush 5) = Some (s', [OSendReq true (dec_of_nat 1) [109]%N [49]%N]) /\
    call_id s = 1 /\ call_id s' = 2 /\ calls s' = [(dec_of_nat 1, 0)].
Proof.
  destruct (run_state cfg_push tr_callback) as [s|] eqn:E; [|discriminate E].
  exists s. eexists. split; [eapply run_state_reach; eauto|].
  vm_compute in E. injection E as <-. vm_compute. repeat split.
Qed.

Example push_notify_nonvacuous :
  exists s s', reach cfg_push s /\ running s = true /\
    step s (LRelPush 5) = Some (s', [OSendReq true [] [109]%N [49]%N; ORet 5 AOk]) /\ call_id s' = call_id s.
Proof.
  destruct (run_state cfg_push [LStart; LCallPush 5 false [109]%N [49]%N]) as [s|] eqn:E; [|discriminate E].
  exists s. eexists. split; [eapply run_state_reach; eauto|].
  vm_compute in E. injection E as <-. vm_compute. repeat split.
Qed.

Example reply_matches_nonvacuous :
  exists s s', reach cfg_push s /\
    step s LRelRead = Some (s', [ORet 5 (ACbRes [50]%N)]) /\ is_completion (ACbRes [50]%N) = true /\ calls s' = [].
Proof.
  destruct (run_state cfg_push (tr_callback ++ [LRelPush 5; LFeed (FMsg (InMsgs false [reply_msg [49]%N [50]%N]))]))
    as [s|] eqn:E; [|discriminate E].
  exists s. eexists. split; [eapply run_state_reach; eauto|].
  vm_compute in E. injection E as <-. vm_compute. repeat split.
Qed.

Example watcher_matches_nonvacuous :
  exists s s', reach cfg_push s /\
    step s (LRelCbWatch 0) = Some (s', [ORet 5 (ACbCtx WDeadline)]) /\ calls s' = [].
Proof.
  destruct (run_state cfg_push (tr_callback ++ [LRelPush 5; LCbCtxEnd 5 WDeadline])) as [s|] eqn:E; [|discriminate E].
  exists s. eexists. split; [eapply run_state_reach; eauto|].
  vm_compute in E. injection E as <-. vm_compute. repeat split.
Qed.

(* a notification handler is running (nbar = 1), the dispatcher waits at the barrier with the
   next request, callback "1" issued by the handler is outstanding; its reply is read and
   completes the callback in that very window *)
Definition tr_barrier : list label :=
  [LStart; LFeed (FMsg (InMsgs false [note_msg [109]%N [49]%N])); LRelRead; LRelNext; LRelBarrier; LRelNext;
   LRelAcquire 0; LCallPush 5 true [109]%N [49]%N; LRelPush 5;
   LFeed (FMsg (InMsgs false [call_msg [55]%N [109]%N [50]%N])); LRelRead; LRelBarrier;
   LFeed (FMsg (InMsgs false [reply_msg [49]%N [50]%N]))].

Example reply_passes_barrier_nonvacuous :
  exists s s', reach cfg_push s /\ crash s = None /\ running s = true /\
    dp s = DBarrierWait 1 /\ nbar s = 1 /\ calls s = [([49]%N, 0)] /\
    rd s = RHold (FMsg (InMsgs false [reply_msg [49]%N [50]%N])) /\
    step s LRelRead = Some (s', [ORet 5 (ACbRes [50]%N)]) /\ calls s' = [] /\ dp s' = DBarrierWait 1 /\ nbar s' = 1.
Proof.
  destruct (run_state cfg_push tr_barrier) as [s|] eqn:E; [|discriminate E].
  exists s. eexists. split; [eapply run_state_reach; eauto|].
  vm_compute in E. injection E as <-. vm_compute. repeat split.
Qed.

(** * C09.3 a push operation returns at most once *)
(* the returns that end a Notify / Callback after its request was attempted *)
Definition is_final (r : apires) : bool :=
  match r with ACbRes _ | ACbErr _ _ | ACbCtx _ | ASendFailed => true | _ => false end.
Definition ret_of (n : nat) (o : obs) : bool :=
  match o with ORet n' r => (n' =? n) && is_final r | _ => false end.
Definition is_push_n (n : nat) (o : op) : bool := match o with OpPush n' _ _ _ => n' =? n | _ => false end.
Definition live (c : cb) : bool := match cb_slot c with None => negb (cb_ret c) | Some _ => false end.
Definition live_n (n : nat) (c : cb) : bool := (cb_op c =? n) && live c.

(* how many final returns operation number [n] can still produce *)
Definition pot (n : nat) (s : state) : nat :=
  (if existsb (is_push_n n) (ops s) then 1 else 0) + countb (live_n n) (cbs s).

(* a completed callback (slot written, or already returned) is no longer registered *)
Lemma done_not_registered s i c :
  inv_push s -> nth_error (cbs s) i = Some c -> live c = false -> ~ In (cb_id c, i) (calls s).
Proof.
  intros H N L I. destruct (ip_reg _ H _ _ I) as (c' & N' & _ & (O1 & O2 & _)).
  assert (c' = c) by congruence. subst c'. unfold live in L. rewrite O1, O2 in L. discriminate.
Qed.

Lemma existsb_del_op n n' l :
  existsb (is_push_n n) (del_op n' l) = if n' =? n then false else existsb (is_push_n n) l.
Proof.
  unfold del_op. induction l as [|o l IH]; cbn; [destruct (n' =? n); auto|].
  destruct (Nat.eqb_spec (op_num o) n') as [E|E]; cbn.
  - rewrite IH. destruct (Nat.eqb_spec n' n) as [->|Ne]; auto.
    destruct o; cbn in *; auto. destruct (Nat.eqb_spec n0 n); [lia|auto].
  - rewrite IH. destruct (Nat.eqb_spec n' n) as [->|Ne]; auto.
    destruct o; cbn in *; auto. destruct (Nat.eqb_spec n0 n); [lia|auto].
Qed.

Lemma existsb_del_op_le n n' l : (if existsb (is_push_n n) (del_op n' l) then 1 else 0) <= (if existsb (is_push_n n) l then 1 else 0).
Proof. rewrite existsb_del_op. destruct (n' =? n), (existsb (is_push_n n) l); lia. Qed.

Lemma countb_map_same {A} (p : A -> bool) (f : A -> A) l : (forall x, p (f x) = p x) -> countb p (map f l) = countb p l.
Proof. intros H. induction l as [|x l IH]; cbn; auto. rewrite H, IH; auto. Qed.

Lemma stop_cb_live n cl c : live_n n (stop_cb cl c) = live_n n c.
Proof. unfold stop_cb. destruct (assoc (cb_id c) cl); reflexivity. Qed.

Lemma no_ret_count n os : Forall (fun o => ~ is_ret o) os -> countb (ret_of n) os = 0.
Proof. induction 1 as [|o l H _ IH]; cbn; auto. destruct o; cbn in *; auto. tauto. Qed.

Lemma res_of_val_final v : is_final (res_of_val v) = true.
Proof.
  destruct v as [raw|code msg]; cbn; auto. unfold ctx_res.
  destruct (code =? Cancelled)%Z; auto. destruct (code =? DeadlineExceeded)%Z; auto.
Qed.

(* completing a registered callback moves one unit of potential into one return *)
Lemma complete_cb_pot n k i v s :
  inv_push s -> In (k, i) (calls s) ->
  countb (ret_of n) (snd (complete_cb i v s)) + pot n (fst (complete_cb i v s)) = pot n s.
Proof.
  intros H I. destruct (complete_cb_reg _ _ v _ H I) as (c & N & Eid & Rt & Sl & ->). cbn [fst snd].
  unfold pot. cbn [ops cbs countb]. 
  change (ops (s <| cbs ::= upd_nth i (fun c => wake_watch (c <| cb_slot := Some v |>)) |> <| calls ::= assoc_del k |>)) with (ops s).
  change (cbs (s <| cbs ::= upd_nth i (fun c => wake_watch (c <| cb_slot := Some v |>)) |> <| calls ::= assoc_del k |>))
    with (upd_nth i (fun c => wake_watch (c <| cb_slot := Some v |>)) (cbs s)).
  pose proof (countb_upd_nth (live_n n) i (fun c => wake_watch (c <| cb_slot := Some v |>)) (cbs s) c N) as CU.
  unfold ret_of. rewrite res_of_val_final, andb_true_r.
  assert (L1 : live_n n (wake_watch (c <| cb_slot := Some v |>)) = false).
  { unfold live_n, live. cbn. apply andb_false_r. }
  assert (L2 : live_n n c = (cb_op c =? n)).
  { unfold live_n, live. rewrite Sl, Rt. cbn. apply andb_true_r. }
  cbv beta in CU. rewrite L1, L2 in CU. destruct (cb_op c =? n); lia.
Qed.

Lemma filter_batch_pot n : forall ms s keep acc s' keep' acc',
  inv_push s -> filter_batch ms s keep acc = (s', keep', acc') ->
  countb (ret_of n) acc' + pot n s' = countb (ret_of n) acc + pot n s.
Proof.
  induction ms as [|m r IH]; intros s keep acc s' keep' acc' H E; cbn [filter_batch] in E.
  - injection E as <- <- <-. auto.
  - destruct (is_req_or_notif m); [eauto|].
    destruct (assoc (fix_id (j_id m)) (calls s)) as [i|] eqn:A.
    2:{ destruct (c_push s && is_nil (j_method m) && has_reply_fields m); eauto. }
    pose proof (complete_cb_pot n _ _ (member_val m) _ H (assoc_in _ _ _ A)) as P.
    pose proof (complete_cb_ip i (member_val m) s H) as H1.
    fold (member_val m) in E. destruct (complete_cb i (member_val m) s) as [s1 os1]. cbn [fst snd] in *.
    rewrite (IH _ _ _ _ _ _ H1 E), countb_app. lia.
Qed.

Lemma stop_locked_pot n sc s s' os : stop_locked sc s = (s', os) -> pot n s' = pot n s /\ countb (ret_of n) os = 0.
Proof.
  intros H. apply stop_locked_spec in H as [(_ & -> & ->)|(_ & -> & _ & _ & _ & _ & _ & _ & Eo & _ & _ & Ec)]; auto.
  unfold pot. rewrite Eo, Ec, countb_map_same; auto. intros; apply stop_cb_live.
Qed.

Definition push_label_n (n : nat) (l : label) : nat :=
  match l with LCallPush n' _ _ _ => if n' =? n then 1 else 0 | _ => 0 end.

Lemma pot_frame n s s' : ops s' = ops s -> cbs s' = cbs s -> pot n s' = pot n s.
Proof. unfold pot. intros -> ->. reflexivity. Qed.

Lemma raw_pot n s l s' os :
  inv_push s -> step_raw s l = Some (s', os) ->
  countb (ret_of n) os + pot n s' <= pot n s + push_label_n n l.
Proof.
  intros IH H.
  destruct (neutral l) eqn:Neu.
  { apply step_raw_neutral in H as [P F]; auto. apply pv_fields in P.
    rewrite (no_ret_count _ _ F), (pot_frame n s s'); [lia|tauto|tauto]. }
  destruct l; try discriminate Neu; cbn [step_raw push_label_n] in *.
  - destruct (negb (running s) && (wg s =? 0)); [|discriminate]. injection H as <- <-. unfold pot; cbn; lia.
  - injection H as <- <-. unfold pot; cbn; lia.
  - injection H as <- <-. unfold pot. cbn. rewrite existsb_app. cbn. rewrite orb_false_r. lia.
  - injection H as <- <-. unfold pot. cbn. rewrite existsb_app. cbn. rewrite orb_false_r. lia.
  - destruct (c_push s); injection H as <- <-.
    + unfold pot. cbn. rewrite existsb_app. cbn. rewrite orb_false_r.
      destruct (existsb (is_push_n n) (ops s)), (n0 =? n); cbn; lia.
    + cbn. rewrite andb_false_r. cbn. lia.
  - destruct (find_idx _ 0 (cbs s)) as [i|]; injection H as <- <-; cbn; [|unfold pot; cbn; lia].
    unfold pot. cbn. rewrite countb_upd_nth_same; [lia|].
    intros x _. destruct (cb_cancelled x); reflexivity.
  - (* LRelRead *)
    destruct (rd s) as [| |f|]; try discriminate. injection H as H. unfold read_cs in H.
    destruct f as [i|i|sc].
    1,2: destruct (negb (running s)); [injection H as <- <-; unfold pot; cbn; lia|];
         destruct i as [|b ms]; [cbn in H; injection H as <- <-; unfold pot; cbn; lia|];
         destruct ms as [|m0 ms0]; [cbn in H; injection H as <- <-; unfold pot; cbn; lia|];
         destruct (filter_batch (m0 :: ms0) s [] []) as [[s1 keep] os1] eqn:FB;
         pose proof (filter_batch_pot n _ _ _ _ _ _ _ IH FB) as P; cbn [countb] in P;
         destruct keep; [injection H as <- <-; rewrite (pot_frame n s1); auto; lia|];
         match type of H with (if ?b then _ else _) = _ => destruct b end; injection H as <- <-;
         rewrite ?countb_app; cbn [countb ret_of]; rewrite (pot_frame n s1); auto; lia.
    destruct (stop_locked sc s) as [s2 os2] eqn:SL. injection H as <- <-.
    destruct (stop_locked_pot n _ _ _ _ SL) as [P Z]. rewrite Z, (pot_frame n s2); auto; lia.
  - (* LRelStop *)
    destruct (find_op n0 (ops s)) as [[| |]|]; try discriminate.
    destruct (stop_locked SCStop _) as [s2 os2] eqn:SL. injection H as <- <-.
    destruct (stop_locked_pot n _ _ _ _ SL) as [P Z]. rewrite countb_app, Z, P. cbn. rewrite andb_false_r.
    unfold pot. cbn [ops cbs]. 
    change (ops (s <| ops ::= del_op n0 |>)) with (del_op n0 (ops s)).
    change (cbs (s <| ops ::= del_op n0 |>)) with (cbs s).
    pose proof (existsb_del_op_le n n0 (ops s)). lia.
  - (* LRelCancel *)
    destruct (find_op n0 (ops s)) as [[| |]|]; try discriminate. cbn in H.
    assert (E : ops s' = del_op n0 (ops s) /\ cbs s' = cbs s /\ os = [ORet n0 AOk]).
    { destruct (assoc id (used s)); injection H as <- <-; [|auto].
      pose proof (cancel_task_pv n2 (s <| ops ::= del_op n0 |>)) as P. apply pv_fields in P.
      destruct P as (_ & _ & _ & _ & _ & _ & -> & -> & _). auto. }
    destruct E as (E1 & E2 & ->). unfold pot. rewrite E1, E2. cbn. rewrite andb_false_r.
    pose proof (existsb_del_op_le n n0 (ops s)). cbn. lia.
  - (* LRelPush *)
    destruct (find_op n0 (ops s)) as [[| |n' w m p]|] eqn:F; try discriminate.
    apply find_op_num in F as [F1 F2]. cbn in F1. subst n'.
    assert (X : existsb (is_push_n n0) (ops s) = true).
    { apply existsb_exists. eexists; split; [exact F2|]. cbn. apply Nat.eqb_refl. }
    cbn in H.
    assert (D : (if existsb (is_push_n n) (del_op n0 (ops s)) then 1 else 0) + (if n0 =? n then 1 else 0)
                <= (if existsb (is_push_n n) (ops s) then 1 else 0)).
    { rewrite existsb_del_op. destruct (Nat.eqb_spec n0 n) as [->|Ne]; [rewrite X; lia|lia]. }
    destruct (running s); cbn in H.
    2:{ injection H as <- <-. unfold pot. cbn. rewrite andb_false_r. cbn. lia. }
    destruct w.
    + destruct (send_fail s); injection H as <- <-; unfold pot; cbn; rewrite countb_app; cbn.
      * rewrite andb_true_r. unfold live_n at 2. cbn. rewrite andb_false_r. destruct (n0 =? n); lia.
      * destruct (find _ (ended s)) as [[? ?]|]; unfold live_n at 2; cbn; rewrite andb_true_r; destruct (n0 =? n); lia.
    + injection H as <- <-. unfold pot. cbn. destruct (send_fail s); cbn; rewrite ?andb_true_r, ?andb_false_r; destruct (n0 =? n); cbn; lia.
  - (* LRelCbWatch *)
    rename c into i.
    destruct (watch_own _ _ _ _ IH H) as (cb0 & N & W & Cases).
    cbn [step_raw] in H. rewrite N, W in H.
    replace (calls (s <| cbs ::= upd_nth i (fun c => c <| cb_watch := WDone |>) |>)) with (calls s) in H by reflexivity.
    assert (P1 : pot n (s <| cbs ::= upd_nth i (fun c => c <| cb_watch := WDone |>) |>) = pot n s).
    { unfold pot. cbn. rewrite countb_upd_nth_same; auto. }
    destruct Cases as [(NI & -> & _)|(I & -> & _)].
    + assert (E : s' = s <| cbs ::= upd_nth i (fun c => c <| cb_watch := WDone |>) |>).
      { destruct (assoc (cb_id cb0) (calls s)) as [j|] eqn:A; [|injection H as <-; auto].
        destruct (cb_slot cb0) eqn:SL; [injection H as <-; auto|].
        destruct (Nat.eqb_spec j i) as [->|Ne]; [|injection H as <-; auto].
        exfalso. apply NI. apply assoc_in; auto. }
      rewrite E, P1. cbn. lia.
    + (* completing: use the potential of the original state directly *)
      pose proof (NoDup_assoc _ _ _ (ip_nodup _ IH) I) as A. rewrite A in H.
      destruct (ip_reg _ IH _ _ I) as (c' & N' & _ & (O1 & O2 & _)).
      assert (c' = cb0) by congruence. subst c'. rewrite O1, Nat.eqb_refl in H.
      assert (E : exists v, complete_cb i v (s <| cbs ::= upd_nth i (fun c => c <| cb_watch := WDone |>) |>)
                            = (s', [ORet (cb_op cb0) (ACbCtx (ctx_why cb0))])).
      { destruct (cb_ctx cb0) as [[|]|]; injection H as H; eauto. }
      destruct E as (v & E). unfold complete_cb in E.
      match type of E with context [nth_error ?l i] =>
        change l with (upd_nth i (fun c => c <| cb_watch := WDone |>) (cbs s)) in E end.
      rewrite (nth_error_upd_nth_eq _ _ _ _ N) in E. injection E as <- _.
      unfold pot. cbn [ops cbs countb ret_of is_final].
      change (ops (s <| cbs ::= upd_nth i (fun x => x <| cb_watch := WDone |>) |>
                     <| cbs ::= upd_nth i (fun y => wake_watch (y <| cb_slot := Some v |>)) |>
                     <| calls ::= assoc_del (cb_id cb0) |>)) with (ops s).
      change (cbs (s <| cbs ::= upd_nth i (fun x => x <| cb_watch := WDone |>) |>
                     <| cbs ::= upd_nth i (fun y => wake_watch (y <| cb_slot := Some v |>)) |>
                     <| calls ::= assoc_del (cb_id cb0) |>))
        with (upd_nth i (fun y => wake_watch (y <| cb_slot := Some v |>)) (upd_nth i (fun x => x <| cb_watch := WDone |>) (cbs s))).
      rewrite upd_nth_upd_nth.
      pose proof (countb_upd_nth (live_n n) i (fun x => wake_watch ((x <| cb_watch := WDone |>) <| cb_slot := Some v |>)) (cbs s) cb0 N) as CU.
      assert (L1 : live_n n (wake_watch ((cb0 <| cb_watch := WDone |>) <| cb_slot := Some v |>)) = false).
      { unfold live_n, live. cbn. apply andb_false_r. }
      assert (L2 : live_n n cb0 = (cb_op cb0 =? n)).
      { unfold live_n, live. rewrite O1, O2. cbn. apply andb_true_r. }
      cbv beta in CU. rewrite L1, L2 in CU. rewrite andb_true_r. destruct (cb_op cb0 =? n); lia.
Qed.

Lemma settle_obs_no_final n extra : Forall settle_obs extra -> countb (ret_of n) extra = 0.
Proof. induction 1 as [|o l H _ IH]; cbn; auto. destruct o; cbn in *; auto; tauto. Qed.

Lemma step_pot n s l s' os :
  inv_push s -> step s l = Some (s', os) -> countb (ret_of n) os + pot n s' <= pot n s + push_label_n n l.
Proof.
  intros IH H. apply step_obs_raw in H as (_ & s1 & os1 & ex & Raw & -> & Fx & P).
  pose proof (raw_pot n _ _ _ _ IH Raw) as B. apply pv_fields in P.
  rewrite countb_app, (settle_obs_no_final _ _ Fx), (pot_frame n s1 s'); [lia|tauto|tauto].
Qed.

Fixpoint count_final (n : nat) (oss : list (list obs)) : nat :=
  match oss with [] => 0 | os :: r => countb (ret_of n) os + count_final n r end.
Fixpoint count_push (n : nat) (tr : list label) : nat :=
  match tr with [] => 0 | l :: r => push_label_n n l + count_push n r end.
Definition push_nums (tr : list label) : list nat :=
  flat_map (fun l => match l with LCallPush n _ _ _ => [n] | _ => [] end) tr.

Lemma run_pot c n : forall tr s s' oss, reach c s -> run s tr = Some (s', oss) ->
  count_final n oss + pot n s' <= pot n s + count_push n tr.
Proof.
  induction tr as [|l r IH]; cbn; intros s s' oss R H.
  - injection H as <- <-. cbn. lia.
  - destruct (step s l) as [[s1 os]|] eqn:E; [|discriminate].
    destruct (run s1 r) as [[s2 oss2]|] eqn:E2; [|discriminate].
    injection H as <- <-. cbn.
    pose proof (step_pot n _ _ _ _ (inv_push_reach _ _ R) E) as B1.
    pose proof (IH _ _ _ (reach_step _ _ _ _ _ R E) E2) as B2. lia.
Qed.

Lemma count_push_notin n tr : ~ In n (push_nums tr) -> count_push n tr = 0.
Proof.
  induction tr as [|l r IH]; cbn; auto. intros N. rewrite in_app_iff in N.
  rewrite IH by tauto. destruct l; cbn; auto.
  destruct (Nat.eqb_spec n0 n) as [->|Ne]; auto. exfalso. apply N. left. cbn. auto.
Qed.

Lemma count_push_nodup n tr : NoDup (push_nums tr) -> count_push n tr <= 1.
Proof.
  induction tr as [|l r IH]; cbn; auto. intros N.
  destruct l; cbn in *; auto.
  inversion N as [|? ? Hn Hd]; subst.
  destruct (Nat.eqb_spec n0 n) as [->|Ne]; [rewrite count_push_notin; auto|auto].
Qed.

(* C09.3: on every trace, the final returns (result, error, context error, send failure) of
   operation number [n] are at most as many as the environment's push calls numbered [n];
   if the environment never reuses an operation number: at most one *)
Lemma returns_at_most_calls c tr s oss n :
  run (init_of c) tr = Some (s, oss) -> count_final n oss <= count_push n tr.
Proof.
  intros H. pose proof (run_pot c n tr _ _ _ (reach_init c) H) as B.
  assert (Z : pot n (init_of c) = 0) by reflexivity. lia.
Qed.

Lemma returns_once c tr s oss n :
  run (init_of c) tr = Some (s, oss) -> NoDup (push_nums tr) -> count_final n oss <= 1.
Proof.
  intros H N. pose proof (returns_at_most_calls _ _ _ _ n H). pose proof (count_push_nodup n tr N). lia.
Qed.

(* the callback is answered, then the same reply arrives again: one return *)
Example returns_once_nonvacuous :
  exists s oss,
    run (init_of cfg_push) (tr_callback ++ [LRelPush 5; LFeed (FMsg (InMsgs false [reply_msg [49]%N [50]%N])); LRelRead;
                                            LFeed (FMsg (InMsgs false [reply_msg [49]%N [51]%N])); LRelRead;
                                            LCbCtxEnd 5 WCancel; LRelCbWatch 0]) = Some (s, oss) /\
    NoDup (push_nums (tr_callback ++ [LRelPush 5])) /\ count_final 5 oss = 1.
Proof.
  eexists. eexists. split; [vm_compute; reflexivity|]. split; [cbn; repeat constructor; auto|reflexivity].
Qed.

(** * C09.3 (second half) quiescent completeness *)
Lemma idxs_where_in {A} (p : A -> bool) : forall l b i x,
  nth_error l i = Some x -> p x = true -> In (b + i) (idxs_where p b l).
Proof.
  induction l as [|y l IH]; intros b [|i] x N P; cbn in *; try discriminate.
  - injection N as ->. rewrite P. cbn. left. lia.
  - apply in_app_iff. right. replace (b + S i) with (S b + i) by lia. eapply IH; eauto.
Qed.

Lemma step_enabled s l : crash s = None -> step_raw s l <> None -> step s l <> None.
Proof.
  intros C H. unfold step. rewrite C. destruct (step_raw s l) as [[s1 os1]|]; [|congruence].
  destruct (crash s1); [discriminate|]. destruct (settle _ s1 os1). discriminate.
Qed.

Lemma parked_watcher_enabled s i c :
  crash s = None -> nth_error (cbs s) i = Some c -> cb_watch c = WParked -> quiescent s = false.
Proof.
  intros C N W. unfold quiescent.
  assert (I : In (LRelCbWatch i) (enabled_rel s)).
  { unfold enabled_rel. apply filter_In. split.
    - apply in_flat_map. exists SCbWatch. split; [cbn; tauto|].
      cbn. apply in_map. apply (idxs_where_in watch_parked (cbs s) 0 i c N). unfold watch_parked. rewrite W. auto.
    - destruct (step s (LRelCbWatch i)) eqn:E; auto.
      exfalso. revert E. apply step_enabled; auto. cbn. rewrite N, W.
      destruct (assoc _ _); [|discriminate]. destruct (cb_slot c); [discriminate|].
      destruct (_ =? _); [|discriminate]. destruct (cb_ctx c) as [[|]|]; discriminate. }
  destruct (enabled_rel s); [destruct I|reflexivity].
Qed.

(* In a quiescent state every callback that is still outstanding has a live context and a
   running server: whenever the context ended or the server stopped, the callback has been
   completed (C09.6 covers the third way: an arriving reply completes it in its window). *)
Lemma quiescent_complete c s k i :
  reach c s -> crash s = None -> quiescent s = true -> In (k, i) (calls s) ->
  exists cb0, nth_error (cbs s) i = Some cb0 /\ cb_id cb0 = k /\
    cb_ctx cb0 = None /\ cb_cancelled cb0 = false /\ running s = true.
Proof.
  intros R C Q I. pose proof (inv_push_reach _ _ R) as IP.
  destruct (ip_reg _ IP _ _ I) as (cb0 & N & Eid & (O1 & O2 & O3 & O4 & O5)).
  exists cb0. split; auto. split; auto.
  destruct (cb_cancelled cb0) eqn:CC.
  - rewrite (parked_watcher_enabled _ _ _ C N O3) in Q. discriminate.
  - repeat split.
    + destruct (cb_ctx cb0); auto. assert (X : false = true) by (apply O4; discriminate). discriminate X.
    + destruct (running s); auto.
Qed.

(* after a stop every outstanding callback is cancelled and its watcher is parked (enabled) *)
Lemma stopped_callbacks_cancelled c s k i :
  reach c s -> running s = false -> In (k, i) (calls s) ->
  exists cb0, nth_error (cbs s) i = Some cb0 /\ cb_cancelled cb0 = true /\ cb_watch cb0 = WParked.
Proof.
  intros R Run I. destruct (ip_reg _ (inv_push_reach _ _ R) _ _ I) as (cb0 & N & _ & (_ & _ & O3 & _ & O5)).
  exists cb0. rewrite (O5 Run) in O3. auto.
Qed.

Example quiescent_complete_nonvacuous :
  exists s, reach cfg_push s /\ crash s = None /\ quiescent s = true /\ calls s = [([49]%N, 0)] /\ running s = true.
Proof.
  destruct (run_state cfg_push (tr_callback ++ [LRelPush 5; LRelNext])) as [s|] eqn:E; [|discriminate E].
  exists s. split; [eapply run_state_reach; eauto|].
  vm_compute in E. injection E as <-. vm_compute. repeat split.
Qed.

(* and the other side: stop with a callback outstanding; once the state is quiescent again
   the callback has returned with the cancellation error *)
Example stop_completes_nonvacuous :
  exists s oss, run (init_of cfg_push) (tr_callback ++ [LRelPush 5; LCallStop 6; LRelStop 6; LRelCbWatch 0; LRelNext])
                = Some (s, oss) /\
    quiescent s = true /\ running s = false /\ calls s = [] /\ count_final 5 oss = 1 /\
    In [ORet 5 (ACbCtx WCancel)] oss.
Proof.
  eexists. eexists. split; [vm_compute; reflexivity|]. vm_compute. repeat split; auto.
  do 5 right. left. reflexivity.
Qed.

(** More examples *)
(* one batch carrying the reply to callback "1" twice: the second copy is late when its turn
   comes and is skipped; exactly one return, nothing queued *)
Example late_reply_in_batch_nonvacuous :
  exists s, reach cfg_push s /\ calls s = [([49]%N, 0)] /\
    late_reply (fst (fst (filter_batch [reply_msg [49]%N [50]%N] s [] []))) (reply_msg [49]%N [51]%N) /\
    exists s', read_cs (FMsg (InMsgs true [reply_msg [49]%N [50]%N; reply_msg [49]%N [51]%N])) s
               = (s', [ORet 5 (ACbRes [50]%N)]) /\ inq s' = [] /\ calls s' = [].
Proof.
  destruct (run_state cfg_push (tr_callback ++ [LRelPush 5])) as [s|] eqn:E; [|discriminate E].
  exists s. split; [eapply run_state_reach; eauto|].
  vm_compute in E. injection E as <-. split; [reflexivity|]. split; [vm_compute; repeat split|].
  eexists. vm_compute. repeat split.
Qed.

Example stopped_callbacks_cancelled_nonvacuous :
  exists s, reach cfg_push s /\ running s = false /\ calls s = [([49]%N, 0)] /\
    exists s' os, step s (LRelCbWatch 0) = Some (s', os) /\ os = [ORet 5 (ACbCtx WCancel)] /\ calls s' = [].
Proof.
  destruct (run_state cfg_push (tr_callback ++ [LRelPush 5; LCallStop 6; LRelStop 6])) as [s|] eqn:E; [|discriminate E].
  exists s. split; [eapply run_state_reach; eauto|].
  vm_compute in E. injection E as <-. split; [reflexivity|]. split; [reflexivity|].
  eexists. eexists. vm_compute. repeat split.
Qed.

Example done_not_registered_nonvacuous :
  exists s cb0, reach cfg_push s /\ nth_error (cbs s) 0 = Some cb0 /\ live cb0 = false /\
    cb_slot cb0 = Some (CRes [50]%N) /\ calls s = [].
Proof.
  destruct (run_state cfg_push (tr_callback ++ [LRelPush 5; LFeed (FMsg (InMsgs false [reply_msg [49]%N [50]%N])); LRelRead]))
    as [s|] eqn:E; [|discriminate E].
  exists s. eexists. split; [eapply run_state_reach; eauto|].
  vm_compute in E. injection E as <-. vm_compute. repeat split.
Qed.
