(* C09: server push (Notify / Callback): gate, one request each, unique ids, matching,
   late replies inert, replies pass the barrier, exactly-once return.
   Proofs about SrvModel; the theorems are restated in props/C09.v. *)
From Coq Require Import List NArith ZArith Bool Arith Lia.
From RecordUpdate Require Import RecordUpdate.
From JV Require Import Bytes Msg SrvModel SrvLemmas.
Import ListNotations.

(** * Frame: the part of the state the push machinery (and the channel) lives in.
    Everything that is not a push / stop / start label leaves it alone. *)
Definition pv (s : state) :=
  (c_push s, running s, closes s, starts s, (calls s, call_id s, cbs s), (ops s, ended s, send_fail s)).

Lemma cancel_task_pv k s : pv (cancel_task k s) = pv s.
Proof.
  unfold cancel_task. destruct (nth_error (tasks s) k) as [t|]; auto.
  destruct (t_st t); reflexivity.
Qed.

Lemma grant_pv : forall fuel s acc s' os, grant fuel s acc = (s', os) -> pv s' = pv s.
Proof.
  induction fuel as [|f IH]; cbn; intros s acc s' os H.
  - injection H as <- <-; auto.
  - destruct (sem_wait s) as [|k r]; [injection H as <- <-; auto|].
    destruct (sem_free s) as [|fr]; [injection H as <- <-; auto|].
    destruct (nth_error (tasks s) k) as [t|]; [|injection H as <- <-; auto].
    destruct (t_builtin t); apply IH in H; rewrite H; reflexivity.
Qed.

Definition is_start_obs (o : obs) : Prop := match o with OStart _ _ => True | _ => False end.

Lemma grant_obs : forall fuel s acc s' os, grant fuel s acc = (s', os) ->
  exists extra, os = acc ++ extra /\ Forall is_start_obs extra.
Proof.
  induction fuel as [|f IH]; cbn; intros s acc s' os H.
  - injection H as <- <-. exists []. rewrite app_nil_r; auto.
  - destruct (sem_wait s) as [|k r]; [injection H as <- <-; exists []; rewrite app_nil_r; auto|].
    destruct (sem_free s) as [|fr]; [injection H as <- <-; exists []; rewrite app_nil_r; auto|].
    destruct (nth_error (tasks s) k) as [t|]; [|injection H as <- <-; exists []; rewrite app_nil_r; auto].
    destruct (t_builtin t).
    + apply IH in H; auto.
    + apply IH in H. destruct H as (ex & -> & F).
      exists (OStart (t_params t) (t_cancelled t) :: ex). rewrite <- app_assoc. split; auto.
      constructor; cbn; auto.
Qed.

Lemma dequeue_pv s : pv (dequeue s) = pv s.
Proof.
  unfold dequeue. destruct (inq s) as [|[b ms] q].
  - destruct (running s); reflexivity.
  - reflexivity.
Qed.

Lemma release_ids_pv : forall ts s, pv (release_ids ts s) = pv s.
Proof.
  induction ts as [|t r IH]; cbn; intros s; auto.
  rewrite IH.
  destruct (t_hasctx t && negb (is_note t)); auto.
  destruct (assoc (t_id t) (used s)); auto.
  change (pv (cancel_task n s) = pv s). apply cancel_task_pv.
Qed.

Lemma fold_cancel_pv : forall (l : list (bytes * nat)) s,
  pv (fold_left (fun st p => cancel_task (snd p) st) l s) = pv s.
Proof.
  induction l as [|p l IH]; cbn; intros s; auto. rewrite IH. apply cancel_task_pv.
Qed.

Lemma settle1_pv s s' os : settle1 s = Some (s', os) -> pv s' = pv s.
Proof.
  intros H. apply settle1_inv in H. destruct H; try reflexivity.
  apply dequeue_pv.
Qed.

Lemma settle_pv : forall fuel s acc s' os, settle fuel s acc = (s', os) -> pv s' = pv s.
Proof.
  induction fuel as [|f IH]; cbn; intros s acc s' os H.
  - injection H as <- <-; auto.
  - destruct (settle1 s) as [[s1 os1]|] eqn:E.
    + apply IH in H. rewrite H. eapply settle1_pv; eauto.
    + injection H as <- <-; auto.
Qed.

(* projections out of a [pv] equality *)
Lemma pv_fields s s' : pv s' = pv s ->
  c_push s' = c_push s /\ running s' = running s /\ closes s' = closes s /\ starts s' = starts s /\
  calls s' = calls s /\ call_id s' = call_id s /\ cbs s' = cbs s /\ ops s' = ops s /\ ended s' = ended s /\
  send_fail s' = send_fail s.
Proof. unfold pv. intros H. injection H; intros; repeat split; assumption. Qed.

(* labels that do not belong to the push / stop / start machinery *)
Definition neutral (l : label) : bool :=
  match l with
  | LFeed _ | LGate _ _ | LCallWait | LRelNext | LRelBarrier | LRelAcquire _ | LRelHandled _ | LRelDeliver _ => true
  | _ => false
  end.

Definition is_ret (o : obs) : Prop := match o with ORet _ _ => True | _ => False end.

Lemma set_task_pv k f s : pv (set_task k f s) = pv s.
Proof. reflexivity. Qed.
Lemma set_unit_pv k f s : pv (set_unit k f s) = pv s.
Proof. reflexivity. Qed.

Lemma step_raw_neutral s l s' os :
  neutral l = true -> step_raw s l = Some (s', os) -> pv s' = pv s /\ Forall (fun o => ~ is_ret o) os.
Proof.
  destruct l; cbn [neutral]; try discriminate; intros _; cbn [step_raw]; intros H.
  - (* LFeed *) injection H as <- <-. split; [reflexivity|constructor].
  - (* LGate *)
    destruct (find_idx _ 0 (tasks s)) as [k|]; [|discriminate].
    destruct (nth_error (tasks s) k) as [t|]; [|discriminate].
    injection H as <- <-. split; [reflexivity|repeat constructor; cbn; auto].
  - (* LCallWait *) injection H as <- <-. split; [reflexivity|constructor].
  - (* LRelNext *) destruct (dp s); try discriminate. injection H as <- <-. split; [apply dequeue_pv|constructor].
  - (* LRelBarrier *) destruct (dp s); try discriminate. injection H as <- <-. split; [reflexivity|constructor].
  - (* LRelAcquire *)
    destruct (nth_error (tasks s) k) as [t|]; [|discriminate].
    destruct (t_st t); try discriminate.
    destruct (negb (unit_running s t)); [discriminate|].
    destruct (t_cancelled t); [injection H as <- <-; split; [reflexivity|constructor]|].
    destruct (sem_free s) as [|fr]; [injection H as <- <-; split; [reflexivity|constructor]|].
    destruct (sem_wait s); [|injection H as <- <-; split; [reflexivity|constructor]].
    destruct (t_builtin t); injection H as <- <-; (split; [reflexivity|repeat constructor; cbn; auto]).
  - (* LRelHandled *)
    destruct (nth_error (tasks s) k) as [t|]; [|discriminate].
    destruct (t_st t); try discriminate.
    match type of H with context [grant ?f ?s1 []] => destruct (grant f s1 []) as [s2 os2] eqn:G end.
    pose proof (grant_pv _ _ _ _ _ G) as P. destruct (grant_obs _ _ _ _ _ G) as (ex & -> & F). cbn [app] in *.
    assert (NR : Forall (fun o => ~ is_ret o) ex).
    { eapply Forall_impl; [|exact F]. intros [] Hs; cbn in *; tauto. }
    destruct (is_note t).
    + destruct (nbar s2); injection H as <- <-; (split; [transitivity (pv s2); [reflexivity|rewrite P; reflexivity]|]); auto.
      apply Forall_app; split; auto.
    + injection H as <- <-. split; auto.
  - (* LRelDeliver *)
    destruct (nth_error (units s) u) as [un|]; [|discriminate].
    destruct (u_st un); try discriminate.
    pose proof (release_ids_pv (unit_tasks s u) s) as P.
    destruct (negb (u_chok un)); injection H as <- <-;
      (split; [transitivity (pv (release_ids (unit_tasks s u) s)); [reflexivity|exact P]|repeat constructor; cbn; auto]).
Qed.

(** * C09.1 the push gate *)
Lemma gate_push_off s n w m p :
  c_push s = false -> step_raw s (LCallPush n w m p) = Some (s, [ORet n APushUnsupported]).
Proof. intros H. cbn. rewrite H. reflexivity. Qed.

Lemma gate_conn_closed s n s' os :
  running s = false -> step_raw s (LRelPush n) = Some (s', os) ->
  s' = s <| ops ::= del_op n |> /\ os = [ORet n AConnClosed].
Proof.
  intros R. cbn [step_raw]. destruct (find_op n (ops s)) as [[| |n' w m p]|]; try discriminate.
  cbn. rewrite R. cbn. intros [= <- <-]. auto.
Qed.

(** * Characterisation of the helpers that touch the push state *)
Definition stop_cb (cl : list (bytes * nat)) (c : cb) : cb :=
  match assoc (cb_id c) cl with
  | Some _ => c <| cb_cancelled := true |> <| cb_watch := match cb_watch c with WBlocked => WParked | w => w end |>
  | None => c
  end.

Lemma stop_locked_spec sc s s' os :
  stop_locked sc s = (s', os) ->
  (running s = false /\ s' = s /\ os = []) \/
  (running s = true /\ os = [OClose] /\ running s' = false /\ closes s' = S (closes s) /\ starts s' = starts s /\
   c_push s' = c_push s /\ calls s' = calls s /\ call_id s' = call_id s /\ ops s' = ops s /\ ended s' = ended s /\
   send_fail s' = send_fail s /\ cbs s' = map (stop_cb (calls s)) (cbs s)).
Proof.
  unfold stop_locked. destruct (running s) eqn:R; cbn [negb].
  2:{ intros [= <- <-]. left; auto. }
  intros H. right. split; auto.
  match type of H with context [fold_left ?f ?l ?s3] =>
    pose proof (fold_cancel_pv l s3) as P; remember (fold_left f l s3) as s4 eqn:E4; clear E4 end.
  apply pv_fields in P. destruct P as (P1 & P2 & P3 & P4 & P5 & P6 & P7 & P8 & P9 & P10).
  destruct (work_closed s) eqn:W; cbn in P1, P2, P3, P4, P5, P6, P7, P8, P9, P10, H; rewrite ?W in *; cbn in *.
  all: destruct (c_unblock s4); injection H as <- <-; cbn; repeat split; auto.
Qed.

(** * List facts *)
Lemma NoDup_assoc_del {A} k (m : list (bytes * A)) : NoDup (map fst m) -> NoDup (map fst (assoc_del k m)).
Proof.
  induction m as [|[k' v] m IH]; cbn; auto.
  intros H. inversion H as [|? ? Hn Hd]; subst.
  destruct (beq k k'); auto. cbn. constructor; auto.
  intros I. apply Hn. apply in_map_iff in I as ([k2 v2] & E & I). cbn in E; subst.
  apply in_assoc_del in I as [I _]. apply in_map_iff. exists (k', v2); auto.
Qed.

Lemma NoDup_assoc {A} k (v : A) m : NoDup (map fst m) -> In (k, v) m -> assoc k m = Some v.
Proof.
  induction m as [|[k' v'] m IH]; cbn; [tauto|].
  intros H. inversion H as [|? ? Hn Hd]; subst.
  intros [E|I].
  - injection E as -> ->. rewrite beq_refl; auto.
  - destruct (beq_spec k k') as [->|N]; auto.
    exfalso. apply Hn. apply in_map_iff. exists (k', v); auto.
Qed.

Lemma in_assoc_del_intro {A} k (m : list (bytes * A)) p : In p m -> fst p <> k -> In p (assoc_del k m).
Proof.
  induction m as [|[k2 v2] m IH]; cbn; [tauto|].
  intros [<-|I] N; cbn in *.
  - destruct (beq_spec k k2); [congruence|cbn; auto].
  - destruct (beq k k2); cbn; auto.
Qed.

Lemma assoc_del_some {A} k k' (m : list (bytes * A)) v : assoc k' (assoc_del k m) = Some v -> assoc k' m = Some v /\ k <> k'.
Proof.
  intros H. destruct (beq_spec k k') as [->|N].
  - rewrite assoc_del_same in H; discriminate.
  - rewrite assoc_del_other in H; auto.
Qed.

Lemma upd_nth_upd_nth {A} n (f g : A -> A) l : upd_nth n f (upd_nth n g l) = upd_nth n (fun x => f (g x)) l.
Proof. revert n; induction l as [|x r IH]; intros [|n]; cbn; auto. f_equal; auto. Qed.

Lemma map_upd_nth_same {A B} (h : A -> B) n (f : A -> A) l :
  (forall x, h (f x) = h x) -> map h (upd_nth n f l) = map h l.
Proof. intros H. revert n; induction l as [|x r IH]; intros [|n]; cbn; auto; f_equal; auto. Qed.

Lemma nth_error_map_some {A B} (h : A -> B) l n y :
  nth_error (map h l) n = Some y -> exists x, nth_error l n = Some x /\ y = h x.
Proof.
  revert n; induction l as [|x r IH]; intros [|n]; cbn; try discriminate; eauto.
  intros [= <-]; eauto.
Qed.

(** * Decimal numerals are injective: a left inverse *)
Definition dec_step (a : nat) (d : N) : nat := 10 * a + N.to_nat (d - 48).
Definition nat_of_dec (b : bytes) : nat := fold_left dec_step b 0.

Lemma dec_digits_value : forall fuel n acc, n < fuel ->
  fold_left dec_step (dec_digits fuel n acc) 0 = fold_left dec_step acc n.
Proof.
  induction fuel as [|f IH]; intros n acc L; [lia|].
  cbn [dec_digits].
  assert (D : dec_step 0 (48 + N.of_nat (n mod 10))%N = n mod 10).
  { unfold dec_step. rewrite N.add_comm, N.add_sub, Nnat.Nat2N.id. lia. }
  pose proof (Nat.div_mod n 10 ltac:(lia)) as DM.
  destruct (Nat.eqb_spec (n / 10) 0) as [Z|Z].
  - cbn [fold_left]. rewrite D. f_equal. lia.
  - rewrite IH.
    + cbn [fold_left]. f_equal. unfold dec_step. rewrite N.add_comm, N.add_sub, Nnat.Nat2N.id. lia.
    + assert (n / 10 < n) by (apply Nat.div_lt; lia). lia.
Qed.

Lemma nat_of_dec_of_nat n : nat_of_dec (dec_of_nat n) = n.
Proof. unfold nat_of_dec, dec_of_nat. rewrite dec_digits_value; [reflexivity|lia]. Qed.

Lemma dec_of_nat_inj a b : dec_of_nat a = dec_of_nat b -> a = b.
Proof. intros H. rewrite <- (nat_of_dec_of_nat a), <- (nat_of_dec_of_nat b), H. reflexivity. Qed.

Example dec_of_nat_nonvacuous : dec_of_nat 0 = [48]%N /\ dec_of_nat 10 = [49; 48]%N /\ dec_of_nat 907 = [57; 48; 55]%N.
Proof. vm_compute. auto. Qed.
