(* C02, server side: classification of inbound members and survival of the reader.
   (props/C02.v is assembled elsewhere from these lemmas and the wire-level ones.) *)
From Coq Require Import List NArith ZArith Bool Arith Lia.
From RecordUpdate Require Import RecordUpdate.
From JV Require Import Bytes Msg SrvModel SrvLemmas SrvBasics SrvC07 SrvC01.
Import ListNotations.

(** * no handler for a member that is not a valid request *)
Theorem c02_no_handler_for_invalid c s k t e tr s' oss :
  reach c s -> nth_error (tasks s) k = Some t -> t_pre t = Some e -> run s tr = Some (s', oss) ->
  (exists t', nth_error (tasks s') k = Some t' /\ t_pre t' = Some e /\ t_st t' = TSkip) /\
  enter_count k s tr = 0.
Proof.
  intros R E P H. split; [|eapply c01_skip_never_starts; eauto].
  pose proof (reach_reachf _ _ R) as Rf.
  destruct (run_task_le _ _ _ _ _ _ _ Rf H E) as (t' & E' & Le). exists t'. split; auto.
  destruct Le as [_ _ _ _ Lp _ _ _ _]. split; [congruence|].
  apply (task_pre_skip c s' k t' e); [|auto|congruence].
  apply reach_reachf. eapply run_reach; eauto.
Qed.

(* and every handler entry that is observed belongs to a task that passed checkAndAssign *)
Theorem c02_start_only_valid c s l s' os p cn : reach c s -> step s l = Some (s', os) -> In (OStart p cn) os ->
  exists k t, nth_error (tasks s) k = Some t /\ t_params t = p /\ t_pre t = None.
Proof.
  intros R H Ho. destruct (c01_start_origin _ _ _ _ _ _ _ R H Ho) as (k & t & t' & E & _ & Ep & _ & _ & _ & P & _).
  exists k, t. auto.
Qed.

Example c02_no_handler_for_invalid_nonvacuous :
  exists s t e, reach ex_cfg s /\ nth_error (tasks s) 0 = Some t /\ t_pre t = Some e.
Proof. exact c01_skip_never_starts_nonvacuous. Qed.

(** * unknown and reserved methods *)
Theorem c02_unknown_method s u ids m :
  pre_err s ids m = None -> j_method m <> [] -> assign_method s (j_method m) = None ->
  let t := mk_task s u ids m in
  t_pre t = Some err_not_found /\ t_st t = TSkip /\ t_hasctx t = true /\
  (fix_id (j_id m) <> [] ->
     response_of t = Some {| r_id := fix_id (j_id m); r_body := BErr MethodNotFound s_not_found |}) /\
  (fix_id (j_id m) = [] -> response_of t = None).
Proof.
  intros P Nm A. unfold mk_task. rewrite P. apply is_nil_false in Nm. rewrite Nm, A. cbn.
  repeat split; auto.
  - intros Ni. unfold response_of, is_note, task_body. cbn. apply is_nil_false in Ni. rewrite Ni. reflexivity.
  - intros Ei. unfold response_of, is_note. cbn. rewrite Ei. reflexivity.
Qed.

(* a reserved rpc.* name is unknown even if the user's assigner has it; a name outside the method set is unknown *)
Lemma assign_method_reserved s m : c_builtin s = true -> has_prefix rpc_prefix m = true -> m <> rpc_server_info ->
  assign_method s m = None.
Proof.
  intros B Pf N. unfold assign_method. rewrite B, Pf. cbn. destruct (beq_spec m rpc_server_info); [congruence|auto].
Qed.

Lemma assign_method_absent s m : (c_builtin s && has_prefix rpc_prefix m = false) -> ~ In m (c_methods s) ->
  assign_method s m = None.
Proof.
  intros B N. unfold assign_method. rewrite B. destruct (mem_bytes m (c_methods s)) eqn:M; auto.
  apply mem_bytes_in in M. tauto.
Qed.

Example c02_unknown_method_nonvacuous :
  let s := st_of ex_cfg [LStart] in let m := ex_msg [49%N] [120%N] [] in
  pre_err s [[49%N]] m = None /\ j_method m <> [] /\ assign_method s (j_method m) = None.
Proof. vm_compute. repeat split; auto. discriminate. Qed.

(** * records that are not JSON, and the empty batch *)
Theorem c02_not_json s f : running s = true -> f = FMsg InBad \/ f = FMsgEOF InBad ->
  read_cs f s = (s <| rd := RIdle |>, [OSend (negb (send_fail s)) false [null_err ParseError s_invalid_value]]).
Proof. intros R [-> | ->]; unfold read_cs; rewrite R; cbn; rewrite R; reflexivity. Qed.

Theorem c02_empty_batch s f b : running s = true -> f = FMsg (InMsgs b []) \/ f = FMsgEOF (InMsgs b []) ->
  read_cs f s = (s <| rd := RIdle |>, [OSend (negb (send_fail s)) false [null_err InvalidRequest s_empty_batch]]).
Proof. intros R [-> | ->]; unfold read_cs; rewrite R; cbn; rewrite R; reflexivity. Qed.

(* in particular nothing is queued and no task is created *)
Corollary c02_not_json_queues_nothing s s' os : running s = true -> read_cs (FMsg InBad) s = (s', os) ->
  inq s' = inq s /\ tasks s' = tasks s /\ running s' = true /\ rd s' = RIdle.
Proof. intros R H. rewrite c02_not_json in H by auto. injection H as <- <-. cbn. auto. Qed.

Corollary c02_empty_batch_queues_nothing s b s' os : running s = true -> read_cs (FMsg (InMsgs b [])) s = (s', os) ->
  inq s' = inq s /\ tasks s' = tasks s /\ running s' = true /\ rd s' = RIdle.
Proof. intros R H. rewrite (c02_empty_batch s _ b) in H by auto. injection H as <- <-. cbn. auto. Qed.

Example c02_not_json_nonvacuous :
  exists s s' os, reach ex_cfg s /\ running s = true /\ step s LRelRead = Some (s', os) /\
    os = [OSend true false [null_err ParseError s_invalid_value]].
Proof.
  exists (st_of ex_cfg [LStart; LFeed (FMsg InBad)]). eexists _, _.
  split; [apply reach_st_of; vm_compute; discriminate|]. compute. repeat split; reflexivity.
Qed.

Example c02_empty_batch_nonvacuous :
  exists s s' os, reach ex_cfg s /\ running s = true /\ step s LRelRead = Some (s', os) /\
    os = [OSend true false [null_err InvalidRequest s_empty_batch]].
Proof.
  exists (st_of ex_cfg [LStart; LFeed (FMsg (InMsgs true []))]). eexists _, _.
  split; [apply reach_st_of; vm_compute; discriminate|]. compute. repeat split; reflexivity.
Qed.

(** * invalid members *)
(* a member with a deferred validation error that is not also a duplicate: the error is reported with the
   member's fixed id, or with null when it has none and the code is -32700 / -32600 *)
Theorem c02_invalid_member_response s u ids m e :
  j_err m = Some e ->
  (fix_id (j_id m) = [] \/ (assoc (fix_id (j_id m)) (used s) = None /\ count_bytes (fix_id (j_id m)) ids <= 1)) ->
  let t := mk_task s u ids m in
  t_pre t = Some (we_code e, we_msg e) /\ t_st t = TSkip /\ t_hasctx t = false /\
  (fix_id (j_id m) <> [] ->
     response_of t = Some {| r_id := fix_id (j_id m); r_body := BErr (we_code e) (we_msg e) |}) /\
  (fix_id (j_id m) = [] -> we_code e = ParseError \/ we_code e = InvalidRequest ->
     response_of t = Some {| r_id := null_bytes; r_body := BErr (we_code e) (we_msg e) |}) /\
  (fix_id (j_id m) = [] -> we_code e <> ParseError -> we_code e <> InvalidRequest -> response_of t = None).
Proof.
  intros E D.
  assert (P : pre_err s ids m = Some (we_code e, we_msg e)).
  { unfold pre_err. rewrite E. destruct D as [Z|[A C]].
    - rewrite Z. cbn. reflexivity.
    - rewrite A. apply Nat.ltb_ge in C. rewrite C. cbn. rewrite andb_false_r. reflexivity. }
  unfold mk_task. rewrite P. cbn. repeat split; auto.
  - intros Ni. unfold response_of, is_note, task_body. cbn. apply is_nil_false in Ni. rewrite Ni. reflexivity.
  - intros Z [C|C]; unfold response_of, is_note; cbn; rewrite Z, C; reflexivity.
  - intros Z N1 N2. unfold response_of, is_note. cbn. rewrite Z. cbn.
    destruct (Z.eqb_spec (we_code e) ParseError); [congruence|].
    destruct (Z.eqb_spec (we_code e) InvalidRequest); [congruence|]. reflexivity.
Qed.

(* the validation errors of the wire layer all carry -32700 or -32600, so an id-less invalid member is
   always reported; a duplicate id takes precedence over the member's own error *)
Example c02_invalid_member_response_nonvacuous :
  let s := st_of ex_cfg [LStart] in
  let m := {| j_id := []; j_method := ex_m; j_params := []; j_error := None; j_result := [];
              j_err := Some {| we_code := InvalidRequest; we_msg := [120%N]; we_data := [] |} |} in
  response_of (mk_task s 0 [[]] m) = Some {| r_id := null_bytes; r_body := BErr InvalidRequest [120%N] |}.
Proof. reflexivity. Qed.

(** * stray replies *)
Theorem c02_stray_reply_dropped s m r keep acc :
  is_req_or_notif m = false -> assoc (fix_id (j_id m)) (calls s) = None ->
  c_push s = true -> j_method m = [] -> has_reply_fields m = true ->
  filter_batch (m :: r) s keep acc = filter_batch r s keep acc.
Proof. intros Rq A P M H. cbn. rewrite Rq, A, P, M, H. reflexivity. Qed.

Theorem c02_stray_reply_kept_without_push s m r keep acc :
  is_req_or_notif m = false -> assoc (fix_id (j_id m)) (calls s) = None -> c_push s = false ->
  filter_batch (m :: r) s keep acc = filter_batch r s (m :: keep) acc.
Proof. intros Rq A P. cbn. rewrite Rq, A, P. reflexivity. Qed.

(* a message consisting of a single stray reply: nothing is queued, nothing is sent, the state is unchanged *)
Corollary c02_stray_reply_only s m b :
  running s = true -> is_req_or_notif m = false -> assoc (fix_id (j_id m)) (calls s) = None ->
  c_push s = true -> j_method m = [] -> has_reply_fields m = true ->
  read_cs (FMsg (InMsgs b [m])) s = (s <| rd := RIdle |>, []).
Proof.
  intros R Rq A P M H. unfold read_cs. rewrite R. cbn [negb]. cbv iota.
  rewrite c02_stray_reply_dropped by auto. reflexivity.
Qed.

Example c02_stray_reply_dropped_nonvacuous :
  let s := st_of ex_cfg2 [LStart] in
  let m := {| j_id := [55%N]; j_method := []; j_params := []; j_error := None; j_result := [49%N]; j_err := None |} in
  running s = true /\ is_req_or_notif m = false /\ assoc (fix_id (j_id m)) (calls s) = None /\
  c_push s = true /\ j_method m = [] /\ has_reply_fields m = true.
Proof. vm_compute. repeat split; reflexivity. Qed.

(** * the reader keeps serving *)
Theorem c02_keeps_serving s i s' os f : running s = true -> f = FMsg i \/ f = FMsgEOF i -> read_cs f s = (s', os) ->
  running s' = true /\ rd s' = RIdle /\
  (crash s' = crash s \/ (work_closed s = true /\ crash s' = Some CrSendOnClosedWork)).
Proof.
  intros R Hf H. pose proof (read_cs_msg f i s s' os Hf R H) as (C & Rd & _).
  unfold core0 in C. injection C as _ _ _ _ _ _ _ Rn _. split; [congruence|]. split; auto.
  assert (H' : (match i with
           | InBad => let '(s', os) := push_error s ParseError s_invalid_value in (s' <| rd := RIdle |>, os)
           | InMsgs _ [] => let '(s', os) := push_error s InvalidRequest s_empty_batch in (s' <| rd := RIdle |>, os)
           | InMsgs b ms =>
               let '(s1, keep, os) := filter_batch ms s [] [] in
               match keep with
               | [] => (s1 <| rd := RIdle |>, os)
               | _ => let s2 := s1 <| inq ::= fun q => q ++ [(b, keep)] |> <| rd := RIdle |> in
                      if work_closed s2 && (length (inq s2) =? 1)
                      then (s2 <| crash := Some CrSendOnClosedWork |>, os ++ [OCrash CrSendOnClosedWork])
                      else (s2, os)
               end
           end) = (s', os)).
  { destruct Hf as [-> | ->]; unfold read_cs in H; rewrite R in H; exact H. }
  clear H. destruct i as [|b ms].
  - cbn in H'. injection H' as <- <-. auto.
  - destruct ms as [|m ms].
    + cbn in H'. injection H' as <- <-. auto.
    + destruct (filter_batch (m :: ms) s [] []) as [[s1 keep] os1] eqn:F.
      apply filter_batch_core in F as [_ F]. unfold core_nord in F.
      injection F as _ _ _ _ _ _ _ _ _ _ Cr Wc _ _ _.
      destruct keep as [|k0 kr].
      * injection H' as <- <-. cbn. auto.
      * cbv zeta in H'. cbn [work_closed] in H'.
        destruct (work_closed (s1 <| inq ::= fun q => q ++ [(b, k0 :: kr)] |> <| rd := RIdle |>)) eqn:W;
          cbn in W; cbn [andb] in H'.
        -- match type of H' with (if ?c then _ else _) = _ => destruct c end; injection H' as <- <-; cbn; auto.
           right. split; congruence.
        -- injection H' as <- <-. cbn. auto.
Qed.

Example c02_keeps_serving_nonvacuous :
  exists s s' os, reach ex_cfg s /\ running s = true /\
    rd s = RHold (FMsg (InMsgs false [ex_call [49%N] []])) /\
    step s LRelRead = Some (s', os) /\ running s' = true /\ rd s' = RIdle /\ crash s' = None.
Proof.
  exists (st_of ex_cfg [LStart; LFeed (FMsg (InMsgs false [ex_call [49%N] []]))]). eexists _, _.
  split; [apply reach_st_of; vm_compute; discriminate|]. compute. repeat split; reflexivity.
Qed.
