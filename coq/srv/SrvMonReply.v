(* SrvMonReply: soundness of [mon_reply_once] (srv/SrvMonitors.v) for every run of the server model.

   Accounting, for a response id i other than null: (replies with id i sent so far) + (tasks with id i whose
   dispatch unit has not finished: their reply may still come) + (members with id i still on the inbound path:
   queue, reader, channel) never exceeds the number of members with id i fed so far. *)
From Coq Require Import List NArith ZArith Bool Arith Lia.
From RecordUpdate Require Import RecordUpdate.
From JV Require Import Bytes Msg SrvModel SrvLemmas SrvBasics SrvC01 SrvHist SrvMonitors SrvMonBarrier.
Import ListNotations.

(** * lists *)
Lemma subl_app {A} (a a' b b' : list A) : subl a a' -> subl b b' -> subl (a ++ b) (a' ++ b').
Proof. intros Ha Hb. induction Ha; cbn; auto; [apply subl_skip|apply subl_take]; auto. Qed.
Lemma subl_app_r {A} (a b : list A) : subl b (a ++ b).
Proof. induction a; cbn; [apply subl_refl|apply subl_skip; auto]. Qed.
Lemma subl_app_l {A} (a b : list A) : subl a (a ++ b).
Proof. rewrite <- (app_nil_r a) at 1. apply subl_app; [apply subl_refl|apply subl_nil_l]. Qed.

Lemma countb_forall2 {A} (R : A -> A -> Prop) (p q e : A -> bool) l l' : Forall2 R l l' ->
  (forall x y, R x y -> b2n (q y) + b2n (e x) <= b2n (p x)) -> countb q l' + countb e l <= countb p l.
Proof.
  intros F H. induction F as [|x y l l' Rxy F IH]; cbn; auto.
  specialize (H _ _ Rxy). unfold b2n in H. destruct (q y), (e x), (p x); cbn in *; lia.
Qed.

Lemma countb_filter {A} (p f : A -> bool) l : countb p (filter f l) = countb (fun x => p x && f x) l.
Proof.
  induction l as [|x l IH]; cbn; auto. destruct (f x); cbn; rewrite ?andb_true_r, ?andb_false_r; cbn; lia.
Qed.

Lemma countb_ext_in {A} (p q : A -> bool) l : (forall x, In x l -> p x = q x) -> countb p l = countb q l.
Proof.
  induction l as [|x l IH]; cbn; auto. intros H. rewrite (H x (or_introl eq_refl)), IH; auto.
Qed.

(** * the inbound path *)
Definition qmsgs (q : list (bool * list jmsg)) : list jmsg := flat_map snd q.
Definition hold_msgs (r : rdpc) : list jmsg := match r with RHold f => feed_msgs f | _ => [] end.
Definition chin_msgs (q : list feed) : list jmsg := flat_map feed_msgs q.
Definition pend_msgs (s : state) : list jmsg := qmsgs (inq s) ++ hold_msgs (rd s) ++ chin_msgs (ch_in s).

Lemma qmsgs_app a b : qmsgs (a ++ b) = qmsgs a ++ qmsgs b.
Proof. apply flat_map_app. Qed.
Lemma chin_msgs_app a b : chin_msgs (a ++ b) = chin_msgs a ++ chin_msgs b.
Proof. apply flat_map_app. Qed.
Lemma chin_msgs_err q : chin_msgs (q ++ [FErr SCClosing]) = chin_msgs q.
Proof. rewrite chin_msgs_app. cbn. apply app_nil_r. Qed.

Lemma stop_queue_msgs q : subl (qmsgs (stop_queue q)) (qmsgs q).
Proof.
  induction q as [|bm q IH]; [constructor|]. rewrite stop_queue_cons, qmsgs_app.
  change (qmsgs (bm :: q)) with (snd bm ++ qmsgs q). apply subl_app; auto.
  assert (E : forall l, qmsgs (map (fun m => (fst bm, [m])) l) = l).
  { induction l as [|m l IHl]; cbn; auto. unfold qmsgs in IHl. rewrite IHl. auto. }
  rewrite E. apply subl_filter.
Qed.

Lemma acc_msg_msgs s i : subl (qmsgs (acc_msg s i)) (feed_msgs (FMsg i)).
Proof.
  unfold acc_msg. destruct i as [|b [|m ms]]; [constructor|constructor|].
  destruct (filter_batch (m :: ms) s [] []) as [[s1 keep] os1] eqn:F.
  apply filter_batch_view in F as (_ & k2 & -> & Sb). cbn [rev app] in *.
  destruct k2 as [|k0 kr]; [apply subl_nil_l|]. cbn [qmsgs flat_map snd]. rewrite app_nil_r. exact Sb.
Qed.

Lemma feed_msgs_eof i : feed_msgs (FMsgEOF i) = feed_msgs (FMsg i).
Proof. reflexivity. Qed.

Lemma pend_same_msgs s s1 : pend_same s s1 -> pend_msgs s1 = pend_msgs s.
Proof. intros (I & R & C). unfold pend_msgs. rewrite I, R, C. reflexivity. Qed.

Lemma stop_locked_msgs c s s0 os0 : stop_locked c s = (s0, os0) ->
  subl (qmsgs (inq s0)) (qmsgs (inq s)) /\ rd s0 = rd s /\ chin_msgs (ch_in s0) = chin_msgs (ch_in s).
Proof.
  intros St. destruct (stop_locked_view [] _ _ _ _ St) as (_ & Rs & _ & _). split; [|split; auto].
  - apply stop_locked_spec in St as [(_ & -> & _)|(_ & _ & P)]; [apply subl_refl|].
    destruct P. rewrite sp_inq. apply stop_queue_msgs.
  - destruct (stop_locked_chin _ _ _ _ St) as [-> | ->]; rewrite ?chin_msgs_err; reflexivity.
Qed.

(* every critical section: what is on the inbound path afterwards was there before, or has just been fed *)
Lemma raw_pendq s l s1 os : inv s -> step_raw s l = Some (s1, os) ->
  subl (pend_msgs s1) (pend_msgs s ++ label_msgs l).
Proof.
  intros I H. destruct (path_label l) eqn:Pl.
  2:{ rewrite (pend_same_msgs _ _ (raw_pend _ _ _ _ I H Pl)).
      destruct l; try discriminate Pl; cbn [label_msgs]; rewrite app_nil_r; apply subl_refl. }
  destruct l; try discriminate Pl.
  - (* LStart *)
    unfold step_raw in H. destruct (negb (running s) && (wg s =? 0)); [|discriminate]. injection H as <- <-.
    cbn [label_msgs]. rewrite app_nil_r. unfold pend_msgs. cbn [inq rd ch_in set hold_msgs chin_msgs flat_map].
    apply subl_app; [apply subl_refl|apply subl_nil_l].
  - (* LFeed *)
    destruct (frame_view s (LFeed f) s1 os eq_refl H) as (_ & Iq & R & C & _).
    unfold pend_msgs. rewrite Iq, R, C, chin_msgs_app. cbn [chin_msgs flat_map label_msgs].
    rewrite app_nil_r, <- !app_assoc. apply subl_refl.
  - (* LRelRead *)
    unfold step_raw in H. destruct (rd s) as [| |f|] eqn:Rd; try discriminate. injection H as H.
    cbn [label_msgs]. rewrite app_nil_r. unfold pend_msgs. rewrite Rd.
    destruct f as [i|i|c].
    3:{ cbn in H. destruct (stop_locked c s) as [s0 os0] eqn:St. injection H as <- <-.
        destruct (stop_locked_msgs _ _ _ _ St) as (Q & _ & C).
        cbn [inq rd ch_in set hold_msgs feed_msgs]. rewrite C. apply subl_app; auto. apply subl_refl. }
    all: destruct (running s) eqn:Rn;
      [ | cbn in H; rewrite Rn in H; cbn in H; injection H as <- <-; cbn [inq rd ch_in set hold_msgs];
          apply subl_app; [apply subl_refl|]; apply subl_app_r ].
    all: match type of H with read_cs ?f _ = _ =>
           assert (Hf : f = FMsg i \/ f = FMsgEOF i) by auto;
           destruct (read_cs_msg _ _ _ _ _ Hf Rn H) as (_ & R1 & _);
           pose proof (read_cs_inq _ _ _ _ _ Hf Rn H) as Iq;
           destruct (read_cs_view _ _ _ _ _ Hf Rn H) as (Ci & _) end.
    all: rewrite Iq, R1, Ci, qmsgs_app; cbn [hold_msgs]; rewrite ?feed_msgs_eof, <- app_assoc.
    all: apply subl_app; [apply subl_refl|]; cbn [app]; apply subl_app; [apply acc_msg_msgs|apply subl_refl].
  - (* LRelNext *)
    unfold step_raw in H. destruct (dp s); try discriminate. injection H as <- <-.
    cbn [label_msgs]. rewrite app_nil_r. destruct (dequeue_counts [] s) as (_ & _ & R & C).
    unfold pend_msgs. rewrite R, C. apply subl_app; [|apply subl_refl].
    unfold dequeue. destruct (inq s) as [|[b ms] q] eqn:Q; [destruct (running s); cbn [inq set]; rewrite Q; apply subl_refl|].
    cbn [inq set]. change (qmsgs ((b, ms) :: q)) with (ms ++ qmsgs q). apply subl_app_r.
  - (* LRelStop *)
    unfold step_raw in H.
    destruct (find_op n (ops s)) as [[n0|n0 id|n0 w m p]|]; try discriminate.
    destruct (stop_locked SCStop (s <| ops ::= del_op n |>)) as [s0 os0] eqn:St. injection H as <- <-.
    cbn [label_msgs]. rewrite app_nil_r. destruct (stop_locked_msgs _ _ _ _ St) as (Q & R & C).
    cbn [inq rd ch_in set] in *. unfold pend_msgs. rewrite R, C. apply subl_app; auto. apply subl_refl.
Qed.

(** * the accounting *)
Definition sent (i : bytes) (os : list obs) : nat := count_bytes i (sent_ids os).
Definition ptask (i : bytes) (s : state) (t : task) : bool := beq i (t_id t) && negb (ufin s (t_unit t)).
Definition pendt (i : bytes) (s : state) : nat := countb (ptask i s) (tasks s).
Definition pendq (i : bytes) (s : state) : nat := count_bytes i (map idk (pend_msgs s)).
Definition lab_ids (i : bytes) (l : label) : nat := count_bytes i (map idk (label_msgs l)).

Lemma sent_app i a b : sent i (a ++ b) = sent i a + sent i b.
Proof. unfold sent, sent_ids. rewrite flat_map_app. apply count_bytes_app. Qed.

Lemma sent_zero i os : i <> null_bytes ->
  (forall ok b rs, In (OSend ok b rs) os -> forall r, In r rs -> r_id r = null_bytes) -> sent i os = 0.
Proof.
  intros Ni H. unfold sent, sent_ids. induction os as [|o os IH]; auto. cbn [flat_map]. rewrite count_bytes_app.
  rewrite IH by (intros; eapply H; eauto; right; eauto).
  destruct o; cbn [send_ids]; auto. rewrite Nat.add_0_r.
  assert (K : forall r, In r rs -> r_id r = null_bytes) by (intros r Hr; eapply (H ok batch rs); auto; left; auto).
  clear - Ni K. induction rs as [|r rs IH]; auto. cbn. rewrite IH by (intros; apply K; right; auto).
  rewrite (K r (or_introl eq_refl)). destruct (beq_spec i null_bytes); [congruence|auto].
Qed.

Lemma pendq_subl i s s1 l : subl (pend_msgs s1) (pend_msgs s ++ label_msgs l) -> pendq i s1 <= pendq i s + lab_ids i l.
Proof.
  intros H. unfold pendq, lab_ids. rewrite <- count_bytes_app, <- map_app. apply subl_count, subl_map. exact H.
Qed.

(* tasks only move forward and units only towards finished: nothing becomes pending again *)
Lemma pendt_mono i s s1 : ext s s1 -> length (tasks s1) = length (tasks s) -> pendt i s1 <= pendt i s.
Proof.
  intros [X U] L. unfold pendt.
  pose proof (countb_forall2 task_le (ptask i s) (ptask i s1) (fun _ => false) _ _ (list_ext_forall2 _ _ _ X L)) as C.
  assert (Z : countb (fun _ : task => false) (tasks s) = 0) by (apply countb_zero_forall; auto).
  rewrite Z in C. rewrite <- C; [lia|].
  intros x y Le. unfold ptask. destruct Le. rewrite tl_id, tl_unit. cbn.
  destruct (beq i (t_id x)); cbn; [|lia]. destruct (ufin s (t_unit x)) eqn:F; cbn; [|destruct (ufin s1 _); cbn; lia].
  rewrite (ufin_mono _ _ _ U F). cbn. lia.
Qed.

Lemma pendt_deliver i s s1 u : ext s s1 -> length (tasks s1) = length (tasks s) -> ufin s u = false -> ufin s1 u = true ->
  pendt i s1 + countb (fun t => beq i (t_id t) && (t_unit t =? u)) (tasks s) <= pendt i s.
Proof.
  intros [X U] L F0 F1. unfold pendt.
  apply (countb_forall2 task_le _ _ _ _ _ (list_ext_forall2 _ _ _ X L)).
  intros x y Le. unfold ptask. destruct Le. rewrite tl_id, tl_unit.
  destruct (beq i (t_id x)); cbn; [|lia]. destruct (Nat.eqb_spec (t_unit x) u) as [->|N]; cbn.
  - rewrite F0, F1. cbn. lia.
  - destruct (ufin s (t_unit x)) eqn:F; cbn.
    + rewrite (ufin_mono _ _ _ U F). cbn. lia.
    + destruct (ufin s1 (t_unit x)); cbn; lia.
Qed.

(* the ids of the replies of a unit are ids of its calls *)
Lemma responses_ids i ts : i <> null_bytes ->
  count_bytes i (map r_id (responses ts)) <= countb (fun t => beq i (t_id t)) ts.
Proof.
  intros Ni. induction ts as [|t ts IH]; cbn [responses countb map count_bytes]; auto.
  unfold response_of. destruct (is_note t).
  - assert (Z : forall c m, count_bytes i (map r_id ({| r_id := null_bytes; r_body := BErr c m |} :: responses ts)) =
                  count_bytes i (map r_id (responses ts))).
    { intros c m. cbn. destruct (beq_spec i null_bytes); [congruence|auto]. }
    destruct (t_pre t) as [[c m]|]; [|lia]. destruct ((c =? ParseError)%Z || (c =? InvalidRequest)%Z); [rewrite Z|]; lia.
  - cbn. destruct (beq i (t_id t)); lia.
Qed.

(* nextRequest: the members of the head of the queue become the tasks of a new, unfinished unit *)
Lemma mk_task_ids i s u ids ms :
  countb (fun t => beq i (t_id t)) (map (mk_task s u ids) ms) = count_bytes i (map idk ms).
Proof. induction ms as [|m ms IH]; cbn; auto. rewrite mk_task_id, IH. reflexivity. Qed.

Lemma dequeue_reply i s : inv s -> pendt i (dequeue s) + pendq i (dequeue s) <= pendt i s + pendq i s.
Proof.
  intros I. destruct (dequeue_counts [] s) as (_ & _ & R & C). unfold pendq, pend_msgs. rewrite R, C.
  unfold dequeue. destruct (inq s) as [|[b ms] q] eqn:Q.
  - destruct (running s); unfold pendt, ptask, ufin; cbn [tasks units inq set]; rewrite Q; lia.
  - unfold pendt. cbn [tasks units inq set]. rewrite countb_app.
    set (s' := s <| inq := q |> <| used := _ |> <| units ::= _ |> <| tasks ::= _ |> <| dp := _ |>).
    assert (Old : countb (ptask i s') (tasks s) = countb (ptask i s) (tasks s)).
    { apply countb_ext_in. intros t Ht. apply In_nth_error in Ht as [k Ek]. pose proof (i_unit _ I _ _ Ek) as Lu.
      unfold ptask, ufin, s'. cbn [units set]. rewrite nth_error_app1 by auto. reflexivity. }
    assert (New : countb (ptask i s') (map (mk_task s (length (units s)) (map (fun m => fix_id (j_id m)) ms)) ms)
                  = count_bytes i (map idk ms)).
    { rewrite <- (mk_task_ids i s (length (units s)) (map (fun m => fix_id (j_id m)) ms) ms).
      apply countb_ext_in. intros t Ht. apply in_map_iff in Ht as (m & <- & _).
      unfold ptask, ufin, s'. cbn [units set]. rewrite mk_task_unit, nth_error_app_new. cbn. apply andb_true_r. }
    rewrite Old, New. change (qmsgs ((b, ms) :: q)) with (ms ++ qmsgs q).
    rewrite <- !app_assoc, !map_app, !count_bytes_app. lia.
Qed.

(** * one critical section *)
Lemma raw_sends_null s l s1 os : inv s -> step_raw s l = Some (s1, os) ->
  (forall u, l <> LRelDeliver u) ->
  forall ok b rs, In (OSend ok b rs) os -> forall r, In r rs -> r_id r = null_bytes.
Proof.
  intros I H Nd ok b rs Ho r Hr. pose proof (raw_obs _ _ _ _ _ I H Ho) as O. cbn in O.
  destruct O as [(u & un & -> & _)|(_ & _ & _ & i0 & _ & [(_ & ->)|(bb & _ & ->)])].
  - destruct (Nd u eq_refl).
  - destruct Hr as [<-|[]]. reflexivity.
  - destruct Hr as [<-|[]]. reflexivity.
Qed.

Lemma raw_reply i s l s1 os : inv s -> step_raw s l = Some (s1, os) -> i <> null_bytes ->
  sent i os + pendt i s1 + pendq i s1 <= pendt i s + pendq i s + lab_ids i l.
Proof.
  intros I H Ni. destruct (raw_step_ok _ _ _ _ I H) as [_ X].
  pose proof (pendq_subl i _ _ _ (raw_pendq _ _ _ _ I H)) as Pq.
  assert (Gen : (forall u, l <> LRelDeliver u) ->
                sent i os + pendt i s1 + pendq i s1 <= pendt i s + pendq i s + lab_ids i l).
  { intros Nd. rewrite (sent_zero i os Ni (raw_sends_null _ _ _ _ I H Nd)).
    destruct (raw_shape_ok _ _ _ _ I H) as [U L| ->|u un El _ _ _ _].
    - pose proof (pendt_mono i _ _ X L). lia.
    - pose proof (dequeue_reply i s I). lia.
    - destruct (Nd _ El). }
  destruct l; try (apply Gen; intros u0 E0; discriminate E0).
  (* LRelDeliver *)
  unfold step_raw in H.
  destruct (nth_error (units s) u) as [un|] eqn:E; [|discriminate].
  destruct (u_st un) eqn:Su; try discriminate.
  destruct (release_ids_spec (unit_tasks s u) s) as [_ _ Ln (Eu & _) _ _ _].
  assert (F0 : ufin s u = false) by (unfold ufin; rewrite E, Su; reflexivity).
  destruct (u_chok un); cbn in H; injection H as <- <-.
  - assert (F1 : ufin (set_unit u (fun x => x <| u_st := UFinished |>) (release_ids (unit_tasks s u) s) <| wg ::= pred |>) u = true).
    { unfold ufin. cbn. rewrite Eu. erewrite nth_error_upd_nth_eq; eauto. }
    pose proof (pendt_deliver i _ _ u X Ln F0 F1) as Pt.
    pose proof (responses_ids i (unit_tasks s u) Ni) as Rs. unfold unit_tasks in Rs at 2. rewrite countb_filter in Rs.
    unfold sent, sent_ids. cbn [flat_map send_ids]. rewrite app_nil_r. lia.
  - pose proof (pendt_mono i _ _ X Ln) as Pt. change (sent i [OCrash CrNilChannel]) with 0. lia.
Qed.

Lemma settle1_reply i s s' os : inv s -> settle1 s = Some (s', os) ->
  sent i os = 0 /\ pendt i s' + pendq i s' <= pendt i s + pendq i s.
Proof.
  intros I H. split.
  - pose proof (settle1_obs _ _ _ H) as F. unfold sent, sent_ids. clear - F.
    induction F as [|o os Ho _ IH]; auto. cbn [flat_map]. rewrite count_bytes_app, IH.
    destruct o; cbn in Ho; try tauto; reflexivity.
  - destruct (settle1_ok _ _ _ I H) as [_ X]. apply settle1_inv in H.
    assert (Same : forall s1, ext s s1 -> length (tasks s1) = length (tasks s) -> pend_same s s1 ->
                     pendt i s1 + pendq i s1 <= pendt i s + pendq i s).
    { intros s1 X1 L1 P1. pose proof (pendt_mono i _ _ X1 L1). unfold pendq. rewrite (pend_same_msgs _ _ P1). lia. }
    destruct H; try (apply Same; [exact X|reflexivity|repeat split; reflexivity]).
    + (* Recv *)
      assert (Em : pend_msgs (s <| rd := RHold f |> <| ch_in := q |>) = pend_msgs s).
      { unfold pend_msgs. cbn [inq rd ch_in set hold_msgs]. rewrite H, H0. reflexivity. }
      change (pendt i (s <| rd := RHold f |> <| ch_in := q |>)) with (pendt i s). unfold pendq. rewrite Em. lia.
    + apply dequeue_reply; auto.
Qed.

(** * windows and runs *)
Lemma settle_reply c i : forall fuel s acc s' os, reachf c s -> settle fuel s acc = (s', os) ->
  exists extra, os = acc ++ extra /\ sent i extra = 0 /\ pendt i s' + pendq i s' <= pendt i s + pendq i s.
Proof.
  induction fuel as [|f IH]; cbn; intros s acc s' os R H.
  - injection H as <- <-. exists []. rewrite app_nil_r. repeat split; auto.
  - destruct (settle1 s) as [[s1 os1]|] eqn:E.
    + destruct (IH _ _ _ _ (rf_settle _ _ _ _ R E) H) as (ex & -> & Z & A).
      destruct (settle1_reply i _ _ _ (reachf_inv _ _ R) E) as [Z1 A1].
      exists (os1 ++ ex). rewrite app_assoc. split; auto. rewrite sent_app, Z, Z1. split; auto. lia.
    + injection H as <- <-. exists []. rewrite app_nil_r. repeat split; auto.
Qed.

Lemma step_reply c i s l s' os : reachf c s -> step s l = Some (s', os) -> i <> null_bytes ->
  sent i os + pendt i s' + pendq i s' <= pendt i s + pendq i s + lab_ids i l.
Proof.
  intros R H Ni. pose proof (reachf_inv _ _ R) as I.
  apply step_decompose in H as (Cr & s1 & os1 & Hr & Hs).
  pose proof (raw_reply i _ _ _ _ I Hr Ni) as A.
  destruct Hs as [(_ & -> & ->)|(_ & Hs)]; auto.
  destruct (settle_reply c i _ _ _ _ _ (rf_raw _ _ _ _ _ R Cr Hr) Hs) as (extra & -> & Z & B).
  rewrite sent_app, Z. lia.
Qed.

Lemma run_reply c i : forall tr s s' oss, reachf c s -> run s tr = Some (s', oss) -> i <> null_bytes ->
  sent i (concat oss) + pendt i s' + pendq i s' <=
  pendt i s + pendq i s + count_bytes i (map idk (flat_map label_msgs tr)).
Proof.
  induction tr as [|l r IH]; cbn [run]; intros s s' oss R H Ni.
  - injection H as <- <-. cbn. unfold sent. cbn. lia.
  - destruct (step s l) as [[s1 os]|] eqn:E; [|discriminate].
    destruct (run s1 r) as [[s2 oss2]|] eqn:E2; [|discriminate]. injection H as <- <-.
    pose proof (step_reply c i _ _ _ _ R E Ni) as A.
    pose proof (IH _ _ _ (step_reachf _ _ _ _ _ R E) E2 Ni) as B.
    cbn [concat flat_map]. rewrite sent_app, map_app, count_bytes_app. unfold lab_ids in A. lia.
Qed.

Lemma fed_ids_env tr : fed_ids (env_of tr) = map idk (flat_map label_msgs tr).
Proof.
  unfold fed_ids. f_equal. induction tr as [|l tr IH]; auto. unfold env_of in *. cbn [filter flat_map].
  destruct l; cbn [is_env flat_map label_msgs app]; rewrite IH; reflexivity.
Qed.

(** * Soundness *)
Theorem reply_count_le_fed c tr s oss i : run (init_of c) tr = Some (s, oss) -> i <> null_bytes ->
  count_bytes i (sent_ids (concat oss)) <= count_bytes i (fed_ids (env_of tr)).
Proof.
  intros H Ni. pose proof (run_reply c i _ _ _ _ (rf_init c) H Ni) as A.
  rewrite fed_ids_env. unfold sent in A.
  change (pendt i (init_of c)) with 0 in A. change (pendq i (init_of c)) with 0 in A. lia.
Qed.

Theorem mon_reply_once_sound c tr s oss : run (init_of c) tr = Some (s, oss) ->
  mon_reply_once (env_of tr) (concat oss) = true.
Proof.
  intros H. unfold mon_reply_once. apply forallb_forall. intros i _.
  destruct (beq_spec i null_bytes) as [E|N]; [reflexivity|]. cbn [orb]. apply Nat.leb_le.
  eapply reply_count_le_fed; eauto.
Qed.

(** * "no message is sent after the channel has been closed" is NOT a property of the model (nor of the server):
    a unit whose handlers return after Stop is still delivered, to the closed channel; the send fails (ok = false).
    What holds is that such a send reports failure. *)
Definition ex_tr_send_after_close : list label :=
  ex_tr_running ++ [LCallStop 1; LRelStop 1; LGate [91;93]%N (ORes [50%N]); LRelHandled 0; LRelDeliver 0].

Lemma no_send_after_close_refuted :
  exists tr s oss pre ok b rs post,
    run (init_of ex_cfg) tr = Some (s, oss) /\ concat oss = pre ++ OSend ok b rs :: post /\
    In OClose pre /\ ~ In LStart (tl tr) /\ ok = false.
Proof.
  exists ex_tr_send_after_close, (st_of ex_cfg ex_tr_send_after_close), (obs_of ex_cfg ex_tr_send_after_close),
    [OStart [91;93]%N false; OClose; ORet 1 AOk; OGate [91;93]%N true], false, false,
    [{| r_id := [49%N]; r_body := BRes [50%N] |}], [].
  split; [apply run_st_of; vm_compute; discriminate|].
  split; [vm_compute; reflexivity|]. split; [cbn; auto|]. split; [|reflexivity].
  vm_compute. intros H. repeat (destruct H as [H|H]; [discriminate H|]). exact H.
Qed.

(** * Examples *)
Example mon_reply_once_nonvacuous :
  run (init_of ex_cfg) ex_tr_delivered <> None /\
  sent_ids (concat (obs_of ex_cfg ex_tr_delivered)) = [[49%N]] /\
  fed_ids (env_of ex_tr_delivered) = [[49%N]] /\
  mon_reply_once (env_of ex_tr_delivered) (concat (obs_of ex_cfg ex_tr_delivered)) = true.
Proof. vm_compute. repeat split; auto. discriminate. Qed.

(* sensitivity: a reply with an id that was never received; a received call answered twice *)
Example mon_reply_once_sensitive :
  mon_reply_once (env_of ex_tr_delivered) [OSend true false [{| r_id := [50%N]; r_body := BRes [] |}]] = false /\
  mon_reply_once (env_of ex_tr_delivered)
    [OSend true false [{| r_id := [49%N]; r_body := BRes [] |}]; OSend true false [{| r_id := [49%N]; r_body := BRes [] |}]] = false /\
  mon_reply_once (env_of ex_tr_delivered) [OSend true false [{| r_id := null_bytes; r_body := BErr ParseError [] |}]] = true.
Proof. vm_compute. repeat split; reflexivity. Qed.
