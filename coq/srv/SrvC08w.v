(* SrvC08w: C08.7 no callback watcher goroutine outlives the stop.
   Invariant: a watcher that is blocked (on its context) belongs to a callback that is still registered;
   the stop cancels every registered callback, so a stopped server has no blocked watcher, and at a
   quiescent point no parked one either. *)
From Coq Require Import List NArith ZArith Bool Arith Lia.
From RecordUpdate Require Import RecordUpdate.
From JV Require Import Bytes Msg SrvModel SrvLemmas SrvBasics SrvC01 SrvC07 SrvC09 SrvC10 SrvC08 SrvC08b SrvC08c SrvC08q SrvC08x.
Import ListNotations.

Definition inv_watch (s : state) : Prop :=
  forall i c, nth_error (cbs s) i = Some c -> cb_watch c = WBlocked -> In (cb_id c, i) (calls s).

Lemma iw_frame s s' : calls s' = calls s -> cbs s' = cbs s -> inv_watch s -> inv_watch s'.
Proof. intros E1 E2 H i c. rewrite E1, E2. apply H. Qed.

Lemma iw_pv s s' : pv s' = pv s -> inv_watch s -> inv_watch s'.
Proof.
  intros P. apply pv_fields in P. destruct P as (_ & _ & _ & _ & P5 & _ & P7 & _). apply iw_frame; auto.
Qed.

Lemma iw_upd s s' i f : calls s' = calls s -> cbs s' = upd_nth i f (cbs s) ->
  (forall x, cb_id (f x) = cb_id x) -> (forall x, cb_watch (f x) = WBlocked -> cb_watch x = WBlocked) ->
  inv_watch s -> inv_watch s'.
Proof.
  intros E1 E2 Fid Fw H j c N W. rewrite E1. rewrite E2, nth_error_upd_nth in N.
  destruct (Nat.eqb_spec i j) as [->|Ne]; [|auto].
  destruct (nth_error (cbs s) j) as [x|] eqn:Nx; cbn in N; [|discriminate]. injection N as <-.
  rewrite Fid. apply H; auto.
Qed.

Lemma iw_complete s s' i c f : nth_error (cbs s) i = Some c ->
  calls s' = assoc_del (cb_id c) (calls s) -> cbs s' = upd_nth i f (cbs s) ->
  (forall x, cb_watch (f x) <> WBlocked) -> inv_push s -> inv_watch s -> inv_watch s'.
Proof.
  intros N E1 E2 Fw Ip H j cj Nj W. rewrite E1. rewrite E2, nth_error_upd_nth in Nj.
  destruct (Nat.eqb_spec i j) as [->|Ne].
  - rewrite N in Nj. cbn in Nj. injection Nj as <-. destruct (Fw _ W).
  - apply in_assoc_del_intro; [apply H; auto|]. cbn. intros Eid. apply Ne.
    eapply cb_ids_distinct; eauto.
Qed.

Lemma iw_stop s s' : calls s' = calls s -> cbs s' = map (stop_cb (calls s)) (cbs s) -> inv_watch s -> inv_watch s'.
Proof.
  intros E1 E2 H i c N W. rewrite E1. rewrite E2 in N. apply nth_error_map_some in N as (x & N & ->).
  rewrite stop_cb_id. apply H; auto. unfold stop_cb in W. destruct (assoc (cb_id x) (calls s)); auto.
  cbn in W. destruct (cb_watch x); auto; discriminate.
Qed.

Lemma iw_append s s' c : calls s' = calls s -> cbs s' = cbs s ++ [c] -> cb_watch c <> WBlocked ->
  inv_watch s -> inv_watch s'.
Proof.
  intros E1 E2 Nw H i x N W. rewrite E1. rewrite E2 in N. apply nth_error_snoc in N as [N|[-> ->]]; [auto|congruence].
Qed.

Lemma iw_push s s' k c : calls s' = (k, length (cbs s)) :: assoc_del k (calls s) -> cbs s' = cbs s ++ [c] ->
  cb_id c = k -> (forall j cj, nth_error (cbs s) j = Some cj -> cb_id cj <> k) -> inv_watch s -> inv_watch s'.
Proof.
  intros E1 E2 Eid Fr H i x N W. rewrite E1. rewrite E2 in N. apply nth_error_snoc in N as [N|[-> ->]].
  - right. apply in_assoc_del_intro; [auto|]. cbn. eauto.
  - left. congruence.
Qed.

Lemma complete_cb_iw i r s : inv_push s -> inv_watch s -> inv_watch (fst (complete_cb i r s)).
Proof.
  intros Ip H. unfold complete_cb. destruct (nth_error (cbs s) i) as [c|] eqn:N; cbn [fst]; auto.
  eapply iw_complete with (i := i) (c := c) (f := fun c => wake_watch (c <| cb_slot := Some r |>)); eauto; try reflexivity.
  intros x. cbn. destruct (cb_watch x); discriminate.
Qed.

Lemma filter_batch_iw : forall ms s keep acc, inv_push s -> inv_watch s ->
  inv_watch (fst (fst (filter_batch ms s keep acc))).
Proof.
  induction ms as [|m r IH]; intros s keep acc Ip H; cbn [filter_batch]; auto.
  destruct (is_req_or_notif m); auto.
  destruct (assoc (fix_id (j_id m)) (calls s)) as [i|].
  - match goal with |- context [complete_cb ?i ?v ?s] =>
      pose proof (complete_cb_ip i v s Ip) as Ip'; pose proof (complete_cb_iw i v s Ip H) as H';
      destruct (complete_cb i v s) as [s' os] end.
    apply IH; auto.
  - destruct (c_push s && is_nil (j_method m) && has_reply_fields m); auto.
Qed.

Lemma stop_locked_iw sc s : inv_watch s -> inv_watch (fst (stop_locked sc s)).
Proof.
  intros H. destruct (stop_locked sc s) as [s' os] eqn:E. cbn [fst].
  apply SrvC09.stop_locked_spec in E as [(_ & -> & _)|(R & _ & R' & _ & _ & _ & C & CI & _ & _ & _ & CB)]; auto.
  eapply iw_stop; eauto.
Qed.

Ltac iwf H := eapply iw_frame; [| |exact H]; reflexivity.

Lemma read_cs_iw f s s' os : inv_push s -> inv_watch s -> read_cs f s = (s', os) -> inv_watch s'.
Proof.
  intros Ip H E. unfold read_cs in E.
  destruct f as [i|i|sc].
  1,2: destruct (negb (running s)); [injection E as <- <-; iwf H|];
       destruct i as [|b ms]; [cbn in E; injection E as <- <-; iwf H|];
       destruct ms as [|m0 ms0]; [cbn in E; injection E as <- <-; iwf H|];
       pose proof (filter_batch_iw (m0 :: ms0) s [] [] Ip H) as H';
       destruct (filter_batch (m0 :: ms0) s [] []) as [[s1 keep] os1]; cbn [fst] in H';
       destruct keep; [injection E as <- <-; iwf H'|];
       match type of E with (if ?b then _ else _) = _ => destruct b end;
       injection E as <- <-; iwf H'.
  pose proof (stop_locked_iw sc s H) as H'. destruct (stop_locked sc s) as [s2 os2]. cbn [fst] in *.
  injection E as <- <-. iwf H'.
Qed.

Theorem reachf_inv_watch c s : reachf c s -> inv_watch s.
Proof.
  induction 1 as [|s l s' os R IH C H|s s' os R IH H].
  - intros [|?] ? N; discriminate.
  - pose proof (inv_push_reachf _ _ R) as Ip.
    destruct (neutral l) eqn:Neu.
    { apply step_raw_neutral in H as [P _]; auto. eapply iw_pv; eauto. }
    destruct l; try discriminate Neu; cbn [step_raw] in H.
    + destruct (negb (running s) && (wg s =? 0)); [|discriminate]. injection H as <- <-. iwf IH.
    + injection H as <- <-. iwf IH.
    + injection H as <- <-. iwf IH.
    + injection H as <- <-. iwf IH.
    + destruct (c_push s); injection H as <- <-; auto.
    + (* LCbCtxEnd *)
      destruct (find_idx (fun c => cb_op c =? n) 0 (cbs s)) as [i|]; injection H as <- <-.
      2:{ iwf IH. }
      eapply iw_upd with (i := i); [| | | |exact IH]; [reflexivity|reflexivity| |].
      * intros x. cbv beta. destruct (cb_cancelled x); reflexivity.
      * intros x. cbv beta. destruct (cb_cancelled x); auto. cbn. destruct (cb_watch x); auto; discriminate.
    + (* LRelRead *)
      destruct (rd s); try discriminate. injection H as E. eapply read_cs_iw; eauto.
    + (* LRelStop *)
      destruct (find_op n (ops s)) as [[| |]|]; try discriminate.
      assert (H0 : inv_watch (s <| ops ::= del_op n |>)) by (iwf IH).
      pose proof (stop_locked_iw SCStop _ H0) as H'.
      destruct (stop_locked SCStop (s <| ops ::= del_op n |>)) as [s2 os2]. injection H as <- <-. exact H'.
    + (* LRelCancel *)
      destruct (find_op n (ops s)) as [[| |]|]; try discriminate. cbn in H.
      destruct (assoc id (used s)); injection H as <- <-.
      * eapply iw_pv; [apply cancel_task_pv|]. iwf IH.
      * iwf IH.
    + (* LRelPush *)
      destruct (find_op n (ops s)) as [[| |n' wantid m p]|]; try discriminate.
      cbn in H. destruct (running s) eqn:Run; cbn in H; [|injection H as <- <-; iwf IH].
      destruct wantid; [|injection H as <- <-; iwf IH].
      destruct (send_fail s) eqn:SF.
      * injection H as <- <-. eapply iw_append; [| | |exact IH]; [reflexivity|reflexivity|cbn; discriminate].
      * injection H as <- <-.
        eapply iw_push; [| | | |exact IH]; [reflexivity|reflexivity| |].
        -- destruct (find _ (ended s)) as [[? ?]|]; reflexivity.
        -- intros j cj Nj. exact (proj2 (fresh_id s Ip) j cj Nj).
    + (* LRelCbWatch *)
      rename c0 into i.
      destruct (nth_error (cbs s) i) as [cb0|] eqn:N; [|discriminate].
      destruct (cb_watch cb0) eqn:W; try discriminate.
      assert (H1 : inv_watch (s <| cbs ::= upd_nth i (fun c => c <| cb_watch := WDone |>) |>)).
      { eapply iw_upd with (i := i); [| | | |exact IH]; [reflexivity|reflexivity|reflexivity|]. cbn. discriminate. }
      replace (calls (s <| cbs ::= upd_nth i (fun c => c <| cb_watch := WDone |>) |>)) with (calls s) in H by reflexivity.
      destruct (assoc (cb_id cb0) (calls s)) as [j|] eqn:A; [|injection H as <- <-; exact H1].
      destruct (cb_slot cb0) eqn:SL; [injection H as <- <-; exact H1|].
      destruct (Nat.eqb_spec j i) as [->|Ne]; [|injection H as <- <-; exact H1].
      assert (E : exists v, complete_cb i v (s <| cbs ::= upd_nth i (fun c => c <| cb_watch := WDone |>) |>) = (s', os)).
      { destruct (cb_ctx cb0) as [[|]|]; injection H as H; eauto. }
      destruct E as (v & E). clear H.
      replace s' with (fst (complete_cb i v (s <| cbs ::= upd_nth i (fun c => c <| cb_watch := WDone |>) |>)))
        by (rewrite E; reflexivity).
      clear E. unfold complete_cb.
      match goal with |- context [nth_error ?l i] =>
        change l with (upd_nth i (fun c => c <| cb_watch := WDone |>) (cbs s)) end.
      rewrite (nth_error_upd_nth_eq _ _ _ _ N). cbn [fst].
      eapply iw_complete with (i := i) (c := cb0)
        (f := fun x => wake_watch ((x <| cb_watch := WDone |>) <| cb_slot := Some v |>)); eauto; try reflexivity.
      * cbn. rewrite SrvC09.upd_nth_upd_nth. reflexivity.
      * intros x. cbn. discriminate.
  - eapply iw_pv; [eapply settle1_pv; eauto|auto].
Qed.

Theorem inv_watch_reach c s : reach c s -> inv_watch s.
Proof. intros R. apply (reachf_inv_watch c). apply reach_reachf; auto. Qed.

(* a stopped server has no watcher blocked on its context: the stop has cancelled every registered callback *)
Theorem stopped_no_blocked_watcher c s i cb0 : reach c s -> running s = false ->
  nth_error (cbs s) i = Some cb0 -> cb_watch cb0 <> WBlocked.
Proof.
  intros R Rn N W. pose proof (inv_watch_reach _ _ R _ _ N W) as I.
  destruct (stopped_callbacks_cancelled _ _ _ _ R Rn I) as (c1 & N1 & _ & W1). congruence.
Qed.

(* C08.7: at a quiescent point of a stopped server no callback is outstanding and every watcher goroutine has exited *)
Theorem no_watcher_left c s : reach c s -> quiescent s = true -> running s = false ->
  calls s = [] /\ forall i cb0, nth_error (cbs s) i = Some cb0 -> cb_watch cb0 = WDone.
Proof.
  intros R Q Rn. pose proof (no_crash _ _ R) as Cr.
  assert (Cl : calls s = []).
  { destruct (calls s) as [|[k i] r] eqn:E; auto. exfalso.
    destruct (quiescent_complete c s k i R Cr Q) as (cb0 & _ & _ & _ & _ & Z); [rewrite E; left; auto|congruence]. }
  split; auto. intros i cb0 N. destruct (cb_watch cb0) eqn:W; auto; exfalso.
  - apply (stopped_no_blocked_watcher _ _ _ _ R Rn N W).
  - rewrite (parked_watcher_enabled _ _ _ Cr N W) in Q. discriminate.
Qed.

(* a callback is outstanding when Stop comes: its watcher is woken, runs, and the callback returns *)
Definition tr_cb_stop : list label :=
  [LStart; LCallPush 5 true [109]%N [49]%N; LRelPush 5; LCallStop 1; LRelStop 1; LRelCbWatch 0; LRelNext;
   LFeed (FErr SCClosing); LRelRead].
Example no_watcher_left_nonvacuous :
  exists s, reach cfg_push s /\ quiescent s = true /\ running s = false /\ map cb_watch (cbs s) = [WDone] /\
    map cb_watch (cbs (st_of cfg_push (firstn 3 tr_cb_stop))) = [WBlocked] /\
    map cb_watch (cbs (st_of cfg_push (firstn 5 tr_cb_stop))) = [WParked].
Proof.
  exists (st_of cfg_push tr_cb_stop). split; [apply reach_st_of; vm_compute; discriminate|].
  repeat split; vm_compute; reflexivity.
Qed.
