(* C03: a notification completes before any later-arriving request starts; requests of
   one inbound message may run concurrently; a running call never delays later requests.

   The notification barrier of SrvModel: [nbar s] (Server.nbar), raised by the dispatcher
   when it releases a dispatch unit (settle1 / S1Barrier: nbar := u_notes, only when
   nbar = 0) and lowered by LRelHandled of a notification (nbar.Done()).

   - the invariant bundle [Q]: notifications are never cancelled, [u_notes] counts the
     runnable notifications of a unit, tasks of a unit that is not released are TSkip or
     TAtAcquire, the unit at the barrier is the last one, nbar = number of open
     notifications ([inv_nbar]), and the safety core [barrier_past];
   - the state, step and trace forms of "notification before later request";
   - the liveness half at quiescent points. *)
From Coq Require Import List NArith ZArith Bool Arith Lia.
From RecordUpdate Require Import RecordUpdate.
From JV Require Import Bytes Msg SrvModel SrvLemmas SrvBasics SrvC07 SrvC01.
From JV Require SrvC06.
Import ListNotations.

(** * Vocabulary *)
Definition released_u (u : unit_) : bool :=
  match u_st u with URunning | UAtDeliver | UFinished => true | _ => false end.
Definition rel_in (us : list unit_) (i : nat) : bool :=
  match nth_error us i with Some u => released_u u | None => false end.
(* dispatch unit i has passed the barrier (dispatchLocked released it) *)
Definition released (s : state) (i : nat) : bool := rel_in (units s) i.
Definition tdone (t : task) : bool := match t_st t with TDone _ => true | _ => false end.
(* a runnable notification: its handler will run and signal the barrier on return *)
Definition rnote (t : task) : bool := runnable t && is_note t.
(* ... of a released unit, not yet returned *)
Definition open_in (us : list unit_) (t : task) : bool := rnote t && rel_in us (t_unit t) && negb (tdone t).
Definition open_note (s : state) : task -> bool := open_in (units s).
Definition open_notes (s : state) : nat := countb (open_note s) (tasks s).
Definition note_of (u : nat) (t : task) : bool := (t_unit t =? u) && rnote t.
(* past the semaphore: queued in it, in the handler, or returned *)
Definition past_acquire (t : task) : Prop := t_st t <> TSkip /\ t_st t <> TAtAcquire.

Lemma tdone_true t : tdone t = true <-> exists b, t_st t = TDone b.
Proof. unfold tdone. destruct (t_st t); split; try discriminate; eauto; intros [b H]; discriminate. Qed.

Lemma tdone_false t : tdone t = false <-> forall b, t_st t <> TDone b.
Proof.
  unfold tdone. destruct (t_st t) eqn:E; split; intros H; try discriminate; auto; try congruence.
Qed.

(** * list facts *)
Lemma countb_ext_in {A} (p q : A -> bool) l : (forall x, In x l -> p x = q x) -> countb p l = countb q l.
Proof.
  induction l as [|x r IH]; cbn; intros H; auto. rewrite (H x (or_introl eq_refl)), IH; auto.
Qed.

Lemma countb_filter_length {A} (p q : A -> bool) l : (forall x, In x l -> p x = q x) ->
  countb p l = length (filter q l).
Proof.
  induction l as [|x r IH]; cbn; intros H; auto. rewrite (H x (or_introl eq_refl)), IH by auto.
  destruct (q x); auto.
Qed.

Lemma countb_pos {A} (p : A -> bool) l k x : nth_error l k = Some x -> p x = true -> 1 <= countb p l.
Proof.
  revert k; induction l as [|y r IH]; intros [|k] E P; cbn in *; try discriminate.
  - injection E as ->. rewrite P. lia.
  - specialize (IH _ E P). lia.
Qed.

Lemma countb_pos_ex {A} (p : A -> bool) l : 0 < countb p l -> exists k x, nth_error l k = Some x /\ p x = true.
Proof.
  induction l as [|y r IH]; cbn; [lia|]. destruct (p y) eqn:P.
  - intros _. exists 0, y. auto.
  - intros H. destruct (IH H) as (k & x & E & Px). exists (S k), x. auto.
Qed.

Lemma rel_in_app_old us x i : i < length us -> rel_in (us ++ [x]) i = rel_in us i.
Proof. intros H. unfold rel_in. rewrite nth_error_app1; auto. Qed.

Lemma rel_in_lt us i : rel_in us i = true -> i < length us.
Proof.
  unfold rel_in. destruct (nth_error us i) eqn:E; [|discriminate]. intros _. eapply nth_error_some_lt; eauto.
Qed.

Lemma rel_in_upd us i x j un : nth_error us i = Some un ->
  rel_in (upd_nth i (fun y => y <| u_st := x |>) us) j =
  if i =? j then released_u (un <| u_st := x |>) else rel_in us j.
Proof.
  intros E. unfold rel_in. rewrite nth_error_upd_nth. destruct (Nat.eqb_spec i j) as [<-|N]; auto.
  rewrite E. reflexivity.
Qed.

(** * Notifications kept: which notification may become done in a transition *)
Definition nk (ex : option nat) (ts ts' : list task) : Prop :=
  forall j n, nth_error ts j = Some n -> exists n', nth_error ts' j = Some n' /\ t_id n' = t_id n /\
    (is_note n = true -> tdone n = false -> tdone n' = true -> ex = Some j).

Lemma nk_refl ex ts : nk ex ts ts.
Proof. intros j n E. exists n. repeat split; auto. congruence. Qed.

Lemma nk_trans ex a b d : nk ex a b -> nk ex b d -> nk ex a d.
Proof.
  intros H1 H2 j n E. destruct (H1 _ _ E) as (n1 & E1 & I1 & D1). destruct (H2 _ _ E1) as (n2 & E2 & I2 & D2).
  exists n2. split; auto. split; [congruence|]. intros N F T.
  destruct (tdone n1) eqn:T1; auto. apply D2; auto. unfold is_note in *. rewrite I1. exact N.
Qed.

Lemma nk_weaken ex a b : nk None a b -> nk ex a b.
Proof.
  intros H j n E. destruct (H _ _ E) as (n1 & E1 & I1 & D1). exists n1. repeat split; auto.
  intros N F T. specialize (D1 N F T). discriminate.
Qed.

Lemma nk_app ex ts new : nk ex ts (ts ++ new).
Proof. intros j n E. exists n. split; [apply nth_error_app_old; auto|]. split; auto. congruence. Qed.

Lemma nk_upd ex ts k f :
  (forall t, nth_error ts k = Some t -> t_id (f t) = t_id t /\
     (is_note t = true -> tdone t = false -> tdone (f t) = true -> ex = Some k)) ->
  nk ex ts (upd_nth k f ts).
Proof.
  intros H j n E. rewrite nth_error_upd_nth. destruct (Nat.eqb_spec k j) as [->|N].
  - rewrite E. cbn. exists (f n). destruct (H _ E). auto.
  - exists n. repeat split; auto. congruence.
Qed.

Lemma nk_keeps ex a b : keeps_tasks a b -> nk ex (tasks a) (tasks b).
Proof. intros K j n E. exists n. split; [apply K; auto|]. split; auto. congruence. Qed.

(** * The invariant bundle.  [n] is the value the barrier counter must have. *)
Record Q (n : nat) (s : state) : Prop := {
  q_canc : forall k t, nth_error (tasks s) k = Some t -> is_note t = true -> t_cancelled t = false;
  q_notes : forall u un, nth_error (units s) u = Some un -> u_notes un = countb (note_of u) (tasks s);
  q_pend : forall k t, nth_error (tasks s) k = Some t -> released s (t_unit t) = false ->
             t_st t = TSkip \/ t_st t = TAtAcquire;
  q_last : forall u, bar s u -> S u = length (units s);
  q_bar : n = open_notes s;
  q_past : forall u j t, released s u = true -> nth_error (tasks s) j = Some t -> t_unit t < u ->
             rnote t = true -> tdone t = true
}.

(* the registered owner of a request id is never a notification *)
Definition owners_ok (s : state) : Prop :=
  forall id k, In (id, k) (used s) -> forall t, nth_error (tasks s) k = Some t -> is_note t = false.

Lemma inv_used_owners s : inv_used s -> owners_ok s.
Proof.
  intros I id k H t E. destruct (iu_in _ I _ _ H) as (t0 & E0 & Ei & Nn & _).
  assert (t0 = t) by congruence. subst t0. unfold is_note. rewrite Ei. destruct id; [congruence|reflexivity].
Qed.

(* a state that differs only outside tasks, and in the unit fields Q does not read *)
Lemma Q_units n s s' :
  Q n s -> tasks s' = tasks s -> length (units s') = length (units s) ->
  (forall i, rel_in (units s') i = rel_in (units s) i) ->
  (forall u un', nth_error (units s') u = Some un' -> exists un, nth_error (units s) u = Some un /\ u_notes un' = u_notes un) ->
  (forall u, bar s' u -> bar s u) -> Q n s'.
Proof.
  intros [C N P L B Pa] T Ln R U Br.
  constructor; unfold released, open_notes, open_note in *; rewrite ?T, ?Ln; auto.
  - intros u un' E. destruct (U _ _ E) as (un & E0 & ->). auto.
  - intros k t E. rewrite R. eauto.
  - rewrite B. apply countb_ext_in. intros x _. unfold open_in. rewrite R. reflexivity.
  - intros u j t. rewrite R. eauto.
Qed.

Lemma Q_same n s s' :
  Q n s -> tasks s' = tasks s -> units s' = units s -> (forall u, bar s' u -> bar s u) -> Q n s'.
Proof.
  intros H T U B. eapply Q_units; eauto; rewrite U; eauto.
Qed.

Lemma Q_core0 n s s' : Q n s -> core0 s' = core0 s -> Q n s'.
Proof.
  intros H C. unfold core0 in C. injection C as T U _ _ _ D _ _ _.
  eapply Q_same; eauto. unfold bar. rewrite D. auto.
Qed.

Lemma rnote_static t t' : t_id t' = t_id t -> t_pre t' = t_pre t -> rnote t' = rnote t.
Proof. unfold rnote, runnable, is_note. intros -> ->. reflexivity. Qed.

(* a point update of task k that keeps the static fields *)
Lemma Q_upd n n' s s' k t f :
  Q n s -> nth_error (tasks s) k = Some t ->
  tasks s' = upd_nth k f (tasks s) -> units s' = units s -> (forall u, bar s' u -> bar s u) ->
  t_unit (f t) = t_unit t -> t_id (f t) = t_id t -> t_pre (f t) = t_pre t ->
  (is_note t = true -> t_cancelled (f t) = false) ->
  (released s (t_unit t) = false -> t_st (f t) = TSkip \/ t_st (f t) = TAtAcquire) ->
  (tdone t = true -> tdone (f t) = true) ->
  n' + (if open_note s t then 1 else 0) = n + (if open_note s (f t) then 1 else 0) ->
  Q n' s'.
Proof.
  intros [C N P L B Pa] E T U Br Hu Hi Hp Hc Hs Hd Hn.
  assert (NE : forall j x, nth_error (tasks s') j = Some x ->
                 (j = k /\ x = f t) \/ (j <> k /\ nth_error (tasks s) j = Some x)).
  { intros j x. rewrite T, nth_error_upd_nth. destruct (Nat.eqb_spec k j) as [->|Nj].
    - rewrite E. cbn. intros [= <-]. auto.
    - intros H. right. split; auto. }
  assert (Rn : rnote (f t) = rnote t) by (apply rnote_static; auto).
  constructor; unfold released, open_notes, open_note in *; rewrite ?U.
  - intros j x Ex Nx. destruct (NE _ _ Ex) as [[_ ->]|[_ Ej]]; [|eauto].
    apply Hc. unfold is_note in *. rewrite <- Hi. exact Nx.
  - intros u un Eu. rewrite (N _ _ Eu), T. symmetry. apply countb_upd_nth_same.
    intros x Ex. rewrite E in Ex. injection Ex as <-. unfold note_of. rewrite Hu, Rn. reflexivity.
  - intros j x Ex. destruct (NE _ _ Ex) as [[_ ->]|[_ Ej]]; [|eauto]. rewrite Hu. exact Hs.
  - intros u Hb. apply L, Br, Hb.
  - rewrite T. pose proof (countb_upd_nth (open_in (units s)) k f (tasks s) t E) as Cn. lia.
  - intros u j x Ru Ex Lt Rx. destruct (NE _ _ Ex) as [[_ ->]|[_ Ej]]; [|eauto].
    apply Hd. rewrite Hu in Lt. rewrite Rn in Rx. eauto.
Qed.

Lemma owners_upd s s' k f :
  owners_ok s -> tasks s' = upd_nth k f (tasks s) -> (forall p, In p (used s') -> In p (used s)) ->
  (forall t, nth_error (tasks s) k = Some t -> t_id (f t) = t_id t) -> owners_ok s'.
Proof.
  intros O T U Hi id j H x Ex. rewrite T, nth_error_upd_nth in Ex. apply U in H.
  destruct (Nat.eqb_spec k j) as [->|Nj].
  - destruct (nth_error (tasks s) j) as [t|] eqn:E; [|discriminate]. cbn in Ex. injection Ex as <-.
    unfold is_note. rewrite (Hi _ eq_refl). exact (O _ _ H _ E).
  - eauto.
Qed.

Lemma owners_same s s' : owners_ok s -> tasks s' = tasks s -> (forall p, In p (used s') -> In p (used s)) -> owners_ok s'.
Proof. intros O T U id j H x Ex. rewrite T in Ex. eauto. Qed.

(* a status update of a task that is not done and does not become a done notification *)
Lemma Q_set_st n s s' k t x :
  Q n s -> nth_error (tasks s) k = Some t ->
  tasks s' = upd_nth k (fun t => t <| t_st := x |>) (tasks s) -> units s' = units s ->
  (forall u, bar s' u -> bar s u) ->
  (released s (t_unit t) = false -> x = TSkip \/ x = TAtAcquire) ->
  tdone t = false ->
  (is_note t = true -> forall b, x <> TDone b) ->
  Q n s'.
Proof.
  intros H E T U Br Hs Hd Hx.
  eapply (Q_upd n n s s' k t (fun t => t <| t_st := x |>)); eauto.
  - intros Nt. cbn. eapply q_canc; eauto.
  - congruence.
  - assert (Eo : open_note s (t <| t_st := x |>) = open_note s t); [|rewrite Eo; reflexivity].
    unfold open_note, open_in. change (rnote (t <| t_st := x |>)) with (rnote t).
    change (t_unit (t <| t_st := x |>)) with (t_unit t). rewrite Hd.
    unfold rnote. destruct (is_note t) eqn:Nt; [|rewrite !andb_false_r; reflexivity].
    specialize (Hx eq_refl). unfold tdone. cbn. destruct x; try reflexivity. destruct (Hx _ eq_refl).
Qed.

Lemma nk_set_st ex ts k t x : nth_error ts k = Some t ->
  (is_note t = true -> forall b, x <> TDone b) ->
  nk ex ts (upd_nth k (fun t => t <| t_st := x |>) ts).
Proof.
  intros E Hx. apply nk_upd. intros y Ey. rewrite E in Ey. injection Ey as <-. split; auto.
  intros Nt _ D. exfalso. unfold tdone in D. cbn in D. destruct x; try discriminate. eapply Hx; eauto.
Qed.

(** * The cancellation family: cancel_task, stop_locked, release_ids *)
Lemma cancel_fn_static t :
  t_unit (cancel_fn t) = t_unit t /\ t_id (cancel_fn t) = t_id t /\ t_pre (cancel_fn t) = t_pre t.
Proof. unfold cancel_fn. destruct (t_st t); auto. Qed.

Lemma open_note_call s t : is_note t = false -> open_note s t = false.
Proof. intros N. unfold open_note, open_in, rnote. rewrite N, andb_false_r. reflexivity. Qed.

Lemma cancel_task_Q n ex s id k : Q n s -> owners_ok s -> In (id, k) (used s) ->
  Q n (cancel_task k s) /\ owners_ok (cancel_task k s) /\ nk ex (tasks s) (tasks (cancel_task k s)).
Proof.
  intros H O I. pose proof (cancel_task_tasks k s) as T. destruct (cancel_task_env k s) as (U & D & _).
  pose proof (cancel_task_used k s) as Us.
  destruct (nth_error (tasks s) k) as [t|] eqn:E.
  - assert (Nt : is_note t = false) by (eapply O; eauto).
    destruct (cancel_fn_static t) as (Su & Si & Sp).
    assert (Nt' : is_note (cancel_fn t) = false) by (unfold is_note in *; rewrite Si; exact Nt).
    split; [|split].
    + eapply (Q_upd n n s _ k t cancel_fn); eauto.
      * unfold bar. rewrite D. auto.
      * congruence.
      * intros R. destruct (q_pend _ _ H _ _ E R) as [St|St]; unfold cancel_fn; rewrite St; cbn; auto.
      * unfold tdone, cancel_fn. destruct (t_st t) eqn:St; cbn; rewrite ?St; congruence.
      * rewrite !open_note_call; auto.
    + eapply owners_upd; eauto.
      * rewrite Us. auto.
      * intros y Ey. apply cancel_fn_static.
    + rewrite T. apply nk_upd. intros y Ey. rewrite E in Ey. injection Ey as <-. split; auto. congruence.
  - rewrite upd_nth_none in T by auto. split; [|split].
    + eapply Q_same; eauto. unfold bar. rewrite D. auto.
    + eapply owners_same; eauto. rewrite Us. auto.
    + rewrite T. apply nk_refl.
Qed.

Lemma fold_cancel_Q n ex (l : list (bytes * nat)) : forall s, Q n s -> owners_ok s ->
  (forall p, In p l -> In p (used s)) ->
  let s' := fold_left (fun st p => cancel_task (snd p) st) l s in
  Q n s' /\ owners_ok s' /\ nk ex (tasks s) (tasks s').
Proof.
  induction l as [|[id k] l IH]; intros s H O I; cbn.
  - split; auto. split; auto. apply nk_refl.
  - destruct (cancel_task_Q n ex s id k H O) as (H1 & O1 & N1); [apply I; left; auto|].
    destruct (IH (cancel_task k s) H1 O1) as (H2 & O2 & N2).
    { intros p Hp. rewrite cancel_task_used. apply I. right; auto. }
    split; auto. split; auto. eapply nk_trans; eauto.
Qed.

Lemma release_ids_Q n ex ts : forall s, Q n s -> owners_ok s ->
  Q n (release_ids ts s) /\ owners_ok (release_ids ts s) /\ nk ex (tasks s) (tasks (release_ids ts s)).
Proof.
  induction ts as [|a r IH]; intros s H O; cbn [release_ids].
  - split; auto. split; auto. apply nk_refl.
  - destruct (t_hasctx a && negb (is_note a)); [|apply IH; auto].
    destruct (assoc (t_id a) (used s)) as [owner|] eqn:A; [|apply IH; auto].
    destruct (cancel_task_Q n ex s (t_id a) owner H O) as (H1 & O1 & N1); [apply assoc_in; auto|].
    set (s1 := cancel_task owner s <| used ::= assoc_del (t_id a) |>).
    assert (H1' : Q n s1) by (eapply Q_same; eauto).
    assert (O1' : owners_ok s1).
    { eapply owners_same; eauto. intros p Hp. unfold s1 in Hp. cbn in Hp. apply in_assoc_del in Hp. tauto. }
    destruct (IH s1 H1' O1') as (H2 & O2 & N2).
    split; auto. split; auto. eapply nk_trans; [exact N1|exact N2].
Qed.

Lemma stop_locked_Q n ex c s s' os : Q n s -> owners_ok s -> stop_locked c s = (s', os) ->
  Q n s' /\ nk ex (tasks s) (tasks s').
Proof.
  intros H O. unfold stop_locked. destruct (running s); cbn [negb]; [|intros [= <- _]; split; auto; apply nk_refl].
  intros Hs.
  match type of Hs with (?x, _) = _ => assert (Hs' : s' = x) by congruence end. clear Hs.
  match type of Hs' with context [fold_left ?f ?l ?s0] =>
    pose proof (fold_cancel_Q n ex l s0) as Fc; cbv zeta in Fc;
    pose proof (fold_cancel_spec l s0) as Fs; cbv zeta in Fs;
    set (s4 := fold_left f l s0) in *; set (s3 := s0) in * end.
  assert (T3 : tasks s3 = tasks s /\ units s3 = units s /\ dp s3 = dp s /\ used s3 = used s).
  { unfold s3. destruct (work_closed (s <| closes ::= S |> <| inq ::= stop_queue |>)); cbn; repeat split. }
  destruct T3 as (T3 & U3 & D3 & Us3).
  assert (H3 : Q n s3) by (eapply Q_same; eauto; unfold bar; rewrite D3; auto).
  assert (O3 : owners_ok s3) by (eapply owners_same; eauto; rewrite Us3; auto).
  destruct (Fc H3 O3) as (H4 & _ & N4); [auto|].
  destruct Fs as (_ & _ & _ & (U4 & D4 & _) & _).
  rewrite T3 in N4. clearbody s4. clearbody s3. subst s'.
  destruct (c_unblock _); cbn; (split; [|exact N4]); eapply Q_same; eauto.
Qed.

(** * grant *)
Lemma grant_Q n ex fuel s acc : wait_ok s -> Q n s ->
  Q n (fst (grant fuel s acc)) /\ nk ex (tasks s) (tasks (fst (grant fuel s acc))).
Proof.
  intros W0 H0.
  cut (wait_ok (fst (grant fuel s acc)) /\ Q n (fst (grant fuel s acc)) /\
       nk ex (tasks s) (tasks (fst (grant fuel s acc)))); [tauto|].
  apply (grant_ind (fun s1 _ => wait_ok s1 /\ Q n s1 /\ nk ex (tasks s) (tasks s1)));
    [|split; [auto|split; [auto|apply nk_refl]]].
  intros s1 acc1 k r fr t ([ND Wt] & H1 & N1) Hw Hf Ht. rewrite Hw in ND, Wt.
  destruct (Wt k (or_introl eq_refl)) as (t0 & Et0 & St0). rewrite Ht in Et0. injection Et0 as <-.
  assert (Rl : released s1 (t_unit t) = true).
  { destruct (released s1 (t_unit t)) eqn:R; auto.
    destruct (q_pend _ _ H1 _ _ Ht R); congruence. }
  assert (Td : tdone t = false) by (unfold tdone; rewrite St0; auto).
  split; [|split].
  - split; rewrite grant1_wait; [inversion ND; auto|].
    intros j Hj. rewrite (grant1_tasks _ _ _ _ _ Ht). rewrite nth_error_upd_nth_neq.
    + apply Wt. right; auto.
    + intros <-. inversion ND; auto.
  - unfold grant1. destruct (t_builtin t); cbn [fst].
    + eapply (Q_set_st n s1 _ k t (TAtHandled (ORes []))); eauto; try congruence; try (intros _ b; discriminate).
    + eapply (Q_set_st n s1 _ k t TRunning); eauto; try congruence; try (intros _ b; discriminate).
  - eapply nk_trans; [exact N1|]. unfold grant1. destruct (t_builtin t); cbn [fst].
    + apply (nk_set_st ex (tasks s1) k t (TAtHandled (ORes []))); auto. intros _ b; discriminate.
    + apply (nk_set_st ex (tasks s1) k t TRunning); auto. intros _ b; discriminate.
Qed.

(** * dequeue: a new unit parked at the barrier, with fresh tasks *)
Lemma mk_task_rnote_filter s u ids ms :
  countb (note_of u) (map (mk_task s u ids) ms) =
  length (filter (fun t => runnable t && is_note t) (map (mk_task s u ids) ms)).
Proof.
  apply countb_filter_length. intros x Hx. apply in_map_iff in Hx as (m & <- & _).
  unfold note_of, rnote. rewrite mk_task_unit, Nat.eqb_refl. reflexivity.
Qed.

Lemma dequeue_Q n s : inv s -> Q n s -> (forall u, ~ bar s u) -> Q n (dequeue s).
Proof.
  intros I H NB. unfold dequeue. destruct (inq s) as [|[batch ms] q] eqn:Iq.
  - destruct (running s); eapply Q_same; eauto; unfold bar; cbn; intros u [D|D]; discriminate.
  - destruct H as [C N P L B Pa].
    set (u0 := length (units s)).
    set (ids := map (fun m => fix_id (j_id m)) ms).
    set (ts := map (mk_task s u0 ids) ms).
    set (new := mkUnit batch (length (filter (fun t => runnable t && is_note t) ts)) (running s) UAtBarrier).
    assert (Old : forall k t, nth_error (tasks s) k = Some t -> t_unit t < u0).
    { intros k t E. exact (i_unit _ I _ _ E). }
    assert (New : forall t, In t ts -> t_unit t = u0).
    { intros t Ht. apply in_map_iff in Ht as (m & <- & _). apply mk_task_unit. }
    assert (NE : forall k t, nth_error (tasks s ++ ts) k = Some t -> nth_error (tasks s) k = Some t \/ In t ts).
    { intros k t E. destruct (Nat.lt_ge_cases k (length (tasks s))) as [Lt|Ge].
      - rewrite nth_error_app1 in E by auto. auto.
      - rewrite nth_error_app2 in E by auto. right. eapply nth_error_In; eauto. }
    assert (Rnew : rel_in (units s ++ [new]) u0 = false).
    { unfold rel_in, u0. rewrite nth_error_app_new. reflexivity. }
    constructor; unfold released, open_notes, open_note in *; cbn.
    + intros k t E Nt. destruct (NE _ _ E) as [E0|Ht]; [eauto|].
      apply in_map_iff in Ht as (m & <- & _). apply mk_task_cancelled.
    + intros u un E. rewrite countb_app.
      destruct (Nat.lt_ge_cases u u0) as [Lt|Ge].
      * rewrite nth_error_app1 in E by auto. rewrite (N _ _ E).
        assert (Z : countb (note_of u) ts = 0).
        { apply countb_zero_forall. intros x Hx. unfold note_of. rewrite (New _ Hx).
          destruct (Nat.eqb_spec u0 u); [lia|reflexivity]. }
        fold ts. lia.
      * assert (u = u0).
        { apply nth_error_some_lt in E. rewrite app_length in E. cbn in E. unfold u0 in *. lia. }
        subst u. unfold u0 in E. rewrite nth_error_app_new in E. injection E as <-. cbn.
        assert (Z : countb (note_of u0) (tasks s) = 0).
        { apply countb_zero_forall. intros x Hx. apply In_nth_error in Hx as (k & Ek). unfold note_of.
          specialize (Old _ _ Ek). destruct (Nat.eqb_spec (t_unit x) u0); [lia|reflexivity]. }
        fold u0. rewrite Z. unfold ts. rewrite mk_task_rnote_filter. reflexivity.
    + intros k t E R. destruct (NE _ _ E) as [E0|Ht].
      * rewrite rel_in_app_old in R by (eapply Old; eauto). eauto.
      * apply in_map_iff in Ht as (m & <- & _).
        destruct (mk_task_st s u0 ids m) as [[St _]|[St _]]; auto.
    + intros u [D|D]; [|discriminate]. injection D as <-. rewrite app_length. cbn. lia.
    + rewrite countb_app.
      assert (Z : countb (open_in (units s ++ [new])) ts = 0).
      { apply countb_zero_forall. intros x Hx. unfold open_in. rewrite (New _ Hx), Rnew, andb_false_r. reflexivity. }
      fold ts. rewrite Z, B, Nat.add_0_r. apply countb_ext_in. intros x Hx.
      apply In_nth_error in Hx as (k & Ek). unfold open_in. rewrite rel_in_app_old by (eapply Old; eauto). reflexivity.
    + intros u j t R E Lt Rn.
      assert (Lu : u < u0).
      { pose proof (rel_in_lt _ _ R) as Lu. rewrite app_length in Lu. cbn in Lu.
        destruct (Nat.eq_dec u u0) as [->|Nu]; [congruence|]. unfold u0. lia. }
      rewrite rel_in_app_old in R by auto.
      destruct (NE _ _ E) as [E0|Ht]; [eauto|]. rewrite (New _ Ht) in Lt. lia.
Qed.

(** * unit status changes after the release *)
Lemma set_released_Q n s s' i un x :
  Q n s -> nth_error (units s) i = Some un -> released_u un = true ->
  (x = UAtDeliver \/ x = UFinished) ->
  tasks s' = tasks s -> units s' = upd_nth i (fun y => y <| u_st := x |>) (units s) ->
  (forall u, bar s' u -> bar s u) -> Q n s'.
Proof.
  intros H E R X T U Br. eapply Q_units; eauto.
  - rewrite U. apply upd_nth_length.
  - intros j. rewrite U, (rel_in_upd _ _ _ _ _ E). destruct (Nat.eqb_spec i j) as [<-|N]; auto.
    unfold rel_in. rewrite E, R. destruct X as [-> | ->]; reflexivity.
  - intros u un' E'. rewrite U, nth_error_upd_nth in E'. destruct (Nat.eqb_spec i u) as [<-|N]; eauto.
    rewrite E in E'. cbn in E'. injection E' as <-. eauto.
Qed.

(** * the barrier opens: S1Barrier *)
Lemma barrier_Q s u un s' :
  inv s -> inv2 s -> Q 0 s -> dp s = DBarrierWait u -> nth_error (units s) u = Some un ->
  tasks s' = tasks s -> units s' = upd_nth u (fun y => y <| u_st := URunning |>) (units s) -> dp s' = DAtNext ->
  Q (u_notes un) s'.
Proof.
  intros I I2 [C N P L B Pa] D E T U D'.
  destruct (i_dp _ I u (or_intror D)) as (un0 & E0 & Su). rewrite E in E0. injection E0 as <-.
  assert (Ru : released s u = false) by (unfold released, rel_in, released_u; rewrite E, Su; auto).
  assert (Others : forall v, v < length (units s) -> v <> u -> released s v = true).
  { intros v Lv Nv. unfold released, rel_in. destruct (nth_error (units s) v) as [unv|] eqn:Ev.
    - unfold released_u. destruct (u_st unv) eqn:Sv; auto.
      all: destruct (i_bar _ I2 _ _ Ev) as [Hb|Hb]; auto; rewrite D in Hb; congruence.
    - apply nth_error_None in Ev. lia. }
  assert (Rel' : forall j, rel_in (units s') j = if u =? j then true else released s j).
  { intros j. rewrite U, (rel_in_upd _ _ _ _ _ E). reflexivity. }
  assert (Zero : forall x, In x (tasks s) -> open_in (units s) x = false).
  { apply countb_zero_forall. unfold open_notes, open_note in B. auto. }
  constructor; unfold released, open_notes, open_note in *; rewrite ?T.
  - exact C.
  - intros v un' E'. rewrite U, nth_error_upd_nth in E'. destruct (Nat.eqb_spec u v) as [<-|Nv]; eauto.
    rewrite E in E'. cbn in E'. injection E' as <-. cbn. eauto.
  - intros k t Ek R. rewrite Rel' in R. destruct (Nat.eqb_spec u (t_unit t)); [discriminate|eauto].
  - intros v [Dv|Dv]; rewrite D' in Dv; discriminate.
  - rewrite (N _ _ E). apply countb_ext_in. intros x Hx. unfold open_in, note_of. rewrite Rel'.
    destruct (Nat.eqb_spec u (t_unit x)) as [Eu|Nu].
    + rewrite <- Eu, Nat.eqb_refl. apply In_nth_error in Hx as (k & Ek).
      assert (Td : tdone x = false).
      { destruct (P _ _ Ek) as [St|St]; [rewrite <- Eu; exact Ru| |]; unfold tdone; rewrite St; auto. }
      rewrite Td. cbn. rewrite !andb_true_r. reflexivity.
    + destruct (Nat.eqb_spec (t_unit x) u); [congruence|]. cbn. symmetry. apply Zero. exact Hx.
  - intros v j t Rv Ej Lt Rn. rewrite Rel' in Rv. destruct (Nat.eqb_spec u v) as [<-|Nv]; [|eauto].
    assert (Rt : rel_in (units s) (t_unit t) = true).
    { apply Others; [|lia]. apply nth_error_some_lt in E. lia. }
    pose proof (Zero _ (nth_error_In _ _ Ej)) as Z. unfold open_in in Z. rewrite Rn, Rt in Z. cbn in Z.
    destruct (tdone t); [reflexivity|discriminate].
Qed.

(** * Every critical section *)
Definition done_label (l : label) : option nat := match l with LRelHandled k => Some k | _ => None end.

Lemma unit_running_released s t : unit_running s t = true -> released s (t_unit t) = true.
Proof.
  unfold unit_running, released, rel_in, released_u. destruct (nth_error _ _) as [u|]; [|discriminate].
  destruct (u_st u); auto; discriminate.
Qed.

Lemma dequeue_nbar s : nbar (dequeue s) = nbar s.
Proof. unfold dequeue. destruct (inq s) as [|[b ms] q]; [destruct (running s)|]; reflexivity. Qed.

Lemma dequeue_nk ex s : nk ex (tasks s) (tasks (dequeue s)).
Proof.
  unfold dequeue. destruct (inq s) as [|[b ms] q]; [destruct (running s); apply nk_refl|]. cbn. apply nk_app.
Qed.

Lemma stop_locked_nbar c s s' os : stop_locked c s = (s', os) -> nbar s' = nbar s /\ dp s' = dp s /\ units s' = units s.
Proof.
  intros H. apply stop_locked_spec in H as [(_ & -> & _)|(_ & _ & P)]; auto. destruct P. auto.
Qed.

Lemma raw_Q s l s' os : inv s -> inv2 s -> owners_ok s -> Q (nbar s) s -> step_raw s l = Some (s', os) ->
  Q (nbar s') s' /\ nk (done_label l) (tasks s) (tasks s').
Proof.
  intros I I2 O H Hs. destruct (frame_label l) eqn:Fl.
  { apply step_raw_frame in Hs as (C & _); auto. unfold core in C. injection C as T U _ _ _ D _ _ _ B.
    rewrite B, T. split; [|apply nk_refl]. eapply Q_same; eauto. unfold bar. rewrite D. auto. }
  destruct l; try discriminate Fl; unfold step_raw in Hs; cbn [done_label].
  - (* LStart *)
    destruct (negb (running s) && (wg s =? 0)); [|discriminate]. injection Hs as <- <-.
    split; [|apply nk_refl]. eapply Q_same; eauto. unfold bar; cbn. intros u [D|D]; discriminate.
  - (* LGate *)
    destruct (find_idx _ 0 (tasks s)) as [k|] eqn:F; [|discriminate].
    destruct (nth_error (tasks s) k) as [t|] eqn:E; [|discriminate]. injection Hs as <- <-.
    apply find_idx_some in F as (x & Ex & Px & _). rewrite Nat.sub_0_r, E in Ex. injection Ex as <-.
    apply andb_true_iff in Px as [_ Px]. destruct (t_st t) eqn:St; try discriminate.
    split.
    + eapply (Q_set_st (nbar s) s _ k t (TAtHandled o)); eauto.
      * intros R. destruct (q_pend _ _ H _ _ E R); congruence.
      * unfold tdone. rewrite St. auto.
      * intros _ b; discriminate.
    + apply (nk_set_st None (tasks s) k t (TAtHandled o)); auto. intros _ b; discriminate.
  - (* LRelRead *)
    destruct (rd s) as [| |f|] eqn:Rd; try discriminate. injection Hs as Hs.
    destruct f as [i|i|c].
    3:{ cbn in Hs. destruct (stop_locked c s) as [s0 os0] eqn:St. injection Hs as <- <-.
        destruct (stop_locked_Q _ None _ _ _ _ H O St) as (H0 & N0).
        destruct (stop_locked_nbar _ _ _ _ St) as (B0 & D0 & _).
        split; [|exact N0]. cbn. rewrite B0. eapply Q_same; eauto. }
    all: destruct (running s) eqn:Rn;
      [ eapply read_cs_msg in Hs as (C & _); eauto; pose proof C as C'; unfold core0 in C';
        injection C' as T _ _ _ _ _ _ _ B; rewrite B, T; split; [eapply Q_core0; eauto|apply nk_refl]
      | cbn in Hs; rewrite Rn in Hs; cbn in Hs; injection Hs as <- <-; split; [|apply nk_refl];
        eapply Q_same; eauto ].
  - (* LRelNext *)
    destruct (dp s) eqn:D; try discriminate. injection Hs as <- <-.
    rewrite dequeue_nbar. split; [|apply dequeue_nk]. apply dequeue_Q; auto.
    intros u [Hb|Hb]; congruence.
  - (* LRelBarrier *)
    destruct (dp s) eqn:D; try discriminate. injection Hs as <- <-.
    split; [|apply nk_refl]. eapply Q_same; eauto. unfold bar; cbn. rewrite D.
    intros v [Dv|Dv]; [discriminate|]. injection Dv as <-. auto.
  - (* LRelAcquire *)
    destruct (nth_error (tasks s) k) as [t|] eqn:E; [|discriminate].
    destruct (t_st t) eqn:St; try discriminate.
    destruct (unit_running s t) eqn:Ur; cbn [negb] in Hs; [|discriminate].
    apply unit_running_released in Ur.
    assert (Td : tdone t = false) by (unfold tdone; rewrite St; auto).
    assert (X : forall x s1, (is_note t = true -> forall b, x <> TDone b) ->
              tasks s1 = upd_nth k (fun t => t <| t_st := x |>) (tasks s) -> units s1 = units s -> dp s1 = dp s ->
              nbar s1 = nbar s ->
              Q (nbar s1) s1 /\ nk None (tasks s) (tasks s1)).
    { intros x s1 Hx T1 U1 D1 B1. rewrite B1, T1. split.
      - eapply (Q_set_st (nbar s) s s1 k t x); eauto; try congruence. unfold bar. rewrite D1. auto.
      - apply (nk_set_st None (tasks s) k t x); auto. }
    destruct (t_cancelled t) eqn:Ct.
    { injection Hs as <- <-. apply (X (TDone (Some cancel_err))); auto.
      intros Nt. rewrite (q_canc _ _ H _ _ E Nt) in Ct. discriminate. }
    destruct (sem_free s); [injection Hs as <- <-; apply (X TWaiting); auto; intros _ b; discriminate|].
    destruct (sem_wait s); [|injection Hs as <- <-; apply (X TWaiting); auto; intros _ b; discriminate].
    destruct (t_builtin t); injection Hs as <- <-;
      [apply (X (TAtHandled (ORes [])))|apply (X TRunning)]; auto; intros _ b; discriminate.
  - (* LRelHandled *)
    destruct (nth_error (tasks s) k) as [t|] eqn:E; [|discriminate].
    destruct (t_st t) eqn:St; try discriminate.
    set (s0 := set_task k (fun t => t <| t_st := TDone (body_of_outcome t o) |>) s <| sem_free ::= S |>) in *.
    assert (W0 : wait_ok s0).
    { unfold wait_ok, s0; cbn. apply wait_ok_upd; [apply I|]. eapply wait_not_in; eauto; [apply I|congruence]. }
    assert (Rl : released s (t_unit t) = true).
    { destruct (released s (t_unit t)) eqn:R; auto. destruct (q_pend _ _ H _ _ E R); congruence. }
    assert (Rn : runnable t = true).
    { unfold runnable. destruct (t_pre t) eqn:Pt; auto. destruct (i_pre _ I _ _ E) as [P _]. rewrite (P _ Pt) in St. discriminate. }
    assert (N0 : nk (Some k) (tasks s) (tasks s0)).
    { unfold s0. cbn. apply nk_upd. intros y Ey. split; auto. }
    assert (T0 : tasks s0 = upd_nth k (fun t => t <| t_st := TDone (body_of_outcome t o) |>) (tasks s)) by reflexivity.
    set (n0 := if is_note t then pred (nbar s) else nbar s).
    assert (H0 : Q n0 s0 /\ (is_note t = true -> 0 < nbar s)).
    { unfold n0. destruct (is_note t) eqn:Nt.
      - assert (Op : open_note s t = true).
        { unfold open_note, open_in, rnote, tdone. rewrite Rn, Nt, St. fold (released s (t_unit t)). rewrite Rl. reflexivity. }
        assert (Pos : 0 < nbar s).
        { rewrite (q_bar _ _ H). unfold open_notes. eapply countb_pos; eauto. }
        split; auto.
        eapply (Q_upd (nbar s) (pred (nbar s)) s s0 k t); eauto.
        + intros _. cbn. eapply q_canc; eauto.
        + congruence.
        + rewrite Op. unfold open_note, open_in, tdone. cbn. rewrite !andb_false_r. lia.
      - split; [|discriminate].
        eapply (Q_upd (nbar s) (nbar s) s s0 k t); eauto.
        + congruence.
        + congruence.
        + rewrite !open_note_call; auto. }
    destruct H0 as [H0 Pos].
    destruct (grant_Q n0 (Some k) (S (length (sem_wait s0))) s0 [] W0 H0) as (H2 & N2).
    pose proof (grant_spec (S (length (sem_wait s0))) s0 [] W0) as G.
    destruct (grant (S (length (sem_wait s0))) s0 []) as [s2 os2]. cbn [fst snd] in *.
    destruct G as [_ _ _ (U2 & D2 & _ & _ & _ & B2 & _) _ _ _ _].
    assert (B2' : nbar s2 = nbar s) by (rewrite B2; reflexivity).
    assert (N02 : nk (Some k) (tasks s) (tasks s2)) by (eapply nk_trans; eauto).
    unfold n0 in H2. destruct (is_note t).
    + specialize (Pos eq_refl). destruct (nbar s2) as [|m] eqn:Bm; [lia|]. injection Hs as <- <-.
      split; [|exact N02]. cbn. rewrite <- B2' in H2. cbn in H2. eapply Q_same; eauto.
    + injection Hs as <- <-. split; [|exact N02]. rewrite B2'. exact H2.
  - (* LRelDeliver *)
    destruct (nth_error (units s) u) as [un|] eqn:E; [|discriminate].
    destruct (u_st un) eqn:Su; try discriminate.
    destruct (release_ids_Q (nbar s) None (unit_tasks s u) s H O) as (H1 & _ & N1).
    destruct (release_ids_spec (unit_tasks s u) s) as [_ _ _ (Eu & Ed & _ & _ & _ & Eb & _) _ _ _].
    set (s1 := release_ids (unit_tasks s u) s) in *.
    destruct (u_chok un); cbn [negb] in Hs; injection Hs as <- <-; (split; [|exact N1]); cbn; rewrite Eb.
    + eapply (set_released_Q (nbar s) s1 _ u un UFinished); eauto.
      * rewrite Eu. exact E.
      * unfold released_u. rewrite Su. reflexivity.
    + eapply Q_same; eauto.
  - (* LRelStop *)
    destruct (find_op n (ops s)) as [[n0|n0 id|n0 w m p]|]; try discriminate.
    destruct (stop_locked SCStop (s <| ops ::= del_op n |>)) as [s0 os0] eqn:St. injection Hs as <- <-.
    assert (H1 : Q (nbar s) (s <| ops ::= del_op n |>)) by (eapply Q_same; eauto).
    assert (O1 : owners_ok (s <| ops ::= del_op n |>)) by (eapply owners_same; eauto).
    destruct (stop_locked_Q _ None _ _ _ _ H1 O1 St) as (H0 & N0).
    destruct (stop_locked_nbar _ _ _ _ St) as (B0 & _). rewrite B0. split; auto.
  - (* LRelCancel *)
    destruct (find_op n (ops s)) as [[n0|n0 id|n0 w m p]|]; try discriminate.
    injection Hs as <- <-. cbn.
    assert (H1 : Q (nbar s) (s <| ops ::= del_op n |>)) by (eapply Q_same; eauto).
    assert (O1 : owners_ok (s <| ops ::= del_op n |>)) by (eapply owners_same; eauto).
    destruct (assoc id (used s)) as [owner|] eqn:A.
    + destruct (cancel_task_Q (nbar s) None (s <| ops ::= del_op n |>) id owner H1 O1) as (H2 & _ & N2).
      { apply assoc_in. exact A. }
      destruct (cancel_task_env owner (s <| ops ::= del_op n |>)) as (_ & _ & _ & _ & _ & B & _).
      rewrite B. split; auto.
    + split; [exact H1|apply nk_refl].
Qed.

(** * Every wake-up *)
Lemma settle1_Q s s' os : inv s -> inv2 s -> Q (nbar s) s -> settle1 s = Some (s', os) -> Q (nbar s') s'.
Proof.
  intros I I2 H Hs. apply settle1_inv in Hs. destruct Hs as [f q Rd Ch|D Rn|u un D Z E|i un F E Rs|i un F E Rs|W G Iq|W G Iq].
  - eapply Q_same; eauto.
  - rewrite dequeue_nbar. apply dequeue_Q; auto. intros u [Hb|Hb]; congruence.
  - rewrite Z in H. cbn. eapply (barrier_Q s u un); eauto.
  - apply find_unit_some in F as (un' & E' & C & _). rewrite Nat.sub_0_r, E in E'. injection E' as <-.
    apply unit_complete_inv in C as [Su _].
    eapply (set_released_Q (nbar s) s _ i un UFinished); eauto. unfold released_u. rewrite Su. reflexivity.
  - apply find_unit_some in F as (un' & E' & C & _). rewrite Nat.sub_0_r, E in E'. injection E' as <-.
    apply unit_complete_inv in C as [Su _].
    eapply (set_released_Q (nbar s) s _ i un UAtDeliver); eauto. unfold released_u. rewrite Su. reflexivity.
  - eapply Q_same; eauto.
  - eapply Q_same; eauto.
Qed.

Lemma init_Q c : Q (nbar (init_of c)) (init_of c).
Proof.
  constructor; cbn; auto.
  - intros [|k] t E; discriminate.
  - intros [|u] un E; discriminate.
  - intros [|k] t E; discriminate.
  - intros u [D|D]; discriminate.
  - intros u [|j] t _ E; discriminate.
Qed.

Theorem reachf_Q c s : reachf c s -> Q (nbar s) s.
Proof.
  induction 1 as [|s l s' os R IH Cr Hs|s s' os R IH Hs].
  - apply init_Q.
  - eapply raw_Q; eauto.
    + eapply reachf_inv; eauto.
    + eapply reachf_inv2; eauto.
    + apply inv_used_owners. eapply reachf_inv_used; eauto.
  - eapply settle1_Q; eauto.
    + eapply reachf_inv; eauto.
    + eapply reachf_inv2; eauto.
Qed.

(** * 1. the barrier counter *)
(* nbar = number of runnable notification tasks of released units that have not returned *)
Theorem inv_nbar c s : reachf c s -> nbar s = open_notes s.
Proof. intros R. exact (q_bar _ _ (reachf_Q _ _ R)). Qed.

(* the form asked for: in crash-free states (it holds in all) *)
Corollary inv_nbar_nocrash c s : reachf c s -> crash s = None ->
  nbar s = countb (fun t => runnable t && is_note t && released s (t_unit t) && negb (tdone t)) (tasks s).
Proof. intros R _. rewrite (inv_nbar _ _ R). reflexivity. Qed.

Theorem notes_never_cancelled c s k t : reachf c s -> nth_error (tasks s) k = Some t -> is_note t = true ->
  t_cancelled t = false.
Proof. intros R. exact (q_canc _ _ (reachf_Q _ _ R) k t). Qed.

Theorem unit_notes_count c s u un : reachf c s -> nth_error (units s) u = Some un ->
  u_notes un = countb (note_of u) (tasks s).
Proof. intros R. exact (q_notes _ _ (reachf_Q _ _ R) u un). Qed.

Theorem unreleased_pending c s k t : reachf c s -> nth_error (tasks s) k = Some t -> released s (t_unit t) = false ->
  t_st t = TSkip \/ t_st t = TAtAcquire.
Proof. intros R. exact (q_pend _ _ (reachf_Q _ _ R) k t). Qed.

(* the frontier: the unit at the barrier is the last one and the only one not released *)
Theorem frontier c s : reachf c s ->
  (forall u, bar s u -> S u = length (units s) /\ released s u = false /\
             forall v, v < u -> released s v = true) /\
  ((forall u, ~ bar s u) -> forall v, v < length (units s) -> released s v = true).
Proof.
  intros R. pose proof (reachf_Q _ _ R) as H. pose proof (reachf_inv _ _ R) as I. pose proof (reachf_inv2 _ _ R) as I2.
  assert (Rel : forall v, v < length (units s) -> released s v = false -> bar s v).
  { intros v Lv Rv. unfold released, rel_in in Rv. destruct (nth_error (units s) v) as [un|] eqn:E.
    - unfold released_u in Rv. destruct (u_st un) eqn:Su; try discriminate; eapply i_bar; eauto.
    - apply nth_error_None in E. lia. }
  split.
  - intros u Hb. pose proof (q_last _ _ H _ Hb) as L. split; auto. split.
    + destruct (i_dp _ I _ Hb) as (un & E & Su). unfold released, rel_in, released_u. rewrite E, Su. reflexivity.
    + intros v Lv. destruct (released s v) eqn:Rv; auto.
      assert (Hv : bar s v) by (apply Rel; auto; lia).
      destruct Hb as [Hb|Hb], Hv as [Hv|Hv]; rewrite Hb in Hv; try discriminate; injection Hv as ->; lia.
  - intros NB v Lv. destruct (released s v) eqn:Rv; auto. destruct (NB v). apply Rel; auto.
Qed.

(* the barrier counter never goes negative: the panic of nbar.Done() is unreachable *)
Theorem no_negative_barrier c s : reachf c s -> crash s <> Some CrNegativeBarrier.
Proof.
  induction 1 as [|s l s' os R IH Cr Hs|s s' os R IH Hs].
  - cbn. discriminate.
  - intros Cs'. pose proof (reachf_Q _ _ R) as H. pose proof (reachf_inv _ _ R) as I.
    destruct (frame_label l) eqn:Fl.
    { apply step_raw_frame in Hs as (_ & C & _); auto. congruence. }
    destruct l; try discriminate Fl; unfold step_raw in Hs.
    + destruct (negb (running s) && (wg s =? 0)); [|discriminate]. injection Hs as <- <-. cbn in Cs'. congruence.
    + destruct (find_idx _ 0 (tasks s)) as [k|]; [|discriminate].
      destruct (nth_error (tasks s) k) as [t|]; [|discriminate]. injection Hs as <- <-. cbn in Cs'. congruence.
    + destruct (rd s) as [| |f|] eqn:Rd; try discriminate. injection Hs as Hs.
      destruct f as [i|i|c0].
      3:{ cbn in Hs. destruct (stop_locked c0 s) as [s0 os0] eqn:St. injection Hs as <- <-. cbn in Cs'.
          unfold stop_locked in St. destruct (running s); cbn [negb] in St; [|injection St as <- <-; congruence].
          match type of St with (?x, _) = _ => assert (Hs' : s0 = x) by congruence end. clear St.
          match type of Hs' with context [fold_left ?f ?l ?s1] =>
            pose proof (fold_cancel_spec l s1) as Fs; cbv zeta in Fs;
            set (s4 := fold_left f l s1) in *; set (s3 := s1) in * end.
          destruct Fs as (_ & _ & _ & (_ & _ & _ & _ & _ & _ & _ & C4 & _) & _).
          assert (C3 : crash s3 <> Some CrNegativeBarrier).
          { unfold s3. destruct (work_closed _); cbn; congruence. }
          clearbody s4. clearbody s3. subst s0. destruct (c_unblock _); cbn in Cs'; congruence. }
      all: destruct (running s) eqn:Rn;
        [ | cbn in Hs; rewrite Rn in Hs; cbn in Hs; injection Hs as <- <-; cbn in Cs'; congruence ].
      all: assert (Hs2 : (match i with
           | InBad => let '(s', os) := push_error s ParseError s_invalid_value in (s' <| rd := RIdle |>, os)
           | InMsgs _ [] => let '(s', os) := push_error s InvalidRequest s_empty_batch in (s' <| rd := RIdle |>, os)
           | InMsgs b ms =>
               let '(s1, keep, os) := filter_batch ms s [] [] in
               match keep with
               | [] => (s1 <| rd := RIdle |>, os)
               | _ => let s2 := s1 <| inq ::= fun q => q ++ [(b, keep)] |> <| rd := RIdle |> in
                      if work_closed s2 && (length (inq s2) =? 1)
                      then (s2 <| crash := Some CrSendOnClosedWork |>, os ++ [OCrash CrSendOnClosedWork])
                      else (s2, os)
               end
           end) = (s', os)) by (unfold read_cs in Hs; rewrite Rn in Hs; exact Hs).
      all: clear Hs; destruct i as [|b ms]; [cbn in Hs2; injection Hs2 as <- <-; cbn in Cs'; congruence|].
      all: destruct ms as [|m ms]; [cbn in Hs2; injection Hs2 as <- <-; cbn in Cs'; congruence|].
      all: destruct (filter_batch (m :: ms) s [] []) as [[s1 keep] os1] eqn:Fb;
           apply filter_batch_core in Fb as [_ Fb]; unfold core_nord in Fb;
           injection Fb as _ _ _ _ _ _ _ _ _ _ Cr1 _ _ _ _.
      all: destruct keep as [|k0 kr]; [injection Hs2 as <- <-; cbn in Cs'; congruence|].
      all: cbv zeta in Hs2; match type of Hs2 with (if ?c then _ else _) = _ => destruct c end;
           injection Hs2 as <- <-; cbn in Cs'; congruence.
    + destruct (dp s); try discriminate. injection Hs as <- <-.
      unfold dequeue in Cs'. destruct (inq s) as [|[b ms] q]; [destruct (running s)|]; cbn in Cs'; congruence.
    + destruct (dp s); try discriminate. injection Hs as <- <-. cbn in Cs'. congruence.
    + destruct (nth_error (tasks s) k) as [t|]; [|discriminate].
      destruct (t_st t); try discriminate.
      destruct (negb (unit_running s t)); [discriminate|].
      destruct (t_cancelled t); [injection Hs as <- <-; cbn in Cs'; congruence|].
      destruct (sem_free s); [injection Hs as <- <-; cbn in Cs'; congruence|].
      destruct (sem_wait s); [|injection Hs as <- <-; cbn in Cs'; congruence].
      destruct (t_builtin t); injection Hs as <- <-; cbn in Cs'; congruence.
    + (* LRelHandled: the only place where the panic could arise *)
      pose proof (raw_Q s (LRelHandled k) s' os I (reachf_inv2 _ _ R)
                    (inv_used_owners _ (reachf_inv_used _ _ R)) H) as RQ.
      unfold step_raw in RQ.
      destruct (nth_error (tasks s) k) as [t|] eqn:E; [|discriminate].
      destruct (t_st t) eqn:St; try discriminate.
      set (s0 := set_task k (fun t => t <| t_st := TDone (body_of_outcome t o) |>) s <| sem_free ::= S |>) in *.
      assert (W0 : wait_ok s0).
      { unfold wait_ok, s0; cbn. apply wait_ok_upd; [apply I|]. eapply wait_not_in; eauto; [apply I|congruence]. }
      pose proof (grant_spec (S (length (sem_wait s0))) s0 [] W0) as G.
      destruct (grant (S (length (sem_wait s0))) s0 []) as [s2 os2]. cbn [fst snd] in *.
      destruct G as [_ _ _ (_ & _ & _ & _ & _ & B2 & _ & C2 & _) _ _ _ _].
      assert (C2' : crash s2 = None) by (rewrite C2; exact Cr).
      destruct (is_note t) eqn:Nt.
      * destruct (nbar s2) as [|m] eqn:Bm.
        -- (* would crash: but then Q fails *)
           destruct (RQ Hs) as (H' & _). injection Hs as <- <-.
           assert (Rl : released s (t_unit t) = true).
           { destruct (released s (t_unit t)) eqn:Rr; auto. destruct (q_pend _ _ H _ _ E Rr); congruence. }
           assert (Rn : runnable t = true).
           { unfold runnable. destruct (t_pre t) eqn:Pt; auto. destruct (i_pre _ I _ _ E) as [P _].
             rewrite (P _ Pt) in St. discriminate. }
           assert (Op : open_note s t = true).
           { unfold open_note, open_in, rnote, tdone. rewrite Rn, Nt, St. fold (released s (t_unit t)).
             rewrite Rl. reflexivity. }
           assert (Pos : 1 <= nbar s).
           { rewrite (q_bar _ _ H). unfold open_notes. eapply countb_pos; eauto. }
           assert (Z : nbar s = 0) by (change (nbar s) with (nbar s0); congruence). lia.
        -- injection Hs as <- <-. cbn in Cs'. congruence.
      * injection Hs as <- <-. congruence.
    + destruct (nth_error (units s) u) as [un|]; [|discriminate].
      destruct (u_st un); try discriminate.
      destruct (u_chok un); cbn [negb] in Hs; injection Hs as <- <-; cbn in Cs'; [|discriminate].
      destruct (release_ids_spec (unit_tasks s u) s) as [_ _ _ (_ & _ & _ & _ & _ & _ & _ & C1 & _) _ _ _].
      congruence.
    + destruct (find_op n (ops s)) as [[n0|n0 id|n0 w m p]|]; try discriminate.
      destruct (stop_locked SCStop (s <| ops ::= del_op n |>)) as [s0 os0] eqn:St. injection Hs as <- <-.
      unfold stop_locked in St. destruct (running _); cbn [negb] in St; [|injection St as <- <-; cbn in Cs'; congruence].
      match type of St with (?x, _) = _ => assert (Hs' : s0 = x) by congruence end. clear St.
      match type of Hs' with context [fold_left ?f ?l ?s1] =>
        pose proof (fold_cancel_spec l s1) as Fs; cbv zeta in Fs;
        set (s4 := fold_left f l s1) in *; set (s3 := s1) in * end.
      destruct Fs as (_ & _ & _ & (_ & _ & _ & _ & _ & _ & _ & C4 & _) & _).
      assert (C3 : crash s3 <> Some CrNegativeBarrier).
      { unfold s3. destruct (work_closed _); cbn; congruence. }
      clearbody s4. clearbody s3. subst s0. destruct (c_unblock _); cbn in Cs'; congruence.
    + destruct (find_op n (ops s)) as [[n0|n0 id|n0 w m p]|]; try discriminate.
      injection Hs as <- <-. destruct (assoc id _) as [owner|]; [|cbn in Cs'; congruence].
      destruct (cancel_task_env owner (s <| ops ::= del_op n |>)) as (_ & _ & _ & _ & _ & _ & _ & C1 & _).
      cbn in C1. congruence.
  - intros Cs'. apply settle1_inv in Hs. destruct Hs; cbn in Cs'; try congruence.
    unfold dequeue in Cs'. destruct (inq s) as [|[b ms] q]; [destruct (running s)|]; cbn in Cs'; congruence.
Qed.

(** * 2. the safety core: when a unit has been released, every runnable notification of every
      earlier unit has returned.  Holds in every state, crashed or not. *)
Theorem barrier_past c s u j n : reachf c s -> released s u = true ->
  nth_error (tasks s) j = Some n -> t_unit n < u -> runnable n = true -> is_note n = true ->
  exists b, t_st n = TDone b.
Proof.
  intros R Ru E Lt Rn Nn. apply tdone_true.
  eapply (q_past _ _ (reachf_Q _ _ R)); eauto. unfold rnote. rewrite Rn, Nn. reflexivity.
Qed.

(** * 3. notification before later request *)
(* state form: a task past the semaphore (queued in it, running, returned) has every runnable
   notification of every earlier message already done *)
Definition notes_before (s : state) : Prop :=
  forall i r j n, nth_error (tasks s) i = Some r -> nth_error (tasks s) j = Some n ->
    t_unit n < t_unit r -> runnable n = true -> is_note n = true ->
    t_st r <> TSkip -> t_st r <> TAtAcquire -> exists b, t_st n = TDone b.

Theorem notification_before_later_f c s : reachf c s -> notes_before s.
Proof.
  intros R i r j n Ei Ej Lt Rn Nn N1 N2.
  assert (Rl : released s (t_unit r) = true).
  { destruct (released s (t_unit r)) eqn:Rr; auto. destruct (unreleased_pending _ _ _ _ R Ei Rr); congruence. }
  eapply barrier_past; eauto.
Qed.

Theorem notification_before_later c s : reach c s -> notes_before s.
Proof. intros R. apply notification_before_later_f with c. apply reach_reachf; auto. Qed.

(* contrapositive: while a notification is open, every task of every later message is still
   before the semaphore (or was rejected) *)
Theorem open_note_blocks_later c s j n i r : reachf c s ->
  nth_error (tasks s) j = Some n -> runnable n = true -> is_note n = true -> (forall b, t_st n <> TDone b) ->
  nth_error (tasks s) i = Some r -> t_unit n < t_unit r -> t_st r = TSkip \/ t_st r = TAtAcquire.
Proof.
  intros R Ej Rn Nn Nd Ei Lt.
  destruct (t_st r) eqn:St; auto.
  all: destruct (notification_before_later_f _ _ R i r j n Ei Ej Lt Rn Nn) as (b0 & Hb); try congruence.
  all: destruct (Nd _ Hb).
Qed.

(* raw steps never release a unit *)
Lemma raw_released_back s l s1 os v : inv s -> step_raw s l = Some (s1, os) -> v < length (units s) ->
  released s1 v = true -> released s v = true.
Proof.
  intros I H Lv R. unfold released in *.
  destruct (raw_shape_ok _ _ _ _ I H) as [U L| -> |u un _ Eu Su U L].
  - rewrite U in R. exact R.
  - unfold dequeue in R. destruct (inq s) as [|[b ms] q]; [destruct (running s); exact R|].
    cbn in R. rewrite rel_in_app_old in R; auto.
  - rewrite U, (rel_in_upd _ _ _ _ _ Eu) in R. destruct (Nat.eqb_spec u v) as [<-|N]; auto.
    unfold rel_in, released_u. rewrite Eu, Su. reflexivity.
Qed.

Lemma rank_lt2 st : rank st < 2 -> st = TAtAcquire \/ st = TWaiting.
Proof. destruct st; cbn; intros; auto; lia. Qed.

(* step form: in the state BEFORE the window in which the handler of r is entered, every runnable
   notification of every earlier message is already done *)
Theorem notification_before_later_step c s l s' os p cn :
  reach c s -> step s l = Some (s', os) -> In (OStart p cn) os ->
  exists k r, nth_error (tasks s) k = Some r /\ t_params r = p /\
    (t_st r = TAtAcquire \/ t_st r = TWaiting) /\
    (exists r', nth_error (tasks s') k = Some r' /\ t_st r' = TRunning) /\
    forall j n, nth_error (tasks s) j = Some n -> t_unit n < t_unit r -> runnable n = true -> is_note n = true ->
      exists b, t_st n = TDone b.
Proof.
  intros R H Ho. apply reach_reachf in R. pose proof (reachf_inv _ _ R) as I.
  destruct (step_obs_raw _ _ _ _ _ H Ho) as (Cr & s1 & os1 & Hr & Ho1 & K); [cbn; tauto|].
  pose proof (raw_obs _ _ _ _ _ I Hr Ho1) as O. cbn in O.
  destruct O as (k & t & t1 & E & E1 & Ep & Ec & Rk & St1 & _ & Hl).
  assert (R1 : reachf c s1) by (eapply rf_raw; eauto).
  exists k, t. split; auto. split; auto. split; [apply rank_lt2; auto|].
  split; [exists t1; split; auto|].
  assert (Rl1 : released s1 (t_unit t1) = true).
  { destruct (released s1 (t_unit t1)) eqn:Rr; auto. destruct (unreleased_pending _ _ _ _ R1 E1 Rr); congruence. }
  assert (Un : t_unit t1 = t_unit t).
  { destruct (raw_step_ok _ _ _ _ I Hr) as (_ & X & _). destruct (X _ _ E) as (t2 & E2 & Le).
    rewrite E1 in E2. injection E2 as <-. destruct Le; auto. }
  assert (Rl : released s (t_unit t) = true).
  { rewrite Un in Rl1. eapply raw_released_back; eauto. exact (i_unit _ I _ _ E). }
  intros j n Ej Lt Rn Nn. exact (barrier_past c s (t_unit t) j n R Rl Ej Lt Rn Nn).
Qed.

(** ** trace forms *)
(* which notification can become done in a transition: only the one whose LRelHandled it is *)
Definition dn (ex : option nat) (a b : state) : Prop :=
  forall j n', nth_error (tasks b) j = Some n' -> is_note n' = true -> tdone n' = true ->
    (exists n, nth_error (tasks a) j = Some n /\ is_note n = true /\ tdone n = true) \/ ex = Some j.

Lemma dn_refl ex a : dn ex a a.
Proof. intros j n E N D. left. eauto. Qed.

Lemma dn_trans ex a b d : dn ex a b -> dn ex b d -> dn ex a d.
Proof.
  intros H1 H2 j n E N D. destruct (H2 _ _ E N D) as [(nb & Eb & Nb & Db)|X]; auto. eapply H1; eauto.
Qed.

Lemma dn_weaken ex a b : dn None a b -> dn ex a b.
Proof. intros H j n E N D. destruct (H _ _ E N D) as [X|X]; [auto|discriminate]. Qed.

Lemma nk_dn ex a b : nk ex (tasks a) (tasks b) ->
  (forall j n', nth_error (tasks a) j = None -> nth_error (tasks b) j = Some n' -> tdone n' = false) ->
  dn ex a b.
Proof.
  intros K New j n' E N D. destruct (nth_error (tasks a) j) as [n|] eqn:Ea.
  - destruct (K _ _ Ea) as (n2 & E2 & Ei & Hd). rewrite E in E2. injection E2 as <-.
    assert (Nn : is_note n = true) by (unfold is_note in *; rewrite <- Ei; exact N).
    destruct (tdone n) eqn:Dn; [left; eauto|right; auto].
  - rewrite (New _ _ Ea E) in D. discriminate.
Qed.

Lemma dequeue_new_fresh s j n : nth_error (tasks s) j = None -> nth_error (tasks (dequeue s)) j = Some n ->
  tdone n = false.
Proof.
  intros E0 E. unfold dequeue in E. destruct (inq s) as [|[b ms] q].
  - destruct (running s); cbn in E; congruence.
  - cbn in E. apply nth_error_None in E0. rewrite nth_error_app2 in E by auto.
    apply nth_error_In, in_map_iff in E as (m & <- & _).
    unfold tdone. destruct (mk_task_st s (length (units s)) (map (fun m => fix_id (j_id m)) ms) m) as [[St _]|[St _]];
      rewrite St; reflexivity.
Qed.

Lemma raw_dn c s l s' os : reachf c s -> step_raw s l = Some (s', os) -> dn (done_label l) s s'.
Proof.
  intros R H. pose proof (reachf_inv _ _ R) as I.
  apply nk_dn.
  - eapply raw_Q; eauto.
    + eapply reachf_inv2; eauto.
    + apply inv_used_owners. eapply reachf_inv_used; eauto.
    + eapply reachf_Q; eauto.
  - intros j n' E0 E. apply nth_error_None in E0.
    destruct (raw_shape_ok _ _ _ _ I H) as [U L| -> |u un _ Eu Su U L].
    + apply nth_error_some_lt in E. lia.
    + eapply dequeue_new_fresh; eauto. apply nth_error_None; auto.
    + apply nth_error_some_lt in E. lia.
Qed.

Lemma settle1_dn s s' os : settle1 s = Some (s', os) -> dn None s s'.
Proof.
  intros H. apply nk_dn.
  - apply nk_keeps. eapply settle1_keeps; eauto.
  - intros j n' E0 E. apply settle1_inv in H. destruct H; cbn in E; try congruence.
    eapply dequeue_new_fresh; eauto.
Qed.

Lemma settle_dn : forall fuel s acc s' os, settle fuel s acc = (s', os) -> dn None s s'.
Proof.
  induction fuel as [|f IH]; cbn; intros s acc s' os H.
  - injection H as <- _. apply dn_refl.
  - destruct (settle1 s) as [[s1 os1]|] eqn:E.
    + eapply dn_trans; [eapply settle1_dn; eauto|eapply IH; eauto].
    + injection H as <- _. apply dn_refl.
Qed.

(* a notification becomes done only in the window of its own LRelHandled (nbar.Done) *)
Theorem note_done_only_by_handled c s l s' os : reach c s -> step s l = Some (s', os) -> dn (done_label l) s s'.
Proof.
  intros R H. apply reach_reachf in R.
  apply step_decompose in H as (Cr & s1 & os1 & Hr & [(_ & -> & _)|(_ & Hs)]).
  - eapply raw_dn; eauto.
  - eapply dn_trans; [eapply raw_dn; eauto|]. apply dn_weaken. eapply settle_dn; eauto.
Qed.

Lemma run_done_note c : forall tr s0 s oss, reach c s0 -> run s0 tr = Some (s, oss) ->
  forall j n', nth_error (tasks s) j = Some n' -> is_note n' = true -> tdone n' = true ->
  (exists n, nth_error (tasks s0) j = Some n /\ is_note n = true /\ tdone n = true) \/ In (LRelHandled j) tr.
Proof.
  induction tr as [|l r IH]; cbn; intros s0 s oss R H j n' E N D.
  - injection H as <- _. left. eauto.
  - destruct (step s0 l) as [[s1 os]|] eqn:Es; [|discriminate].
    destruct (run s1 r) as [[s2 oss2]|] eqn:Er; [|discriminate]. injection H as <- _.
    assert (R1 : reach c s1) by (eapply reach_step; eauto).
    destruct (IH _ _ _ R1 Er _ _ E N D) as [(n1 & E1 & N1 & D1)|X]; [|auto].
    destruct (note_done_only_by_handled _ _ _ _ _ R Es _ _ E1 N1 D1) as [X|X]; auto.
    right. left. destruct l; cbn in X; try discriminate. congruence.
Qed.

(* in every trace, a notification that is done was returned by an earlier LRelHandled of it *)
Theorem done_note_was_handled c tr s oss j n : run (init_of c) tr = Some (s, oss) ->
  nth_error (tasks s) j = Some n -> is_note n = true -> (exists b, t_st n = TDone b) ->
  exists tra trb, tr = tra ++ LRelHandled j :: trb.
Proof.
  intros H E N D. apply tdone_true in D.
  destruct (run_done_note c tr _ _ _ (reach_init c) H _ _ E N D) as [(n0 & E0 & _)|X].
  - destruct j; discriminate.
  - apply in_split. exact X.
Qed.

(* every prefix of a trace is a trace: the state form holds at every instant, and a notification
   that is done stays done with the same result *)
Theorem notification_before_later_every_instant c tr1 tr2 s2 oss :
  run (init_of c) (tr1 ++ tr2) = Some (s2, oss) ->
  exists s1 oss1, run (init_of c) tr1 = Some (s1, oss1) /\ notes_before s1 /\
    forall j n b, nth_error (tasks s1) j = Some n -> t_st n = TDone b ->
      exists n2, nth_error (tasks s2) j = Some n2 /\ t_st n2 = TDone b.
Proof.
  intros H. apply SrvC06.run_app in H as (s1 & o1 & o2 & H1 & H2 & _).
  assert (R1 : reach c s1) by (eapply run_reach; [apply reach_init|exact H1]).
  exists s1, o1. split; auto. split; [apply (notification_before_later c); auto|].
  intros j n b E St. destruct (run_task_le c _ _ _ _ _ _ (reach_reachf _ _ R1) H2 E) as (n2 & E2 & Le).
  exists n2. split; auto. destruct (tl_st _ _ Le) as (_ & _ & Dn & _). rewrite (Dn _ St). exact St.
Qed.

(* the trace form: whenever a handler is entered (OStart in the window of the label l), every
   runnable notification of every earlier message has been returned by an LRelHandled that
   occurs EARLIER in the trace, and stays done to the end of the trace *)
Theorem notification_before_later_trace c tr1 l tr2 s2 oss :
  run (init_of c) (tr1 ++ l :: tr2) = Some (s2, oss) ->
  exists s1 oss1 s1' os, run (init_of c) tr1 = Some (s1, oss1) /\ step s1 l = Some (s1', os) /\
    forall p cn, In (OStart p cn) os ->
    exists k r, nth_error (tasks s1) k = Some r /\ t_params r = p /\
      (t_st r = TAtAcquire \/ t_st r = TWaiting) /\
      (exists r', nth_error (tasks s1') k = Some r' /\ t_st r' = TRunning) /\
      forall j n, nth_error (tasks s1) j = Some n -> t_unit n < t_unit r -> runnable n = true -> is_note n = true ->
        exists b, t_st n = TDone b /\
          (exists tra trb, tr1 = tra ++ LRelHandled j :: trb) /\
          exists n2, nth_error (tasks s2) j = Some n2 /\ t_st n2 = TDone b.
Proof.
  intros H. apply SrvC06.run_app in H as (s1 & o1 & o2 & H1 & H2 & _).
  assert (R1 : reach c s1) by (eapply run_reach; [apply reach_init|exact H1]).
  cbn in H2. destruct (step s1 l) as [[s1' os]|] eqn:Es; [|discriminate].
  destruct (run s1' tr2) as [[s3 oss3]|] eqn:Er; [|discriminate]. injection H2 as -> _.
  exists s1, o1, s1', os. split; auto. split; auto. intros p cn Ho.
  destruct (notification_before_later_step _ _ _ _ _ _ _ R1 Es Ho) as (k & r & Ek & Ep & St & Hr' & Hn).
  exists k, r. repeat split; auto. intros j n Ej Lt Rn Nn.
  destruct (Hn _ _ Ej Lt Rn Nn) as (b & Hb). exists b. split; auto. split.
  - eapply done_note_was_handled; eauto.
  - assert (Hrun : run s1 (l :: tr2) = Some (s2, os :: oss3)) by (cbn; rewrite Es, Er; reflexivity).
    destruct (run_task_le c _ _ _ _ _ _ (reach_reachf _ _ R1) Hrun Ej) as (n2 & E2 & Le).
    exists n2. split; auto. destruct (tl_st _ _ Le) as (_ & _ & Dn & _). rewrite (Dn _ Hb). exact Hb.
Qed.

(* r is never entered if n never returns: if at the end of a trace the notification n is still
   open, no window of the trace entered the handler of a task of a later message *)
Theorem never_entered_while_open c tr1 l tr2 s2 oss j n2 :
  run (init_of c) (tr1 ++ l :: tr2) = Some (s2, oss) ->
  nth_error (tasks s2) j = Some n2 -> runnable n2 = true -> is_note n2 = true -> (forall b, t_st n2 <> TDone b) ->
  exists s1 oss1 s1' os, run (init_of c) tr1 = Some (s1, oss1) /\ step s1 l = Some (s1', os) /\
    forall p cn, In (OStart p cn) os ->
    exists k r, nth_error (tasks s1) k = Some r /\ t_params r = p /\ t_unit r <= t_unit n2.
Proof.
  intros H E2 Rn Nn Nd.
  destruct (notification_before_later_trace _ _ _ _ _ _ H) as (s1 & o1 & s1' & os & H1 & Es & Hs).
  exists s1, o1, s1', os. split; auto. split; auto. intros p cn Ho.
  destruct (Hs _ _ Ho) as (k & r & Ek & Ep & _ & _ & Hn). exists k, r. split; auto. split; auto.
  destruct (Nat.le_gt_cases (t_unit r) (t_unit n2)) as [Le|Lt]; auto. exfalso.
  assert (R1 : reach c s1) by (eapply run_reach; [apply reach_init|exact H1]).
  apply SrvC06.run_app in H as (s1x & o1x & o2 & H1x & H2 & _). rewrite H1 in H1x. injection H1x as <- <-.
  pose proof (reach_reachf _ _ R1) as Rf.
  destruct (nth_error (tasks s1) j) as [n|] eqn:Ej.
  - destruct (run_task_le c _ _ _ _ _ _ Rf H2 Ej) as (n2' & E2' & Le). rewrite E2 in E2'. injection E2' as <-.
    destruct Le as [Lu Li _ _ Lp _ _ _ Ls].
    assert (Rn' : runnable n = true) by (unfold runnable in *; rewrite <- Lp; exact Rn).
    assert (Nn' : is_note n = true) by (unfold is_note in *; rewrite <- Li; exact Nn).
    destruct (Hn _ _ Ej) as (b & Hb & _); auto; [lia|].
    destruct Ls as (_ & _ & Dn & _). apply (Nd b). rewrite (Dn _ Hb). exact Hb.
  - apply nth_error_None in Ej. destruct (run_ext2 c _ _ _ _ Rf H2) as [_ Fr].
    specialize (Fr _ _ Ej E2). pose proof (i_unit _ (reachf_inv _ _ Rf) _ _ Ek). lia.
Qed.

(** * 5. liveness half: what can hold a message back at a quiescent point *)
(* while the server runs its dispatcher is alive *)
Definition run_dp (s : state) : Prop := running s = true -> dp_live (dp s) = 1.

Lemma raw_run_dp s l s' os : inv s -> run_dp s -> step_raw s l = Some (s', os) -> run_dp s'.
Proof.
  intros I P Hs. unfold run_dp in *. destruct (frame_label l) eqn:Fl.
  { apply step_raw_frame in Hs as (C & _); auto. unfold core in C. injection C as _ _ _ _ _ D _ _ Rn _.
    rewrite D, Rn. exact P. }
  destruct l; try discriminate Fl; unfold step_raw in Hs.
  - destruct (negb (running s) && (wg s =? 0)); [|discriminate]. injection Hs as <- <-. reflexivity.
  - destruct (find_idx _ 0 (tasks s)) as [k|]; [|discriminate].
    destruct (nth_error (tasks s) k) as [t|]; [|discriminate]. injection Hs as <- <-. exact P.
  - destruct (rd s) as [| |f|] eqn:Rd; try discriminate. injection Hs as Hs.
    destruct f as [i|i|c].
    3:{ cbn in Hs. destruct (stop_locked c s) as [s0 os0] eqn:St. injection Hs as <- <-. cbn.
        apply stop_locked_spec in St as [(_ & -> & _)|(_ & _ & Po)]; auto. destruct Po. congruence. }
    all: destruct (running s) eqn:Rn;
      [ eapply read_cs_msg in Hs as (C & _); eauto; unfold core0 in C; injection C as _ _ _ _ _ D _ Rn' _;
        rewrite D, Rn'; intros _; apply P; reflexivity
      | cbn in Hs; rewrite Rn in Hs; cbn in Hs; injection Hs as <- <-; cbn; congruence ].
  - destruct (dp s); try discriminate. injection Hs as <- <-.
    unfold dequeue. destruct (inq s) as [|[b ms] q]; [destruct (running s) eqn:Rn|]; cbn; auto. congruence.
  - destruct (dp s); try discriminate. injection Hs as <- <-. reflexivity.
  - destruct (nth_error (tasks s) k) as [t|]; [|discriminate].
    destruct (t_st t); try discriminate.
    destruct (negb (unit_running s t)); [discriminate|].
    destruct (t_cancelled t); [injection Hs as <- <-; exact P|].
    destruct (sem_free s); [injection Hs as <- <-; exact P|].
    destruct (sem_wait s); [|injection Hs as <- <-; exact P].
    destruct (t_builtin t); injection Hs as <- <-; exact P.
  - destruct (nth_error (tasks s) k) as [t|] eqn:E; [|discriminate].
    destruct (t_st t) eqn:St; try discriminate.
    set (s0 := set_task k (fun t => t <| t_st := TDone (body_of_outcome t o) |>) s <| sem_free ::= S |>) in *.
    assert (W0 : wait_ok s0).
    { unfold wait_ok, s0; cbn. apply wait_ok_upd; [apply I|]. eapply wait_not_in; eauto; [apply I|congruence]. }
    pose proof (grant_spec (S (length (sem_wait s0))) s0 [] W0) as G.
    destruct (grant (S (length (sem_wait s0))) s0 []) as [s2 os2]. cbn [fst snd] in *.
    destruct G as [_ _ _ (_ & D2 & _ & _ & Rn2 & _) _ _ _ _].
    destruct (is_note t); [destruct (nbar s2)|]; injection Hs as <- <-; cbn; rewrite ?D2, ?Rn2; exact P.
  - destruct (nth_error (units s) u) as [un|]; [|discriminate].
    destruct (u_st un); try discriminate.
    destruct (release_ids_spec (unit_tasks s u) s) as [_ _ _ (_ & D1 & _ & _ & Rn1 & _) _ _ _].
    destruct (u_chok un); cbn [negb] in Hs; injection Hs as <- <-; cbn; rewrite D1, Rn1; exact P.
  - destruct (find_op n (ops s)) as [[n0|n0 id|n0 w m p]|]; try discriminate.
    destruct (stop_locked SCStop (s <| ops ::= del_op n |>)) as [s0 os0] eqn:St. injection Hs as <- <-.
    apply stop_locked_spec in St as [(_ & -> & _)|(_ & _ & Po)]; auto. destruct Po. congruence.
  - destruct (find_op n (ops s)) as [[n0|n0 id|n0 w m p]|]; try discriminate.
    injection Hs as <- <-. destruct (assoc id _) as [owner|]; [|exact P].
    destruct (cancel_task_env owner (s <| ops ::= del_op n |>)) as (_ & D1 & _ & _ & Rn1 & _).
    rewrite D1, Rn1. exact P.
Qed.

Lemma settle1_run_dp s s' os : run_dp s -> settle1 s = Some (s', os) -> run_dp s'.
Proof.
  intros P Hs. unfold run_dp in *. apply settle1_inv in Hs. destruct Hs; cbn; auto.
  unfold dequeue. destruct (inq s) as [|[b ms] q]; [destruct (running s) eqn:Rn|]; cbn; auto. congruence.
Qed.

Lemma reachf_run_dp c s : reachf c s -> run_dp s.
Proof.
  induction 1 as [|s l s' os R IH Cr Hs|s s' os R IH Hs].
  - unfold run_dp. cbn. discriminate.
  - eapply raw_run_dp; eauto. eapply reachf_inv; eauto.
  - eapply settle1_run_dp; eauto.
Qed.

(* parked goroutines that can always move *)
Lemma enabled_in s l x : In x all_sites -> In l (candidates s x) -> step s l <> None -> In l (enabled_rel s).
Proof.
  intros Hx Hl Hs. unfold enabled_rel. apply filter_In. split.
  - apply in_flat_map. exists x. auto.
  - destruct (step s l); congruence.
Qed.

Lemma quiescent_none s l : quiescent s = true -> ~ In l (enabled_rel s).
Proof. unfold quiescent. intros Q I. apply is_nil_list_true in Q. rewrite Q in I. destruct I. Qed.

Lemma next_enabled s : crash s = None -> dp s = DAtNext -> In LRelNext (enabled_rel s).
Proof.
  intros Cr D. apply (enabled_in s LRelNext SNext); [cbn; tauto|cbn; rewrite D; left; auto|].
  unfold step. rewrite Cr. cbn. rewrite D. destruct (crash (dequeue s)); discriminate.
Qed.

Lemma barrier_enabled s u : crash s = None -> dp s = DAtBarrier u -> In LRelBarrier (enabled_rel s).
Proof.
  intros Cr D. apply (enabled_in s LRelBarrier SBarrier); [cbn; tauto|cbn; rewrite D; left; auto|].
  unfold step. rewrite Cr. cbn. rewrite D. cbn. rewrite Cr. discriminate.
Qed.

Lemma handled_enabled s k t o : crash s = None -> nth_error (tasks s) k = Some t -> t_st t = TAtHandled o ->
  In (LRelHandled k) (enabled_rel s).
Proof.
  intros Cr E St. apply (enabled_in s (LRelHandled k) SHandled); [cbn; tauto| |].
  - cbn. apply in_map. apply (in_idxs_where at_handled (tasks s) 0 k t E). unfold at_handled. rewrite St. auto.
  - unfold step. rewrite Cr. unfold step_raw. rewrite E, St.
    destruct (grant _ _ _) as [s2 os2]. destruct (is_note t); [destruct (nbar s2)|].
    all: match goal with |- context [crash ?x] => destruct (crash x) end; discriminate.
Qed.

(* window boundaries are settled: the dispatcher is not left with work it could take *)
Lemma settled_waitwork s : settle1 s = None -> dp s = DWaitWork -> running s = true /\ inq s = [].
Proof.
  intros H D. unfold settle1 in H. rewrite D in H.
  destruct (running s); [destruct (inq s) as [|x q]; [auto|]|]; cbn in H.
  all: destruct (rd s); [|destruct (ch_in s)| |]; discriminate.
Qed.

Lemma settled_barrier s u un : settle1 s = None -> dp s = DBarrierWait u -> nth_error (units s) u = Some un ->
  nbar s <> 0.
Proof.
  intros H D E Z. unfold settle1 in H. rewrite D, E, Z in H. cbn in H.
  destruct (rd s); [|destruct (ch_in s)| |]; discriminate.
Qed.

(* at a quiescent point of a running server the dispatcher waits for work with an empty queue,
   or waits at the barrier with nbar > 0 *)
Lemma quiescent_dp c s : reach c s -> crash s = None -> quiescent s = true -> running s = true ->
  (dp s = DWaitWork /\ inq s = []) \/ (exists u, dp s = DBarrierWait u /\ 0 < nbar s).
Proof.
  intros R Cr Qu Rn. pose proof (reach_settled _ _ R Cr) as St. apply reach_reachf in R.
  pose proof (reachf_run_dp _ _ R Rn) as L.
  destruct (dp s) as [| | |u|u|] eqn:D; cbn in L; try discriminate.
  - destruct (quiescent_none _ _ Qu (next_enabled _ Cr D)).
  - left. split; auto. apply (settled_waitwork _ St D).
  - destruct (quiescent_none _ _ Qu (barrier_enabled _ _ Cr D)).
  - right. exists u. split; auto.
    destruct (i_dp _ (reachf_inv _ _ R) u (or_intror D)) as (un & E & _).
    pose proof (settled_barrier _ _ _ St D E). lia.
Qed.

(* at a quiescent point a task of a released unit is rejected, done, in its handler, or queued in
   the semaphore with no free slot *)
Lemma quiescent_task c s k t : reach c s -> crash s = None -> quiescent s = true ->
  nth_error (tasks s) k = Some t -> released s (t_unit t) = true ->
  t_st t = TSkip \/ (exists b, t_st t = TDone b) \/ t_st t = TRunning \/
  (t_st t = TWaiting /\ sem_free s = 0 /\ SrvC06.slots_used s = cf_K c).
Proof.
  intros R Cr Qu E Rl. pose proof (reach_reachf _ _ R) as Rf. pose proof (reachf_inv _ _ Rf) as I.
  destruct (t_st t) eqn:St; eauto.
  - (* TAtAcquire: its goroutine is parked before Acquire and can move, or its unit is over *)
    exfalso. unfold released, rel_in in Rl. destruct (nth_error (units s) (t_unit t)) as [un|] eqn:Eu; [|discriminate].
    unfold released_u in Rl. destruct (u_st un) eqn:Su; try discriminate.
    + apply (quiescent_none _ (LRelAcquire k) Qu). apply (SrvC06.acquire_in_enabled s k t); auto.
      unfold at_acquire, unit_running. rewrite St, Eu, Su. reflexivity.
    + pose proof (i_fin _ I _ _ Eu (or_introl Su)) as F. unfold all_finished, unit_tasks in F.
      rewrite forallb_forall in F. specialize (F t). unfold finished in F. rewrite St in F.
      assert (X : false = true); [apply F|discriminate]. apply filter_In. split; [eapply nth_error_In; eauto|apply Nat.eqb_refl].
    + pose proof (i_fin _ I _ _ Eu (or_intror Su)) as F. unfold all_finished, unit_tasks in F.
      rewrite forallb_forall in F. specialize (F t). unfold finished in F. rewrite St in F.
      assert (X : false = true); [apply F|discriminate]. apply filter_In. split; [eapply nth_error_In; eauto|apply Nat.eqb_refl].
  - (* TWaiting *)
    right. right. right. destruct (SrvC06.wait_queue _ _ R) as (_ & Wq & Fr).
    assert (F0 : sem_free s = 0).
    { destruct (sem_free s) eqn:F; auto. assert (Em : sem_wait s = []) by (apply Fr; lia).
      assert (Ik : In k (sem_wait s)) by (apply Wq; eauto). rewrite Em in Ik. destruct Ik. }
    split; auto. split; auto. destruct (SrvC06.sem_invariant _ _ R). lia.
  - (* TAtHandled *)
    exfalso. apply (quiescent_none _ (LRelHandled k) Qu). eapply handled_enabled; eauto.
Qed.

(* (a) a later message is held back only by an unfinished NOTIFICATION of an earlier message,
   which is in its handler or waiting for a handler slot; never by a call *)
Theorem calls_do_not_block_later c s : reach c s -> crash s = None -> quiescent s = true -> running s = true ->
  (inq s <> [] \/ exists u, bar s u) ->
  exists u, dp s = DBarrierWait u /\ 0 < nbar s /\
    exists j n, nth_error (tasks s) j = Some n /\ t_unit n < u /\ runnable n = true /\ is_note n = true /\
      (t_st n = TRunning \/ (t_st n = TWaiting /\ sem_free s = 0)).
Proof.
  intros R Cr Qu Rn Hold. pose proof (reach_reachf _ _ R) as Rf.
  destruct (quiescent_dp _ _ R Cr Qu Rn) as [(D & Iq)|(u & D & Pos)].
  { exfalso. destruct Hold as [N|(u & [Hb|Hb])]; congruence. }
  exists u. split; auto. split; auto.
  rewrite (inv_nbar _ _ Rf) in Pos. apply countb_pos_ex in Pos as (j & n & E & Op).
  unfold open_note, open_in in Op. apply andb_true_iff in Op as [Op Nd]. apply andb_true_iff in Op as [Rno Rl].
  unfold rnote in Rno. apply andb_true_iff in Rno as [Ru Nn]. apply negb_true_iff in Nd.
  destruct (proj1 (frontier _ _ Rf) u (or_intror D)) as (Lu & Ru0 & _).
  assert (Lt : t_unit n < u).
  { pose proof (rel_in_lt _ _ Rl). destruct (Nat.eq_dec (t_unit n) u) as [Eq|Ne]; [|lia].
    unfold released in Ru0. rewrite Eq in Rl. congruence. }
  exists j, n. split; auto. split; auto. split; auto. split; auto.
  destruct (quiescent_task _ _ _ _ R Cr Qu E Rl) as [Sk|[(b & Dn)|[Rg|(W & F & _)]]]; auto.
  - exfalso. unfold runnable in Ru. destruct (t_pre n) eqn:P; [discriminate|].
    destruct (i_pre _ (reachf_inv _ _ Rf) _ _ E) as [_ X]. apply X; auto.
  - unfold tdone in Nd. rewrite Dn in Nd. discriminate.
Qed.

(* (b) a request of a released message that has not entered its handler is queued in the
   semaphore with every slot taken: held back only by the concurrency limit *)
Theorem released_waits_only_for_slot c s k t : reach c s -> crash s = None -> quiescent s = true ->
  nth_error (tasks s) k = Some t -> released s (t_unit t) = true ->
  (t_st t = TAtAcquire \/ t_st t = TWaiting) ->
  t_st t = TWaiting /\ sem_free s = 0 /\ SrvC06.slots_used s = cf_K c.
Proof.
  intros R Cr Qu E Rl St.
  destruct (quiescent_task _ _ _ _ R Cr Qu E Rl) as [Sk|[(b & Dn)|[Rg|X]]]; auto; destruct St; congruence.
Qed.

(* the positive corollary: when no runnable notification of a released message is unfinished
   (everything still in flight is a call), everything that arrived has been dispatched, whatever
   calls are still running *)
Theorem only_calls_all_dispatched c s : reach c s -> crash s = None -> quiescent s = true -> running s = true ->
  (forall j n, nth_error (tasks s) j = Some n -> runnable n = true -> is_note n = true ->
     released s (t_unit n) = true -> exists b, t_st n = TDone b) ->
  inq s = [] /\ dp s = DWaitWork /\ nbar s = 0 /\ forall v, v < length (units s) -> released s v = true.
Proof.
  intros R Cr Qu Rn Hn. pose proof (reach_reachf _ _ R) as Rf.
  assert (Z : nbar s = 0).
  { rewrite (inv_nbar _ _ Rf). apply countb_zero_forall. intros x Hx. apply In_nth_error in Hx as (j & E).
    unfold open_note, open_in, rnote.
    destruct (runnable x) eqn:Ru, (is_note x) eqn:Nx, (rel_in (units s) (t_unit x)) eqn:Rl; cbn; auto.
    destruct (Hn _ _ E Ru Nx Rl) as (b & Dn). unfold tdone. rewrite Dn. reflexivity. }
  destruct (quiescent_dp _ _ R Cr Qu Rn) as [(D & Iq)|(u & D & Pos)]; [|lia].
  split; auto. split; auto. split; auto.
  apply (proj2 (frontier _ _ Rf)). intros u [Hb|Hb]; congruence.
Qed.

(** * Non-vacuity: concrete reachable states and traces.
    ex_cfg : K = 1; ex_cfg2 : K = 2; one method "m"; notifications and calls with params [1], [2], [3]. *)
Definition feed1 (ms : list jmsg) : list label := [LFeed (FMsg (InMsgs false ms)); LRelRead].
Definition feedb (ms : list jmsg) : list label := [LFeed (FMsg (InMsgs true ms)); LRelRead].

(* message 0 = a notification, in its handler; message 1 = a call, dequeued, held at the barrier *)
Definition tr_open : list label :=
  [LStart; LRelNext] ++ feed1 [ex_note [1%N]] ++ [LRelBarrier; LRelAcquire 0] ++
  feed1 [ex_call [49%N] [2%N]] ++ [LRelNext; LRelBarrier].
(* ... the notification handler returns (LGate) and signals the barrier (LRelHandled 0): message 1 is released *)
Definition tr_closed : list label := tr_open ++ [LGate [1%N] (ORes []); LRelHandled 0].
(* ... and the call enters its handler *)
Definition tr_later : list label := tr_closed ++ [LRelAcquire 1].
(* ... a third message, a call, arrives and runs beside it *)
Definition tr_two_calls : list label :=
  tr_later ++ feed1 [ex_call [51%N] [3%N]] ++ [LRelNext; LRelBarrier; LRelNext; LRelAcquire 2].
(* a batch of two calls, both running; a batch of a notification and a call, both running *)
Definition tr_batch2 : list label :=
  [LStart; LRelNext] ++ feedb [ex_call [49%N] [1%N]; ex_call [50%N] [2%N]] ++ [LRelBarrier; LRelAcquire 0; LRelAcquire 1].
Definition tr_batchn : list label :=
  [LStart; LRelNext] ++ feedb [ex_note [1%N]; ex_call [50%N] [2%N]] ++ [LRelBarrier; LRelAcquire 0; LRelAcquire 1].
(* two single calls in two messages *)
Definition tr_calls : list label :=
  [LStart; LRelNext] ++ feed1 [ex_call [49%N] [1%N]] ++ [LRelBarrier; LRelAcquire 0] ++
  feed1 [ex_call [50%N] [2%N]] ++ [LRelNext; LRelBarrier; LRelNext; LRelAcquire 1].
(* K = 1: a call runs, the notification of message 1 waits for the slot, message 2 is held at the barrier *)
Definition tr_nwait : list label :=
  [LStart; LRelNext] ++ feed1 [ex_call [49%N] [1%N]] ++ [LRelBarrier; LRelAcquire 0] ++
  feed1 [ex_note [2%N]] ++ [LRelNext; LRelBarrier; LRelAcquire 1] ++
  feed1 [ex_call [51%N] [3%N]] ++ [LRelNext; LRelBarrier].
(* tr_open with a further message still in the queue *)
Definition tr_open_queued : list label := tr_open ++ feed1 [ex_call [51%N] [3%N]].

Definition st_view (s : state) :=
  (map (fun t => (t_unit t, t_st t, is_note t)) (tasks s), map u_st (units s), dp s, nbar s).

Ltac reach_ex := apply reach_st_of; vm_compute; discriminate.

Example inv_nbar_nonvacuous :
  reach ex_cfg2 (st_of ex_cfg2 tr_open) /\ crash (st_of ex_cfg2 tr_open) = None /\
  st_view (st_of ex_cfg2 tr_open) =
    ([(0, TRunning, true); (1, TAtAcquire, false)], [URunning; UAtBarrier], DBarrierWait 1, 1) /\
  open_notes (st_of ex_cfg2 tr_open) = 1 /\
  (* after the notification returned the counter is back to 0 and message 1 is released *)
  st_view (st_of ex_cfg2 tr_closed) =
    ([(0, TDone None, true); (1, TAtAcquire, false)], [UFinished; URunning], DAtNext, 0) /\
  (* a notification waiting for a handler slot counts too *)
  reach ex_cfg (st_of ex_cfg tr_nwait) /\
  st_view (st_of ex_cfg tr_nwait) =
    ([(0, TRunning, false); (1, TWaiting, true); (2, TAtAcquire, false)], [URunning; URunning; UAtBarrier], DBarrierWait 2, 1).
Proof.
  split; [reach_ex|]. split; [vm_compute; reflexivity|]. split; [vm_compute; reflexivity|].
  split; [vm_compute; reflexivity|]. split; [vm_compute; reflexivity|]. split; [reach_ex|]. vm_compute; reflexivity.
Qed.

Example frontier_nonvacuous :
  reach ex_cfg2 (st_of ex_cfg2 tr_open) /\ bar (st_of ex_cfg2 tr_open) 1 /\ length (units (st_of ex_cfg2 tr_open)) = 2 /\
  released (st_of ex_cfg2 tr_open) 0 = true /\ released (st_of ex_cfg2 tr_open) 1 = false.
Proof. split; [reach_ex|]. split; [right; vm_compute; reflexivity|]. vm_compute. auto. Qed.

Example barrier_past_nonvacuous :
  exists n, reach ex_cfg2 (st_of ex_cfg2 tr_closed) /\ released (st_of ex_cfg2 tr_closed) 1 = true /\
    nth_error (tasks (st_of ex_cfg2 tr_closed)) 0 = Some n /\ t_unit n < 1 /\ runnable n = true /\ is_note n = true /\
    t_st n = TDone None.
Proof. eexists. split; [reach_ex|]. split; [vm_compute; reflexivity|]. split; [vm_compute; reflexivity|]. vm_compute. auto. Qed.

(* the later call is in its handler, the earlier notification is done *)
Example notification_before_later_nonvacuous :
  exists r n, reach ex_cfg2 (st_of ex_cfg2 tr_later) /\
    nth_error (tasks (st_of ex_cfg2 tr_later)) 1 = Some r /\ nth_error (tasks (st_of ex_cfg2 tr_later)) 0 = Some n /\
    t_unit n < t_unit r /\ runnable n = true /\ is_note n = true /\ t_st r = TRunning /\ t_st n = TDone None.
Proof.
  eexists _, _. split; [reach_ex|]. split; [vm_compute; reflexivity|]. split; [vm_compute; reflexivity|]. vm_compute. auto 10.
Qed.

(* the notification is open, the later call has not even reached the semaphore *)
Example open_note_blocks_later_nonvacuous :
  exists n r, reach ex_cfg2 (st_of ex_cfg2 tr_open) /\
    nth_error (tasks (st_of ex_cfg2 tr_open)) 0 = Some n /\ nth_error (tasks (st_of ex_cfg2 tr_open)) 1 = Some r /\
    runnable n = true /\ is_note n = true /\ t_st n = TRunning /\ t_unit n < t_unit r /\ t_st r = TAtAcquire.
Proof.
  eexists _, _. split; [reach_ex|]. split; [vm_compute; reflexivity|]. split; [vm_compute; reflexivity|]. vm_compute. auto 10.
Qed.

Example notification_before_later_step_nonvacuous :
  exists s' os, reach ex_cfg2 (st_of ex_cfg2 tr_closed) /\
    step (st_of ex_cfg2 tr_closed) (LRelAcquire 1) = Some (s', os) /\ In (OStart [2%N] false) os /\
    map (fun t => (t_unit t, is_note t, t_st t)) (tasks (st_of ex_cfg2 tr_closed)) =
      [(0, true, TDone None); (1, false, TAtAcquire)].
Proof.
  eexists _, _. split; [reach_ex|]. split; [vm_compute; reflexivity|]. split; [left; reflexivity|]. vm_compute. reflexivity.
Qed.

Example notification_before_later_trace_nonvacuous :
  exists s2 oss s1' os, run (init_of ex_cfg2) (tr_closed ++ LRelAcquire 1 :: []) = Some (s2, oss) /\
    step (st_of ex_cfg2 tr_closed) (LRelAcquire 1) = Some (s1', os) /\ In (OStart [2%N] false) os /\
    tr_closed = tr_open ++ [LGate [1%N] (ORes [])] ++ LRelHandled 0 :: [].
Proof.
  eexists _, _, _, _. split; [vm_compute; reflexivity|]. split; [vm_compute; reflexivity|]. split; [left; reflexivity|].
  reflexivity.
Qed.

Example never_entered_while_open_nonvacuous :
  exists s2 oss n2 tr1 tr2, tr_open = tr1 ++ LRelAcquire 0 :: tr2 /\
    run (init_of ex_cfg2) (tr1 ++ LRelAcquire 0 :: tr2) = Some (s2, oss) /\
    nth_error (tasks s2) 0 = Some n2 /\ runnable n2 = true /\ is_note n2 = true /\ t_st n2 = TRunning /\
    (* the call of the later message exists and was never entered *)
    map t_st (tasks s2) = [TRunning; TAtAcquire] /\ oss = [[]; []; []; []; []; [OStart [1%N] false]; []; []; []; []].
Proof.
  eexists _, _, _, [LStart; LRelNext; _; LRelRead; LRelBarrier], _. split; [reflexivity|].
  split; [vm_compute; reflexivity|]. split; [reflexivity|]. vm_compute. auto 10.
Qed.

Example done_note_was_handled_nonvacuous :
  exists s oss n, run (init_of ex_cfg2) tr_closed = Some (s, oss) /\ nth_error (tasks s) 0 = Some n /\
    is_note n = true /\ t_st n = TDone None /\ In (LRelHandled 0) tr_closed.
Proof.
  eexists _, _, _. split; [vm_compute; reflexivity|]. split; [reflexivity|]. split; [reflexivity|]. split; [reflexivity|].
  vm_compute. auto 20.
Qed.

Example note_done_only_by_handled_nonvacuous :
  exists s' os n n', reach ex_cfg2 (st_of ex_cfg2 (tr_open ++ [LGate [1%N] (ORes [])])) /\
    step (st_of ex_cfg2 (tr_open ++ [LGate [1%N] (ORes [])])) (LRelHandled 0) = Some (s', os) /\
    nth_error (tasks (st_of ex_cfg2 (tr_open ++ [LGate [1%N] (ORes [])]))) 0 = Some n /\ nth_error (tasks s') 0 = Some n' /\
    is_note n = true /\ tdone n = false /\ tdone n' = true.
Proof.
  eexists _, _, _, _. split; [reach_ex|]. split; [vm_compute; reflexivity|]. split; [vm_compute; reflexivity|].
  split; [reflexivity|]. vm_compute. auto.
Qed.

(** ** 4. requests of one inbound message may run concurrently *)
Example same_message_concurrent_allowed :
  (* two calls of one batch, both in their handlers (K = 2) *)
  (exists s, reach ex_cfg2 s /\ crash s = None /\
     map (fun t => (t_unit t, is_note t, t_st t)) (tasks s) = [(0, false, TRunning); (0, false, TRunning)] /\
     SrvC06.executing s = 2) /\
  (* a notification and a call of one batch, both in their handlers *)
  (exists s, reach ex_cfg2 s /\ crash s = None /\
     map (fun t => (t_unit t, is_note t, t_st t)) (tasks s) = [(0, true, TRunning); (0, false, TRunning)] /\
     SrvC06.executing s = 2 /\ nbar s = 1).
Proof.
  split.
  - exists (st_of ex_cfg2 tr_batch2). split; [reach_ex|]. vm_compute. auto.
  - exists (st_of ex_cfg2 tr_batchn). split; [reach_ex|]. vm_compute. auto.
Qed.

(** ** 5. liveness half *)
Example calls_do_not_block_later_nonvacuous :
  (* held by a notification in its handler, the later message at the barrier *)
  (reach ex_cfg2 (st_of ex_cfg2 tr_open) /\ crash (st_of ex_cfg2 tr_open) = None /\
   quiescent (st_of ex_cfg2 tr_open) = true /\ running (st_of ex_cfg2 tr_open) = true /\
   bar (st_of ex_cfg2 tr_open) 1 /\ map t_st (tasks (st_of ex_cfg2 tr_open)) = [TRunning; TAtAcquire]) /\
  (* ... and one more message still queued *)
  (reach ex_cfg2 (st_of ex_cfg2 tr_open_queued) /\ crash (st_of ex_cfg2 tr_open_queued) = None /\
   quiescent (st_of ex_cfg2 tr_open_queued) = true /\ running (st_of ex_cfg2 tr_open_queued) = true /\
   inq (st_of ex_cfg2 tr_open_queued) <> [] /\ dp (st_of ex_cfg2 tr_open_queued) = DBarrierWait 1) /\
  (* held by a notification that waits for a handler slot (K = 1, the slot is taken by a call) *)
  (reach ex_cfg (st_of ex_cfg tr_nwait) /\ crash (st_of ex_cfg tr_nwait) = None /\
   quiescent (st_of ex_cfg tr_nwait) = true /\ running (st_of ex_cfg tr_nwait) = true /\
   bar (st_of ex_cfg tr_nwait) 2 /\ sem_free (st_of ex_cfg tr_nwait) = 0 /\
   map (fun t => (is_note t, t_st t)) (tasks (st_of ex_cfg tr_nwait)) = [(false, TRunning); (true, TWaiting); (false, TAtAcquire)]).
Proof.
  split; [|split].
  - split; [reach_ex|]. split; [vm_compute; reflexivity|]. split; [vm_compute; reflexivity|].
    split; [vm_compute; reflexivity|]. split; [right; vm_compute; reflexivity|]. vm_compute; reflexivity.
  - split; [reach_ex|]. split; [vm_compute; reflexivity|]. split; [vm_compute; reflexivity|].
    split; [vm_compute; reflexivity|]. split; [vm_compute; discriminate|]. vm_compute; reflexivity.
  - split; [reach_ex|]. split; [vm_compute; reflexivity|]. split; [vm_compute; reflexivity|].
    split; [vm_compute; reflexivity|]. split; [right; vm_compute; reflexivity|]. split; vm_compute; reflexivity.
Qed.

(* K = 1: the call of message 1 is released and waits for the only slot, which the call of message 0 holds *)
Example released_waits_only_for_slot_nonvacuous :
  exists t, reach ex_cfg (st_of ex_cfg tr_calls) /\ crash (st_of ex_cfg tr_calls) = None /\
    quiescent (st_of ex_cfg tr_calls) = true /\ nth_error (tasks (st_of ex_cfg tr_calls)) 1 = Some t /\
    released (st_of ex_cfg tr_calls) (t_unit t) = true /\ t_st t = TWaiting /\ sem_free (st_of ex_cfg tr_calls) = 0.
Proof.
  eexists. split; [reach_ex|]. split; [vm_compute; reflexivity|]. split; [vm_compute; reflexivity|].
  split; [vm_compute; reflexivity|]. vm_compute. auto.
Qed.

(* K = 2: the notification of message 0 is done; the calls of messages 1 and 2 are both running;
   nothing is held back *)
Example only_calls_all_dispatched_nonvacuous :
  reach ex_cfg2 (st_of ex_cfg2 tr_two_calls) /\ crash (st_of ex_cfg2 tr_two_calls) = None /\
  quiescent (st_of ex_cfg2 tr_two_calls) = true /\ running (st_of ex_cfg2 tr_two_calls) = true /\
  map (fun t => (t_unit t, is_note t, t_st t)) (tasks (st_of ex_cfg2 tr_two_calls)) =
    [(0, true, TDone None); (1, false, TRunning); (2, false, TRunning)] /\
  (forall j n, nth_error (tasks (st_of ex_cfg2 tr_two_calls)) j = Some n -> runnable n = true -> is_note n = true ->
     released (st_of ex_cfg2 tr_two_calls) (t_unit n) = true -> exists b, t_st n = TDone b) /\
  inq (st_of ex_cfg2 tr_two_calls) = [] /\ dp (st_of ex_cfg2 tr_two_calls) = DWaitWork.
Proof.
  split; [reach_ex|]. split; [vm_compute; reflexivity|]. split; [vm_compute; reflexivity|].
  split; [vm_compute; reflexivity|]. split; [vm_compute; reflexivity|]. split; [|vm_compute; auto].
  intros j n E _ Nn _.
  assert (T : exists t0 t1 t2, tasks (st_of ex_cfg2 tr_two_calls) = [t0; t1; t2] /\
                t_st t0 = TDone None /\ is_note t1 = false /\ is_note t2 = false).
  { eexists _, _, _. split; [vm_compute; reflexivity|]. vm_compute. auto. }
  destruct T as (t0 & t1 & t2 & T & S0 & N1 & N2). rewrite T in E. clear T.
  destruct j as [|[|[|j]]]; cbn [nth_error] in E.
  - injection E as <-. exists None. exact S0.
  - injection E as <-. rewrite N1 in Nn. discriminate.
  - injection E as <-. rewrite N2 in Nn. discriminate.
  - destruct j; discriminate.
Qed.

(* the auxiliary invariants on the state of [tr_open]: task 0 is a notification (never cancelled),
   unit 0 has one runnable notification, task 1 belongs to the unit still at the barrier *)
Example notes_never_cancelled_nonvacuous :
  exists t, reach ex_cfg2 (st_of ex_cfg2 tr_open) /\ nth_error (tasks (st_of ex_cfg2 tr_open)) 0 = Some t /\
    is_note t = true /\ t_cancelled t = false.
Proof. eexists. split; [reach_ex|]. split; [vm_compute; reflexivity|]. vm_compute. auto. Qed.

Example unit_notes_count_nonvacuous :
  exists un, reach ex_cfg2 (st_of ex_cfg2 tr_open) /\ nth_error (units (st_of ex_cfg2 tr_open)) 0 = Some un /\
    u_notes un = 1 /\ countb (note_of 0) (tasks (st_of ex_cfg2 tr_open)) = 1.
Proof. eexists. split; [reach_ex|]. split; [vm_compute; reflexivity|]. vm_compute. auto. Qed.

Example unreleased_pending_nonvacuous :
  exists t, reach ex_cfg2 (st_of ex_cfg2 tr_open) /\ nth_error (tasks (st_of ex_cfg2 tr_open)) 1 = Some t /\
    released (st_of ex_cfg2 tr_open) (t_unit t) = false /\ t_st t = TAtAcquire.
Proof. eexists. split; [reach_ex|]. split; [vm_compute; reflexivity|]. vm_compute. auto. Qed.

Example notification_before_later_every_instant_nonvacuous :
  exists s2 oss, run (init_of ex_cfg2) (tr_closed ++ [LRelAcquire 1]) = Some (s2, oss) /\
    map t_st (tasks (st_of ex_cfg2 tr_closed)) = [TDone None; TAtAcquire] /\ map t_st (tasks s2) = [TDone None; TRunning].
Proof. eexists _, _. split; [vm_compute; reflexivity|]. vm_compute. auto. Qed.
