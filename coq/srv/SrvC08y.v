(* SrvC08y: C08.3 the three flags of ServerStatus.
   [status_of] is WaitStatus of /repo/server.go applied to the recorded stop cause [s.err]:
     stat := ServerStatus{Err: s.err}
     if s.err == io.EOF || channel.IsErrClosing(s.err) { stat.Err = nil; stat.Closed = true }
     else if s.err == errServerStopped               { stat.Err = nil; stat.Stopped = true }
   Every OWaitRet of a trace is classified by the window that stopped the current run. *)
From Coq Require Import List NArith ZArith Bool Arith Lia.
From RecordUpdate Require Import RecordUpdate.
From JV Require Import Bytes Msg SrvModel SrvLemmas SrvBasics SrvC01 SrvC07 SrvC09 SrvC10 SrvC08 SrvC08b SrvC08c SrvC08q SrvC08u SrvC08x.
Import ListNotations.

(* (Err, Stopped, Closed) *)
Definition status_of (e : option stopcause) : option stopcause * bool * bool :=
  match e with
  | None => (None, false, false)
  | Some SCStop => (None, true, false)
  | Some SCEOF => (None, false, true)
  | Some SCClosing => (None, false, true)
  | Some SCOther => (Some SCOther, false, false)
  end.
Definition st_err (e : option stopcause) : option stopcause := fst (fst (status_of e)).
Definition st_stopped (e : option stopcause) : bool := snd (fst (status_of e)).
Definition st_closed (e : option stopcause) : bool := snd (status_of e).

Lemma status_of_one_flag e : st_stopped e && st_closed e = false.
Proof. destruct e as [[]|]; reflexivity. Qed.

Lemma status_of_err_no_flag e : st_err e <> None -> st_stopped e = false /\ st_closed e = false /\ st_err e = Some SCOther.
Proof. destruct e as [[]|]; cbn; intros H; try congruence; auto. Qed.

(* the classification of a cause *)
Lemma status_of_spec k :
  (st_stopped (Some k) = true <-> k = SCStop) /\
  (st_closed (Some k) = true <-> k = SCEOF \/ k = SCClosing) /\
  (st_err (Some k) <> None <-> k = SCOther).
Proof.
  destruct k; cbn; repeat split; intros H; try discriminate; try congruence; auto;
    try (destruct H; discriminate).
Qed.

(** * which records the reader can hold: only what the environment fed, or the closing error of an
      unblocking channel *)
Lemma stop_locked_chin k s s' os : stop_locked k s = (s', os) ->
  (ch_in s' = ch_in s \/ ch_in s' = ch_in s ++ [FErr SCClosing]) /\ rd s' = rd s.
Proof.
  intros H. destruct (running s) eqn:Rn.
  - apply stop_locked_run in H as [_ P]; auto. rewrite (sr_chin _ _ _ P), (sr_rd _ _ _ P).
    destruct (c_unblock s); auto.
  - rewrite stop_idempotent in H; auto. injection H as <- _. auto.
Qed.

Lemma read_cs_feeds f s s' os : read_cs f s = (s', os) ->
  (ch_in s' = ch_in s \/ ch_in s' = ch_in s ++ [FErr SCClosing]) /\ (forall g, rd s' <> RHold g).
Proof.
  intros H.
  assert (Msg : forall i, (if negb (running s) then (s <| rd := RExited |> <| wg ::= pred |>, [])
           else match i with
           | InBad => let '(s', os) := push_error s ParseError s_invalid_value in (s' <| rd := RIdle |>, os)
           | InMsgs _ [] => let '(s', os) := push_error s InvalidRequest s_empty_batch in (s' <| rd := RIdle |>, os)
           | InMsgs b ms =>
               let '(s1, keep, os) := filter_batch ms s [] [] in
               match keep with
               | [] => (s1 <| rd := RIdle |>, os)
               | _ => let s2 := s1 <| inq ::= fun q => q ++ [(b, keep)] |> <| rd := RIdle |> in
                      if work_closed s2 && (length (inq s2) =? 1)
                      then (s2 <| crash := Some CrSendOnClosedWork |>, os ++ [OCrash CrSendOnClosedWork])
                      else (s2, os)
               end
           end) = (s', os) -> ch_in s' = ch_in s /\ (forall g, rd s' <> RHold g)).
  { intros i H'. destruct (negb (running s)); [injection H' as <- <-; cbn; split; [auto|discriminate]|].
    destruct i as [|b ms]; [cbn in H'; injection H' as <- <-; cbn; split; [auto|discriminate]|].
    destruct ms as [|m ms]; [cbn in H'; injection H' as <- <-; cbn; split; [auto|discriminate]|].
    pose proof (filter_batch_sbc (m :: ms) s [] []) as Sb.
    destruct (filter_batch (m :: ms) s [] []) as [[s1 keep] os1] eqn:F. cbn [fst] in Sb.
    assert (Ch : ch_in s1 = ch_in s) by (rewrite Sb; reflexivity).
    destruct keep as [|k0 kr]; [injection H' as <- <-; cbn; split; [auto|discriminate]|]. cbv zeta in H'.
    match type of H' with (if ?c then _ else _) = _ => destruct c end; injection H' as <- <-; cbn;
      (split; [auto|discriminate]). }
  destruct f as [i|i|k].
  - destruct (Msg i H) as [A B]. auto.
  - destruct (Msg i H) as [A B]. auto.
  - cbn in H. destruct (stop_locked k s) as [s0 os0] eqn:St. injection H as <- <-.
    apply stop_locked_chin in St as [A _]. cbn. split; [exact A|discriminate].
Qed.

Lemma raw_feeds s l s' os : step_raw s l = Some (s', os) ->
  (forall f, In f (ch_in s') -> In f (ch_in s) \/ f = FErr SCClosing \/ l = LFeed f) /\
  (forall f, rd s' = RHold f -> rd s = RHold f).
Proof.
  intros H. destruct (quiet_label l) eqn:Ql.
  { apply raw_chp in H; auto. unfold chp in H. injection H as H1 H2 _. rewrite H1, H2. auto. }
  destruct l; try discriminate Ql; unfold step_raw in H.
  - destruct (negb (running s) && (wg s =? 0)); [|discriminate]. injection H as <- <-. cbn.
    split; [tauto|discriminate].
  - injection H as <- <-. cbn. split; auto. intros g Hg. apply in_app_or in Hg as [Hg|[<-|[]]]; auto.
  - destruct (rd s) as [| |f|] eqn:Rd; try discriminate. injection H as H.
    apply read_cs_feeds in H as [[A|A] B]; rewrite A; split.
    + auto.
    + intros g Hg. destruct (B _ Hg).
    + intros g Hg. apply in_app_or in Hg as [Hg|[<-|[]]]; auto.
    + intros g Hg. destruct (B _ Hg).
  - destruct (find_op n (ops s)) as [[n0|n0 id|n0 w m p]|]; try discriminate.
    destruct (stop_locked SCStop (s <| ops ::= del_op n |>)) as [s0 os0] eqn:St. injection H as <- <-.
    apply stop_locked_chin in St as [[A|A] B]; cbn in A, B; rewrite A, B; split; auto.
    intros g Hg. apply in_app_or in Hg as [Hg|[<-|[]]]; auto.
Qed.

Lemma settle1_feeds s s' os : settle1 s = Some (s', os) ->
  (forall f, In f (ch_in s') -> In f (ch_in s)) /\
  (forall f, rd s' = RHold f -> rd s = RHold f \/ In f (ch_in s)).
Proof.
  intros H. apply settle1_inv in H. destruct H as [f q Rd Q | D _ | u un D _ _ | i un F E _ | i un F E _ | W _ Q | W _ Q];
    cbn; auto.
  - rewrite Q. split; [intros g Hg; right; auto|]. intros g [= ->]. right. left. reflexivity.
  - pose proof (nontask_chp s (dequeue s)) as K.
    assert (X : ch_in (dequeue s) = ch_in s /\ rd (dequeue s) = rd s).
    { unfold dequeue. destruct (inq s) as [|[b ms] q]; [destruct (running s)|]; cbn; auto. }
    destruct X as [-> ->]. auto.
Qed.

(* P holds of everything the reader has or will receive *)
Definition feeds_ok (P : feed -> Prop) (s : state) : Prop :=
  (forall f, In f (ch_in s) -> P f) /\ (forall f, rd s = RHold f -> P f).

Lemma step_feeds_ok (P : feed -> Prop) s l s' os : P (FErr SCClosing) -> (forall f, l = LFeed f -> P f) ->
  feeds_ok P s -> step s l = Some (s', os) -> feeds_ok P s'.
Proof.
  intros Pc Pl F H. apply step_decompose in H as (_ & s1 & os1 & Hr & Hs).
  assert (F1 : feeds_ok P s1).
  { destruct (raw_feeds _ _ _ _ Hr) as [A B]. destruct F as [F1 F2]. split.
    - intros f Hf. destruct (A _ Hf) as [H|[->|H]]; auto.
    - intros f Hf. auto. }
  destruct Hs as [(_ & -> & _)|(_ & Hs)]; auto.
  clear Hr. revert Hs F1. generalize (settle_fuel s1), os1. intros fuel. revert s1.
  induction fuel as [|n IH]; cbn; intros s1 acc Hs F1.
  - injection Hs as <- _. auto.
  - destruct (settle1 s1) as [[s2 os2]|] eqn:E; [|injection Hs as <- _; auto].
    apply (IH _ _ Hs). destruct (settle1_feeds _ _ _ E) as [A B]. destruct F1 as [F1 F2]. split.
    + intros f Hf. auto.
    + intros f Hf. destruct (B _ Hf); auto.
Qed.

Lemma run_feeds_ok (P : feed -> Prop) : P (FErr SCClosing) -> forall tr s s' oss,
  (forall f, In (LFeed f) tr -> P f) -> feeds_ok P s -> run s tr = Some (s', oss) -> feeds_ok P s'.
Proof.
  intros Pc. induction tr as [|l r IH]; cbn; intros s s' oss Pl F H.
  - injection H as <- _. auto.
  - destruct (step s l) as [[s1 os]|] eqn:E; [|discriminate].
    destruct (run s1 r) as [[s2 oss2]|] eqn:E2; [|discriminate]. injection H as <- _.
    apply (IH s1 s2 oss2); auto. eapply step_feeds_ok; eauto; intros f ->; apply Pl; auto.
Qed.

Lemma init_feeds_ok P c : feeds_ok P (init_of c).
Proof. split; cbn; [tauto|discriminate]. Qed.

(** * the flags, by the window that stopped the run *)
(* [flags s l r]: s = the state before the stopping window, l = its label, r = the value WaitStatus returned.
   The unexported sentinel errServerStopped is also a value of the model's type of Recv errors
   (FErr SCStop); the disjunct in the first clause is that (impossible in Go) case, see
   [status_flags_nofeed] below which removes it under the hypothesis that the channel never returns it. *)
Definition flags (s : state) (l : label) (r : option stopcause) : Prop :=
  (st_stopped r = true <-> (exists n, l = LRelStop n) \/ (l = LRelRead /\ rd s = RHold (FErr SCStop))) /\
  (st_closed r = true <-> l = LRelRead /\ (rd s = RHold (FErr SCEOF) \/ rd s = RHold (FErr SCClosing))) /\
  (st_err r <> None <-> l = LRelRead /\ rd s = RHold (FErr SCOther)) /\
  (st_err r = None \/ st_err r = Some SCOther) /\
  st_stopped r && st_closed r = false.

Lemma flags_of_cause s l k : stop_cause s l k -> flags s l (Some k).
Proof.
  intros Sc. unfold flags. split; [|split; [|split; [|split]]].
  - destruct Sc as [n|k Rd].
    + cbn. split; eauto.
    + destruct (status_of_spec k) as (A & _). rewrite A. split.
      * intros ->. auto.
      * intros [(n & Hn)|(_ & Hr)]; [discriminate|congruence].
  - destruct Sc as [n|k Rd].
    + cbn. split; [discriminate|]. intros [Hn _]. discriminate.
    + destruct (status_of_spec k) as (_ & A & _). rewrite A. split.
      * intros [-> | ->]; auto.
      * intros (_ & [Hr|Hr]); rewrite Rd in Hr; injection Hr as ->; auto.
  - destruct Sc as [n|k Rd].
    + cbn. split; [congruence|]. intros [Hn _]. discriminate.
    + destruct (status_of_spec k) as (_ & _ & A). rewrite A. split.
      * intros ->; auto.
      * intros (_ & Hr). congruence.
  - destruct k; cbn; auto.
  - apply status_of_one_flag.
Qed.

(* one stop window, then anything but a Start *)
Theorem status_flags c s l s1 os tr s2 oss : reach c s -> step s l = Some (s1, os) ->
  running s = true -> running s1 = false -> run s1 tr = Some (s2, oss) -> ~ In LStart tr ->
  forall os' r, In os' (os :: oss) -> In (OWaitRet r) os' -> flags s l r.
Proof.
  intros R H Rn Rn1 Hr Ns os' r Hin Hw.
  destruct (status_cause _ _ _ _ _ _ _ _ R H Rn Rn1 Hr Ns) as (k & Sc & _ & A & B).
  assert (E : r = Some k) by (destruct Hin as [<-|Hin]; [apply A; auto|eapply B; eauto]).
  subst r. apply flags_of_cause; auto.
Qed.

(** * every OWaitRet of every trace *)
(* [last_stop s0 tr i s l]: window number i of the run of tr from s0 lies in a stopped period that was
   begun by the window [l] taken in state [s] (some window j <= i of the same run), with no Start in between *)
Definition last_stop (s0 : state) (tr : list label) (i : nat) (s : state) (l : label) : Prop :=
  exists pre mid post oss0 s1 os1,
    tr = pre ++ l :: mid ++ post /\ length pre + length mid = i /\ ~ In LStart mid /\
    run s0 pre = Some (s, oss0) /\ step s l = Some (s1, os1) /\ running s = true /\ running s1 = false.

Lemma run_length : forall tr s s' oss, run s tr = Some (s', oss) -> length oss = length tr.
Proof.
  induction tr as [|l r IH]; cbn; intros s s' oss H.
  - injection H as _ <-. reflexivity.
  - destruct (step s l) as [[s1 os]|]; [|discriminate].
    destruct (run s1 r) as [[s2 oss2]|] eqn:E; [|discriminate]. injection H as _ <-. cbn. f_equal. eauto.
Qed.

Lemma start_runs s s' os : step s LStart = Some (s', os) -> running s' = true.
Proof.
  intros H. apply step_decompose in H as (_ & s1 & os1 & Hr & Hs).
  assert (R1 : running s1 = true).
  { unfold step_raw in Hr. destruct (negb (running s) && (wg s =? 0)); [|discriminate]. injection Hr as <- _. reflexivity. }
  destruct Hs as [(_ & -> & _)|(_ & Hs)]; auto.
  apply settle_same5 in Hs as (A & _). congruence.
Qed.

Lemma waitret_origin c : forall tr s0 s' oss i os r, reach c s0 -> run s0 tr = Some (s', oss) ->
  nth_error oss i = Some os -> In (OWaitRet r) os ->
  (r = stop_err s0 /\ running s0 = false /\ ~ In LStart (firstn (S i) tr)) \/
  (exists s l, last_stop s0 tr i s l /\ flags s l r).
Proof.
  induction tr as [|l0 rest IH]; cbn [run]; intros s0 s' oss i os r R H Hn Hw.
  - injection H as _ <-. destruct i; discriminate.
  - destruct (step s0 l0) as [[s1 os0]|] eqn:E; [|discriminate].
    destruct (run s1 rest) as [[s2 oss2]|] eqn:E2; [|discriminate]. injection H as <- <-.
    assert (R1 : reach c s1) by (eapply reach_step; eauto).
    (* what the first window does when the state after it is stopped *)
    assert (First : running s1 = false ->
              (running s0 = false /\ l0 <> LStart /\ stop_err s1 = stop_err s0) \/
              (running s0 = true /\ exists k, stop_cause s0 l0 k /\ stop_err s1 = Some k)).
    { intros Rn1. destruct (step_three _ _ _ _ _ (reach_reachf _ _ R) E)
        as [(_ & _ & _ & Z & _)|[(k & Sc & Rn & _ & Ek & _)|(A1 & A2 & _)]].
      - congruence.
      - right. eauto.
      - left. repeat split; try congruence. intros ->.
        pose proof (start_runs _ _ _ E). congruence. }
    destruct i as [|i].
    + cbn in Hn. injection Hn as <-.
      destruct (status _ _ _ _ _ _ R E Hw) as (-> & _ & Rn1 & _).
      destruct (First Rn1) as [(Rn0 & Nl & Es)|(Rn0 & k & Sc & Ek)].
      * left. repeat split; auto. cbn. intros [Z|[]]. auto.
      * right. exists s0, l0. split; [|rewrite Ek; apply flags_of_cause; auto].
        exists [], [], rest, [], s1, os0. cbn. repeat split; auto.
    + cbn in Hn. destruct (IH _ _ _ _ _ _ R1 E2 Hn Hw) as [(-> & Rn1 & Ns)|(s & l & Ls & Fl)].
      * destruct (First Rn1) as [(Rn0 & Nl & Es)|(Rn0 & k & Sc & Ek)].
        -- left. repeat split; auto. intros [Z|Z]; auto.
        -- right. exists s0, l0. split; [|rewrite Ek; apply flags_of_cause; auto].
           exists [], (firstn (S i) rest), (skipn (S i) rest), [], s1, os0.
           assert (Li : S i <= length rest).
           { apply run_length in E2. apply nth_error_some_lt in Hn. lia. }
           rewrite firstn_skipn. repeat split; auto. cbn [length]. rewrite firstn_length. lia.
      * right. exists s, l. split; auto.
        destruct Ls as (pre & mid & post & oss0 & sa & osa & -> & Ln & Nm & Hp & Hs & Ra & Rb).
        exists (l0 :: pre), mid, post, (os0 :: oss0), sa, osa. cbn [run length app]. rewrite E, Hp.
        repeat split; auto. lia.
Qed.

Theorem status_flags_trace c tr s oss i os r : run (init_of c) tr = Some (s, oss) ->
  nth_error oss i = Some os -> In (OWaitRet r) os ->
  (r = None /\ ~ In LStart (firstn (S i) tr)) \/
  (exists s0 l, last_stop (init_of c) tr i s0 l /\ flags s0 l r).
Proof.
  intros H Hn Hw. destruct (waitret_origin c _ _ _ _ _ _ _ (reach_init c) H Hn Hw) as [(-> & _ & Ns)|X]; auto.
Qed.

(* Go: errServerStopped is unexported, no Channel can return it.  Under that hypothesis on the environment
   Stopped is reported exactly for a Stop call. *)
Definition flags_go (s : state) (l : label) (r : option stopcause) : Prop :=
  (st_stopped r = true <-> exists n, l = LRelStop n) /\
  (st_closed r = true <-> l = LRelRead /\ (rd s = RHold (FErr SCEOF) \/ rd s = RHold (FErr SCClosing))) /\
  (st_err r <> None <-> l = LRelRead /\ rd s = RHold (FErr SCOther)) /\
  (st_err r = None \/ st_err r = Some SCOther) /\
  st_stopped r && st_closed r = false.

Definition no_stop_feed (tr : list label) : Prop := forall f, In (LFeed f) tr -> f <> FErr SCStop.

Theorem status_flags_nofeed c tr s oss i os r : run (init_of c) tr = Some (s, oss) -> no_stop_feed tr ->
  nth_error oss i = Some os -> In (OWaitRet r) os ->
  (r = None /\ ~ In LStart (firstn (S i) tr)) \/
  (exists s0 l, last_stop (init_of c) tr i s0 l /\ flags_go s0 l r).
Proof.
  intros H Nf Hn Hw. destruct (status_flags_trace _ _ _ _ _ _ _ H Hn Hw) as [X|(s0 & l & Ls & Fl)]; auto.
  right. exists s0, l. split; auto.
  destruct Ls as (pre & mid & post & oss0 & s1 & os1 & -> & _ & _ & Hp & _).
  assert (Fo : feeds_ok (fun f => f <> FErr SCStop) s0).
  { eapply (run_feeds_ok (fun f => f <> FErr SCStop)); [discriminate| |apply init_feeds_ok|exact Hp].
    intros f Hf. apply Nf. apply in_or_app. auto. }
  destruct Fo as [_ Fr]. destruct Fl as (A & B). split; auto.
  rewrite A. split; [|auto]. intros [X|(_ & X)]; auto. destruct (Fr _ X eq_refl).
Qed.

(* without that hypothesis: a channel whose Recv returns the sentinel makes WaitStatus report Stopped although
   Stop was never called (an artefact of the model's error type, not reachable in Go) *)
Definition tr_recv_sentinel : list label := [LStart; LRelNext; LCallWait; LFeed (FErr SCStop); LRelRead].
Lemma status_stopped_only_by_stop_refuted_without_nofeed :
  exists oss s, run (init_of ex_cfg) tr_recv_sentinel = Some (s, oss) /\
    nth_error oss 4 = Some [OClose; OWaitRet (Some SCStop)] /\ st_stopped (Some SCStop) = true /\
    forall n, ~ In (LRelStop n) tr_recv_sentinel.
Proof.
  eexists _, _. split; [vm_compute; reflexivity|]. split; [reflexivity|]. split; [reflexivity|].
  intros n H. unfold tr_recv_sentinel in H. repeat (destruct H as [H|H]; [discriminate H|]). exact H.
Qed.

(** * non-vacuity *)
Example status_flags_nonvacuous :
  exists s s1 os tr s2 oss, reach ex_cfg s /\ step s (LRelStop 1) = Some (s1, os) /\ running s = true /\
    running s1 = false /\ run s1 tr = Some (s2, oss) /\ ~ In LStart tr /\
    exists os', In os' (os :: oss) /\ In (OWaitRet (Some SCStop)) os' /\ status_of (Some SCStop) = (None, true, false).
Proof.
  destruct status_cause_nonvacuous as (s & s1 & os & tr & s2 & oss & A & B & C & D & E & F & os' & G & H).
  exists s, s1, os, tr, s2, oss. repeat split; auto. exists os'. repeat split; auto. right. auto.
Qed.

(* the three outcomes of a whole trace: Stop / EOF / a Recv failure, and WaitStatus on a never started server *)
Example status_flags_trace_nonvacuous :
  (exists s oss, run (init_of ex_cfg) (tr_stop ++ tr_after_stop) = Some (s, oss) /\ no_stop_feed (tr_stop ++ tr_after_stop) /\
     nth_error oss 14 = Some [OWaitRet (Some SCStop)] /\ status_of (Some SCStop) = (None, true, false)) /\
  (exists s oss, run (init_of ex_cfg) tr_eof = Some (s, oss) /\ no_stop_feed tr_eof /\
     nth_error oss 4 = Some [OClose; OWaitRet (Some SCEOF)] /\ status_of (Some SCEOF) = (None, false, true)) /\
  (exists s oss, run (init_of ex_cfg) [LStart; LRelNext; LCallWait; LFeed (FErr SCOther); LRelRead] = Some (s, oss) /\
     nth_error oss 4 = Some [OClose; OWaitRet (Some SCOther)] /\ status_of (Some SCOther) = (Some SCOther, false, false)) /\
  (exists s oss, run (init_of ex_cfg) [LCallWait] = Some (s, oss) /\ nth_error oss 0 = Some [OWaitRet None]).
Proof.
  assert (Nf : forall tr, forallb (fun l => match l with LFeed (FErr SCStop) => false | _ => true end) tr = true -> no_stop_feed tr).
  { intros tr H f Hf ->. rewrite forallb_forall in H. specialize (H _ Hf). discriminate. }
  split; [|split; [|split]].
  - eexists _, _. split; [vm_compute; reflexivity|]. split; [apply Nf; vm_compute; reflexivity|]. split; reflexivity.
  - eexists _, _. split; [vm_compute; reflexivity|]. split; [apply Nf; vm_compute; reflexivity|]. split; reflexivity.
  - eexists _, _. split; [vm_compute; reflexivity|]. split; reflexivity.
  - eexists _, _. split; [vm_compute; reflexivity|]. reflexivity.
Qed.

(** * the definitions, spelled out for the property file *)
Lemma status_of_table :
  status_of None = (None, false, false) /\ status_of (Some SCStop) = (None, true, false) /\
  status_of (Some SCEOF) = (None, false, true) /\ status_of (Some SCClosing) = (None, false, true) /\
  status_of (Some SCOther) = (Some SCOther, false, false).
Proof. repeat split. Qed.

Lemma flags_spec s l r : flags s l r <->
  (st_stopped r = true <-> (exists n, l = LRelStop n) \/ (l = LRelRead /\ rd s = RHold (FErr SCStop))) /\
  (st_closed r = true <-> l = LRelRead /\ (rd s = RHold (FErr SCEOF) \/ rd s = RHold (FErr SCClosing))) /\
  (st_err r <> None <-> l = LRelRead /\ rd s = RHold (FErr SCOther)) /\
  (st_err r = None \/ st_err r = Some SCOther) /\
  st_stopped r && st_closed r = false.
Proof. unfold flags. tauto. Qed.

Lemma flags_go_spec s l r : flags_go s l r <->
  (st_stopped r = true <-> exists n, l = LRelStop n) /\
  (st_closed r = true <-> l = LRelRead /\ (rd s = RHold (FErr SCEOF) \/ rd s = RHold (FErr SCClosing))) /\
  (st_err r <> None <-> l = LRelRead /\ rd s = RHold (FErr SCOther)) /\
  (st_err r = None \/ st_err r = Some SCOther) /\
  st_stopped r && st_closed r = false.
Proof. unfold flags_go. tauto. Qed.

Lemma last_stop_spec s0 tr i s l : last_stop s0 tr i s l <->
  exists pre mid post oss0 s1 os1,
    tr = pre ++ l :: mid ++ post /\ length pre + length mid = i /\ ~ In LStart mid /\
    run s0 pre = Some (s, oss0) /\ step s l = Some (s1, os1) /\ running s = true /\ running s1 = false.
Proof. unfold last_stop. tauto. Qed.
