(* SrvMonPush: soundness of [mon_push_ids] (srv/SrvMonitors2.v) for every run of the server model.

   (1) The callback-id counter [call_id] is changed by one kind of critical section only, the LRelPush of a
       Callback (wantid) on a running server, which adds one and sends the request with the decimal numeral of the
       old value as its id (whether or not the send succeeds); nothing resets it, not even a restart.  So the
       non-empty request ids of a run are the numerals of consecutive numbers, in order - in particular pairwise
       distinct.
   (2) The final returns of operation number n are at most as many as the LCallPush n labels: C09.3
       (SrvC09.returns_at_most_calls), restated over the two sequences. *)
From Coq Require Import List NArith ZArith Bool Arith Lia FinFun.
From RecordUpdate Require Import RecordUpdate.
From JV Require Import Bytes Msg SrvModel SrvLemmas SrvBasics SrvMonitors SrvMonitors2 SrvC09 SrvC10.
Import ListNotations.

(** * decimal numerals are not empty *)
Lemma dec_digits_nonnil : forall fuel n acc, acc <> [] -> dec_digits fuel n acc <> [].
Proof.
  induction fuel as [|f IH]; intros n acc Na; cbn [dec_digits]; auto.
  cbv zeta. destruct (n / 10 =? 0); [discriminate|]. apply IH. discriminate.
Qed.

Lemma dec_of_nat_nonnil n : is_nil (dec_of_nat n) = false.
Proof.
  unfold dec_of_nat. cbn [dec_digits]. cbv zeta.
  destruct (n / 10 =? 0); [reflexivity|].
  match goal with |- is_nil ?x = false => pose proof (dec_digits_nonnil n (n / 10) [(48 + N.of_nat (n mod 10))%N]) as H;
    destruct x; [exfalso; apply H; [discriminate|reflexivity]|reflexivity] end.
Qed.

(** * request ids are ids of channel operations *)
Lemma req_ids_app a b : req_ids (a ++ b) = req_ids a ++ req_ids b.
Proof. apply flat_map_app. Qed.

Lemma req_ids_chan os : req_ids os = req_ids (filter is_chan_op os).
Proof.
  induction os as [|o os IH]; auto. change (req_ids (o :: os)) with (req_id o ++ req_ids os). rewrite IH.
  destruct o; cbn [filter is_chan_op req_id app]; auto.
Qed.

Lemma settle_obs_no_req extra : Forall settle_obs extra -> req_ids extra = [].
Proof.
  induction 1 as [|o l H _ IH]; auto. change (req_ids (o :: l)) with (req_id o ++ req_ids l). rewrite IH.
  destruct o; cbn in *; auto; tauto.
Qed.

(** * the counter *)
Lemma raw_call_id s l s' os : step_raw s l = Some (s', os) -> (forall n, l <> LRelPush n) -> call_id s' = call_id s.
Proof.
  intros H Np. destruct (neutral l) eqn:Neu.
  { apply step_raw_neutral in H as [P _]; auto. apply pv_fields in P. tauto. }
  destruct l; try discriminate Neu; cbn [step_raw] in H.
  - destruct (negb (running s) && (wg s =? 0)); [|discriminate]. injection H as <- _. reflexivity.
  - injection H as <- _. reflexivity.
  - injection H as <- _. reflexivity.
  - injection H as <- _. reflexivity.
  - destruct (c_push s); injection H as <- _; reflexivity.
  - destruct (find_idx _ 0 (cbs s)); injection H as <- _; reflexivity.
  - (* LRelRead *)
    destruct (rd s) as [| |f|]; try discriminate. injection H as H. unfold read_cs in H.
    destruct f as [i|i|sc].
    1,2: destruct (negb (running s)); [injection H as <- _; reflexivity|];
         destruct i as [|b ms]; [cbn in H; injection H as <- _; reflexivity|];
         destruct ms as [|m0 ms0]; [cbn in H; injection H as <- _; reflexivity|];
         pose proof (filter_batch_sbc (m0 :: ms0) s [] []) as Sb; apply sbc_fields in Sb;
         destruct Sb as (_ & _ & _ & _ & Sb & _);
         destruct (filter_batch (m0 :: ms0) s [] []) as [[s1 keep] os1]; cbn [fst] in Sb;
         destruct keep; [injection H as <- _; exact Sb|];
         match type of H with (if ?b then _ else _) = _ => destruct b end; injection H as <- _; exact Sb.
    destruct (stop_locked sc s) as [s2 os2] eqn:SL. injection H as <- _.
    apply stop_locked_spec in SL as [(_ & -> & _)|(_ & _ & _ & _ & _ & _ & _ & E & _)]; [reflexivity|exact E].
  - (* LRelStop *)
    destruct (find_op n (ops s)) as [[| |]|]; try discriminate.
    destruct (stop_locked SCStop _) as [s2 os2] eqn:SL. injection H as <- _.
    apply stop_locked_spec in SL as [(_ & -> & _)|(_ & _ & _ & _ & _ & _ & _ & E & _)]; [reflexivity|exact E].
  - (* LRelCancel *)
    destruct (find_op n (ops s)) as [[| |]|]; try discriminate. cbn in H.
    destruct (assoc id (used s)) as [owner|]; injection H as <- _; [|reflexivity].
    pose proof (cancel_task_pv owner (s <| ops ::= del_op n |>)) as P. apply pv_fields in P.
    destruct P as (_ & _ & _ & _ & _ & -> & _). reflexivity.
  - destruct (Np n eq_refl).
  - (* LRelCbWatch *)
    destruct (nth_error (cbs s) c) as [cb0|]; [|discriminate].
    destruct (cb_watch cb0); try discriminate.
    destruct (assoc (cb_id cb0) _) as [j|]; [|injection H as <- _; reflexivity].
    destruct (cb_slot cb0); [injection H as <- _; reflexivity|].
    destruct (j =? c); [|injection H as <- _; reflexivity].
    destruct (match cb_ctx cb0 with Some WDeadline => _ | _ => _ end) as [code msg].
    injection H as H.
    match type of H with complete_cb ?i ?r ?s0 = _ => pose proof (complete_cb_sbc i r s0) as Sb; rewrite H in Sb end.
    apply sbc_fields in Sb. destruct Sb as (_ & _ & _ & _ & Sb & _). exact Sb.
Qed.

(* one critical section: either no request with an id and the counter stays, or the request with the numeral of the
   counter and the counter moves on *)
Definition req_step (s s' : state) (os : list obs) : Prop :=
  (req_ids os = [] /\ call_id s' = call_id s) \/
  (req_ids os = [dec_of_nat (call_id s)] /\ call_id s' = S (call_id s)).

Lemma raw_req s l s' os : step_raw s l = Some (s', os) -> req_step s s' os.
Proof.
  intros H.
  assert (Dec : (exists n, l = LRelPush n) \/ forall n, l <> LRelPush n).
  { destruct l; try (right; intros n0 E; discriminate E). left; eauto. }
  destruct Dec as [(n & ->)|Np].
  - destruct (running s) eqn:R.
    + destruct (push_one_request_raw _ _ _ _ H R) as (w & m & p & _ & _ & -> & Ec & _). destruct w.
      * right. split; [|exact Ec].
        destruct (send_fail s); cbn [andb negb]; unfold req_ids; cbn [flat_map req_id app];
          rewrite dec_of_nat_nonnil; reflexivity.
      * left. split; [|exact Ec]. destruct (send_fail s); reflexivity.
    + destruct (gate_conn_closed _ _ _ _ R H) as [-> ->]. left. split; reflexivity.
  - left. split; [|eapply raw_call_id; eauto].
    rewrite req_ids_chan. pose proof (raw_chan_ops _ _ _ _ H) as C.
    inversion C; try reflexivity. subst l. destruct (Np n eq_refl).
Qed.

Lemma step_req s l s' os : step s l = Some (s', os) -> req_step s s' os.
Proof.
  intros H. apply step_obs_raw in H as (_ & s1 & os1 & ex & Raw & -> & Fx & P).
  apply pv_fields in P. destruct P as (_ & _ & _ & _ & _ & P & _).
  pose proof (raw_req _ _ _ _ Raw) as R. unfold req_step in *.
  rewrite req_ids_app, (settle_obs_no_req _ Fx), app_nil_r, P. exact R.
Qed.

(* the request ids of a run are the numerals of the values the counter went through, in order *)
Lemma run_req : forall tr s s' oss, run s tr = Some (s', oss) ->
  call_id s <= call_id s' /\ req_ids (concat oss) = map dec_of_nat (seq (call_id s) (call_id s' - call_id s)).
Proof.
  induction tr as [|l r IH]; cbn [run]; intros s s' oss H.
  - injection H as <- <-. rewrite Nat.sub_diag. split; auto.
  - destruct (step s l) as [[s1 os]|] eqn:E; [|discriminate].
    destruct (run s1 r) as [[s2 oss2]|] eqn:E2; [|discriminate]. injection H as <- <-.
    destruct (IH _ _ _ E2) as [L Q]. cbn [concat]. rewrite req_ids_app, Q.
    destruct (step_req _ _ _ _ E) as [[-> C]|[-> C]]; rewrite C in *.
    + split; auto.
    + split; [lia|]. replace (call_id s2 - call_id s) with (S (call_id s2 - S (call_id s))) by lia. reflexivity.
Qed.

Theorem push_ids_consecutive c tr s oss : run (init_of c) tr = Some (s, oss) ->
  req_ids (concat oss) = map dec_of_nat (seq 1 (call_id s - 1)).
Proof. intros H. apply run_req in H as [_ H]. exact H. Qed.

Lemma nodupb_NoDup l : NoDup l -> nodupb l = true.
Proof.
  induction 1 as [|x l Nx _ IH]; auto. cbn [nodupb]. rewrite IH, andb_true_r.
  destruct (mem_bytes x l) eqn:M; auto. apply mem_bytes_in in M. tauto.
Qed.

Theorem push_ids_distinct c tr s oss : run (init_of c) tr = Some (s, oss) -> nodupb (req_ids (concat oss)) = true.
Proof.
  intros H. rewrite (push_ids_consecutive _ _ _ _ H). apply nodupb_NoDup.
  apply Injective_map_NoDup; [intros a b E; apply dec_of_nat_inj; exact E|apply seq_NoDup].
Qed.

(** * returns against calls *)
Lemma count_final_flat n : forall oss, count_final n oss = countb (final_of n) (concat oss).
Proof.
  induction oss as [|os oss IH]; auto. cbn [count_final concat]. rewrite countb_app, IH. f_equal.
Qed.

Lemma count_push_env n : forall tr, count_push n tr = countb (push_of n) (env_of tr).
Proof.
  induction tr as [|l tr IH]; auto. cbn [count_push]. rewrite IH. unfold env_of. cbn [filter].
  destruct l; cbn [is_env push_label_n countb push_of]; try reflexivity.
Qed.

Theorem push_returns_le_calls c tr s oss n : run (init_of c) tr = Some (s, oss) ->
  countb (final_of n) (concat oss) <= countb (push_of n) (env_of tr).
Proof. intros H. rewrite <- count_final_flat, <- count_push_env. eapply returns_at_most_calls; eauto. Qed.

(** * Soundness *)
Theorem mon_push_ids_sound c tr s oss : run (init_of c) tr = Some (s, oss) ->
  mon_push_ids (env_of tr) (concat oss) = true.
Proof.
  intros H. unfold mon_push_ids. apply andb_true_iff. split; [eapply push_ids_distinct; eauto|].
  apply forallb_forall. intros n _. apply Nat.leb_le. eapply push_returns_le_calls; eauto.
Qed.

(** * Examples *)
(* two Callbacks and a Notify; the first Callback is answered by the peer, the second ends with its context *)
Definition ex_tr_push : list label :=
  [LStart; LCallPush 5 true [109]%N [49]%N; LRelPush 5; LCallPush 6 false [109]%N [50]%N; LRelPush 6;
   LCallPush 7 true [109]%N [51]%N; LRelPush 7;
   LFeed (FMsg (InMsgs false [reply_msg [49]%N [50]%N])); LRelRead; LCbCtxEnd 7 WCancel; LRelCbWatch 1].

Example mon_push_ids_nonvacuous :
  run (init_of cfg_push) ex_tr_push <> None /\
  req_ids (concat (obs_of cfg_push ex_tr_push)) = [[49]%N; [50]%N] /\
  final_nums (concat (obs_of cfg_push ex_tr_push)) = [5; 7] /\
  mon_push_ids (env_of ex_tr_push) (concat (obs_of cfg_push ex_tr_push)) = true.
Proof. split; [intros E; vm_compute in E; discriminate E|]. vm_compute. repeat split; reflexivity. Qed.

(* across a restart the counter goes on *)
Definition ex_tr_push_restart : list label :=
  [LStart; LCallPush 5 true [109]%N [49]%N; LRelPush 5; LCallStop 1; LRelStop 1; LRelCbWatch 0; LFeed (FErr SCClosing); LRelRead;
   LRelNext;
   LStart; LCallPush 6 true [109]%N [49]%N; LRelPush 6].

Example mon_push_ids_restart :
  run (init_of cfg_push) ex_tr_push_restart <> None /\
  req_ids (concat (obs_of cfg_push ex_tr_push_restart)) = [[49]%N; [50]%N] /\
  mon_push_ids (env_of ex_tr_push_restart) (concat (obs_of cfg_push ex_tr_push_restart)) = true.
Proof. split; [intros E; vm_compute in E; discriminate E|]. vm_compute. repeat split; reflexivity. Qed.

(* sensitivity: an id used twice; a callback result for an operation that was never called; two results for one call;
   requests without id (notifications) may repeat *)
Example mon_push_ids_sensitive :
  mon_push_ids [LCallPush 5 true [109]%N []; LCallPush 6 true [109]%N []]
               [OSendReq true [49]%N [109]%N []; OSendReq true [49]%N [109]%N []] = false /\
  mon_push_ids [LCallPush 5 true [109]%N []] [OSendReq true [49]%N [109]%N []; ORet 6 (ACbRes [50]%N)] = false /\
  mon_push_ids [LCallPush 5 true [109]%N []]
               [OSendReq true [49]%N [109]%N []; ORet 5 (ACbRes [50]%N); ORet 5 (ACbCtx WCancel)] = false /\
  mon_push_ids [LCallPush 5 false [109]%N []; LCallPush 6 false [109]%N []]
               [OSendReq true [] [109]%N []; ORet 5 AOk; OSendReq true [] [109]%N []; ORet 6 AOk] = true.
Proof. vm_compute. repeat split; reflexivity. Qed.
