(* SrvMonitors: executable monitors over the observation sequence of a run of the server model, proved
   sound for EVERY run, and extracted so that they can be evaluated on every harness log, including the logs
   of racing scenarios (which are not replayed through Accept.accept: they have no windows and no release
   labels).

   A monitor takes the projection of the trace to its ENVIRONMENT labels, in order ([env_of tr]: what the
   peer, the transport, the handlers and the API callers did; the release labels of the scheduling points are
   dropped because a racing log does not have them) and the flat observation list of the run
   ([concat oss] for [run s0 tr = Some (s, oss)]).  Only the two sequences are used, never their
   interleaving: in a racing log an observation line may be written later (never earlier) than the event,
   relative to the environment lines, so a monitor that looked at the interleaving would have to be monotone
   in it anyway.

   (a) [mon_start_once]      : for every params value p, the number of handler entries [OStart p] is at most
                               the number of fed members with params p.  No hypothesis.  With the harness's
                               [unique_params] (every fed member has its own params value) this is
                               [mon_start_distinct]: no request token starts its handler twice.
   (b) [mon_gate_after_start]: every [OGate p] is preceded by its own [OStart p] (scanning left to right, the
                               number of gates of p never exceeds the number of starts of p).  No hypothesis.
   (d) [mon_barrier]         : (C03) once a handler of a request has been entered, no handler of a NOTIFICATION of
                               an earlier fed message is entered or returns any more.  Hypothesis [unique_params]
                               (tokens are looked up in the fed messages).  Proof: srv/SrvMonBarrier.v.
   (c) [mon_reply_once]      : (C01) a response id other than null is sent at most as often as members with that id
                               were fed.  No hypothesis.  Proof: srv/SrvMonReply.v.  ("No send after the close of the
                               channel" is refuted there: a unit finishing after Stop is delivered to the closed
                               channel and the send fails.)

   [unique_params] is a hypothesis about the scenario, evaluated by the runner (ocaml/run_srv.ml) on the log's own
   environment lines: it fails for scenarios with members without params or with repeated members, and the two
   monitors that need it are then not evaluated (the others always are).

   Definitions first (executable, extracted: extract/srvmon.list), proofs after. *)
From Coq Require Import List NArith ZArith Bool Arith Lia.
From RecordUpdate Require Import RecordUpdate.
From JV Require Import Bytes Msg SrvModel SrvLemmas SrvBasics SrvC01 SrvHist.
Import ListNotations.

(** * The two sequences *)
Definition is_env (l : label) : bool :=
  match l with
  | LStart | LFeed _ | LSendFault _ | LGate _ _ | LCallStop _ | LCallCancel _ _ | LCallPush _ _ _ _
  | LCallWait | LCbCtxEnd _ _ => true
  | _ => false
  end.
Definition env_of (tr : list label) : list label := filter is_env tr.

(* the members of a fed record *)
Definition feed_msgs (f : feed) : list jmsg :=
  match f with
  | FMsg (InMsgs _ ms) | FMsgEOF (InMsgs _ ms) => ms
  | _ => []
  end.
Definition feed_params (f : feed) : list bytes := map j_params (feed_msgs f).
Definition label_params (l : label) : list bytes := match l with LFeed f => feed_params f | _ => [] end.
Definition fed_params (env : list label) : list bytes := flat_map label_params env.

Definition start_of (o : obs) : list bytes := match o with OStart p _ => [p] | _ => [] end.
Definition gate_of (o : obs) : list bytes := match o with OGate p _ => [p] | _ => [] end.
Definition starts (os : list obs) : list bytes := flat_map start_of os.
Definition gates (os : list obs) : list bytes := flat_map gate_of os.

Fixpoint nodupb (l : list bytes) : bool :=
  match l with [] => true | x :: r => negb (mem_bytes x r) && nodupb r end.

(* hypothesis of the harness: every fed member carries its own params value (its token) *)
Definition unique_params (env : list label) : bool := nodupb (fed_params env).

(** * (a) a handler is entered at most once per fed request *)
Definition mon_start_once (env : list label) (os : list obs) : bool :=
  forallb (fun p => count_bytes p (starts os) <=? count_bytes p (fed_params env)) (starts os).

(* under [unique_params]: no token starts twice *)
Definition mon_start_distinct (env : list label) (os : list obs) : bool := nodupb (starts os).

(** * (b) every handler return follows its own handler entry *)
(* [seen] = the observations already scanned (most recent first) *)
Fixpoint gate_scan (seen : list obs) (os : list obs) : bool :=
  match os with
  | [] => true
  | o :: r =>
      (match o with
       | OGate p _ => count_bytes p (gates seen) <? count_bytes p (starts seen)
       | _ => true
       end) && gate_scan (o :: seen) r
  end.
Definition mon_gate_after_start (env : list label) (os : list obs) : bool := gate_scan [] os.

(** * (d) the notification barrier (C03): once a handler of a request of a later fed message has been entered, no
    handler of a NOTIFICATION of an earlier fed message is entered or returns any more - so an entry of a later
    request never falls between the entry and the return of an earlier notification.  Tokens are looked up in
    the fed messages ([unique_params]: each is the token of one member).  Proof: srv/SrvMonBarrier.v. *)
Definition label_groups (l : label) : list (list member) :=
  match l with
  | LFeed (FMsg (InMsgs _ ms)) | LFeed (FMsgEOF (InMsgs _ ms)) => [map jmem ms]
  | _ => []
  end.
Definition fed_groups (env : list label) : list (list member) := flat_map label_groups env.

Definition mem_params (x : member) : bytes := snd x.
Definition mem_id (x : member) : bytes := fst (fst x).
Definition has_tok (p : bytes) (g : list member) : bool := existsb (fun x => beq p (mem_params x)) g.
(* number of the fed message that carries token p *)
Fixpoint tok_idx (p : bytes) (F : list (list member)) : nat :=
  match F with [] => 0 | g :: r => if has_tok p g then 0 else S (tok_idx p r) end.
Definition tok_is_note (p : bytes) (F : list (list member)) : bool :=
  existsb (fun x => beq p (mem_params x) && is_nil (mem_id x)) (concat F).

Definition barrier_check (F : list (list member)) (seen : list obs) (o : obs) : bool :=
  match o with
  | OStart q _ | OGate q _ =>
      negb (tok_is_note q F) || forallb (fun r => negb (tok_idx q F <? tok_idx r F)) (starts seen)
  | _ => true
  end.
Fixpoint barrier_scan (F : list (list member)) (seen : list obs) (os : list obs) : bool :=
  match os with
  | [] => true
  | o :: r => barrier_check F seen o && barrier_scan F (o :: seen) r
  end.
Definition mon_barrier (env : list label) (os : list obs) : bool := barrier_scan (fed_groups env) [] os.

(** * (c) every reply answers a received request (C01): a response id other than null is sent at most as often as
    requests with that id were fed.  No hypothesis.  Proof: srv/SrvMonReply.v. *)
Definition idk (m : jmsg) : bytes := fix_id (j_id m).
Definition label_msgs (l : label) : list jmsg := match l with LFeed f => feed_msgs f | _ => [] end.
Definition fed_ids (env : list label) : list bytes := map idk (flat_map label_msgs env).
Definition send_ids (o : obs) : list bytes := match o with OSend _ _ rs => map r_id rs | _ => [] end.
Definition sent_ids (os : list obs) : list bytes := flat_map send_ids os.
Definition mon_reply_once (env : list label) (os : list obs) : bool :=
  forallb (fun i => beq i null_bytes || (count_bytes i (sent_ids os) <=? count_bytes i (fed_ids env))) (sent_ids os).

(** * Proofs *)

(** ** counting *)
Lemma count_bytes_app k l r : count_bytes k (l ++ r) = count_bytes k l + count_bytes k r.
Proof. induction l as [|x l IH]; cbn; auto. rewrite IH. lia. Qed.

Lemma count_bytes_mem k l : mem_bytes k l = true <-> 0 < count_bytes k l.
Proof.
  induction l as [|x l IH]; cbn; [split; [discriminate|lia]|].
  destruct (beq k x); cbn; [split; [lia|auto]|]. rewrite IH. reflexivity.
Qed.

Lemma nodupb_count l : nodupb l = true <-> forall k, count_bytes k l <= 1.
Proof.
  induction l as [|x l IH]; cbn; [split; [intros _ k; lia|auto]|].
  rewrite andb_true_iff, negb_true_iff, IH. split.
  - intros [M H] k. specialize (H k). destruct (beq_spec k x) as [->|N]; [|lia].
    destruct (mem_bytes x l) eqn:Mx; [discriminate|].
    assert (~ 0 < count_bytes x l) by (rewrite <- count_bytes_mem; congruence). lia.
  - intros H. split.
    + destruct (mem_bytes x l) eqn:Mx; auto. apply count_bytes_mem in Mx.
      specialize (H x). rewrite beq_refl in H. lia.
    + intros k. specialize (H k). destruct (beq k x); lia.
Qed.

Lemma count_bytes_in k l : 0 < count_bytes k l <-> In k l.
Proof. rewrite <- count_bytes_mem. apply mem_bytes_in. Qed.

Definition cs (p : bytes) (os : list obs) : nat := count_bytes p (starts os).
Definition cg (p : bytes) (os : list obs) : nat := count_bytes p (gates os).

Lemma starts_app a b : starts (a ++ b) = starts a ++ starts b.
Proof. apply flat_map_app. Qed.
Lemma gates_app a b : gates (a ++ b) = gates a ++ gates b.
Proof. apply flat_map_app. Qed.
Lemma cs_app p a b : cs p (a ++ b) = cs p a + cs p b.
Proof. unfold cs. rewrite starts_app. apply count_bytes_app. Qed.
Lemma cg_app p a b : cg p (a ++ b) = cg p a + cg p b.
Proof. unfold cg. rewrite gates_app. apply count_bytes_app. Qed.
Lemma cs_cons p o a : cs p (o :: a) = cs p [o] + cs p a.
Proof. apply (cs_app p [o] a). Qed.
Lemma cg_cons p o a : cg p (o :: a) = cg p [o] + cg p a.
Proof. apply (cg_app p [o] a). Qed.
Lemma cs_rev p a : cs p (rev a) = cs p a.
Proof. induction a as [|o a IH]; auto. cbn [rev]. rewrite cs_app, IH, (cs_cons p o a). lia. Qed.
Lemma cg_rev p a : cg p (rev a) = cg p a.
Proof. induction a as [|o a IH]; auto. cbn [rev]. rewrite cg_app, IH, (cg_cons p o a). lia. Qed.

(* observations that are neither a handler entry nor a handler return *)
Definition quiet_obs (o : obs) : Prop := match o with OStart _ _ | OGate _ _ => False | _ => True end.
Lemma quiet_counts p os : Forall quiet_obs os -> cs p os = 0 /\ cg p os = 0.
Proof.
  induction 1 as [|o os Ho _ IH]; [split; reflexivity|].
  rewrite cs_cons, cg_cons. destruct IH as [-> ->]. destruct o; cbn in Ho; try tauto; split; reflexivity.
Qed.
Lemma quiet_gates os : Forall quiet_obs os -> gates os = [].
Proof.
  induction 1 as [|o os Ho _ IH]; auto. change (gates (o :: os)) with (gate_of o ++ gates os).
  rewrite IH. destruct o; cbn in Ho; try tauto; reflexivity.
Qed.
Lemma settle_obs_quiet os : Forall settle_obs os -> Forall quiet_obs os.
Proof. apply Forall_impl. intros o; destruct o; cbn; tauto. Qed.
Lemma is_ret_quiet os : Forall is_ret os -> Forall quiet_obs os.
Proof. apply Forall_impl. intros o; destruct o; cbn; tauto. Qed.

(** ** the scan of (b) *)
Lemma gate_scan_app : forall a seen b, gate_scan seen (a ++ b) = gate_scan seen a && gate_scan (rev a ++ seen) b.
Proof.
  induction a as [|o a IH]; intros seen b; cbn [app gate_scan rev]; auto.
  rewrite IH, <- app_assoc. cbn [app]. rewrite andb_assoc. reflexivity.
Qed.

Lemma gate_scan_quiet : forall os seen, gates os = [] -> gate_scan seen os = true.
Proof.
  induction os as [|o os IH]; intros seen H; cbn [gate_scan]; auto.
  change (gates (o :: os)) with (gate_of o ++ gates os) in H.
  apply app_eq_nil in H as [H1 H2]. rewrite IH by auto. destruct o; cbn in H1; try discriminate; auto.
Qed.

(** ** sublists *)
Inductive subl {A} : list A -> list A -> Prop :=
| subl_nil : subl [] []
| subl_skip x l l' : subl l l' -> subl l (x :: l')
| subl_take x l l' : subl l l' -> subl (x :: l) (x :: l').

Lemma subl_refl {A} (l : list A) : subl l l.
Proof. induction l; [apply subl_nil|apply subl_take; auto]. Qed.
Lemma subl_nil_l {A} (l : list A) : subl [] l.
Proof. induction l; constructor; auto. Qed.
Lemma subl_in {A} (l l' : list A) x : subl l l' -> In x l -> In x l'.
Proof. induction 1; cbn; auto. intros [<-|H1]; auto. Qed.
Lemma subl_map {A B} (f : A -> B) l l' : subl l l' -> subl (map f l) (map f l').
Proof. induction 1; cbn; [apply subl_nil|apply subl_skip; auto|apply subl_take; auto]. Qed.
Lemma subl_filter {A} (p : A -> bool) l : subl (filter p l) l.
Proof. induction l as [|x l IH]; cbn; [constructor|]. destruct (p x); [apply subl_take|apply subl_skip]; auto. Qed.
Lemma subl_count k l l' : subl l l' -> count_bytes k l <= count_bytes k l'.
Proof. induction 1; cbn; lia. Qed.

Lemma count_bytes_rev k l : count_bytes k (rev l) = count_bytes k l.
Proof. induction l as [|x l IH]; auto. cbn [rev]. rewrite count_bytes_app, IH. cbn. lia. Qed.

(** ** what of a state the two monitors depend on *)
Definition b2n (b : bool) : nat := if b then 1 else 0.
Definition st_running (t : task) : bool := match t_st t with TRunning => true | _ => false end.
Definition prun (p : bytes) (t : task) : bool := beq p (t_params t) && st_running t.
Definition pfresh (p : bytes) (t : task) : bool := beq p (t_params t) && (rank (t_st t) <? 2).
Definition crun (p : bytes) (l : list task) : nat := countb (prun p) l.
Definition cfresh (p : bytes) (l : list task) : nat := countb (pfresh p) l.

Definition qparams (q : list (bool * list jmsg)) : list bytes := flat_map (fun bm => map j_params (snd bm)) q.
Definition hold_params (r : rdpc) : list bytes := match r with RHold f => feed_params f | _ => [] end.
Definition chin_params (q : list feed) : list bytes := flat_map feed_params q.
Definition pend_params (s : state) : list bytes := qparams (inq s) ++ hold_params (rd s) ++ chin_params (ch_in s).
(* the handler entries the state can still produce for params p *)
Definition budget (p : bytes) (s : state) : nat := cfresh p (tasks s) + count_bytes p (pend_params s).

Lemma budget_eq p s : budget p s = cfresh p (tasks s) + count_bytes p (qparams (inq s)) +
  count_bytes p (hold_params (rd s)) + count_bytes p (chin_params (ch_in s)).
Proof. unfold budget, pend_params. rewrite !count_bytes_app. lia. Qed.

Lemma countb_upd p n f (l : list task) x : nth_error l n = Some x ->
  countb p (upd_nth n f l) + b2n (p x) = countb p l + b2n (p (f x)).
Proof. apply countb_upd_nth. Qed.

(* task lists related by updates that neither enter nor leave a handler and create no fresh task *)
Definition tq (p : bytes) (l l' : list task) : Prop := crun p l' = crun p l /\ cfresh p l' <= cfresh p l.
Lemma tq_refl p l : tq p l l.
Proof. split; auto. Qed.
Lemma tq_trans p a b c : tq p a b -> tq p b c -> tq p a c.
Proof. unfold tq. intros [] []. split; lia. Qed.
Lemma tq_upd p k f l :
  (forall x, nth_error l k = Some x -> prun p (f x) = prun p x /\ b2n (pfresh p (f x)) <= b2n (pfresh p x)) ->
  tq p l (upd_nth k f l).
Proof.
  intros H. destruct (nth_error l k) as [x|] eqn:E; [|rewrite upd_nth_none; auto; apply tq_refl].
  destruct (H _ eq_refl) as [H1 H2]. unfold tq, crun, cfresh.
  pose proof (countb_upd (prun p) k f l x E) as C1. pose proof (countb_upd (pfresh p) k f l x E) as C2.
  rewrite H1 in C1. split; lia.
Qed.

Lemma cancel_fn_quiet p x : prun p (cancel_fn x) = prun p x /\ b2n (pfresh p (cancel_fn x)) <= b2n (pfresh p x).
Proof.
  unfold cancel_fn, prun, pfresh, st_running. destruct (t_st x) eqn:St; cbn; rewrite ?St; cbn; split; auto.
  destruct (beq p (t_params x)); cbn; lia.
Qed.

Definition pend_same (s s' : state) : Prop := inq s' = inq s /\ rd s' = rd s /\ ch_in s' = ch_in s.
Definition squiet (p : bytes) (s s' : state) : Prop := tq p (tasks s) (tasks s') /\ pend_same s s'.
Lemma squiet_refl p s : squiet p s s.
Proof. split; [apply tq_refl|repeat split]. Qed.
Lemma squiet_trans p a b c : squiet p a b -> squiet p b c -> squiet p a c.
Proof.
  intros [T1 (I1 & R1 & C1)] [T2 (I2 & R2 & C2)]. split; [eapply tq_trans; eauto|].
  unfold pend_same. repeat split; congruence.
Qed.
Lemma squiet_budget p s s' : squiet p s s' -> crun p (tasks s') = crun p (tasks s) /\ budget p s' <= budget p s.
Proof.
  intros [[T1 T2] (I & R & C)]. split; auto. unfold budget, pend_params. rewrite I, R, C. lia.
Qed.

Lemma cancel_task_squiet p k s : squiet p s (cancel_task k s).
Proof.
  split.
  - rewrite cancel_task_tasks. apply tq_upd. intros x _. apply cancel_fn_quiet.
  - unfold cancel_task. destruct (nth_error (tasks s) k) as [t|]; [|repeat split].
    destruct (t_st t); repeat split.
Qed.

Lemma fold_cancel_squiet p (l : list (bytes * nat)) : forall s,
  squiet p s (fold_left (fun st x => cancel_task (snd x) st) l s).
Proof.
  induction l as [|x l IH]; intros s; cbn; [apply squiet_refl|].
  eapply squiet_trans; [apply cancel_task_squiet|apply IH].
Qed.

Lemma release_ids_squiet p ts : forall s, squiet p s (release_ids ts s).
Proof.
  induction ts as [|a r IH]; intros s; cbn [release_ids]; [apply squiet_refl|].
  destruct (t_hasctx a && negb (is_note a)); [|apply IH].
  destruct (assoc (t_id a) (used s)) as [owner|]; [|apply IH].
  eapply squiet_trans; [apply (cancel_task_squiet p owner)|].
  eapply squiet_trans; [|apply IH]. split; [apply tq_refl|repeat split].
Qed.

Lemma stop_queue_cons bm q :
  stop_queue (bm :: q) = map (fun m => (fst bm, [m])) (filter keep_note (snd bm)) ++ stop_queue q.
Proof. reflexivity. Qed.

Lemma stop_queue_params q : subl (qparams (stop_queue q)) (qparams q).
Proof.
  induction q as [|bm q IH]; [constructor|]. rewrite stop_queue_cons. unfold qparams in *.
  rewrite flat_map_app. cbn [flat_map].
  assert (E : forall l, flat_map (fun x : bool * list jmsg => map j_params (snd x)) (map (fun m => (fst bm, [m])) l)
              = map j_params l).
  { induction l as [|m l IHl]; cbn; auto. rewrite IHl. auto. }
  rewrite E. clear E.
  assert (A : forall (a a' b b' : list bytes), subl a a' -> subl b b' -> subl (a ++ b) (a' ++ b')).
  { intros a a' b b' Ha Hb. induction Ha; cbn; auto; [apply subl_skip|apply subl_take]; auto. }
  apply A; auto. apply subl_map, subl_filter.
Qed.

(* stopLocked *)
Lemma stop_locked_view p c s s' os : stop_locked c s = (s', os) ->
  tq p (tasks s) (tasks s') /\ rd s' = rd s /\ chin_params (ch_in s') = chin_params (ch_in s) /\
  ((s' = s /\ os = []) \/ (os = [OClose] /\ inq s' = stop_queue (inq s))).
Proof.
  unfold stop_locked. destruct (running s); cbn [negb].
  2:{ intros [= <- <-]. split; [apply tq_refl|]. auto. }
  intros H.
  match type of H with (?x, _) = _ => assert (Hs : s' = x) by congruence end.
  assert (Ho : os = [OClose]) by congruence. clear H.
  match type of Hs with context [fold_left ?f ?l ?s0] =>
    pose proof (fold_cancel_squiet p l s0) as Fc; set (s4 := fold_left f l s0) in *; set (s3 := s0) in * end.
  assert (T3 : tasks s3 = tasks s /\ inq s3 = stop_queue (inq s) /\ rd s3 = rd s /\ ch_in s3 = ch_in s).
  { unfold s3. destruct (work_closed (s <| closes ::= S |> <| inq ::= stop_queue |>)); repeat split. }
  destruct T3 as (T3 & I3 & R3 & C3). destruct Fc as [Tq (I4 & R4 & C4)]. rewrite T3 in Tq.
  clearbody s4. clearbody s3. subst s'.
  destruct (c_unblock _); cbn; (split; [exact Tq|]); (split; [congruence|]); (split; [|right; split; congruence]).
  - rewrite C4, C3. unfold chin_params. rewrite flat_map_app. cbn. rewrite app_nil_r. reflexivity.
  - rewrite C4, C3. reflexivity.
Qed.

(* notifyWaiters: one handler entry per waiter that moves into its handler *)
Definition grant_acct (s : state) (s1 : state) (os : list obs) : Prop :=
  wait_ok s1 /\ pend_same s s1 /\ gates os = [] /\
  forall p, cs p os + crun p (tasks s) = crun p (tasks s1) /\ cs p os + cfresh p (tasks s1) <= cfresh p (tasks s).

Lemma grant_counts fuel s : wait_ok s -> grant_acct s (fst (grant fuel s [])) (snd (grant fuel s [])).
Proof.
  intros W0. apply (grant_ind (fun s1 os => grant_acct s s1 os)).
  2:{ split; [exact W0|]. split; [repeat split|]. split; [reflexivity|]. intros p. split; cbn; auto. }
  intros s1 acc1 k r fr t (W1 & (I1 & R1 & C1) & G1 & A1) Hw Hf Ht.
  destruct W1 as [ND Wt]. rewrite Hw in ND, Wt.
  destruct (Wt k (or_introl eq_refl)) as (t0 & Et0 & St0). rewrite Ht in Et0. injection Et0 as <-.
  split; [|split; [|split]].
  - split; rewrite grant1_wait; [inversion ND; auto|].
    intros j Hj. rewrite (grant1_tasks _ _ _ _ _ Ht). rewrite nth_error_upd_nth_neq.
    + apply Wt. right; auto.
    + intros <-. inversion ND; auto.
  - unfold grant1. destruct (t_builtin t); cbn; repeat split; auto.
  - rewrite gates_app, G1. unfold grant1. destruct (t_builtin t); reflexivity.
  - intros p. destruct (A1 p) as [A2 A3]. rewrite cs_app.
    rewrite (grant1_tasks _ _ _ _ _ Ht).
    set (f := fun t0 : task => t0 <| t_st := if t_builtin t0 then TAtHandled (ORes []) else TRunning |>).
    pose proof (countb_upd (prun p) k f _ _ Ht) as C2. pose proof (countb_upd (pfresh p) k f _ _ Ht) as C3.
    fold (crun p (upd_nth k f (tasks s1))) in C2. fold (crun p (tasks s1)) in C2.
    fold (cfresh p (upd_nth k f (tasks s1))) in C3. fold (cfresh p (tasks s1)) in C3.
    assert (E : cs p (snd (grant1 s1 k r fr t)) = b2n (prun p (f t)) /\ prun p t = false /\
                b2n (pfresh p (f t)) + b2n (prun p (f t)) <= b2n (pfresh p t)).
    { unfold grant1, f, prun, pfresh, st_running, cs. rewrite St0.
      destruct (t_builtin t); cbn; destruct (beq p (t_params t)); cbn; repeat split; lia. }
    destruct E as (E1 & E2 & E3). rewrite E1. rewrite E2 in C2. cbn [b2n] in C2. split; lia.
Qed.

(* dequeue: the members of the head of the queue become tasks *)
Lemma mk_task_params s u ids m : t_params (mk_task s u ids m) = j_params m.
Proof.
  unfold mk_task. destruct (pre_err s ids m); cbn; auto.
  destruct (is_nil (j_method m)); cbn; auto. destruct (assign_method s (j_method m)); auto.
Qed.

Lemma new_tasks_counts p s u ids ms :
  crun p (map (mk_task s u ids) ms) = 0 /\ cfresh p (map (mk_task s u ids) ms) <= count_bytes p (map j_params ms).
Proof.
  induction ms as [|m ms [IH1 IH2]]; [split; auto|]. cbn [map count_bytes].
  unfold crun, cfresh in *. cbn [countb].
  assert (E : prun p (mk_task s u ids m) = false /\
              (if pfresh p (mk_task s u ids m) then 1 else 0) <= (if beq p (j_params m) then 1 else 0)).
  { unfold prun, pfresh, st_running. rewrite mk_task_params.
    destruct (mk_task_st s u ids m) as [[-> _]|(-> & _)]; cbn; rewrite ?andb_false_r, ?andb_true_r;
      destruct (beq p (j_params m)); cbn; split; auto. }
  destruct E as [-> E2]. split; lia.
Qed.

Lemma dequeue_counts p s : crun p (tasks (dequeue s)) = crun p (tasks s) /\ budget p (dequeue s) <= budget p s /\
  rd (dequeue s) = rd s /\ ch_in (dequeue s) = ch_in s.
Proof.
  unfold dequeue. destruct (inq s) as [|[b ms] q] eqn:Q.
  - destruct (running s); unfold budget, pend_params; cbn; rewrite Q; repeat split; auto.
  - unfold budget, pend_params. cbn. rewrite Q. cbn.
    destruct (new_tasks_counts p s (length (units s)) (map (fun m => fix_id (j_id m)) ms) ms) as [N1 N2].
    unfold crun, cfresh in *. rewrite !countb_app, N1, !count_bytes_app. unfold chin_params. repeat split; lia.
Qed.

(* the reader's filter over the members of a record *)
Lemma complete_cb_chin i r s : ch_in (fst (complete_cb i r s)) = ch_in s.
Proof. unfold complete_cb. destruct (nth_error (cbs s) i); reflexivity. Qed.

Lemma filter_batch_view ms : forall s keep acc s' keep' os,
  filter_batch ms s keep acc = (s', keep', os) ->
  ch_in s' = ch_in s /\ exists k2, keep' = rev keep ++ k2 /\ subl k2 ms.
Proof.
  induction ms as [|m r IH]; cbn [filter_batch]; intros s keep acc s' keep' os H.
  - injection H as <- <- _. split; auto. exists []. rewrite app_nil_r. split; [auto|constructor].
  - assert (Take : forall s0 acc0, filter_batch r s0 (m :: keep) acc0 = (s', keep', os) -> ch_in s0 = ch_in s ->
               ch_in s' = ch_in s /\ exists k2, keep' = rev keep ++ k2 /\ subl k2 (m :: r)).
    { intros s0 acc0 H0 E0. destruct (IH _ _ _ _ _ _ H0) as (C & k2 & -> & Sb). split; [congruence|].
      exists (m :: k2). cbn [rev]. rewrite <- app_assoc. split; auto. apply subl_take; auto. }
    assert (Skip : forall s0 acc0, filter_batch r s0 keep acc0 = (s', keep', os) -> ch_in s0 = ch_in s ->
               ch_in s' = ch_in s /\ exists k2, keep' = rev keep ++ k2 /\ subl k2 (m :: r)).
    { intros s0 acc0 H0 E0. destruct (IH _ _ _ _ _ _ H0) as (C & k2 & -> & Sb). split; [congruence|].
      exists k2. split; auto. apply subl_skip; auto. }
    destruct (is_req_or_notif m); [eapply Take; eauto|].
    destruct (assoc (fix_id (j_id m)) (calls s)) as [i|].
    + pose proof (complete_cb_chin i (match j_error m with
         | Some e => CErr (we_code e) (we_msg e) | None => CRes (j_result m) end) s) as K.
      destruct (complete_cb i _ s) as [s1 os1]. cbn in K. eapply Skip; eauto.
    + destruct (c_push s && is_nil (j_method m) && has_reply_fields m); [eapply Skip|eapply Take]; eauto.
Qed.

Lemma acc_msg_params p s i : count_bytes p (qparams (acc_msg s i)) <= count_bytes p (feed_params (FMsg i)).
Proof.
  unfold acc_msg. destruct i as [|b [|m ms]]; [cbn; lia|cbn; lia|].
  destruct (filter_batch (m :: ms) s [] []) as [[s1 keep] os1] eqn:F.
  apply filter_batch_view in F as (_ & k2 & -> & Sb). cbn [rev app] in *.
  unfold feed_params, feed_msgs.
  destruct k2 as [|k0 kr]; cbn [qparams flat_map]; [cbn [count_bytes]; lia|].
  rewrite app_nil_r. cbn [snd]. apply subl_count. apply (subl_map j_params) in Sb. exact Sb.
Qed.

Lemma read_cs_view f i s s' os : f = FMsg i \/ f = FMsgEOF i -> running s = true -> read_cs f s = (s', os) ->
  ch_in s' = ch_in s /\ Forall quiet_obs os.
Proof.
  intros Hf R H.
  assert (H' : (match i with
           | InBad => let '(s', os) := push_error s ParseError s_invalid_value in (s' <| rd := RIdle |>, os)
           | InMsgs _ [] => let '(s', os) := push_error s InvalidRequest s_empty_batch in (s' <| rd := RIdle |>, os)
           | InMsgs b ms =>
               let '(s1, keep, os) := filter_batch ms s [] [] in
               match keep with
               | [] => (s1 <| rd := RIdle |>, os)
               | _ => let s2 := s1 <| inq ::= fun q => q ++ [(b, keep)] |> <| rd := RIdle |> in
                      if work_closed s2 && (length (inq s2) =? 1)
                      then (s2 <| crash := Some CrSendOnClosedWork |>, os ++ [OCrash CrSendOnClosedWork])
                      else (s2, os)
               end
           end) = (s', os)).
  { destruct Hf as [-> | ->]; unfold read_cs in H; rewrite R in H; exact H. }
  clear H. destruct i as [|b ms].
  - cbn in H'. injection H' as <- <-. split; auto. repeat constructor.
  - destruct ms as [|m ms].
    + cbn in H'. injection H' as <- <-. split; auto. repeat constructor.
    + destruct (filter_batch (m :: ms) s [] []) as [[s1 keep] os1] eqn:F.
      pose proof (filter_batch_obs _ _ _ _ _ _ _ F (Forall_nil _)) as Fo. apply is_ret_quiet in Fo.
      apply filter_batch_view in F as (C & _).
      destruct keep as [|k0 kr].
      * injection H' as <- <-. split; auto.
      * cbv zeta in H'.
        match type of H' with (if ?c then _ else _) = _ => destruct c end;
          injection H' as <- <-; split; auto.
        apply Forall_app. split; auto. repeat constructor.
Qed.

(* the labels that touch neither tasks nor the inbound path (except that a feed is queued) *)
Lemma frame_view s l s' os : frame_label l = true -> step_raw s l = Some (s', os) ->
  tasks s' = tasks s /\ inq s' = inq s /\ rd s' = rd s /\
  ch_in s' = ch_in s ++ (match l with LFeed f => [f] | _ => [] end) /\ Forall quiet_obs os.
Proof.
  intros Fl H. destruct (step_raw_frame _ _ _ _ Fl H) as (C & _ & Iq). unfold core in C.
  injection C as T _ _ _ _ _ R _ _ _. split; auto. split; auto. split; auto.
  revert H. destruct l; cbn [frame_label] in Fl; try discriminate; cbn [step_raw]; intros H.
  - injection H as <- <-; auto.
  - injection H as <- <-; cbn; rewrite app_nil_r; auto.
  - injection H as <- <-; cbn; rewrite app_nil_r; auto.
  - injection H as <- <-; cbn; rewrite app_nil_r; auto.
  - destruct (c_push s); injection H as <- <-; cbn; rewrite app_nil_r; split; auto; repeat constructor.
  - injection H as <- <-; cbn; rewrite app_nil_r; auto.
  - destruct (find_idx _ 0 (cbs s)); injection H as <- <-; cbn; rewrite app_nil_r; auto.
  - rewrite app_nil_r.
    destruct (find_op n (ops s)) as [[| |n0 wantid m p]|]; try discriminate.
    cbn in H. destruct (running s); cbn in H; [|injection H as <- <-; split; auto; repeat constructor].
    destruct wantid; [|injection H as <- <-; split; auto; repeat constructor].
    destruct (send_fail s); [injection H as <- <-; split; auto; repeat constructor|].
    destruct (find _ (ended s)) as [[? ?]|]; injection H as <- <-; split; auto; repeat constructor.
  - rewrite app_nil_r.
    destruct (nth_error (cbs s) c) as [cb0|]; [|discriminate].
    destruct (cb_watch cb0); try discriminate.
    cbn in H.
    destruct (assoc (cb_id cb0) (calls s)) as [j|]; [|injection H as <- <-; auto].
    destruct (cb_slot cb0); [injection H as <- <-; auto|].
    destruct (j =? c); [|injection H as <- <-; auto].
    destruct (match cb_ctx cb0 with Some WDeadline => _ | _ => _ end) as [code msg].
    injection H as H.
    match type of H with complete_cb ?i ?r ?s0 = _ =>
      pose proof (complete_cb_chin i r s0) as K; pose proof (complete_cb_obs i r s0) as Ko; rewrite H in K, Ko end.
    cbn in K, Ko. split; auto. apply is_ret_quiet; auto.
Qed.

Lemma stop_locked_view_all c s s' os : stop_locked c s = (s', os) ->
  (forall p, tq p (tasks s) (tasks s')) /\ rd s' = rd s /\ chin_params (ch_in s') = chin_params (ch_in s) /\
  ((s' = s /\ os = []) \/ (os = [OClose] /\ inq s' = stop_queue (inq s))).
Proof.
  intros H. split; [intros p; apply (stop_locked_view p _ _ _ _ H)|]. apply (stop_locked_view [] _ _ _ _ H).
Qed.

(** ** one critical section: handler entries and returns against the tasks in their handlers, and against the
    handler entries the state can still produce *)
Definition gate_shape (l : label) (os : list obs) : Prop :=
  match l with LGate p _ => exists c, os = [OGate p c] | _ => gates os = [] end.
Definition not_gate (l : label) : Prop := match l with LGate _ _ => False | _ => True end.

Definition acct (s : state) (l : label) (os : list obs) (s1 : state) : Prop :=
  gate_shape l os /\
  forall p, cs p os + crun p (tasks s) = cg p os + crun p (tasks s1) /\
            cs p os + budget p s1 <= budget p s + count_bytes p (label_params l).

Lemma acct_quiet s l os s1 : not_gate l -> Forall quiet_obs os ->
  (forall p, crun p (tasks s1) = crun p (tasks s) /\ budget p s1 <= budget p s + count_bytes p (label_params l)) ->
  acct s l os s1.
Proof.
  intros Ng Q H. split.
  - destruct l; cbn in Ng; try tauto; apply quiet_gates; auto.
  - intros p. destruct (quiet_counts p os Q) as [-> ->]. destruct (H p) as [-> H2]. split; lia.
Qed.

Lemma upd_acct p k f (l : list task) t : nth_error l k = Some t ->
  crun p (upd_nth k f l) + b2n (prun p t) = crun p l + b2n (prun p (f t)) /\
  cfresh p (upd_nth k f l) + b2n (pfresh p t) = cfresh p l + b2n (pfresh p (f t)).
Proof. intros E. split; apply countb_upd; auto. Qed.

Lemma feed_params_eof i : feed_params (FMsgEOF i) = feed_params (FMsg i).
Proof. reflexivity. Qed.

Lemma qparams_app a b : qparams (a ++ b) = qparams a ++ qparams b.
Proof. apply flat_map_app. Qed.
Lemma chin_params_app a b : chin_params (a ++ b) = chin_params a ++ chin_params b.
Proof. apply flat_map_app. Qed.

Ltac blia := cbn; unfold cfresh, crun, qparams, chin_params in *; lia.
Ltac st_counts St :=
  unfold prun, pfresh, st_running; cbn [t_st t_params set]; rewrite ?St; cbn [rank Nat.ltb Nat.leb].

Lemma raw_acct s l s1 os : inv s -> step_raw s l = Some (s1, os) -> acct s l os s1.
Proof.
  intros I H. destruct (frame_label l) eqn:Fl.
  { destruct (frame_view _ _ _ _ Fl H) as (T & Iq & R & C & Q).
    apply acct_quiet; auto; [destruct l; cbn in Fl; try discriminate; exact Logic.I|].
    intros p. rewrite T. split; auto. rewrite !budget_eq, T, Iq, R, C, chin_params_app, count_bytes_app.
    destruct l; cbn in Fl; try discriminate; cbn; try lia. rewrite app_nil_r. lia. }
  destruct l; try discriminate Fl; unfold step_raw in H.
  - (* LStart *)
    destruct (negb (running s) && (wg s =? 0)); [|discriminate]. injection H as <- <-.
    apply acct_quiet; [exact Logic.I|constructor|]. intros p. split; auto. rewrite !budget_eq. blia.
  - (* LGate *)
    destruct (find_idx _ 0 (tasks s)) as [k|] eqn:F; [|discriminate].
    destruct (nth_error (tasks s) k) as [t|] eqn:E; [|discriminate]. injection H as <- <-.
    apply find_idx_some in F as (x & Ex & Px & _). rewrite Nat.sub_0_r, E in Ex. injection Ex as <-.
    apply andb_true_iff in Px as [Pp Px]. apply beq_eq in Pp. destruct (t_st t) eqn:St; try discriminate.
    split; [exists (t_cancelled t); reflexivity|]. intros p.
    destruct (upd_acct p k (fun t0 => t0 <| t_st := TAtHandled o |>) _ _ E) as [C1 C2].
    rewrite budget_eq, (budget_eq p s). unfold set_task. cbn [tasks inq rd ch_in set].
    revert C1 C2. st_counts St. unfold cs, cg. cbn. rewrite Pp.
    destruct (beq p params); blia.
  - (* LRelRead *)
    destruct (rd s) as [| |f|] eqn:Rd; try discriminate. injection H as H.
    destruct f as [i|i|c].
    3:{ cbn in H. destruct (stop_locked c s) as [s0 os0] eqn:St. injection H as <- <-.
        destruct (stop_locked_view_all _ _ _ _ St) as (V & Rs & Cs & Alt).
        apply acct_quiet; [exact Logic.I| |].
        - destruct Alt as [[_ ->]|[-> _]]; repeat constructor.
        - intros p. destruct (V p) as [T1 T2]. cbn [tasks]. split; auto.
          rewrite !budget_eq. cbn [tasks inq rd ch_in set hold_params]. rewrite Cs, Rd.
          destruct Alt as [[-> _]|[_ ->]]; [blia|].
          pose proof (subl_count p _ _ (stop_queue_params (inq s))). blia. }
    all: destruct (running s) eqn:Rn;
      [ | cbn in H; rewrite Rn in H; cbn in H; injection H as <- <-;
          apply acct_quiet; [exact Logic.I|constructor|]; intros p; split; auto;
          rewrite !budget_eq; cbn [tasks inq rd ch_in set hold_params]; rewrite Rd; blia ].
    all: match type of H with read_cs ?f _ = _ =>
           assert (Hf : f = FMsg i \/ f = FMsgEOF i) by auto;
           destruct (read_cs_msg _ _ _ _ _ Hf Rn H) as (C0 & R1 & _);
           pose proof (read_cs_inq _ _ _ _ _ Hf Rn H) as Iq;
           destruct (read_cs_view _ _ _ _ _ Hf Rn H) as (Ci & Q) end.
    all: unfold core0 in C0; injection C0 as T _ _ _ _ _ _ _ _.
    all: apply acct_quiet; [exact Logic.I|exact Q|]; intros p; rewrite T; split; auto.
    all: rewrite !budget_eq, T, Iq, R1, Ci, Rd, qparams_app, count_bytes_app; cbn [hold_params label_params].
    all: rewrite ?feed_params_eof; pose proof (acc_msg_params p s i); cbn [count_bytes]; lia.
  - (* LRelNext *)
    destruct (dp s); try discriminate. injection H as <- <-.
    apply acct_quiet; [exact Logic.I|constructor|]. intros p.
    destruct (dequeue_counts p s) as (D1 & D2 & _). split; auto. blia.
  - (* LRelBarrier *)
    destruct (dp s); try discriminate. injection H as <- <-.
    apply acct_quiet; [exact Logic.I|constructor|]. intros p. split; auto. rewrite !budget_eq. blia.
  - (* LRelAcquire *)
    destruct (nth_error (tasks s) k) as [t|] eqn:E; [|discriminate].
    destruct (t_st t) eqn:St; try discriminate.
    destruct (negb (unit_running s t)); [discriminate|].
    assert (X : forall x os0 s0, tasks s0 = upd_nth k (fun t => t <| t_st := x |>) (tasks s) -> pend_same s s0 ->
              gates os0 = [] ->
              (forall p, cs p os0 = b2n (beq p (t_params t) && match x with TRunning => true | _ => false end)) ->
              acct s (LRelAcquire k) os0 s0).
    { intros x os0 s0 T0 (I0 & R0 & C0) G0 S0. split; [exact G0|]. intros p.
      destruct (upd_acct p k (fun t0 => t0 <| t_st := x |>) _ _ E) as [C1 C2].
      rewrite budget_eq, (budget_eq p s), T0, I0, R0, C0, (S0 p). unfold cg. rewrite G0.
      revert C1 C2. st_counts St. destruct (beq p (t_params t)); destruct x; blia. }
    destruct (t_cancelled t); [injection H as <- <-; eapply X; try reflexivity; [repeat split|]; intros p;
                                 rewrite andb_false_r; reflexivity|].
    destruct (sem_free s); [injection H as <- <-; eapply X; try reflexivity; [repeat split|]; intros p;
                              rewrite andb_false_r; reflexivity|].
    destruct (sem_wait s); [|injection H as <- <-; eapply X; try reflexivity; [repeat split|]; intros p;
                              rewrite andb_false_r; reflexivity].
    destruct (t_builtin t) eqn:B; injection H as <- <-; eapply X; try reflexivity; try (repeat split; fail); intros p.
    + rewrite andb_false_r; reflexivity.
    + unfold cs. cbn. rewrite andb_true_r. destruct (beq p (t_params t)); reflexivity.
  - (* LRelHandled *)
    destruct (nth_error (tasks s) k) as [t|] eqn:E; [|discriminate].
    destruct (t_st t) eqn:St; try discriminate.
    set (s0 := set_task k (fun t => t <| t_st := TDone (body_of_outcome t o) |>) s <| sem_free ::= S |>) in *.
    assert (W0 : wait_ok s0).
    { unfold wait_ok, s0; cbn. apply wait_ok_upd; [apply I|]. eapply wait_not_in; eauto; [apply I|congruence]. }
    pose proof (grant_counts (S (length (sem_wait s0))) s0 W0) as G.
    destruct (grant (S (length (sem_wait s0))) s0 []) as [s2 os2]. cbn [fst snd] in G.
    destruct G as (_ & (I2 & R2 & C2) & G2 & A2).
    assert (Y : forall s3 os3, tasks s3 = tasks s2 -> pend_same s2 s3 -> (os3 = os2 \/ exists cr, os3 = os2 ++ [OCrash cr]) ->
              acct s (LRelHandled k) os3 s3).
    { intros s3 os3 T3 (I3 & R3 & C3) Ho.
      assert (Go : gates os3 = gates os2 /\ forall p, cs p os3 = cs p os2).
      { destruct Ho as [->|(cr & ->)]; [auto|]. rewrite gates_app. cbn. rewrite app_nil_r. split; auto.
        intros p. rewrite cs_app. blia. }
      destruct Go as [Go1 Go2]. split; [cbn; congruence|]. intros p. rewrite Go2. unfold cg. rewrite Go1, G2.
      destruct (A2 p) as [A3 A4].
      destruct (upd_acct p k (fun t0 => t0 <| t_st := TDone (body_of_outcome t0 o) |>) _ _ E) as [C4 C5].
      rewrite budget_eq, (budget_eq p s), T3, I3, R3, C3, I2, R2, C2.
      change (tasks s0) with (upd_nth k (fun t0 => t0 <| t_st := TDone (body_of_outcome t0 o) |>) (tasks s)) in A3, A4.
      change (inq s0) with (inq s). change (rd s0) with (rd s). change (ch_in s0) with (ch_in s).
      revert C4 C5. st_counts St. rewrite !andb_false_r. blia. }
    destruct (is_note t); [destruct (nbar s2)|]; injection H as <- <-; apply Y; auto; try (repeat split; fail).
    right. eexists; reflexivity.
  - (* LRelDeliver *)
    destruct (nth_error (units s) u) as [un|] eqn:E; [|discriminate].
    destruct (u_st un) eqn:Su; try discriminate.
    assert (X : forall p, squiet p s (release_ids (unit_tasks s u) s)) by (intros p; apply release_ids_squiet).
    destruct (u_chok un); cbn in H; injection H as <- <-; (apply acct_quiet; [exact Logic.I|repeat constructor|]);
      intros p; destruct (squiet_budget _ _ _ (X p)) as [B1 B2]; split; auto;
      rewrite budget_eq in *; cbn [tasks inq rd ch_in set set_unit]; blia.
  - (* LRelStop *)
    destruct (find_op n (ops s)) as [[n0|n0 id|n0 w m p]|]; try discriminate.
    destruct (stop_locked SCStop (s <| ops ::= del_op n |>)) as [s0 os0] eqn:St. injection H as <- <-.
    destruct (stop_locked_view_all _ _ _ _ St) as (V & Rs & Cs & Alt). cbn [tasks rd ch_in inq set] in *.
    apply acct_quiet; [exact Logic.I| |].
    + apply Forall_app. split; [|repeat constructor]. destruct Alt as [[_ ->]|[-> _]]; repeat constructor.
    + intros p. destruct (V p) as [T1 T2]. split; auto.
      rewrite !budget_eq. rewrite Cs, Rs.
      destruct Alt as [[-> _]|[_ ->]]; [blia|].
      pose proof (subl_count p _ _ (stop_queue_params (inq s))). blia.
  - (* LRelCancel *)
    destruct (find_op n (ops s)) as [[n0|n0 id|n0 w m p]|]; try discriminate.
    injection H as <- <-. apply acct_quiet; [exact Logic.I|repeat constructor|]. intros p.
    destruct (assoc id _) as [owner|].
    + pose proof (cancel_task_squiet p owner (s <| ops ::= del_op n |>)) as X.
      destruct (squiet_budget _ _ _ X) as [B1 B2]. rewrite !budget_eq in *. cbn [tasks inq rd ch_in set] in *.
      split; auto. blia.
    + split; auto. rewrite !budget_eq. blia.
Qed.

(** ** the unhooked consequences *)
Lemma settle1_acct s s' os : settle1 s = Some (s', os) ->
  Forall quiet_obs os /\ forall p, crun p (tasks s') = crun p (tasks s) /\ budget p s' <= budget p s.
Proof.
  intros H. split; [apply settle_obs_quiet; eapply settle1_obs; eauto|].
  apply settle1_inv in H. intros p.
  destruct H; try (split; [reflexivity|rewrite !budget_eq; blia]).
  - split; [reflexivity|]. rewrite !budget_eq. cbn [tasks inq rd ch_in set hold_params]. rewrite H, H0.
    unfold chin_params. cbn [flat_map]. rewrite count_bytes_app. cbn. lia.
  - destruct (dequeue_counts p s) as (D1 & D2 & _). auto.
Qed.

Lemma settle_acct : forall fuel s acc s' os, settle fuel s acc = (s', os) ->
  exists extra, os = acc ++ extra /\ Forall quiet_obs extra /\
    forall p, crun p (tasks s') = crun p (tasks s) /\ budget p s' <= budget p s.
Proof.
  induction fuel as [|f IH]; cbn; intros s acc s' os H.
  - injection H as <- <-. exists []. rewrite app_nil_r. repeat split; auto.
  - destruct (settle1 s) as [[s1 os1]|] eqn:E.
    + destruct (IH _ _ _ _ H) as (ex & -> & F & A). destruct (settle1_acct _ _ _ E) as [Q1 A1].
      exists (os1 ++ ex). rewrite app_assoc. split; auto. split; [apply Forall_app; auto|].
      intros p. destruct (A p), (A1 p). split; [congruence|lia].
    + injection H as <- <-. exists []. rewrite app_nil_r. repeat split; auto.
Qed.

(** ** one window *)
Definition window_shape (l : label) (os : list obs) : Prop :=
  match l with
  | LGate p _ => exists c extra, os = OGate p c :: extra /\ Forall quiet_obs extra
  | _ => gates os = []
  end.

Lemma step_acct c s l s' os : reachf c s -> step s l = Some (s', os) ->
  window_shape l os /\
  forall p, cs p os + crun p (tasks s) = cg p os + crun p (tasks s') /\
            cs p os + budget p s' <= budget p s + count_bytes p (label_params l).
Proof.
  intros R H. pose proof (reachf_inv _ _ R) as I.
  apply step_decompose in H as (_ & s1 & os1 & Hr & Hs).
  destruct (raw_acct _ _ _ _ I Hr) as [Sh A].
  destruct Hs as [(_ & -> & ->)|(_ & Hs)].
  - split; auto. destruct l; cbn in *; auto. destruct Sh as (cn & ->). exists cn, []. auto.
  - apply settle_acct in Hs as (extra & -> & Q & B). split.
    + destruct l; cbn in *; try (rewrite gates_app, Sh, (quiet_gates _ Q); reflexivity).
      destruct Sh as (cn & ->). exists cn, extra. split; auto.
    + intros p. destruct (A p) as [A1 A2]. destruct (B p) as [B1 B2].
      destruct (quiet_counts p extra Q) as [Q1 Q2]. rewrite cs_app, cg_app, Q1, Q2, B1. split; lia.
Qed.

(** ** whole runs *)
Lemma fed_params_env tr : fed_params (env_of tr) = flat_map label_params tr.
Proof.
  induction tr as [|l tr IH]; auto. unfold env_of, fed_params in *. cbn [filter flat_map].
  destruct l; cbn [is_env flat_map label_params app]; rewrite IH; reflexivity.
Qed.

Lemma run_acct c : forall tr s s' oss, reachf c s -> run s tr = Some (s', oss) ->
  forall p, cs p (concat oss) + crun p (tasks s) = cg p (concat oss) + crun p (tasks s') /\
            cs p (concat oss) + budget p s' <= budget p s + count_bytes p (flat_map label_params tr).
Proof.
  induction tr as [|l r IH]; cbn [run]; intros s s' oss R H p.
  - injection H as <- <-. cbn. split; lia.
  - destruct (step s l) as [[s1 os]|] eqn:E; [|discriminate].
    destruct (run s1 r) as [[s2 oss2]|] eqn:E2; [|discriminate]. injection H as <- <-.
    destruct (step_acct _ _ _ _ _ R E) as [_ A]. destruct (A p) as [A1 A2].
    destruct (IH _ _ _ (step_reachf _ _ _ _ _ R E) E2 p) as [B1 B2].
    cbn [concat flat_map]. rewrite cs_app, cg_app, count_bytes_app. split; lia.
Qed.

Lemma budget_init c p : budget p (init_of c) = 0.
Proof. reflexivity. Qed.

(** * Soundness *)
(* (a) no hypothesis: handler entries for params p never outnumber the fed members with params p *)
Theorem start_count_le_fed c tr s oss p : run (init_of c) tr = Some (s, oss) ->
  count_bytes p (starts (concat oss)) <= count_bytes p (fed_params (env_of tr)).
Proof.
  intros H. destruct (run_acct c _ _ _ _ (rf_init c) H p) as [_ B]. rewrite budget_init in B.
  rewrite fed_params_env. unfold cs in B. lia.
Qed.

Theorem mon_start_once_sound c tr s oss : run (init_of c) tr = Some (s, oss) ->
  mon_start_once (env_of tr) (concat oss) = true.
Proof.
  intros H. unfold mon_start_once. apply forallb_forall. intros p _. apply Nat.leb_le.
  eapply start_count_le_fed; eauto.
Qed.

(* with the harness's unique tokens: no token starts its handler twice *)
Theorem mon_start_distinct_sound c tr s oss : run (init_of c) tr = Some (s, oss) ->
  unique_params (env_of tr) = true -> mon_start_distinct (env_of tr) (concat oss) = true.
Proof.
  intros H U. unfold mon_start_distinct. apply nodupb_count. intros p.
  pose proof (start_count_le_fed c tr s oss p H). unfold unique_params in U.
  pose proof (proj1 (nodupb_count _) U p). lia.
Qed.

(* the distinctness monitor is implied by the counting one on any pair of sequences *)
Lemma mon_start_once_distinct env os : unique_params env = true -> mon_start_once env os = true ->
  mon_start_distinct env os = true.
Proof.
  intros U M. unfold mon_start_distinct. apply nodupb_count. intros p.
  destruct (count_bytes p (starts os)) as [|n] eqn:E; [lia|].
  assert (I : In p (starts os)) by (apply count_bytes_in; lia).
  unfold mon_start_once in M. rewrite forallb_forall in M. specialize (M _ I). apply Nat.leb_le in M.
  pose proof (proj1 (nodupb_count _) U p). lia.
Qed.

(* (b) *)
Lemma gate_scan_run c : forall tr s s' oss seen, reachf c s ->
  (forall p, cs p seen = cg p seen + crun p (tasks s)) -> run s tr = Some (s', oss) ->
  gate_scan seen (concat oss) = true.
Proof.
  induction tr as [|l r IH]; cbn [run]; intros s s' oss seen R Inv H.
  - injection H as <- <-. reflexivity.
  - destruct (step s l) as [[s1 os]|] eqn:E; [|discriminate].
    destruct (run s1 r) as [[s2 oss2]|] eqn:E2; [|discriminate]. injection H as <- <-.
    destruct (step_acct _ _ _ _ _ R E) as [Sh A].
    cbn [concat]. rewrite gate_scan_app. apply andb_true_iff. split.
    + destruct l; cbn in Sh; try (apply gate_scan_quiet; exact Sh).
      destruct Sh as (cn & extra & -> & Qe). cbn [gate_scan].
      rewrite (gate_scan_quiet extra) by (apply quiet_gates; auto).
      rewrite andb_true_r. apply Nat.ltb_lt.
      destruct (A params) as [A1 _]. specialize (Inv params).
      rewrite cs_cons, cg_cons in A1. destruct (quiet_counts params extra Qe) as [Q1 Q2]. rewrite Q1, Q2 in A1.
      unfold cs, cg in *. cbn in A1. rewrite beq_refl in A1. lia.
    + eapply IH; [eapply step_reachf; eauto| |exact E2].
      intros p. destruct (A p) as [A1 _]. specialize (Inv p).
      rewrite cs_app, cg_app, cs_rev, cg_rev. lia.
Qed.

Theorem mon_gate_after_start_sound c tr s oss : run (init_of c) tr = Some (s, oss) ->
  mon_gate_after_start (env_of tr) (concat oss) = true.
Proof.
  intros H. unfold mon_gate_after_start. eapply (gate_scan_run c); [apply rf_init| |exact H].
  intros p. reflexivity.
Qed.

(** * Examples *)
(* two messages: a call with token "[]" and, after it, a notification with token "[1]"; both run and return *)
Definition ex_tr_mon : list label :=
  ex_tr_delivered ++
  [LFeed (FMsg (InMsgs false [ex_note [91;49;93]%N])); LRelRead; LRelNext; LRelBarrier; LRelAcquire 1;
   LGate [91;49;93]%N (ORes [50%N]); LRelHandled 1].

Example mon_start_once_nonvacuous :
  run (init_of ex_cfg) ex_tr_mon <> None /\
  unique_params (env_of ex_tr_mon) = true /\
  starts (concat (obs_of ex_cfg ex_tr_mon)) = [[91;93]%N; [91;49;93]%N] /\
  gates (concat (obs_of ex_cfg ex_tr_mon)) = [[91;93]%N; [91;49;93]%N] /\
  mon_start_once (env_of ex_tr_mon) (concat (obs_of ex_cfg ex_tr_mon)) = true /\
  mon_start_distinct (env_of ex_tr_mon) (concat (obs_of ex_cfg ex_tr_mon)) = true /\
  mon_gate_after_start (env_of ex_tr_mon) (concat (obs_of ex_cfg ex_tr_mon)) = true.
Proof. vm_compute. repeat split; auto. discriminate. Qed.

(* sensitivity: a token that starts twice although it was fed once; a return without (or before) its entry *)
Example mon_start_once_sensitive :
  mon_start_once (env_of ex_tr_mon) [OStart [91;93]%N false; OGate [91;93]%N false; OStart [91;93]%N false] = false /\
  mon_start_distinct (env_of ex_tr_mon) [OStart [91;93]%N false; OGate [91;93]%N false; OStart [91;93]%N false] = false /\
  mon_start_once [LStart] [OStart [91;93]%N false] = false.
Proof. vm_compute. repeat split; reflexivity. Qed.

Example mon_gate_after_start_sensitive :
  mon_gate_after_start [] [OGate [91;93]%N false; OStart [91;93]%N false] = false /\
  mon_gate_after_start [] [OStart [91;93]%N false; OGate [91;93]%N false; OGate [91;93]%N false] = false /\
  mon_gate_after_start [] [OStart [91;93]%N false; OGate [91;49;93]%N false] = false.
Proof. vm_compute. repeat split; reflexivity. Qed.
