(* SrvMonDup: soundness of [mon_duplicate] (srv/SrvMonitors2.v) for every run of the server model.

   A reply with an id i other than null and the body (-32600, "duplicate request ID") comes from a task with id i
   whose body is that error.  The body of a task is (1) the error recorded for it when it was dequeued, or (2) the
   cancellation error, or (3) the outcome of its handler (C01: c01_task_life).  (3) is that error only if the
   environment returned it (an excuse); (1) is that error only if the member carried it as its recorded parse error
   (an excuse) or if checkAndAssign found the id reserved or repeated in the batch.  At that moment (a dequeue, in a
   critical section or in a wake-up) the accounting of SrvMonReply - replies sent + tasks of unfinished units +
   members on the inbound path, per id, never exceed the members fed - shows that two members with the id had been
   fed: the member itself is still on the inbound path, and either a second one is in the same batch, or the task
   holding the reservation belongs to an unfinished unit (C07: inv_used). *)
From Coq Require Import List NArith ZArith Bool Arith Lia.
From RecordUpdate Require Import RecordUpdate.
From JV Require Import Bytes Msg SrvModel SrvLemmas SrvBasics SrvC01 SrvHist SrvMonitors SrvMonBarrier SrvMonReply
  SrvMonitors2.
From JV Require SrvC01b SrvC07.
Import ListNotations.

(** * the invariant *)
Definition dup_pre (t : task) : bool := match t_pre t with Some e => is_dup_err (fst e) (snd e) | None => false end.
Definition clean_msgs (s : state) : Prop := forall m, In m (pend_msgs s) -> msg_excuse m = false.
(* [F i] = members with id i fed so far *)
Definition dup_wit (F : bytes -> nat) (s : state) : Prop :=
  forall k t, nth_error (tasks s) k = Some t -> dup_pre t = true -> t_id t = null_bytes \/ 2 <= F (t_id t).
Definition acc_ok (F : bytes -> nat) (s : state) : Prop := forall i, i <> null_bytes -> pendt i s + pendq i s <= F i.
Record J (c : config) (F : bytes -> nat) (s : state) : Prop := {
  j_reach : reachf c s;
  j_acc : acc_ok F s;
  j_clean : clean_msgs s;
  j_wit : dup_wit F s
}.

Lemma dup_wit_mono F G s : (forall i, F i <= G i) -> dup_wit F s -> dup_wit G s.
Proof. intros L W k t E D. destruct (W k t E D) as [N|N]; [left; exact N|right]. specialize (L (t_id t)). lia. Qed.

Lemma countb_pos {A} (p : A -> bool) l x : In x l -> p x = true -> 1 <= countb p l.
Proof.
  induction l as [|y l IH]; cbn; [tauto|]. intros [->|I] P; [rewrite P; lia|]. specialize (IH I P). lia.
Qed.

Lemma task_le_dup t t' : task_le t t' -> dup_pre t' = dup_pre t /\ t_id t' = t_id t.
Proof. intros Le. destruct Le. unfold dup_pre. rewrite tl_pre. auto. Qed.

(** * checkAndAssign *)
Lemma err_empty_method_clean : is_dup_err (fst err_empty_method) (snd err_empty_method) = false.
Proof. vm_compute. reflexivity. Qed.
Lemma err_not_found_clean : is_dup_err (fst err_not_found) (snd err_not_found) = false.
Proof. vm_compute. reflexivity. Qed.

Lemma mk_task_dup_pre s u ids m : dup_pre (mk_task s u ids m) = true ->
  msg_excuse m = true \/ assoc (fix_id (j_id m)) (used s) <> None \/ 1 < count_bytes (fix_id (j_id m)) ids.
Proof.
  unfold mk_task. destruct (pre_err s ids m) as [e|] eqn:Pe.
  - unfold dup_pre. cbn [t_pre]. intros D. unfold pre_err in Pe. cbv zeta in Pe.
    match type of Pe with (if ?cnd then _ else _) = _ => destruct cnd eqn:C end.
    + right. apply andb_true_iff in C as [_ C]. apply orb_true_iff in C as [C|C].
      * left. destruct (assoc (fix_id (j_id m)) (used s)); [intros X; discriminate X|discriminate C].
      * right. apply Nat.ltb_lt. exact C.
    + left. unfold msg_excuse. destruct (j_err m) as [e0|]; [|discriminate Pe]. injection Pe as <-. exact D.
  - unfold dup_pre. destruct (is_nil (j_method m)).
    + cbn [t_pre]. rewrite err_empty_method_clean. intros D. discriminate D.
    + destruct (assign_method s (j_method m)); cbn [t_pre]; [intros D; discriminate D|].
      rewrite err_not_found_clean. intros D. discriminate D.
Qed.

Lemma dequeue_wit F s : inv s -> SrvC07.inv_used s -> acc_ok F s -> clean_msgs s -> dup_wit F s -> dup_wit F (dequeue s).
Proof.
  intros I Iu A Cl W. unfold dequeue. destruct (inq s) as [|[b ms] q] eqn:Q.
  - destruct (running s); intros k t E D; exact (W k t E D).
  - intros k t E D. cbn [tasks set] in E.
    destruct (Nat.lt_ge_cases k (length (tasks s))) as [Lt|Ge].
    + rewrite nth_error_app1 in E by exact Lt. eapply W; eauto.
    + rewrite nth_error_app2 in E by exact Ge. apply nth_error_In, in_map_iff in E as (m & <- & Im).
      rewrite mk_task_id.
      assert (Pm : pend_msgs s = ms ++ (qmsgs q ++ hold_msgs (rd s) ++ chin_msgs (ch_in s))).
      { unfold pend_msgs. rewrite Q. change (qmsgs ((b, ms) :: q)) with (ms ++ qmsgs q). rewrite <- app_assoc. reflexivity. }
      destruct (mk_task_dup_pre _ _ _ _ D) as [X|X].
      * rewrite (Cl m) in X; [discriminate X|]. rewrite Pm. apply in_or_app. left. exact Im.
      * destruct (beq_spec (fix_id (j_id m)) null_bytes) as [En|Nn]; [left; exact En|right].
        specialize (A _ Nn). unfold pendq in A. rewrite Pm, map_app, count_bytes_app in A.
        assert (C1 : 1 <= count_bytes (fix_id (j_id m)) (map idk ms)).
        { apply count_bytes_in. apply in_map_iff. exists m. split; auto. }
        destruct X as [X|X].
        -- destruct (assoc (fix_id (j_id m)) (used s)) as [k0|] eqn:As; [|congruence].
           apply assoc_in in As. destruct (SrvC07.iu_in _ Iu _ _ As) as (t0 & E0 & Ei & _ & _ & un & Eu & Su).
           assert (C2 : 1 <= pendt (fix_id (j_id m)) s).
           { unfold pendt. apply (countb_pos _ _ t0); [eapply nth_error_In; eauto|].
             unfold ptask. rewrite Ei, beq_refl. unfold ufin. rewrite Eu. destruct (u_st un); auto; congruence. }
           lia.
        -- change (map (fun m0 : jmsg => fix_id (j_id m0)) ms) with (map idk ms) in X. lia.
Qed.

(** * one critical section, one wake-up *)
Lemma raw_J c F G s l s1 os : J c F s -> crash s = None -> step_raw s l = Some (s1, os) -> label_excuse l = false ->
  (forall i, G i = F i + lab_ids i l) -> J c G s1.
Proof.
  intros [R A Cl W] Cr H Ex EG. pose proof (reachf_inv _ _ R) as I.
  assert (FG : forall i, F i <= G i) by (intros i; rewrite EG; lia).
  constructor.
  - eapply rf_raw; eauto.
  - intros i Ni. rewrite EG. pose proof (raw_reply i _ _ _ _ I H Ni). specialize (A i Ni). lia.
  - intros m Hm. apply (subl_in _ _ _ (raw_pendq _ _ _ _ I H)) in Hm. apply in_app_or in Hm as [Hm|Hm]; [auto|].
    destruct l; cbn [label_msgs] in Hm; try contradiction. cbn [label_excuse] in Ex.
    apply not_true_is_false. intros Me.
    assert (T : existsb msg_excuse (feed_msgs f) = true) by (apply existsb_exists; eauto). congruence.
  - assert (Same : length (tasks s1) = length (tasks s) -> dup_wit G s1).
    { intros L k t' E D. destruct (raw_step_ok _ _ _ _ I H) as [_ [X _]].
      destruct (SrvC07.back_task s s1 k t' X L E) as (t & Et & Le). destruct (task_le_dup _ _ Le) as [Ed Ei].
      rewrite Ed in D. rewrite Ei. exact (dup_wit_mono F G s FG W k t Et D). }
    destruct (raw_shape_ok _ _ _ _ I H) as [U L| -> |u un _ _ _ U L]; auto.
    apply (dup_wit_mono F G); auto. apply dequeue_wit; auto. eapply SrvC07.reachf_inv_used; eauto.
Qed.

Lemma settle1_pend s s' os : settle1 s = Some (s', os) -> forall m, In m (pend_msgs s') -> In m (pend_msgs s).
Proof.
  intros H. apply settle1_inv in H. destruct H as [f q Hrd Hch|Hdp Hc|u un H1 H2 H3|i un H1 H2 H3|i un H1 H2 H3|H1 H2 H3|H1 H2 H3];
    try (intros m Hm; exact Hm).
  - intros m. unfold pend_msgs. cbn [inq rd ch_in set hold_msgs]. rewrite Hrd, Hch.
    cbn [hold_msgs chin_msgs flat_map]. rewrite !in_app_iff. tauto.
  - intros m. destruct (dequeue_counts [] s) as (_ & _ & R & C). unfold pend_msgs. rewrite R, C, !in_app_iff.
    intros [Hm|Hm]; [left|right; exact Hm]. unfold dequeue in Hm.
    destruct (inq s) as [|[b ms] q] eqn:Q; [destruct (running s); cbn [inq set] in Hm; rewrite Q in Hm; exact Hm|].
    cbn [inq set] in Hm. change (qmsgs ((b, ms) :: q)) with (ms ++ qmsgs q). apply in_or_app. right. exact Hm.
Qed.

Lemma settle1_J c F s s1 os : J c F s -> settle1 s = Some (s1, os) -> J c F s1.
Proof.
  intros [R A Cl W] H. pose proof (reachf_inv _ _ R) as I. constructor.
  - eapply rf_settle; eauto.
  - intros i Ni. destruct (settle1_reply i _ _ _ I H) as [_ B]. specialize (A i Ni). lia.
  - intros m Hm. apply Cl. eapply settle1_pend; eauto.
  - pose proof (settle1_inv _ _ _ H) as Sp.
    destruct Sp as [f q Hrd Hch|Hdp Hc|u un H1 H2 H3|i un H1 H2 H3|i un H1 H2 H3|H1 H2 H3|H1 H2 H3];
      try (intros k t E D; exact (W k t E D)).
    apply dequeue_wit; auto. eapply SrvC07.reachf_inv_used; eauto.
Qed.

Lemma settle_J c F : forall fuel s acc s' os, J c F s -> settle fuel s acc = (s', os) -> J c F s'.
Proof.
  induction fuel as [|f IH]; cbn; intros s acc s' os Js H.
  - injection H as <- _. exact Js.
  - destruct (settle1 s) as [[s1 os1]|] eqn:E.
    + eapply IH; [|exact H]. eapply settle1_J; eauto.
    + injection H as <- _. exact Js.
Qed.

(** * replies with the duplicate-id error *)
Lemma dup_ids_app a b : dup_ids (a ++ b) = dup_ids a ++ dup_ids b.
Proof. apply flat_map_app. Qed.

Lemma settle_obs_no_dup extra : Forall settle_obs extra -> dup_ids extra = [].
Proof.
  induction 1 as [|o l H _ IH]; auto. change (dup_ids (o :: l)) with (dup_ids_of o ++ dup_ids l). rewrite IH.
  destruct o; cbn [settle_obs] in H; try contradiction; reflexivity.
Qed.

Lemma in_dup_ids i os : In i (dup_ids os) ->
  exists ok b rs r, In (OSend ok b rs) os /\ In r rs /\ is_dup_body (r_body r) = true /\ r_id r = i.
Proof.
  unfold dup_ids. intros H. apply in_flat_map in H as (o & Ho & Hi). destruct o; cbn [dup_ids_of] in Hi; try contradiction.
  apply in_map_iff in Hi as (r & Er & Hr). apply filter_In in Hr as [Hr Db]. exists ok, batch, rs, r. auto.
Qed.

Lemma responses_in' ts r : In r (responses ts) -> exists t, In t ts /\ response_of t = Some r.
Proof.
  induction ts as [|t ts IH]; cbn [responses]; [intros []|]. destruct (response_of t) as [x|] eqn:E.
  - intros [<-|H]; [exists t; split; [left; auto|auto]|]. destruct (IH H) as (t0 & I0 & E0). exists t0. split; [right; auto|auto].
  - intros H. destruct (IH H) as (t0 & I0 & E0). exists t0. split; [right; auto|auto].
Qed.

(* bodies of finished tasks are clean when the environment never produced the error value *)
Definition clean_done (s : state) : Prop :=
  forall k t b, nth_error (tasks s) k = Some t -> t_st t = TDone (Some b) -> is_dup_body b = false.

Lemma raw_dup_ids F s l s1 os : inv s -> clean_done s -> dup_wit F s -> step_raw s l = Some (s1, os) ->
  forall i, In i (dup_ids os) -> i = null_bytes \/ 2 <= F i.
Proof.
  intros I Cd W H i Hi. apply in_dup_ids in Hi as (ok & b & rs & r & Ho & Hr & Db & <-).
  pose proof (raw_obs _ _ _ _ _ I H Ho) as O. cbn in O.
  destruct O as [(u & un & _ & _ & _ & _ & -> & _)|(_ & _ & _ & i0 & _ & [(_ & ->)|(bb & _ & ->)])].
  2,3: destruct Hr as [<-|[]]; left; reflexivity.
  apply responses_in' in Hr as (t & It & Er). unfold unit_tasks in It. apply filter_In in It as [It _].
  apply In_nth_error in It as [k Ek]. unfold response_of in Er. destruct (is_note t).
  - left. destruct (t_pre t) as [[cc mm]|]; [|discriminate Er].
    destruct ((cc =? ParseError)%Z || (cc =? InvalidRequest)%Z); [|discriminate Er]. injection Er as <-. reflexivity.
  - injection Er as <-. cbn [r_id r_body] in *. unfold task_body in Db.
    destruct (t_pre t) as [[cc mm]|] eqn:Pt.
    + apply (W k t Ek). unfold dup_pre. rewrite Pt. exact Db.
    + destruct (t_st t) as [| | | | |[b0|]] eqn:St; try discriminate Db.
      rewrite (Cd k t b0 Ek St) in Db. discriminate Db.
Qed.

(** * windows *)
Lemma step_J c F G s l s' os : J c F s -> step s l = Some (s', os) -> label_excuse l = false ->
  (forall i, G i = F i + lab_ids i l) ->
  J c G s' /\ (clean_done s -> forall i, In i (dup_ids os) -> i = null_bytes \/ 2 <= F i).
Proof.
  intros Js H Ex EG. apply step_decompose in H as (Cr & s1 & os1 & Hr & Hs).
  pose proof (raw_J c F G _ _ _ _ Js Cr Hr Ex EG) as J1.
  assert (D1 : clean_done s -> forall i, In i (dup_ids os1) -> i = null_bytes \/ 2 <= F i).
  { intros Cd. eapply raw_dup_ids; eauto; [eapply reachf_inv; apply Js|apply Js]. }
  destruct Hs as [(_ & -> & ->)|(_ & Hs)]; [split; auto|].
  split; [eapply settle_J; eauto|].
  destruct (settle_obs_app _ _ _ _ _ Hs) as (ex & -> & Fx). rewrite dup_ids_app, (settle_obs_no_dup _ Fx), app_nil_r. exact D1.
Qed.

(** * the handler outcomes of a run *)
Lemma gate_log_in k : forall tr s o, In o (SrvC01b.gate_log k s tr) -> exists p, In (LGate p o) tr.
Proof.
  induction tr as [|l r IH]; cbn [SrvC01b.gate_log]; intros s o H; [destruct H|].
  destruct (step s l) as [[s1 os]|]; [|destruct H]. apply in_app_or in H as [H|H].
  - destruct l; cbn [SrvC01b.gate_of] in H; try contradiction.
    destruct (SrvC01b.gate_idx s params) as [j|]; [|contradiction].
    destruct (j =? k); [|contradiction]. destruct H as [<-|[]]. exists params. left. reflexivity.
  - destruct (IH _ _ H) as (p & Hp). exists p. right. exact Hp.
Qed.

Definition no_excuse (tr : list label) : Prop := forall l, In l tr -> label_excuse l = false.

Lemma cancel_err_clean : is_dup_body cancel_err = false.
Proof. vm_compute. reflexivity. Qed.

Lemma run_clean_done c tr s oss : run (init_of c) tr = Some (s, oss) -> no_excuse tr -> clean_done s.
Proof.
  intros H Ne k t b E St. pose proof (SrvC01b.c01_task_life c tr s oss k t H E) as L.
  unfold SrvC01b.lifet in L. rewrite St in L.
  destruct L as [(_ & _ & [Eb|(Bi & Eb)])|(_ & Bi & o & G & Eb)].
  - injection Eb as ->. apply cancel_err_clean.
  - unfold body_of_outcome in Eb. destruct (is_note t); [discriminate Eb|]. rewrite Bi in Eb. injection Eb as ->. reflexivity.
  - assert (Io : In o (SrvC01b.gate_log k (init_of c) tr)) by (rewrite G; left; reflexivity).
    apply gate_log_in in Io as (p & Ip). specialize (Ne _ Ip). cbn [label_excuse] in Ne.
    unfold body_of_outcome in Eb. destruct (is_note t); [discriminate Eb|]. rewrite Bi in Eb.
    destruct o as [raw|cc mm]; injection Eb as ->; [reflexivity|exact Ne].
Qed.

(** * runs *)
Definition fed_count (tr : list label) (i : bytes) : nat := count_bytes i (map idk (flat_map label_msgs tr)).

Lemma fed_count_snoc tr l i : fed_count (tr ++ [l]) i = fed_count tr i + lab_ids i l.
Proof.
  unfold fed_count, lab_ids. rewrite flat_map_app, map_app, count_bytes_app. cbn [flat_map]. rewrite app_nil_r. reflexivity.
Qed.

Lemma fed_count_app tr r i : fed_count tr i <= fed_count (tr ++ r) i.
Proof. unfold fed_count. rewrite flat_map_app, map_app, count_bytes_app. lia. Qed.

Lemma run_dup c : forall tr2 tr1 s1 oss1 s oss, run (init_of c) tr1 = Some (s1, oss1) -> J c (fed_count tr1) s1 ->
  no_excuse (tr1 ++ tr2) -> run s1 tr2 = Some (s, oss) ->
  forall i, In i (dup_ids (concat oss)) -> i = null_bytes \/ 2 <= fed_count (tr1 ++ tr2) i.
Proof.
  induction tr2 as [|l r IH]; cbn [run]; intros tr1 s1 oss1 s oss H1 Js Ne H i Hi.
  - injection H as <- <-. destruct Hi.
  - destruct (step s1 l) as [[sa os]|] eqn:E; [|discriminate].
    destruct (run sa r) as [[sb ossb]|] eqn:E2; [|discriminate]. injection H as <- <-.
    assert (Nl : label_excuse l = false) by (apply Ne; apply in_or_app; right; left; reflexivity).
    destruct (step_J c (fed_count tr1) (fed_count (tr1 ++ [l])) _ _ _ _ Js E Nl (fed_count_snoc tr1 l)) as [Ja Da].
    cbn [concat] in Hi. rewrite dup_ids_app in Hi. apply in_app_or in Hi as [Hi|Hi].
    + assert (Cd : clean_done s1).
      { eapply run_clean_done; [exact H1|]. intros l0 I0. apply Ne. apply in_or_app. left. exact I0. }
      destruct (Da Cd i Hi) as [N|N]; [left; exact N|right]. pose proof (fed_count_app tr1 (l :: r) i). lia.
    + assert (H1' : run (init_of c) (tr1 ++ [l]) = Some (sa, oss1 ++ [os])).
      { eapply run_app_fwd; [exact H1|]. cbn [run]. rewrite E. reflexivity. }
      replace (tr1 ++ l :: r) with ((tr1 ++ [l]) ++ r) in * by (rewrite <- app_assoc; reflexivity).
      eapply IH; eauto.
Qed.

Lemma J_init c : J c (fed_count []) (init_of c).
Proof.
  constructor.
  - apply rf_init.
  - intros i _. cbn. lia.
  - intros m [].
  - intros k t E. destruct k; discriminate E.
Qed.

(** * Soundness *)
Theorem dup_reply_fed_twice c tr s oss i : run (init_of c) tr = Some (s, oss) ->
  existsb label_excuse (env_of tr) = false -> In i (dup_ids (concat oss)) ->
  i = null_bytes \/ 2 <= count_bytes i (fed_ids (env_of tr)).
Proof.
  intros H Ex Hi. rewrite fed_ids_env.
  apply (run_dup c tr [] (init_of c) [] s oss eq_refl (J_init c)); auto.
  cbn [app]. intros l Il. apply not_true_is_false. intros El.
  assert (T : existsb label_excuse (env_of tr) = true); [|congruence].
  apply existsb_exists. exists l. split; auto. unfold env_of. apply filter_In. split; auto.
  destruct l; cbn in El; try discriminate El; reflexivity.
Qed.

Theorem mon_duplicate_sound c tr s oss : run (init_of c) tr = Some (s, oss) ->
  mon_duplicate (env_of tr) (concat oss) = true.
Proof.
  intros H. unfold mon_duplicate. destruct (existsb label_excuse (env_of tr)) eqn:Ex; [reflexivity|]. cbn [orb].
  apply forallb_forall. intros i Hi. destruct (dup_reply_fed_twice c tr s oss i H Ex Hi) as [->|L].
  - rewrite beq_refl. reflexivity.
  - apply orb_true_iff. right. apply Nat.leb_le. exact L.
Qed.

(** * The condition on the environment is needed: a handler may return the very error value; the reply then carries
    it although the id was received once.  (The Go server behaves the same: the handler's *jrpc2.Error is sent as is.) *)
Definition ex_tr_handler_dup : list label :=
  ex_tr_running ++ [LGate [91;93]%N (OErr InvalidRequest s_dup); LRelHandled 0; LRelDeliver 0].

Lemma dup_reply_fed_twice_unconditional_refuted :
  exists tr s oss i, run (init_of ex_cfg) tr = Some (s, oss) /\ In i (dup_ids (concat oss)) /\ i <> null_bytes /\
    count_bytes i (fed_ids (env_of tr)) = 1 /\ existsb label_excuse (env_of tr) = true.
Proof.
  exists ex_tr_handler_dup, (st_of ex_cfg ex_tr_handler_dup), (obs_of ex_cfg ex_tr_handler_dup), [49%N].
  split; [apply run_st_of; intros E; vm_compute in E; discriminate E|].
  split; [vm_compute; left; reflexivity|]. split; [intros E; discriminate E|]. split; vm_compute; reflexivity.
Qed.

(** * Examples *)
(* request "1" is in flight; the batch ["1"; "2" (unknown method)] behind it is dispatched and delivered: its first
   member is answered with the duplicate-id error *)
Definition ex_tr_dupmon : list label :=
  [LStart; LFeed (FMsg (InMsgs false [ex_call [49%N] [91;93]%N])); LRelRead; LRelNext; LRelBarrier; LRelAcquire 0;
   LFeed (FMsg (InMsgs true [ex_call [49%N] []; ex_msg [50%N] [120%N] []])); LRelRead; LRelNext; LRelBarrier;
   LRelDeliver 1].

Example mon_duplicate_nonvacuous :
  run (init_of ex_cfg) ex_tr_dupmon <> None /\
  existsb label_excuse (env_of ex_tr_dupmon) = false /\
  dup_ids (concat (obs_of ex_cfg ex_tr_dupmon)) = [[49%N]] /\
  count_bytes [49%N] (fed_ids (env_of ex_tr_dupmon)) = 2 /\
  mon_duplicate (env_of ex_tr_dupmon) (concat (obs_of ex_cfg ex_tr_dupmon)) = true.
Proof. split; [intros E; vm_compute in E; discriminate E|]. vm_compute. repeat split; reflexivity. Qed.

(* sensitivity: the duplicate-id error for an id that was received once; the same reply with another error is
   fine; so is the duplicate-id error after the id has been received twice, or when a handler returned that value *)
Example mon_duplicate_sensitive :
  let one := [LStart; LFeed (FMsg (InMsgs false [ex_call [49%N] [91;93]%N]))] in
  let dup := OSend true false [{| r_id := [49%N]; r_body := BErr InvalidRequest s_dup |}] in
  mon_duplicate one [dup] = false /\
  mon_duplicate one [OSend true false [{| r_id := [49%N]; r_body := BErr InvalidRequest s_empty_method |}]] = true /\
  mon_duplicate (one ++ [LFeed (FMsg (InMsgs false [ex_call [49%N] []]))]) [dup] = true /\
  mon_duplicate (one ++ [LGate [91;93]%N (OErr InvalidRequest s_dup)]) [dup] = true /\
  mon_duplicate [LStart] [OSend true false [{| r_id := [50%N]; r_body := BRes [] |}; {| r_id := [49%N]; r_body := BErr InvalidRequest s_dup |}]] = false.
Proof. vm_compute. repeat split; reflexivity. Qed.
