(* C02, second part: survival over the transition system (no crash disjunct), and the shape of every message the
   server emits, at the level of [rsp] (the byte level is wire/WireLink.v). *)
From Coq Require Import List NArith ZArith Bool Arith Lia.
From RecordUpdate Require Import RecordUpdate.
From JV Require Import Bytes Msg SrvModel SrvLemmas SrvBasics SrvC07 SrvC01 SrvC02 SrvC08 SrvHist SrvC01b.
Import ListNotations.

(** * survival *)
Lemma settle1_rd_live s s' os : settle1 s = Some (s', os) -> rd_live (rd s') = rd_live (rd s).
Proof.
  intros H. apply settle1_inv in H. destruct H; cbn; auto.
  - rewrite H. reflexivity.
  - unfold dequeue. destruct (inq s) as [|[b ms] q]; [destruct (running s)|]; reflexivity.
Qed.

Lemma settle_rd_live : forall fuel s acc s' os, settle fuel s acc = (s', os) -> rd_live (rd s') = rd_live (rd s).
Proof.
  induction fuel as [|f IH]; cbn; intros s acc s' os H.
  - injection H as <- _. auto.
  - destruct (settle1 s) as [[s1 os1]|] eqn:E.
    + rewrite (IH _ _ _ _ H). eapply settle1_rd_live; eauto.
    + injection H as <- _. auto.
Qed.

(* a running server is being served: reader and dispatcher goroutines are alive *)
Theorem running_alive c s : reach c s -> running s = true -> dp_live (dp s) = 1.
Proof.
  intros R Rn. apply reach_reachf in R. pose proof (reachf_invc _ _ R) as Ic.
  destruct (dp s) eqn:D; auto.
  - destruct (ic_dpx _ Ic) as [_ F]; [rewrite D; auto|congruence].
  - destruct (ic_dpx _ Ic) as [_ F]; [rewrite D; auto|congruence].
Qed.

(* C02: whatever record the reader holds, its window leaves the server running, not crashed, with the reader back
   at Recv (or already holding the next record) and the dispatcher alive *)
Theorem c02_keeps_serving_reach c s f i s' os : reach c s -> running s = true -> rd s = RHold f ->
  f = FMsg i \/ f = FMsgEOF i -> step s LRelRead = Some (s', os) ->
  running s' = true /\ crash s' = None /\ rd_live (rd s') = 1 /\ dp_live (dp s') = 1.
Proof.
  intros R Rn Rd Hf H.
  pose proof (no_crash_step _ _ _ _ _ R H) as Nc.
  assert (R' : reach c s') by (eapply reach_step; eauto).
  assert (Q : running s' = true /\ rd_live (rd s') = 1).
  { apply step_decompose in H as (_ & s1 & os1 & Hr & Hs). unfold step_raw in Hr. rewrite Rd in Hr. injection Hr as Hr.
    destruct (c02_keeps_serving s i s1 os1 f Rn Hf Hr) as (Rn1 & Rd1 & _).
    destruct Hs as [(_ & -> & _)|(_ & Hs)]; [rewrite Rd1; auto|].
    rewrite (settle_running _ _ _ _ _ Hs), (settle_rd_live _ _ _ _ _ Hs), Rd1. auto. }
  destruct Q as [Rn' Rl]. repeat split; auto. eapply running_alive; eauto.
Qed.

Example c02_keeps_serving_reach_nonvacuous :
  exists s s' os, reach ex_cfg s /\ running s = true /\ rd s = RHold (FMsg InBad) /\ step s LRelRead = Some (s', os).
Proof.
  exists (st_of ex_cfg [LStart; LFeed (FMsg InBad)]). eexists _, _.
  split; [apply reach_st_of; vm_compute; discriminate|]. vm_compute. repeat split; reflexivity.
Qed.

(** * every emitted message is a JSON-RPC 2.0 response *)
Lemma responses_in ts r : In r (responses ts) -> exists t, In t ts /\ response_of t = Some r.
Proof.
  induction ts as [|t ts IH]; cbn; [tauto|]. destruct (response_of t) as [x|] eqn:E.
  - intros [<-|I]; [exists t; auto|]. destruct (IH I) as (t0 & I0 & E0). exists t0. auto.
  - intros I. destruct (IH I) as (t0 & I0 & E0). exists t0. auto.
Qed.

(* the body stored for a finished call: an error object, a result, or (built-in only) the server info result *)
Lemma finished_call_body c s k t : reach c s -> nth_error (tasks s) k = Some t -> finished t = true -> is_note t = false ->
  (exists code msg, task_body t = BErr code msg) \/ (exists raw, task_body t = BRes raw) \/
  (task_body t = BWild /\ t_builtin t = true).
Proof.
  intros R E F Nt. unfold task_body. destruct (t_pre t) as [[code msg]|] eqn:P; [left; eauto|].
  unfold finished in F. destruct (t_st t) as [| | | | |bo] eqn:St; try discriminate.
  { exfalso. apply (task_nopre_noskip c s k t (reach_reachf _ _ R) E P). auto. }
  destruct (c01_done_body c s k t bo R E St) as (_ & [->|(o & ->)]).
  - left. unfold cancel_err. eauto.
  - unfold body_of_outcome. rewrite Nt. destruct (t_builtin t); [right; right; auto|].
    destruct o; [right; left; eauto|left; eauto].
Qed.

(* C02, last clause, at the level of rsp.  A value of type [body] is by construction exactly one of: a result
   (BRes raw; BWild = the result of the built-in rpc.serverInfo) or an error object with an integer code and a
   string message (BErr code msg).  Every element of every message the server sends is
   - an error object with id null and code -32700 or -32600 (undecodable record, empty batch, invalid member
     without a usable id), or
   - the reply to a call of the accepted inbound message the deliver window answers: its id is the (non-null,
     non-empty) id of that request, its body a result or an error object; the opaque BWild only for the built-in. *)
Theorem c02_emitted_is_response c tr s oss l s' os ok b rs r :
  run (init_of c) tr = Some (s, oss) -> step s l = Some (s', os) -> In (OSend ok b rs) os -> In r rs ->
  (r_id r = null_bytes /\ exists code msg, r_body r = BErr code msg /\ (code = ParseError \/ code = InvalidRequest)) \/
  (exists u ms t, l = LRelDeliver u /\ nth_error (alog (init_of c) tr []) u = Some (b, ms) /\
     In t (unit_tasks s u) /\ In (tmem t) (map jmem ms) /\ finished t = true /\
     r_id r = t_id t /\ r_id r <> [] /\ r_id r <> null_bytes /\
     ((exists code msg, r_body r = BErr code msg) \/ (exists raw, r_body r = BRes raw) \/
      (r_body r = BWild /\ t_builtin t = true))).
Proof.
  intros H Hs Ho Hr.
  assert (R : reach c s) by (eapply run_reach; [apply reach_init|eauto]).
  destruct (c01_send_origin _ _ _ _ _ _ _ _ R Hs Ho) as [(u & un & -> & Eu & Su & -> & -> & Fin)|(-> & _ & [-> | ->])].
  2,3: destruct Hr as [<-|[]]; left; cbn; split; auto; eexists _, _; split; [reflexivity|auto].
  destruct (responses_in _ _ Hr) as (t & It & Er).
  unfold response_of in Er. destruct (is_note t) eqn:Nt.
  - left. destruct (t_pre t) as [[code msg]|]; [|discriminate].
    destruct (Z.eqb_spec code ParseError) as [->|N1]; cbn in Er.
    + injection Er as <-. cbn. split; auto. eexists _, _. split; [reflexivity|auto].
    + destruct (Z.eqb_spec code InvalidRequest) as [->|N2]; cbn in Er; [|discriminate].
      injection Er as <-. cbn. split; auto. eexists _, _. split; [reflexivity|auto].
  - right. injection Er as <-. cbn.
    destruct (alog_unit c tr s oss u un H Eu) as (ms & Ea & Hm).
    assert (Im : In (tmem t) (map jmem ms)) by (rewrite Hm; apply in_map; auto).
    assert (Ft : finished t = true).
    { unfold all_finished in Fin. rewrite forallb_forall in Fin. auto. }
    exists u, ms, t. repeat split; auto.
    + apply is_nil_false. exact Nt.
    + apply in_map_iff in Im as (m & Em & _). unfold tmem, jmem in Em. injection Em as Ei _ _. rewrite <- Ei.
      apply fix_id_not_null.
    + unfold unit_tasks in It. apply filter_In in It as [It _]. apply In_nth_error in It as [k Ek].
      eapply finished_call_body; eauto.
Qed.

Example c02_emitted_is_response_nonvacuous :
  exists s s' os ok b rs r, run (init_of ex_cfg) ex_tr_batch = Some (s, obs_of ex_cfg ex_tr_batch) /\
    step s (LRelDeliver 0) = Some (s', os) /\ In (OSend ok b rs) os /\ In r rs.
Proof.
  exists (st_of ex_cfg ex_tr_batch). eexists _, _, _, _, _, _. split; [apply run_st_of; vm_compute; discriminate|].
  vm_compute. split; [reflexivity|]. split; [left; reflexivity|left; reflexivity].
Qed.

(* an invalid member never gets a handler, whatever else is true of it (no side condition): it is rejected with the
   duplicate-id error or with its own validation error *)
Theorem c02_invalid_member_rejected s u ids m e : j_err m = Some e ->
  let t := mk_task s u ids m in
  t_st t = TSkip /\ t_hasctx t = false /\ (t_pre t = Some err_dup \/ t_pre t = Some (we_code e, we_msg e)).
Proof.
  intros E. cbv zeta. unfold mk_task, pre_err. rewrite E.
  destruct (negb (is_nil (fix_id (j_id m))) && _); cbn; auto.
Qed.

Example c02_invalid_member_rejected_nonvacuous :
  exists m e, j_err m = Some e /\ t_pre (mk_task (init_of ex_cfg) 0 [] m) = Some (we_code e, we_msg e).
Proof.
  exists {| j_id := [49%N]; j_method := ex_m; j_params := []; j_error := None; j_result := [];
            j_err := Some {| we_code := InvalidRequest; we_msg := s_invalid_value; we_data := [] |} |}.
  eexists. split; reflexivity.
Qed.
