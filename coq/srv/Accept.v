(* Accept: replays the log of a scheduled run of the real server through SrvModel.
   The log is a sequence of windows (environment action or released scheduling
   point, with the observations it produced); where the log does not say which
   parked goroutine was released, every candidate is tried and the set of model
   states consistent with the log so far is carried along. *)
From Coq Require Import List NArith ZArith Bool Arith Lia.
From JV Require Import Bytes Msg SrvModel.
Import ListNotations.

Definition body_match (m o : body) : bool :=
  match m, o with
  | BWild, BRes _ => true
  | BRes a, BRes b => beq a b
  | BErr c1 m1, BErr c2 m2 => (c1 =? c2)%Z && beq m1 m2
  | _, _ => false
  end.
Definition rsp_match (m o : rsp) : bool := beq (r_id m) (r_id o) && body_match (r_body m) (r_body o).
Fixpoint list_match {A} (f : A -> A -> bool) (a b : list A) : bool :=
  match a, b with
  | [], [] => true
  | x :: a', y :: b' => f x y && list_match f a' b'
  | _, _ => false
  end.
Definition why_eqb (a b : why) : bool := match a, b with WCancel, WCancel | WDeadline, WDeadline => true | _, _ => false end.
Definition apires_eqb (a b : apires) : bool :=
  match a, b with
  | APushUnsupported, APushUnsupported | AConnClosed, AConnClosed | AOk, AOk | ASendFailed, ASendFailed => true
  | ACbRes x, ACbRes y => beq x y
  | ACbErr c1 m1, ACbErr c2 m2 => (c1 =? c2)%Z && beq m1 m2
  | ACbCtx x, ACbCtx y => why_eqb x y
  | _, _ => false
  end.
(* WaitStatus reports Closed for io.EOF and for closing errors alike *)
Definition cause_eqb (a b : stopcause) : bool :=
  match a, b with
  | SCStop, SCStop | SCOther, SCOther => true
  | (SCEOF | SCClosing), (SCEOF | SCClosing) => true
  | _, _ => false
  end.
Definition ocause_eqb (a b : option stopcause) : bool :=
  match a, b with None, None => true | Some x, Some y => cause_eqb x y | _, _ => false end.

(* Which observables a check compares (the projection relevant to its property);
   everything else is ignored on both sides. *)
Record mask := {
  mk_start : bool;   (* handler entries and gate events *)
  mk_ctx : bool;     (* the cancellation state a handler sees at entry / at its gate *)
  mk_send : bool;    (* response messages *)
  mk_sendreq : bool; (* pushed requests *)
  mk_close : bool;
  mk_ret : bool;     (* API returns (Stop, CancelRequest, Notify, Callback) *)
  mk_wait : bool;    (* WaitStatus returns *)
  mk_parked : bool;  (* parked goroutines per scheduling point (liveness / quiescence) *)
  mk_used : bool; mk_calls : bool; mk_queue : bool; mk_running : bool  (* snapshot parts *)
}.
Definition mask_all : mask := Build_mask true true true true true true true true true true true true.

Definition obs_keep (k : mask) (o : obs) : bool :=
  match o with
  | OStart _ _ | OGate _ _ => mk_start k
  | OSend _ _ _ => mk_send k
  | OSendReq _ _ _ _ => mk_sendreq k
  | OClose => mk_close k
  | ORet _ _ => mk_ret k
  | OWaitRet _ => mk_wait k
  | OCrash _ => true
  end.

(* model observation vs observed observation *)
Definition obs_match (k : mask) (m o : obs) : bool :=
  match m, o with
  | OStart p c, OStart p' c' => beq p p' && (negb (mk_ctx k) || eqb c c')
  | OGate p c, OGate p' c' => beq p p' && (negb (mk_ctx k) || eqb c c')
  | OSend ok b rs, OSend ok' b' rs' => eqb ok ok' && eqb b b' && list_match rsp_match rs rs'
  | OSendReq ok i m p, OSendReq ok' i' m' p' => eqb ok ok' && beq i i' && beq m m' && beq p p'
  | OClose, OClose => true
  | ORet n r, ORet n' r' => (n =? n') && apires_eqb r r'
  | OWaitRet c, OWaitRet c' => ocause_eqb c c'
  | _, _ => false
  end.

(* multiset matching: each model observation is matched with a distinct observed one *)
Fixpoint remove_match (k : mask) (m : obs) (os : list obs) : option (list obs) :=
  match os with
  | [] => None
  | o :: r => if obs_match k m o then Some r
              else match remove_match k m r with Some r' => Some (o :: r') | None => None end
  end.
Fixpoint obs_perm_all (k : mask) (ms os : list obs) : bool :=
  match ms with
  | [] => match os with [] => true | _ => false end
  | m :: r => match remove_match k m os with Some os' => obs_perm_all k r os' | None => false end
  end.
Definition obs_perm (k : mask) (ms os : list obs) : bool :=
  obs_perm_all k (filter (obs_keep k) ms) (filter (obs_keep k) os).

Record snapshot := { sn_used : list bytes; sn_calls : list bytes; sn_qlen : nat; sn_running : bool }.

Fixpoint all_in (a b : list bytes) : bool :=
  match a with [] => true | x :: r => mem_bytes x b && all_in r b end.
Definition set_eqb (a b : list bytes) : bool := (length a =? length b) && all_in a b && all_in b a.

Definition snap_ok (k : mask) (s : state) (sn : snapshot) : bool :=
  (negb (mk_used k) || set_eqb (map fst (used s)) (sn_used sn))
  && (negb (mk_calls k) || set_eqb (map fst (calls s)) (sn_calls sn))
  && (negb (mk_queue k) || (length (inq s) =? sn_qlen sn))
  && (negb (mk_running k) || eqb (running s) (sn_running sn)).

Inductive item :=
| IEnv (l : label) (os : list obs)
| IRel (x : site) (os : list obs)
| IParked (cnt : list (site * nat))    (* goroutines parked per scheduling point, as the scheduler sees them *)
| ISnap (sn : snapshot).

Definition site_code (x : site) : nat :=
  match x with SRead => 0 | SNext => 1 | SBarrier => 2 | SAcquire => 3 | SHandled => 4 | SDeliver => 5
             | SStop => 6 | SCancel => 7 | SPush => 8 | SCbWatch => 9 end.
Definition cnt_of (x : site) (cnt : list (site * nat)) : nat :=
  fold_left (fun a p => if site_code (fst p) =? site_code x then a + snd p else a) cnt 0.
Definition parked_ok (s : state) (cnt : list (site * nat)) : bool :=
  forallb (fun x => parked_count s x =? cnt_of x cnt) all_sites.

Definition try_label (k : mask) (s : state) (os : list obs) (l : label) : list state :=
  match step s l with
  | Some (s', os') => if obs_perm k os' os then [s'] else []
  | None => []
  end.

Definition step_item (k : mask) (s : state) (it : item) : list state :=
  match it with
  | IEnv l os => try_label k s os l
  | IRel x os => flat_map (try_label k s os) (candidates s x)
  | IParked cnt => if negb (mk_parked k) || parked_ok s cnt then [s] else []
  | ISnap sn => if snap_ok k s sn then [s] else []
  end.

(* a fingerprint of the mutable part of a state, used to merge equal alternatives *)
Definition tst_code (x : tst) : N :=
  match x with TSkip => 0 | TAtAcquire => 1 | TWaiting => 2 | TRunning => 3 | TAtHandled _ => 4
             | TDone None => 5 | TDone (Some (BRes _)) => 6 | TDone (Some (BErr _ _)) => 7 | TDone (Some BWild) => 8 end%N.
Definition ust_code (x : ust) : N :=
  match x with UAtBarrier => 0 | UBarrierWait => 1 | URunning => 2 | UAtDeliver => 3 | UFinished => 4 end%N.
Definition fp (s : state) : list N :=
  map (fun t => (tst_code (t_st t) * 2 + (if t_cancelled t then 1 else 0))%N) (tasks s) ++ [255%N]
  ++ map (fun u => ust_code (u_st u)) (units s) ++ [255%N]
  ++ map N.of_nat (sem_wait s) ++ [255%N]
  ++ map (fun p => N.of_nat (snd p)) (used s) ++ [255%N]
  ++ map (fun p => N.of_nat (snd p)) (calls s) ++ [255%N]
  ++ map (fun c => N.of_nat (cb_op c)) (cbs s) ++ [255%N]
  ++ map (fun o => N.of_nat (op_num o)) (ops s) ++ [255%N]
  ++ map (fun c => ((match cb_watch c with WBlocked => 0 | WParked => 1 | WDone => 2 end)
                    + (match cb_slot c with None => 0 | Some _ => 4 end)
                    + (if cb_cancelled c then 8 else 0))%N) (cbs s) ++ [255%N]
  ++ [N.of_nat (nbar s); N.of_nat (sem_free s); N.of_nat (wg s); N.of_nat (waits s); N.of_nat (length (inq s));
      N.of_nat (length (ch_in s)); N.of_nat (length (ops s)); N.of_nat (call_id s); N.of_nat (closes s);
      (if running s then 1 else 0)%N;
      (match rd s with RNone => 0 | RIdle => 1 | RHold _ => 2 | RExited => 3 end)%N;
      (match dp s with DNone => 0 | DAtNext => 1 | DWaitWork => 2 | DAtBarrier _ => 3 | DBarrierWait _ => 4 | DExited => 5 end)%N].

Fixpoint fp_mem (f : list N) (l : list (list N)) : bool :=
  match l with [] => false | x :: r => beq f x || fp_mem f r end.
Fixpoint dedup (ss : list state) (seen : list (list N)) : list state :=
  match ss with
  | [] => []
  | s :: r => let f := fp s in if fp_mem f seen then dedup r seen else s :: dedup r (f :: seen)
  end.

Inductive verdict :=
| Accepted (nstates : nat) (final : list state)
| Rejected (index : nat) (expected : list (list obs)).   (* what the model would have produced at that item *)

Definition expected_of (s : state) (it : item) : list (list obs) :=
  match it with
  | IEnv l _ => match step s l with Some (_, os) => [os] | None => [] end
  | IRel x _ => flat_map (fun l => match step s l with Some (_, os) => [os] | None => [] end) (candidates s x)
  | _ => []
  end.

Fixpoint accept (k : mask) (ss : list state) (log : list item) (i : nat) : verdict :=
  match log with
  | [] => Accepted (length ss) ss
  | it :: rest =>
      match dedup (flat_map (fun s => step_item k s it) ss) [] with
      | [] => Rejected i (flat_map (fun s => expected_of s it) ss)
      | ss' => accept k ss' rest (S i)
      end
  end.

(* the same, reporting for a rejected IParked / ISnap item what the model holds *)
Definition model_parked (s : state) : list (site * nat) := map (fun x => (x, parked_count s x)) all_sites.
Definition model_snap (s : state) : snapshot :=
  {| sn_used := map fst (used s); sn_calls := map fst (calls s); sn_qlen := length (inq s); sn_running := running s |}.
