(* SrvBasics: structure of tasks and dispatch units in every reachable state of SrvModel.
   - how the helper state transformers act on the "core" fields
   - the monotone evolution of tasks and units ([ext])
   - the basic invariant bundle [inv] (semaphore queue, barrier unit, task/unit links,
     pre-error <-> TSkip, delivered units are finished, wait-group accounting). *)
From Coq Require Import List NArith ZArith Bool Arith Lia.
From RecordUpdate Require Import RecordUpdate.
From JV Require Import Bytes Msg SrvModel SrvLemmas.
Import ListNotations.

(** * more list facts *)
Lemma upd_nth_upd_nth {A} k (f g : A -> A) l : upd_nth k f (upd_nth k g l) = upd_nth k (fun x => f (g x)) l.
Proof. revert k; induction l as [|x r IH]; intros [|k]; cbn; auto. f_equal; auto. Qed.

Lemma upd_nth_ext {A} k (f g : A -> A) l :
  (forall x, nth_error l k = Some x -> f x = g x) -> upd_nth k f l = upd_nth k g l.
Proof.
  revert k; induction l as [|x r IH]; intros [|k] H; cbn; auto.
  - f_equal. apply H; auto.
  - f_equal. apply IH. intros y Hy. apply H; auto.
Qed.

Lemma upd_nth_app_l {A} k (f : A -> A) l r : k < length l -> upd_nth k f (l ++ r) = upd_nth k f l ++ r.
Proof. revert k; induction l as [|x l IH]; intros [|k] H; cbn in *; try lia; auto. f_equal. apply IH; lia. Qed.

Lemma nth_error_some_lt {A} (l : list A) k x : nth_error l k = Some x -> k < length l.
Proof. intros H. apply nth_error_Some. congruence. Qed.

(** * Status order *)
Definition rank (st : tst) : nat :=
  match st with TAtAcquire => 0 | TWaiting => 1 | TRunning => 2 | TAtHandled _ => 3 | TDone _ => 4 | TSkip => 5 end.

Definition st_le (a b : tst) : Prop :=
  rank a <= rank b /\ (a = TSkip <-> b = TSkip) /\ (forall x, a = TDone x -> b = a)
  /\ (forall o o', a = TAtHandled o -> b = TAtHandled o' -> o = o').

Lemma st_le_refl a : st_le a a.
Proof. repeat split; auto; congruence. Qed.

Lemma st_le_trans a b c : st_le a b -> st_le b c -> st_le a c.
Proof.
  intros (R1 & S1 & D1 & H1) (R2 & S2 & D2 & H2). repeat split.
  - lia.
  - intros E. apply S2, S1, E.
  - intros E. apply S1, S2, E.
  - intros x E. rewrite (D1 _ E) in *. rewrite E in *. eauto.
  - intros o o' E1 E3. subst.
    destruct b; cbn in *; try lia.
    + rewrite (H1 _ _ eq_refl eq_refl). eapply H2; eauto.


Qed.

Record task_le (t t' : task) : Prop := {
  tl_unit : t_unit t' = t_unit t;
  tl_id : t_id t' = t_id t;
  tl_method : t_method t' = t_method t;
  tl_params : t_params t' = t_params t;
  tl_pre : t_pre t' = t_pre t;
  tl_hasctx : t_hasctx t' = t_hasctx t;
  tl_builtin : t_builtin t' = t_builtin t;
  tl_cancelled : t_cancelled t = true -> t_cancelled t' = true;
  tl_st : st_le (t_st t) (t_st t')
}.

Lemma task_le_refl t : task_le t t.
Proof. constructor; auto. apply st_le_refl. Qed.

Lemma task_le_trans a b c : task_le a b -> task_le b c -> task_le a c.
Proof.
  intros [] []. constructor; try congruence; auto. eapply st_le_trans; eauto.
Qed.

Lemma task_le_cancel t : task_le t (t <| t_cancelled := true |>).
Proof. constructor; cbn; auto. apply st_le_refl. Qed.

Lemma task_le_st t x : st_le (t_st t) x -> task_le t (t <| t_st := x |>).
Proof. constructor; cbn; auto. Qed.

Definition urank (u : ust) : nat :=
  match u with UAtBarrier => 0 | UBarrierWait => 1 | URunning => 2 | UAtDeliver => 3 | UFinished => 4 end.

Record unit_le (u u' : unit_) : Prop := {
  ul_batch : u_batch u' = u_batch u;
  ul_notes : u_notes u' = u_notes u;
  ul_chok : u_chok u' = u_chok u;
  ul_st : urank (u_st u) <= urank (u_st u')
}.

Lemma unit_le_refl u : unit_le u u.
Proof. constructor; auto. Qed.
Lemma unit_le_trans a b c : unit_le a b -> unit_le b c -> unit_le a c.
Proof. intros [] []. constructor; try congruence; lia. Qed.
Lemma unit_le_st u x : urank (u_st u) <= urank x -> unit_le u (u <| u_st := x |>).
Proof. constructor; cbn; auto. Qed.

(* pointwise evolution of a list that is only appended to and updated in place *)
Definition list_ext {A} (R : A -> A -> Prop) (l l' : list A) : Prop :=
  forall k x, nth_error l k = Some x -> exists x', nth_error l' k = Some x' /\ R x x'.

Lemma list_ext_refl {A} (R : A -> A -> Prop) l : (forall x, R x x) -> list_ext R l l.
Proof. intros H k x E. eauto. Qed.

Lemma list_ext_trans {A} (R : A -> A -> Prop) a b c :
  (forall x y z, R x y -> R y z -> R x z) -> list_ext R a b -> list_ext R b c -> list_ext R a c.
Proof.
  intros T H1 H2 k x E. destruct (H1 _ _ E) as (y & Ey & Rxy). destruct (H2 _ _ Ey) as (z & Ez & Ryz). eauto.
Qed.

Lemma list_ext_len {A} (R : A -> A -> Prop) l l' : list_ext R l l' -> length l <= length l'.
Proof.
  intros H. destruct l as [|x0 r0] eqn:E; [cbn; lia|]. rewrite <- E in *.
  destruct (nth_error l (length l - 1)) as [x|] eqn:N.
  - destruct (H _ _ N) as (y & Ey & _). apply nth_error_some_lt in Ey. subst l; cbn in *; lia.
  - apply nth_error_None in N. subst l; cbn in *; lia.
Qed.

Lemma list_ext_upd {A} (R : A -> A -> Prop) k f l :
  (forall x, R x x) -> (forall x, nth_error l k = Some x -> R x (f x)) -> list_ext R l (upd_nth k f l).
Proof.
  intros Rr H j x E. rewrite nth_error_upd_nth. destruct (Nat.eqb_spec k j) as [->|N].
  - rewrite E. cbn. eauto.
  - eauto.
Qed.

Lemma list_ext_app {A} (R : A -> A -> Prop) l r : (forall x, R x x) -> list_ext R l (l ++ r).
Proof. intros Rr k x E. exists x. split; auto. apply nth_error_app_old; auto. Qed.

Definition tasks_ext := list_ext task_le.
Definition units_ext := list_ext unit_le.

Lemma tasks_ext_refl l : tasks_ext l l.
Proof. apply list_ext_refl, task_le_refl. Qed.
Lemma tasks_ext_trans a b c : tasks_ext a b -> tasks_ext b c -> tasks_ext a c.
Proof. apply list_ext_trans, task_le_trans. Qed.
Lemma units_ext_refl l : units_ext l l.
Proof. apply list_ext_refl, unit_le_refl. Qed.
Lemma units_ext_trans a b c : units_ext a b -> units_ext b c -> units_ext a c.
Proof. apply list_ext_trans, unit_le_trans. Qed.

(** * The helper state transformers on the core fields *)

(* fields a task-only update leaves alone *)
Definition same_env (s s' : state) : Prop :=
  units s' = units s /\ dp s' = dp s /\ rd s' = rd s /\ wg s' = wg s /\
  running s' = running s /\ nbar s' = nbar s /\ inq s' = inq s /\ crash s' = crash s /\
  work_closed s' = work_closed s /\ ops s' = ops s.

Lemma same_env_refl s : same_env s s.
Proof. repeat split. Qed.
Lemma same_env_trans a b c : same_env a b -> same_env b c -> same_env a c.
Proof. unfold same_env. intuition congruence. Qed.

Definition wait_ok (s : state) : Prop :=
  NoDup (sem_wait s) /\
  forall k, In k (sem_wait s) -> exists t, nth_error (tasks s) k = Some t /\ t_st t = TWaiting.

(* what one task update may do: only status (monotonically) and the cancelled flag *)
Definition cancel_fn (t : task) : task :=
  match t_st t with
  | TWaiting => t <| t_cancelled := true |> <| t_st := TDone (Some cancel_err) |>
  | _ => t <| t_cancelled := true |>
  end.

Lemma cancel_fn_le t : task_le t (cancel_fn t).
Proof.
  unfold cancel_fn. destruct (t_st t) eqn:St; try apply task_le_cancel.
  constructor; cbn; auto. rewrite St. repeat split; cbn; try lia; try congruence.
Qed.

Lemma cancel_fn_cancelled t : t_cancelled (cancel_fn t) = true.
Proof. unfold cancel_fn. destruct (t_st t); auto. Qed.

Lemma cancel_fn_not_waiting t : t_st (cancel_fn t) <> TWaiting.
Proof. unfold cancel_fn. destruct (t_st t) eqn:E; cbn; congruence. Qed.

Lemma cancel_task_tasks k s : tasks (cancel_task k s) = upd_nth k cancel_fn (tasks s).
Proof.
  unfold cancel_task. destruct (nth_error (tasks s) k) as [t|] eqn:E.
  - destruct (t_st t) eqn:St; cbn; rewrite ?upd_nth_upd_nth; apply upd_nth_ext; intros x Hx;
      rewrite E in Hx; injection Hx as <-; unfold cancel_fn; rewrite St; auto.
  - rewrite upd_nth_none; auto.
Qed.

Lemma cancel_task_env k s : same_env s (cancel_task k s).
Proof.
  unfold cancel_task. destruct (nth_error (tasks s) k) as [t|]; [|apply same_env_refl].
  destruct (t_st t); repeat split.
Qed.

Lemma cancel_task_used k s : used (cancel_task k s) = used s.
Proof.
  unfold cancel_task. destruct (nth_error (tasks s) k) as [t|]; auto. destruct (t_st t); auto.
Qed.

Lemma cancel_task_sem_free k s : sem_free (cancel_task k s) = sem_free s.
Proof.
  unfold cancel_task. destruct (nth_error (tasks s) k) as [t|]; auto. destruct (t_st t); auto.
Qed.

Lemma cancel_task_wait k s :
  sem_wait (cancel_task k s) =
  match nth_error (tasks s) k with
  | Some t => match t_st t with TWaiting => filter (fun j => negb (j =? k)) (sem_wait s) | _ => sem_wait s end
  | None => sem_wait s
  end.
Proof.
  unfold cancel_task. destruct (nth_error (tasks s) k) as [t|]; auto. destruct (t_st t); auto.
Qed.

Lemma cancel_task_ext k s : tasks_ext (tasks s) (tasks (cancel_task k s)).
Proof. rewrite cancel_task_tasks. apply list_ext_upd; [apply task_le_refl|]. intros; apply cancel_fn_le. Qed.

Lemma cancel_task_len k s : length (tasks (cancel_task k s)) = length (tasks s).
Proof. rewrite cancel_task_tasks. apply upd_nth_length. Qed.

Lemma cancel_task_other k s j : j <> k -> nth_error (tasks (cancel_task k s)) j = nth_error (tasks s) j.
Proof. intros N. rewrite cancel_task_tasks. apply nth_error_upd_nth_neq; auto. Qed.

Lemma cancel_task_wait_ok k s : wait_ok s -> wait_ok (cancel_task k s).
Proof.
  intros [ND W]. unfold wait_ok. rewrite cancel_task_wait, cancel_task_tasks.
  destruct (nth_error (tasks s) k) as [t|] eqn:E.
  - destruct (t_st t) eqn:St.
    3:{ split; [apply NoDup_filter; auto|].
        intros j Hj. apply filter_In in Hj as [Hj Hn]. apply negb_true_iff, Nat.eqb_neq in Hn.
        rewrite nth_error_upd_nth_neq; auto. }
    all: split; auto; intros j Hj; destruct (W _ Hj) as (tj & Ej & Sj);
      destruct (Nat.eq_dec k j) as [->|N];
      [ rewrite E in Ej; injection Ej as <-; congruence
      | rewrite nth_error_upd_nth_neq; eauto ].
  - rewrite upd_nth_none; auto.
Qed.

(* a fold of cancellations: stopLocked *)
Lemma fold_cancel_spec (l : list (bytes * nat)) s :
  let s' := fold_left (fun st p => cancel_task (snd p) st) l s in
  (wait_ok s -> wait_ok s') /\ tasks_ext (tasks s) (tasks s') /\ length (tasks s') = length (tasks s)
  /\ same_env s s' /\ sem_free s' = sem_free s /\ used s' = used s.
Proof.
  revert s; induction l as [|p l IH]; intros s; cbn.
  - split; [auto|]. split; [apply tasks_ext_refl|]. repeat split.
  - destruct (IH (cancel_task (snd p) s)) as (W & T & L & E & F & U).
    split; [|split; [|split; [|split; [|split]]]].
    + intros H. apply W, cancel_task_wait_ok, H.
    + eapply tasks_ext_trans; [apply cancel_task_ext|exact T].
    + rewrite L. apply cancel_task_len.
    + eapply same_env_trans; [apply cancel_task_env|exact E].
    + rewrite F. apply cancel_task_sem_free.
    + rewrite U. apply cancel_task_used.
Qed.

(* grant: an induction principle over the hand-overs *)
Definition grant1 (s : state) (k : nat) (r : list nat) (fr : nat) (t : task) : state * list obs :=
  if t_builtin t
  then (s <| sem_wait := r |> <| sem_free := fr |>
          <| tasks ::= upd_nth k (fun t => t <| t_st := TAtHandled (ORes []) |>) |>, [])
  else (s <| sem_wait := r |> <| sem_free := fr |>
          <| tasks ::= upd_nth k (fun t => t <| t_st := TRunning |>) |>, [OStart (t_params t) (t_cancelled t)]).

Lemma grant_ind (P : state -> list obs -> Prop) :
  (forall s1 acc1 k r fr t, P s1 acc1 -> sem_wait s1 = k :: r -> sem_free s1 = S fr ->
     nth_error (tasks s1) k = Some t ->
     P (fst (grant1 s1 k r fr t)) (acc1 ++ snd (grant1 s1 k r fr t))) ->
  forall fuel s acc, P s acc -> P (fst (grant fuel s acc)) (snd (grant fuel s acc)).
Proof.
  intros Hs. induction fuel as [|f IH]; intros s acc H; cbn; auto.
  destruct (sem_wait s) as [|k r] eqn:W; auto.
  destruct (sem_free s) as [|fr] eqn:F; auto.
  destruct (nth_error (tasks s) k) as [t|] eqn:E; auto.
  specialize (Hs _ _ _ _ _ _ H W F E). unfold grant1 in Hs.
  destruct (t_builtin t); cbn in Hs.
  - rewrite app_nil_r in Hs. apply IH; auto.
  - apply IH; auto.
Qed.

Lemma grant1_env s k r fr t : same_env s (fst (grant1 s k r fr t)).
Proof. unfold grant1. destruct (t_builtin t); repeat split. Qed.

Lemma grant1_tasks s k r fr t : nth_error (tasks s) k = Some t ->
  tasks (fst (grant1 s k r fr t)) =
  upd_nth k (fun t => t <| t_st := if t_builtin t then TAtHandled (ORes []) else TRunning |>) (tasks s).
Proof.
  intros E. unfold grant1. destruct (t_builtin t) eqn:B; cbn; apply upd_nth_ext; intros x Hx;
    rewrite E in Hx; injection Hx as <-; rewrite B; auto.
Qed.

Lemma grant1_used s k r fr t : used (fst (grant1 s k r fr t)) = used s.
Proof. unfold grant1. destruct (t_builtin t); auto. Qed.

Lemma grant1_wait s k r fr t : sem_wait (fst (grant1 s k r fr t)) = r.
Proof. unfold grant1. destruct (t_builtin t); auto. Qed.

Definition is_ostart (o : obs) : bool := match o with OStart _ _ => true | _ => false end.

(* what [grant] does, for a well-formed wait queue *)
Record grant_post (s0 : state) (acc0 : list obs) (s1 : state) (acc1 : list obs) : Prop := {
  gp_wait : wait_ok s1;
  gp_ext : tasks_ext (tasks s0) (tasks s1);
  gp_len : length (tasks s1) = length (tasks s0);
  gp_env : same_env s0 s1;
  gp_used : used s1 = used s0;
  gp_canc : forall j t t', nth_error (tasks s0) j = Some t -> nth_error (tasks s1) j = Some t' ->
              t_cancelled t' = t_cancelled t;
  gp_same : forall j t, nth_error (tasks s0) j = Some t -> t_st t <> TWaiting -> nth_error (tasks s1) j = Some t;
  gp_obs : exists extra, acc1 = acc0 ++ extra /\
     forall o, In o extra -> exists k t t',
        o = OStart (t_params t) (t_cancelled t) /\ nth_error (tasks s0) k = Some t /\ t_st t = TWaiting /\
        t_builtin t = false /\ nth_error (tasks s1) k = Some t' /\ t_st t' = TRunning
}.

Lemma grant_spec fuel s acc : wait_ok s ->
  grant_post s acc (fst (grant fuel s acc)) (snd (grant fuel s acc)).
Proof.
  intros W0. apply grant_ind.
  2:{ constructor; auto.
      - apply tasks_ext_refl.
      - apply same_env_refl.
      - intros j t t' E1 E2. congruence.
      - exists []. rewrite app_nil_r. split; auto. intros o []. }
  intros s1 acc1 k r fr t [W1 X1 L1 E1 U1 C1 Sm1 (extra & Hacc & O1)] Hw Hf Ht. subst acc1.
  destruct W1 as [ND Wt]. rewrite Hw in ND, Wt.
  destruct (Wt k (or_introl eq_refl)) as (t0 & Et0 & St0). rewrite Ht in Et0. injection Et0 as <-.
  assert (Hk : forall j, In j r -> j <> k) by (intros j Hj ->; inversion ND; auto).
  constructor.
  - split; rewrite grant1_wait; [inversion ND; auto|].
    intros j Hj. rewrite (grant1_tasks _ _ _ _ _ Ht). rewrite nth_error_upd_nth_neq.
    + apply Wt. right; auto.
    + specialize (Hk _ Hj). auto.
  - eapply tasks_ext_trans; [exact X1|]. rewrite (grant1_tasks _ _ _ _ _ Ht).
    apply list_ext_upd; [apply task_le_refl|]. intros x Ex. rewrite Ht in Ex. injection Ex as <-.
    apply task_le_st. rewrite St0. destruct (t_builtin t); repeat split; cbn; try lia; try congruence.
  - rewrite (grant1_tasks _ _ _ _ _ Ht), upd_nth_length. auto.
  - eapply same_env_trans; [exact E1|apply grant1_env].
  - rewrite grant1_used. auto.
  - intros j a b Ea Eb. rewrite (grant1_tasks _ _ _ _ _ Ht), nth_error_upd_nth in Eb.
    destruct (Nat.eqb_spec k j) as [<-|N].
    + rewrite Ht in Eb. cbn in Eb. injection Eb as <-. cbn. eapply C1; eauto.
    + eapply C1; eauto.
  - intros j a Ea Na. rewrite (grant1_tasks _ _ _ _ _ Ht), nth_error_upd_nth.
    destruct (Nat.eqb_spec k j) as [<-|N]; [|auto].
    specialize (Sm1 _ _ Ea Na). rewrite Ht in Sm1. injection Sm1 as <-. congruence.
  - exists (extra ++ snd (grant1 s1 k r fr t)). rewrite app_assoc. split; auto.
    intros o Ho. apply in_app_or in Ho as [Ho|Ho].
    + destruct (O1 _ Ho) as (k' & a & a' & -> & Ea & Sa & Ba & Ea' & Sa').
      exists k', a, a'. repeat split; auto.
      rewrite (grant1_tasks _ _ _ _ _ Ht), nth_error_upd_nth_neq; auto.
      intros <-. rewrite Ht in Ea'. injection Ea' as <-. congruence.
    + unfold grant1 in Ho. destruct (t_builtin t) eqn:B; cbn in Ho; [tauto|].
      destruct Ho as [<-|[]].
      (* the task k of s1 is the task k of s0, unchanged, because it was waiting *)
      destruct (nth_error (tasks s) k) as [a|] eqn:Ea.
      * destruct (X1 _ _ Ea) as (a' & Ea' & Le). rewrite Ht in Ea'. injection Ea' as <-.
        assert (Sa : t_st a = TWaiting).
        { destruct (t_st a) eqn:Q; auto.
          all: assert (Z : nth_error (tasks s1) k = Some a) by (apply Sm1; auto; congruence).
          all: rewrite Ht in Z; injection Z as ->; congruence. }
        exists k, a, (t <| t_st := TRunning |>). destruct Le.
        rewrite <- tl_params0, (C1 _ _ _ Ea Ht). repeat split; auto; try congruence.
        rewrite (grant1_tasks _ _ _ _ _ Ht). erewrite nth_error_upd_nth_eq; eauto. rewrite B. auto.
      * apply nth_error_None in Ea. apply nth_error_some_lt in Ht. lia.
Qed.

(* release_ids: deliver's release of the reservations of the tasks it answers *)
Definition rel_used (ts : list task) (us : list (bytes * nat)) : list (bytes * nat) :=
  fold_left (fun us t => if t_hasctx t && negb (is_note t) then assoc_del (t_id t) us else us) ts us.

Lemma assoc_del_absent {A} k (m : list (bytes * A)) : assoc k m = None -> assoc_del k m = m.
Proof.
  induction m as [|[k' v] m IH]; cbn; auto.
  destruct (beq k k'); [discriminate|]. intros H. f_equal; auto.
Qed.

Lemma assoc_assoc_del_some {A} k k' (m : list (bytes * A)) v : assoc k' (assoc_del k m) = Some v -> assoc k' m = Some v.
Proof.
  destruct (beq_spec k k') as [->|N].
  - rewrite assoc_del_same. discriminate.
  - rewrite assoc_del_other; auto.
Qed.

Lemma assoc_rel_used_some ts : forall us id v, assoc id (rel_used ts us) = Some v -> assoc id us = Some v.
Proof.
  induction ts as [|t r IH]; cbn; intros us id v H; auto.
  apply IH in H. destruct (t_hasctx t && negb (is_note t)); auto.
  eapply assoc_assoc_del_some; eauto.
Qed.

Lemma in_rel_used ts : forall us p, In p (rel_used ts us) -> In p us.
Proof.
  induction ts as [|t r IH]; cbn; intros us p H; auto.
  apply IH in H. destruct (t_hasctx t && negb (is_note t)); auto.
  apply in_assoc_del in H. tauto.
Qed.

Lemma assoc_rel_used_gone ts : forall us t, In t ts -> t_hasctx t = true -> is_note t = false ->
  assoc (t_id t) (rel_used ts us) = None.
Proof.
  induction ts as [|a r IH]; cbn; intros us t Hin Hc Hn; [tauto|]. destruct Hin as [<-|Hin].
  - rewrite Hc, Hn. cbn.
    destruct (assoc (t_id a) (rel_used r (assoc_del (t_id a) us))) eqn:E; auto.
    apply assoc_rel_used_some in E. rewrite assoc_del_same in E. discriminate.
  - apply IH; auto.
Qed.

Lemma assoc_rel_used_keep ts : forall us id,
  (forall t, In t ts -> t_hasctx t = true -> is_note t = false -> t_id t <> id) ->
  assoc id (rel_used ts us) = assoc id us.
Proof.
  induction ts as [|a r IH]; cbn; intros us id H; auto.
  rewrite IH by (intros; apply H; auto).
  destruct (t_hasctx a) eqn:Hc, (is_note a) eqn:Hn; cbn; auto.
  apply assoc_del_other. apply H; auto.
Qed.

Record release_post (ts : list task) (s s' : state) : Prop := {
  rp_wait : wait_ok s -> wait_ok s';
  rp_ext : tasks_ext (tasks s) (tasks s');
  rp_len : length (tasks s') = length (tasks s);
  rp_env : same_env s s';
  rp_free : sem_free s' = sem_free s;
  rp_used : used s' = rel_used ts (used s);
  (* a task newly cancelled was the registered owner of the id of one of the released tasks *)
  rp_canc : forall j t t', nth_error (tasks s) j = Some t -> nth_error (tasks s') j = Some t' ->
      t_cancelled t = false -> t_cancelled t' = true ->
      exists t0, In t0 ts /\ t_hasctx t0 = true /\ is_note t0 = false /\ assoc (t_id t0) (used s) = Some j
}.

Lemma release_ids_spec ts : forall s, release_post ts s (release_ids ts s).
Proof.
  induction ts as [|a r IH]; intros s; cbn [release_ids].
  - constructor; auto; try apply tasks_ext_refl; try apply same_env_refl. intros; congruence.
  - destruct (t_hasctx a && negb (is_note a)) eqn:C.
    2:{ destruct (IH s) as [W X L E F U Cn]. constructor; auto.
        - cbn. rewrite C. auto.
        - intros j t t' E1 E2 C1 C2. destruct (Cn _ _ _ E1 E2 C1 C2) as (t0 & I & ?). exists t0. split; auto. right; auto. }
    apply andb_true_iff in C as [Hc Hn]. apply negb_true_iff in Hn.
    destruct (assoc (t_id a) (used s)) as [owner|] eqn:A.
    + set (s1 := cancel_task owner s <| used ::= assoc_del (t_id a) |>).
      destruct (IH s1) as [W X L E F U Cn].
      assert (T1 : tasks s1 = tasks (cancel_task owner s)) by reflexivity.
      constructor.
      * intros H. apply W. apply (cancel_task_wait_ok owner) in H. exact H.
      * eapply tasks_ext_trans; [apply (cancel_task_ext owner)|]. rewrite <- T1. exact X.
      * rewrite L, T1. apply cancel_task_len.
      * eapply same_env_trans; [apply (cancel_task_env owner)|].
        eapply same_env_trans; [|exact E]. repeat split.
      * rewrite F. unfold s1. cbn. apply cancel_task_sem_free.
      * rewrite U. cbn. rewrite Hc, Hn. cbn. rewrite cancel_task_used. auto.
      * intros j t t' E1 E2 C1 C2.
        destruct (Nat.eq_dec j owner) as [->|N].
        { exists a. repeat split; auto. left; auto. }
        assert (E1' : nth_error (tasks s1) j = Some t) by (rewrite T1, cancel_task_other; auto).
        destruct (Cn _ _ _ E1' E2 C1 C2) as (t0 & I & H1 & H2 & H3).
        exists t0. repeat split; auto. right; auto.
        unfold s1 in H3. cbn in H3. rewrite cancel_task_used in H3.
        eapply assoc_assoc_del_some; eauto.
    + destruct (IH s) as [W X L E F U Cn]. constructor; auto.
      * rewrite U. cbn. rewrite Hc, Hn. cbn. rewrite assoc_del_absent; auto.
      * intros j t t' E1 E2 C1 C2. destruct (Cn _ _ _ E1 E2 C1 C2) as (t0 & I & ?). exists t0. split; auto. right; auto.
Qed.

(* stopLocked *)
Record stop_post (s s' : state) : Prop := {
  sp_running : running s' = false;
  sp_used : used s' = [];
  sp_wait : wait_ok s -> wait_ok s';
  sp_ext : tasks_ext (tasks s) (tasks s');
  sp_len : length (tasks s') = length (tasks s);
  sp_units : units s' = units s;
  sp_dp : dp s' = dp s;
  sp_rd : rd s' = rd s;
  sp_wg : wg s' = wg s;
  sp_nbar : nbar s' = nbar s;
  sp_free : sem_free s' = sem_free s;
  sp_ops : ops s' = ops s;
  sp_inq : inq s' = stop_queue (inq s)
}.

Lemma stop_locked_spec c s s' os : stop_locked c s = (s', os) ->
  (running s = false /\ s' = s /\ os = []) \/ (running s = true /\ os = [OClose] /\ stop_post s s').
Proof.
  unfold stop_locked. destruct (running s) eqn:R; cbn [negb].
  - intros H. right. split; auto.
    match type of H with (?x, _) = _ => assert (Hs : s' = x) by congruence end.
    split; [congruence|]. clear H.
    match type of Hs with context [fold_left ?f ?l ?s0] =>
      pose proof (fold_cancel_spec l s0) as Fc; cbv zeta in Fc;
      set (s4 := fold_left f l s0) in *; set (s3 := s0) in * end.
    destruct Fc as (W & X & L & (Eu & Ed & Er & Ew & _ & Eb & Ei & _ & _ & Eo) & F & U).
    assert (T3 : tasks s3 = tasks s /\ sem_wait s3 = sem_wait s /\ units s3 = units s /\ dp s3 = dp s
                 /\ rd s3 = rd s /\ wg s3 = wg s /\ nbar s3 = nbar s /\ sem_free s3 = sem_free s /\ ops s3 = ops s
                 /\ inq s3 = stop_queue (inq s)).
    { unfold s3. destruct (work_closed (s <| closes ::= S |> <| inq ::= stop_queue |>)); cbn; repeat split. }
    destruct T3 as (T3 & W3 & U3 & D3 & R3 & G3 & B3 & F3 & O3 & I3).
    assert (Wk : wait_ok s -> wait_ok s4).
    { intros H. apply W. unfold wait_ok. rewrite W3, T3. exact H. }
    clearbody s4. clearbody s3.
    subst s'. destruct (c_unblock _); cbn; constructor; cbn; auto; try congruence.
    all: rewrite <- T3; exact X.
  - intros [= <- <-]. auto.
Qed.

(* callbacks: complete_cb and filter_batch touch only cbs and calls *)
Definition core (s : state) :=
  (tasks s, units s, used s, sem_wait s, sem_free s, dp s, rd s, wg s, running s, nbar s).
Definition core_nord (s : state) :=
  (tasks s, units s, used s, sem_wait s, sem_free s, dp s, wg s, running s, nbar s,
   (inq s, crash s, work_closed s, send_fail s, c_push s, ops s)).

Lemma complete_cb_core i r s : core (fst (complete_cb i r s)) = core s /\ core_nord (fst (complete_cb i r s)) = core_nord s.
Proof. unfold complete_cb. destruct (nth_error (cbs s) i); auto. Qed.

Lemma filter_batch_core ms : forall s keep acc s' keep' os,
  filter_batch ms s keep acc = (s', keep', os) -> core s' = core s /\ core_nord s' = core_nord s.
Proof.
  induction ms as [|m r IH]; cbn; intros s keep acc s' keep' os H.
  - injection H as <- _ _. auto.
  - destruct (is_req_or_notif m); [eapply IH; eauto|].
    destruct (assoc (fix_id (j_id m)) (calls s)) as [i|].
    + destruct (complete_cb i _ s) as [s1 os1] eqn:C.
      apply IH in H. pose proof (complete_cb_core i (match j_error m with
         | Some e => CErr (we_code e) (we_msg e) | None => CRes (j_result m) end) s) as K.
      rewrite C in K. cbn in K. destruct H, K. split; congruence.
    + destruct (c_push s && is_nil (j_method m) && has_reply_fields m); eapply IH; eauto.
Qed.

Definition core0 (s : state) :=
  (tasks s, units s, used s, sem_wait s, sem_free s, dp s, wg s, running s, nbar s).

Lemma core_core0 s s' : core s' = core s -> core0 s' = core0 s.
Proof. unfold core, core0. congruence. Qed.
Lemma core_nord_core0 s s' : core_nord s' = core_nord s -> core0 s' = core0 s.
Proof. unfold core_nord, core0. congruence. Qed.

(* the reader's critical section on a message, while the server is running *)
Lemma read_cs_msg f i s s' os : f = FMsg i \/ f = FMsgEOF i -> running s = true ->
  read_cs f s = (s', os) ->
  core0 s' = core0 s /\ rd s' = RIdle /\ work_closed s' = work_closed s /\ ops s' = ops s.
Proof.
  intros Hf R H.
  assert (H' : (match i with
           | InBad => let '(s', os) := push_error s ParseError s_invalid_value in (s' <| rd := RIdle |>, os)
           | InMsgs _ [] => let '(s', os) := push_error s InvalidRequest s_empty_batch in (s' <| rd := RIdle |>, os)
           | InMsgs b ms =>
               let '(s1, keep, os) := filter_batch ms s [] [] in
               match keep with
               | [] => (s1 <| rd := RIdle |>, os)
               | _ => let s2 := s1 <| inq ::= fun q => q ++ [(b, keep)] |> <| rd := RIdle |> in
                      if work_closed s2 && (length (inq s2) =? 1)
                      then (s2 <| crash := Some CrSendOnClosedWork |>, os ++ [OCrash CrSendOnClosedWork])
                      else (s2, os)
               end
           end) = (s', os)).
  { destruct Hf as [-> | ->]; unfold read_cs in H; rewrite R in H; exact H. }
  clear H. destruct i as [|b ms].
  - cbn in H'. injection H' as <- <-. repeat split.
  - destruct ms as [|m ms].
    + cbn in H'. injection H' as <- <-. repeat split.
    + destruct (filter_batch (m :: ms) s [] []) as [[s1 keep] os1] eqn:F.
      apply filter_batch_core in F as [_ F]. unfold core_nord in F.
      injection F as T U Us W Fr D G Rn B Iq Cr Wc Sf Cp Op.
      destruct keep as [|k0 kr].
      * injection H' as <- <-. unfold core0. cbn. repeat split; congruence.
      * cbv zeta in H'.
        match type of H' with (if ?c then _ else _) = _ => destruct c end;
          injection H' as <- <-; unfold core0; cbn; repeat split; congruence.
Qed.

(* labels that never touch the core *)
Definition frame_label (l : label) : bool :=
  match l with
  | LFeed _ | LSendFault _ | LCallStop _ | LCallCancel _ _ | LCallPush _ _ _ _ | LCallWait
  | LCbCtxEnd _ _ | LRelPush _ | LRelCbWatch _ => true
  | _ => false
  end.

Lemma step_raw_frame s l s' os : frame_label l = true -> step_raw s l = Some (s', os) ->
  core s' = core s /\ crash s' = crash s /\ inq s' = inq s.
Proof.
  destruct l; cbn [frame_label]; try discriminate; intros _; cbn [step_raw]; intros H.
  - injection H as <- <-; auto.
  - injection H as <- <-; auto.
  - injection H as <- <-; auto.
  - injection H as <- <-; auto.
  - destruct (c_push s); injection H as <- <-; auto.
  - injection H as <- <-; auto.
  - destruct (find_idx _ 0 (cbs s)); injection H as <- <-; auto.
  - destruct (find_op n (ops s)) as [[| |n0 wantid m p]|]; try discriminate.
    cbn in H. destruct (running s); cbn in H; [|injection H as <- <-; auto].
    destruct wantid; [|injection H as <- <-; auto].
    destruct (send_fail s); [injection H as <- <-; auto|].
    destruct (find _ (ended s)) as [[? ?]|]; injection H as <- <-; auto.
  - destruct (nth_error (cbs s) c) as [cb0|]; [|discriminate].
    destruct (cb_watch cb0); try discriminate.
    cbn in H.
    destruct (assoc (cb_id cb0) (calls s)) as [j|]; [|injection H as <- <-; auto].
    destruct (cb_slot cb0); [injection H as <- <-; auto|].
    destruct (j =? c); [|injection H as <- <-; auto].
    destruct (match cb_ctx cb0 with Some WDeadline => _ | _ => _ end) as [code msg].
    injection H as H. unfold complete_cb in H. cbn in H.
    destruct (nth_error (upd_nth c _ (cbs s)) c); injection H as <- <-; auto.
Qed.

(** * mk_task *)
Lemma mk_task_unit s u ids m : t_unit (mk_task s u ids m) = u.
Proof.
  unfold mk_task. destruct (pre_err s ids m); auto. destruct (is_nil (j_method m)); auto.
  destruct (assign_method s (j_method m)); auto.
Qed.

Lemma mk_task_id s u ids m : t_id (mk_task s u ids m) = fix_id (j_id m).
Proof.
  unfold mk_task. destruct (pre_err s ids m); auto. destruct (is_nil (j_method m)); auto.
  destruct (assign_method s (j_method m)); auto.
Qed.

Lemma mk_task_cancelled s u ids m : t_cancelled (mk_task s u ids m) = false.
Proof.
  unfold mk_task. destruct (pre_err s ids m); auto. destruct (is_nil (j_method m)); auto.
  destruct (assign_method s (j_method m)); auto.
Qed.

Definition twf (t : task) : Prop :=
  (forall e, t_pre t = Some e -> t_st t = TSkip) /\ (t_pre t = None -> t_st t = TSkip -> False).

Lemma mk_task_twf s u ids m : twf (mk_task s u ids m).
Proof.
  unfold mk_task, twf. destruct (pre_err s ids m); cbn; [split; auto; discriminate|].
  destruct (is_nil (j_method m)); cbn; [split; auto; discriminate|].
  destruct (assign_method s (j_method m)); cbn; split; auto; discriminate.
Qed.

(* a fresh task is TSkip or parked before the semaphore *)
Lemma mk_task_st s u ids m : let t := mk_task s u ids m in
  (t_st t = TSkip /\ t_pre t <> None) \/ (t_st t = TAtAcquire /\ t_pre t = None /\ t_hasctx t = true).
Proof.
  unfold mk_task. destruct (pre_err s ids m); cbn; [left; split; auto; discriminate|].
  destruct (is_nil (j_method m)); cbn; [left; split; auto; discriminate|].
  destruct (assign_method s (j_method m)); cbn; [right; auto|left; split; auto; discriminate].
Qed.

Lemma twf_le t t' : task_le t t' -> twf t -> twf t'.
Proof.
  intros [] [P1 P2]. destruct tl_st0 as (_ & Sk & _). unfold twf. rewrite tl_pre0. split.
  - intros e E. apply Sk. eauto.
  - intros E Z. apply P2; auto. apply Sk; auto.
Qed.

Lemma finished_le t t' : task_le t t' -> finished t = true -> finished t' = true.
Proof.
  intros [] F. destruct tl_st0 as (_ & Sk & Dn & _). unfold finished in *.
  destruct (t_st t) eqn:E; try discriminate.
  - destruct Sk as [Sk _]. rewrite Sk; auto.
  - rewrite (Dn _ eq_refl). auto.
Qed.

Lemma in_nth_error {A} (l : list A) x : In x l -> exists k, nth_error l k = Some x.
Proof. apply In_nth_error. Qed.

Lemma forallb_filter_ext (l l' : list task) u :
  tasks_ext l l' -> length l' = length l ->
  forallb finished (filter (fun t => t_unit t =? u) l) = true ->
  forallb finished (filter (fun t => t_unit t =? u) l') = true.
Proof.
  intros X L H. rewrite forallb_forall in *. intros t' Ht'.
  apply filter_In in Ht' as [I U]. apply In_nth_error in I as [k E].
  destruct (nth_error l k) as [t|] eqn:Et.
  - destruct (X _ _ Et) as (t2 & E2 & Le). rewrite E in E2. injection E2 as <-.
    eapply finished_le; eauto. apply H. apply filter_In. split; [eapply nth_error_In; eauto|].
    destruct Le. congruence.
  - apply nth_error_None in Et. apply nth_error_some_lt in E. lia.
Qed.

(** * The basic invariant *)
Record inv (s : state) : Prop := {
  i_wait : wait_ok s;
  i_dp : forall u, dp s = DAtBarrier u \/ dp s = DBarrierWait u ->
           exists un, nth_error (units s) u = Some un /\ u_st un = UAtBarrier;
  i_unit : forall k t, nth_error (tasks s) k = Some t -> t_unit t < length (units s);
  i_pre : forall k t, nth_error (tasks s) k = Some t -> twf t;
  i_fin : forall u un, nth_error (units s) u = Some un -> u_st un = UAtDeliver \/ u_st un = UFinished ->
           all_finished s u = true
}.

Lemma inv_core0 s s' : core0 s' = core0 s -> inv s -> inv s'.
Proof.
  unfold core0. intros [= T U Us W F D G R B] [I1 I2 I3 I4 I5].
  constructor; unfold wait_ok, all_finished, unit_tasks in *; rewrite ?T, ?U, ?W, ?D; auto.
Qed.

(* steps that only move tasks forward *)
Lemma inv_tasks_step s s' : inv s -> wait_ok s' -> tasks_ext (tasks s) (tasks s') ->
  length (tasks s') = length (tasks s) -> units s' = units s -> dp s' = dp s -> inv s'.
Proof.
  intros [I1 I2 I3 I4 I5] W X L U D.
  assert (Back : forall k t', nth_error (tasks s') k = Some t' ->
            exists t, nth_error (tasks s) k = Some t /\ task_le t t').
  { intros k t' E. destruct (nth_error (tasks s) k) as [t|] eqn:Et.
    - destruct (X _ _ Et) as (t2 & E2 & Le). rewrite E in E2. injection E2 as <-. eauto.
    - apply nth_error_None in Et. apply nth_error_some_lt in E. lia. }
  constructor; auto.
  - rewrite D, U. auto.
  - intros k t' E. destruct (Back _ _ E) as (t & Et & Le). rewrite U. destruct Le. rewrite tl_unit0. eauto.
  - intros k t' E. destruct (Back _ _ E) as (t & Et & Le). eapply twf_le; eauto.
  - rewrite U. intros u un Eu Su. unfold all_finished, unit_tasks.
    eapply forallb_filter_ext; eauto.
Qed.

Lemma set_task_ext k f s : (forall t, nth_error (tasks s) k = Some t -> task_le t (f t)) ->
  tasks_ext (tasks s) (tasks (set_task k f s)).
Proof. intros H. cbn. apply list_ext_upd; auto. apply task_le_refl. Qed.

(* a status update of a task that is not queued in the semaphore *)
Lemma wait_ok_upd s k f : wait_ok s -> ~ In k (sem_wait s) -> 
  NoDup (sem_wait s) /\ forall j, In j (sem_wait s) ->
     exists t, nth_error (upd_nth k f (tasks s)) j = Some t /\ t_st t = TWaiting.
Proof.
  intros [ND W] N. split; auto. intros j Hj. rewrite nth_error_upd_nth_neq; auto. congruence.
Qed.

Lemma wait_not_in s k t : wait_ok s -> nth_error (tasks s) k = Some t -> t_st t <> TWaiting -> ~ In k (sem_wait s).
Proof. intros [_ W] E N I. destruct (W _ I) as (t' & E' & S'). congruence. Qed.

Lemma st_le_rank a b : a <> TSkip -> b <> TSkip -> (forall x, a <> TDone x) -> (forall o, a <> TAtHandled o) ->
  rank a <= rank b -> st_le a b.
Proof.
  intros Na Nb Nd Nh R. repeat split; auto; try tauto.
  - intros x E. destruct (Nd _ E).
  - intros o o' E. destruct (Nh _ E).
Qed.

(** * Evolution of a state: tasks and units only move forward *)
Definition ext (s s' : state) : Prop := tasks_ext (tasks s) (tasks s') /\ units_ext (units s) (units s').

Lemma ext_refl s : ext s s.
Proof. split; [apply tasks_ext_refl|apply units_ext_refl]. Qed.
Lemma ext_trans a b c : ext a b -> ext b c -> ext a c.
Proof. intros [] []. split; [eapply tasks_ext_trans|eapply units_ext_trans]; eauto. Qed.

Definition bar (s : state) (u : nat) : Prop := dp s = DAtBarrier u \/ dp s = DBarrierWait u.

Lemma task_step_ok s s' : inv s -> wait_ok s' -> tasks_ext (tasks s) (tasks s') ->
  length (tasks s') = length (tasks s) -> units s' = units s -> dp s' = dp s -> inv s' /\ ext s s'.
Proof.
  intros I W X L U D. split; [eapply inv_tasks_step; eauto|]. split; auto. rewrite U. apply units_ext_refl.
Qed.

Lemma same_step_ok s s' : inv s -> tasks s' = tasks s -> units s' = units s -> sem_wait s' = sem_wait s ->
  (forall u, bar s' u -> bar s u) -> inv s' /\ ext s s'.
Proof.
  intros [I1 I2 I3 I4 I5] T U W B. split.
  - constructor; unfold wait_ok, all_finished, unit_tasks in *; rewrite ?T, ?U, ?W; auto.
    intros u Hu. apply I2. apply B. exact Hu.
  - unfold ext. rewrite T, U. apply ext_refl.
Qed.

Lemma core0_step_ok s s' : inv s -> core0 s' = core0 s -> inv s' /\ ext s s'.
Proof.
  intros I C. unfold core0 in C. injection C as T U Us W F D G R B.
  apply same_step_ok; auto. unfold bar. rewrite D. auto.
Qed.

Lemma set_unit_ok s i un x s' : inv s -> nth_error (units s) i = Some un -> urank (u_st un) <= urank x ->
  tasks s' = tasks s -> sem_wait s' = sem_wait s ->
  units s' = upd_nth i (fun y => y <| u_st := x |>) (units s) ->
  (forall u, bar s' u -> bar s u /\ u <> i) ->
  (x = UAtDeliver \/ x = UFinished -> all_finished s i = true) -> inv s' /\ ext s s'.
Proof.
  intros [I1 I2 I3 I4 I5] Ei Rk T W U B Fin. split.
  - constructor; unfold wait_ok, all_finished, unit_tasks in *; rewrite ?T, ?U, ?W, ?upd_nth_length; auto.
    + intros u Hu. destruct (B _ Hu) as [Hb Hn]. rewrite nth_error_upd_nth_neq; auto.
    + intros u un' Eu Su. rewrite nth_error_upd_nth in Eu. destruct (Nat.eqb_spec i u) as [<-|N].
      * rewrite Ei in Eu. cbn in Eu. injection Eu as <-. cbn in Su. auto.
      * eauto.
  - split; [rewrite T; apply tasks_ext_refl|]. rewrite U. apply list_ext_upd; [apply unit_le_refl|].
    intros y Ey. rewrite Ei in Ey. injection Ey as <-. apply unit_le_st; auto.
Qed.

Lemma find_unit_some p : forall l i k, find_unit p i l = Some k ->
  exists un, nth_error l (k - i) = Some un /\ p k un = true /\ i <= k.
Proof.
  induction l as [|x r IH]; cbn; intros i k H; [discriminate|].
  destruct (p i x) eqn:P.
  - injection H as <-. rewrite Nat.sub_diag. exists x. auto.
  - destruct (IH _ _ H) as (un & E & Pk & Le). exists un.
    replace (k - i) with (S (k - S i)) by lia. cbn. repeat split; auto. lia.
Qed.

Lemma unit_complete_inv s i un : unit_complete s i un = true -> u_st un = URunning /\ all_finished s i = true.
Proof. unfold unit_complete. destruct (u_st un); try discriminate. auto. Qed.

(* dequeue *)
Lemma filter_none {A} (p : A -> bool) l : (forall x, In x l -> p x = false) -> filter p l = [].
Proof.
  induction l as [|x r IH]; cbn; auto. intros H. rewrite (H x (or_introl eq_refl)). apply IH. auto.
Qed.

Lemma dequeue_ok s : inv s -> inv (dequeue s) /\ ext s (dequeue s).
Proof.
  intros I. unfold dequeue. destruct (inq s) as [|[batch ms] q] eqn:Q.
  - destruct (running s); apply same_step_ok; auto; unfold bar; cbn; intros u [D|D]; discriminate.
  - destruct I as [[ND W] I2 I3 I4 I5]. split.
    + constructor; unfold wait_ok, all_finished, unit_tasks in *; cbn.
      * split; auto. intros k Hk. destruct (W _ Hk) as (t & Et & St). exists t. split; auto.
        apply nth_error_app_old; auto.
      * intros u [D|D]; [|discriminate]. injection D as <-. rewrite nth_error_app_new. eauto.
      * intros k t E. rewrite app_length. cbn.
        destruct (Nat.lt_ge_cases k (length (tasks s))) as [Lt|Ge].
        -- rewrite nth_error_app1 in E by auto. specialize (I3 _ _ E). lia.
        -- rewrite nth_error_app2 in E by auto. apply nth_error_In, in_map_iff in E as (m & <- & _).
           rewrite mk_task_unit. lia.
      * intros k t E.
        destruct (Nat.lt_ge_cases k (length (tasks s))) as [Lt|Ge].
        -- rewrite nth_error_app1 in E by auto. eauto.
        -- rewrite nth_error_app2 in E by auto. apply nth_error_In, in_map_iff in E as (m & <- & _).
           apply mk_task_twf.
      * intros u un E Su.
        destruct (Nat.lt_ge_cases u (length (units s))) as [Lt|Ge].
        -- rewrite nth_error_app1 in E by auto. rewrite filter_app, forallb_app. rewrite (I5 _ _ E Su). cbn.
           rewrite filter_none; auto. intros t Ht. apply in_map_iff in Ht as (m & <- & _).
           rewrite mk_task_unit. apply Nat.eqb_neq. lia.
        -- rewrite nth_error_app2 in E by auto. destruct (u - length (units s)) as [|n]; cbn in E.
           ++ injection E as <-. cbn in Su. destruct Su; discriminate.
           ++ destruct n; discriminate.
    + split; cbn; apply list_ext_app; [apply task_le_refl|apply unit_le_refl].
Qed.

(** * Every raw step and every settling step preserves [inv] and moves forward *)
Lemma stop_ok c s s' os : inv s -> stop_locked c s = (s', os) -> inv s' /\ ext s s'.
Proof.
  intros I H. apply stop_locked_spec in H as [(_ & -> & _)|(_ & _ & P)].
  - split; auto. apply ext_refl.
  - destruct P. apply task_step_ok; auto. apply sp_wait0. apply I.
Qed.

Lemma raw_gate s p o s' os : inv s -> step_raw s (LGate p o) = Some (s', os) -> inv s' /\ ext s s'.
Proof.
  intros I H. cbn in H.
  destruct (find_idx _ 0 (tasks s)) as [k|] eqn:F; [|discriminate].
  destruct (nth_error (tasks s) k) as [t|] eqn:E; [|discriminate].
  injection H as <- <-.
  apply find_idx_some in F as (x & Ex & Px & _). rewrite Nat.sub_0_r, E in Ex. injection Ex as <-.
  apply andb_true_iff in Px as [_ Px]. destruct (t_st t) eqn:St; try discriminate.
  apply task_step_ok; auto.
  - unfold wait_ok; cbn. apply wait_ok_upd; [apply I|]. eapply wait_not_in; eauto; [apply I|congruence].
  - apply set_task_ext. intros t0 E0. rewrite E in E0. injection E0 as <-.
    apply task_le_st. rewrite St. apply st_le_rank; cbn; try congruence; lia.
  - cbn. apply upd_nth_length.
Qed.

Lemma raw_read s s' os : inv s -> step_raw s LRelRead = Some (s', os) -> inv s' /\ ext s s'.
Proof.
  intros I H. cbn in H. destruct (rd s) as [| |f|] eqn:R; try discriminate. injection H as H.
  destruct f as [i|i|c].
  3:{ cbn in H. destruct (stop_locked c s) as [s1 os1] eqn:St. injection H as <- <-.
      destruct (stop_ok _ _ _ _ I St) as [I1 X1]. 
      destruct (same_step_ok s1 (s1 <| rd := RExited |> <| wg ::= pred |>) I1) as [I2 X2]; auto. }
  all: destruct (running s) eqn:Rn;
    [ eapply read_cs_msg in H as (C & _); eauto; apply core0_step_ok; auto
    | cbn in H; rewrite Rn in H; cbn in H; injection H as <- <-; apply same_step_ok; auto ].
Qed.

Lemma NoDup_snoc {A} (l : list A) x : NoDup l -> ~ In x l -> NoDup (l ++ [x]).
Proof.
  induction l as [|y r IH]; cbn; intros ND N.
  - constructor; auto.
  - inversion ND; subst. constructor.
    + intros I. apply in_app_or in I as [I|[<-|[]]]; auto.
    + apply IH; auto.
Qed.

Lemma raw_acquire s k s' os : inv s -> step_raw s (LRelAcquire k) = Some (s', os) -> inv s' /\ ext s s'.
Proof.
  intros I H. cbn in H.
  destruct (nth_error (tasks s) k) as [t|] eqn:E; [|discriminate].
  destruct (t_st t) eqn:St; try discriminate.
  destruct (unit_running s t); cbn in H; [|discriminate].
  assert (Nk : ~ In k (sem_wait s)) by (eapply wait_not_in; eauto; [apply I|congruence]).
  assert (X : forall x, x <> TSkip -> tasks_ext (tasks s) (upd_nth k (fun t => t <| t_st := x |>) (tasks s))).
  { intros x Nx. apply list_ext_upd; [apply task_le_refl|]. intros t0 E0. rewrite E in E0. injection E0 as <-.
    apply task_le_st. rewrite St. apply st_le_rank; cbn; try congruence; lia. }
  destruct (t_cancelled t).
  { injection H as <- <-. apply task_step_ok; auto; cbn; [|apply X; congruence|apply upd_nth_length].
    unfold wait_ok; cbn. apply wait_ok_upd; auto. apply I. }
  destruct (sem_free s) as [|fr].
  2: destruct (sem_wait s) as [|w0 wr] eqn:Wq.
  2: destruct (t_builtin t).
  2,3: injection H as <- <-; apply task_step_ok; auto; cbn; [|apply X; congruence|apply upd_nth_length];
       unfold wait_ok; cbn; apply wait_ok_upd; [apply I|rewrite Wq; auto].
  all: injection H as <- <-; apply task_step_ok; auto; cbn; [|apply X; congruence|apply upd_nth_length].
  all: destruct I as [[ND W] _ _ _ _]; unfold wait_ok; cbn; split.
  1,3: apply NoDup_snoc; auto; rewrite ?Wq; auto.
  all: intros j Hj; apply in_app_or in Hj as [Hj|[<-|[]]];
    [ rewrite nth_error_upd_nth_neq; [auto|congruence]
    | erewrite nth_error_upd_nth_eq; eauto ].
Qed.

Lemma raw_handled s k s' os : inv s -> step_raw s (LRelHandled k) = Some (s', os) -> inv s' /\ ext s s'.
Proof.
  intros I H. unfold step_raw in H.
  destruct (nth_error (tasks s) k) as [t|] eqn:E; [|discriminate].
  destruct (t_st t) eqn:St; try discriminate.
  set (s1 := set_task k (fun t => t <| t_st := TDone (body_of_outcome t o) |>) s <| sem_free ::= S |>) in *.
  assert (W1 : wait_ok s1).
  { unfold wait_ok, s1; cbn. apply wait_ok_upd; [apply I|]. eapply wait_not_in; eauto; [apply I|congruence]. }
  assert (X1 : tasks_ext (tasks s) (tasks s1)).
  { unfold s1; cbn. apply list_ext_upd; [apply task_le_refl|]. intros t0 E0. rewrite E in E0. injection E0 as <-.
    apply task_le_st. rewrite St. repeat split; cbn; try lia; try congruence. }
  pose proof (grant_spec (S (length (sem_wait s1))) s1 [] W1) as G.
  destruct (grant (S (length (sem_wait s1))) s1 []) as [s2 os2]. cbn [fst snd] in G.
  destruct G as [W2 X2 L2 (Eu & Ed & _) _ _ _ _].
  assert (R : inv s2 /\ ext s s2).
  { apply task_step_ok; auto.
    - eapply tasks_ext_trans; eauto.
    - rewrite L2. unfold s1; cbn. apply upd_nth_length. }
  destruct R as [I2 Xs].
  destruct (is_note t).
  - destruct (nbar s2); injection H as <- <-.
    + destruct (same_step_ok s2 (s2 <| crash := Some CrNegativeBarrier |>) I2) as [I3 X3]; auto.
    + destruct (same_step_ok s2 (s2 <| nbar := n |>) I2) as [I3 X3]; auto.
  - injection H as <- <-. auto.
Qed.

Lemma raw_deliver s u s' os : inv s -> step_raw s (LRelDeliver u) = Some (s', os) -> inv s' /\ ext s s'.
Proof.
  intros I H. cbn in H.
  destruct (nth_error (units s) u) as [un|] eqn:E; [|discriminate].
  destruct (u_st un) eqn:Su; try discriminate.
  destruct (release_ids_spec (unit_tasks s u) s) as [W X L (Eu & Ed & _) _ _ _].
  set (s1 := release_ids (unit_tasks s u) s) in *.
  destruct (task_step_ok s s1 I) as [I1 X1]; auto. { apply W, I. }
  destruct (u_chok un); cbn in H; injection H as <- <-.
  - assert (Fin : all_finished s1 u = true) by (apply (i_fin _ I1 u un); [congruence|auto]).
    assert (R : inv (set_unit u (fun x => x <| u_st := UFinished |>) s1 <| wg ::= pred |>) /\
                ext s1 (set_unit u (fun x => x <| u_st := UFinished |>) s1 <| wg ::= pred |>)).
    { eapply (set_unit_ok s1 u un UFinished); auto; try congruence.
      - rewrite Su. cbn. lia.
      - intros v Hv. split; [exact Hv|]. intros ->. destruct (i_dp _ I1 _ Hv) as (un' & E' & S').
        rewrite Eu, E in E'. injection E' as <-. congruence. }
    destruct R as [I2 X2]. split; auto. eapply ext_trans; eauto.
  - destruct (same_step_ok s1 (s1 <| crash := Some CrNilChannel |>) I1) as [I3 X3]; auto.
Qed.

Lemma raw_step_ok s l s' os : inv s -> step_raw s l = Some (s', os) -> inv s' /\ ext s s'.
Proof.
  intros I H. destruct (frame_label l) eqn:Fl.
  { apply step_raw_frame in H as [C _]; auto. apply core0_step_ok; auto. apply core_core0; auto. }
  destruct l; try discriminate Fl.
  - cbn in H. destruct (negb (running s) && (wg s =? 0)); [|discriminate]. injection H as <- <-.
    apply same_step_ok; auto. unfold bar; cbn. intros u [D|D]; discriminate.
  - eapply raw_gate; eauto.
  - eapply raw_read; eauto.
  - cbn in H. destruct (dp s); try discriminate. injection H as <- <-. apply dequeue_ok; auto.
  - cbn in H. destruct (dp s) eqn:D; try discriminate. injection H as <- <-.
    apply same_step_ok; auto. unfold bar; cbn. rewrite D. intros v [Dv|Dv]; [discriminate|]. injection Dv as <-. auto.
  - eapply raw_acquire; eauto.
  - eapply raw_handled; eauto.
  - eapply raw_deliver; eauto.
  - cbn in H. destruct (find_op n (ops s)) as [[n0|n0 id|n0 w m p]|]; try discriminate.
    destruct (stop_locked SCStop (s <| ops ::= del_op n |>)) as [s1 os1] eqn:St. injection H as <- <-.
    eapply (stop_ok SCStop (s <| ops ::= del_op n |>)) in St; auto.
    destruct (same_step_ok s (s <| ops ::= del_op n |>) I); auto.
  - cbn in H. destruct (find_op n (ops s)) as [[n0|n0 id|n0 w m p]|]; try discriminate.
    injection H as <- <-. cbn.
    destruct (assoc id (used s)) as [owner|].
    + destruct (same_step_ok s (s <| ops ::= del_op n |>) I) as [I1 X1]; auto.
      set (s1 := s <| ops ::= del_op n |>) in *.
      destruct (cancel_task_env owner s1) as (Eu & Ed & _).
      destruct (task_step_ok s1 (cancel_task owner s1) I1); auto.
      * apply cancel_task_wait_ok, I1.
      * apply cancel_task_ext.
      * apply cancel_task_len.
    + apply same_step_ok; auto.
Qed.

Lemma settle1_ok s s' os : inv s -> settle1 s = Some (s', os) -> inv s' /\ ext s s'.
Proof.
  intros I H. apply settle1_inv in H. destruct H.
  - apply same_step_ok; auto.
  - apply dequeue_ok; auto.
  - destruct (i_dp _ I u (or_intror H)) as (un' & E' & S'). rewrite H1 in E'. injection E' as <-.
    eapply (set_unit_ok s u un URunning); eauto.
    + rewrite S'. cbn. lia.
    + unfold bar; cbn. intros v [D|D]; discriminate.
    + intros [D|D]; discriminate.
  - apply find_unit_some in H as (un' & E' & C & _). rewrite Nat.sub_0_r, H0 in E'. injection E' as <-.
    apply unit_complete_inv in C as [Su Fin].
    eapply (set_unit_ok s i un UFinished); eauto.
    + rewrite Su. cbn. lia.
    + intros v Hv. split; [exact Hv|]. intros ->. destruct (i_dp _ I _ Hv) as (un' & E' & S').
      rewrite H0 in E'. injection E' as <-. congruence.
  - apply find_unit_some in H as (un' & E' & C & _). rewrite Nat.sub_0_r, H0 in E'. injection E' as <-.
    apply unit_complete_inv in C as [Su Fin].
    eapply (set_unit_ok s i un UAtDeliver); eauto.
    + rewrite Su. cbn. lia.
    + intros v Hv. split; [exact Hv|]. intros ->. destruct (i_dp _ I _ Hv) as (un' & E' & S').
      rewrite H0 in E'. injection E' as <-. congruence.
  - apply same_step_ok; auto.
  - apply same_step_ok; auto.
Qed.

Lemma init_inv c : inv (init_of c).
Proof.
  constructor; cbn.
  - split; [constructor|intros k []].
  - intros u [D|D]; discriminate.
  - intros [|k] t E; discriminate.
  - intros [|k] t E; discriminate.
  - intros [|u] un E; discriminate.
Qed.

Theorem reachf_inv c s : reachf c s -> inv s.
Proof.
  induction 1.
  - apply init_inv.
  - eapply raw_step_ok; eauto.
  - eapply settle1_ok; eauto.
Qed.

(* generic lifting of a reflexive-transitive relation from raw/settle steps to windows and traces *)
Section Lift.
  Variable c : config.
  Variable R : state -> state -> Prop.
  Hypothesis R_refl : forall s, R s s.
  Hypothesis R_trans : forall a b d, R a b -> R b d -> R a d.
  Hypothesis R_raw : forall s l s' os, reachf c s -> crash s = None -> step_raw s l = Some (s', os) -> R s s'.
  Hypothesis R_settle : forall s s' os, reachf c s -> settle1 s = Some (s', os) -> R s s'.

  Lemma lift_settle : forall fuel s acc s' os, reachf c s -> settle fuel s acc = (s', os) -> R s s'.
  Proof.
    induction fuel as [|f IH]; cbn; intros s acc s' os Rs H.
    - injection H as <- _. auto.
    - destruct (settle1 s) as [[s1 os1]|] eqn:E.
      + eapply R_trans; [eapply R_settle; eauto|]. eapply IH; [|exact H]. eapply rf_settle; eauto.
      + injection H as <- _. auto.
  Qed.

  Lemma lift_step s l s' os : reachf c s -> step s l = Some (s', os) -> R s s'.
  Proof.
    intros Rs H. apply step_decompose in H as (C & s1 & os1 & Hr & [(_ & -> & _)|(C1 & Hs)]).
    - eapply R_raw; eauto.
    - eapply R_trans; [eapply R_raw; eauto|]. eapply lift_settle; [|exact Hs]. eapply rf_raw; eauto.
  Qed.

  Lemma lift_run : forall tr s s' oss, reachf c s -> run s tr = Some (s', oss) -> R s s'.
  Proof.
    induction tr as [|l r IH]; cbn; intros s s' oss Rs H.
    - injection H as <- _. auto.
    - destruct (step s l) as [[s1 os]|] eqn:E; [|discriminate].
      destruct (run s1 r) as [[s2 oss2]|] eqn:E2; [|discriminate]. injection H as <- _.
      eapply R_trans; [eapply lift_step; eauto|]. eapply IH; [|exact E2]. eapply step_reachf; eauto.
  Qed.
End Lift.

Lemma step_ext c s l s' os : reachf c s -> step s l = Some (s', os) -> ext s s'.
Proof.
  apply (lift_step c ext ext_refl ext_trans).
  - intros a l0 b os0 Ra _ H. eapply raw_step_ok; eauto. eapply reachf_inv; eauto.
  - intros a b os0 Ra H. eapply settle1_ok; eauto. eapply reachf_inv; eauto.
Qed.

Lemma run_ext c tr s s' oss : reachf c s -> run s tr = Some (s', oss) -> ext s s'.
Proof.
  apply (lift_run c ext ext_refl ext_trans).
  - intros a l0 b os0 Ra _ H. eapply raw_step_ok; eauto. eapply reachf_inv; eauto.
  - intros a b os0 Ra H. eapply settle1_ok; eauto. eapply reachf_inv; eauto.
Qed.

(** * Wait-group accounting: wg = live reader + live dispatcher + released unfinished units *)
Definition rd_live (r : rdpc) : nat := match r with RIdle | RHold _ => 1 | _ => 0 end.
Definition dp_live (d : dppc) : nat := match d with DAtNext | DWaitWork | DAtBarrier _ | DBarrierWait _ => 1 | _ => 0 end.
Definition unit_live (u : unit_) : bool := match u_st u with URunning | UAtDeliver => true | _ => false end.

Record inv2 (s : state) : Prop := {
  i_bar : forall u un, nth_error (units s) u = Some un -> u_st un = UAtBarrier \/ u_st un = UBarrierWait -> bar s u;
  i_wg : wg s = rd_live (rd s) + dp_live (dp s) + countb unit_live (units s)
}.

Lemma inv2_same s s' : units s' = units s -> rd_live (rd s') = rd_live (rd s) -> dp s' = dp s -> wg s' = wg s ->
  inv2 s -> inv2 s'.
Proof.
  intros U R D W [B G]. constructor; unfold bar in *; rewrite ?U, ?R, ?D, ?W; auto.
Qed.

(* labels that change only tasks, the semaphore, the reservations and bookkeeping *)
Definition taskonly_label (l : label) : bool :=
  match l with LGate _ _ | LRelAcquire _ | LRelHandled _ | LRelStop _ | LRelCancel _ => true | _ => false end.

Lemma raw_taskonly s l s' os : inv s -> taskonly_label l = true -> step_raw s l = Some (s', os) ->
  units s' = units s /\ rd s' = rd s /\ dp s' = dp s /\ wg s' = wg s.
Proof.
  intros I Tl H. destruct l; try discriminate Tl; unfold step_raw in H.
  - destruct (find_idx _ 0 (tasks s)) as [k|]; [|discriminate].
    destruct (nth_error (tasks s) k) as [t|]; [|discriminate]. injection H as <- <-. auto.
  - destruct (nth_error (tasks s) k) as [t|]; [|discriminate].
    destruct (t_st t); try discriminate.
    destruct (negb (unit_running s t)); [discriminate|].
    destruct (t_cancelled t); [injection H as <- <-; auto|].
    destruct (sem_free s); [injection H as <- <-; auto|].
    destruct (sem_wait s); [|injection H as <- <-; auto].
    destruct (t_builtin t); injection H as <- <-; auto.
  - destruct (nth_error (tasks s) k) as [t|] eqn:E; [|discriminate].
    destruct (t_st t) eqn:St; try discriminate.
    set (s1 := set_task k (fun t => t <| t_st := TDone (body_of_outcome t o) |>) s <| sem_free ::= S |>) in *.
    assert (W1 : wait_ok s1).
    { unfold wait_ok, s1; cbn. apply wait_ok_upd; [apply I|]. eapply wait_not_in; eauto; [apply I|congruence]. }
    pose proof (grant_spec (S (length (sem_wait s1))) s1 [] W1) as G.
    destruct (grant (S (length (sem_wait s1))) s1 []) as [s2 os2]. cbn [fst snd] in G.
    destruct G as [_ _ _ (Eu & Ed & Er & Ew & _) _ _ _ _].
    destruct (is_note t); [destruct (nbar s2)|]; injection H as <- <-; cbn; auto.
  - destruct (find_op n (ops s)) as [[n0|n0 id|n0 w m p]|]; try discriminate.
    destruct (stop_locked SCStop (s <| ops ::= del_op n |>)) as [s1 os1] eqn:St. injection H as <- <-.
    apply stop_locked_spec in St as [(_ & -> & _)|(_ & _ & P)]; auto. destruct P. auto.
  - destruct (find_op n (ops s)) as [[n0|n0 id|n0 w m p]|]; try discriminate.
    injection H as <- <-. destruct (assoc id _); auto.
    destruct (cancel_task_env n1 (s <| ops ::= del_op n |>)) as (Eu & Ed & Er & Ew & _). auto.
Qed.

Lemma countb_snoc {A} (p : A -> bool) l x : countb p (l ++ [x]) = countb p l + (if p x then 1 else 0).
Proof. rewrite countb_app. cbn. lia. Qed.

Lemma inv2_dequeue s : inv2 s -> dp s = DAtNext \/ dp s = DWaitWork -> inv2 (dequeue s).
Proof.
  intros [B G] D. 
  assert (NoBar : forall u, ~ bar s u) by (intros u [Hb|Hb]; destruct D as [D|D]; congruence).
  unfold dequeue. destruct (inq s) as [|[batch ms] q].
  - destruct (running s); constructor; unfold bar; cbn.
    + intros u un E Su. destruct (NoBar _ (B _ _ E Su)).
    + rewrite G. destruct D as [-> | ->]; auto.
    + intros u un E Su. destruct (NoBar _ (B _ _ E Su)).
    + rewrite G. destruct D as [-> | ->]; cbn; lia.
  - constructor; unfold bar; cbn.
    + intros u un E Su. destruct (Nat.lt_ge_cases u (length (units s))) as [Lt|Ge].
      * rewrite nth_error_app1 in E by auto. destruct (NoBar _ (B _ _ E Su)).
      * assert (u = length (units s)); [|subst; auto].
        apply nth_error_some_lt in E. rewrite app_length in E. cbn in E. lia.
    + rewrite countb_snoc. cbn. rewrite G. destruct D as [-> | ->]; cbn; lia.
Qed.

Lemma countb_set_unit i x (l : list unit_) un : nth_error l i = Some un ->
  countb unit_live (upd_nth i (fun y => y <| u_st := x |>) l) + (if unit_live un then 1 else 0) =
  countb unit_live l + (match x with URunning | UAtDeliver => 1 | _ => 0 end).
Proof.
  intros E. rewrite (countb_upd_nth unit_live i (fun y => y <| u_st := x |>) l un E).
  unfold unit_live at 2. cbn. destruct x; auto.
Qed.

Lemma inv2_raw s l s' os : inv s -> inv2 s -> step_raw s l = Some (s', os) -> inv2 s'.
Proof.
  intros I I2 H. destruct (frame_label l) eqn:Fl.
  { apply step_raw_frame in H as [C _]; auto. unfold core in C. injection C as T U Us W F D R G Rn B.
    eapply inv2_same; eauto. congruence. }
  destruct (taskonly_label l) eqn:Tl.
  { destruct (raw_taskonly _ _ _ _ I Tl H) as (U & R & D & W). eapply inv2_same; eauto. congruence. }
  destruct l; try discriminate Fl; try discriminate Tl; unfold step_raw in H.
  - (* LStart *)
    destruct (negb (running s) && (wg s =? 0)) eqn:C; [|discriminate]. injection H as <- <-.
    apply andb_true_iff in C as [_ C]. apply Nat.eqb_eq in C. destruct I2 as [B G].
    rewrite C in G. constructor; unfold bar; cbn.
    + intros u un E Su. destruct (B _ _ E Su) as [Hb|Hb]; rewrite Hb in G; cbn in G; lia.
    + lia.
  - (* LRelRead *)
    destruct (rd s) as [| |f|] eqn:R; try discriminate. injection H as H.
    destruct I2 as [B G]. rewrite R in G. cbn in G.
    destruct f as [i|i|c].
    3:{ cbn in H. destruct (stop_locked c s) as [s1 os1] eqn:St. injection H as <- <-.
        assert (Q : units s1 = units s /\ dp s1 = dp s /\ wg s1 = wg s).
        { apply stop_locked_spec in St as [(_ & -> & _)|(_ & _ & P)]; auto. destruct P; auto. }
        destruct Q as (Qu & Qd & Qw). constructor; unfold bar; cbn; rewrite ?Qu, ?Qd, ?Qw; auto. lia. }
    all: destruct (running s) eqn:Rn;
      [ eapply read_cs_msg in H as (C & Ri & _); eauto; unfold core0 in C; injection C as T U Us W F D Gw Rn' Bn;
        constructor; unfold bar; rewrite ?U, ?D, ?Gw, ?Ri; auto
      | cbn in H; rewrite Rn in H; cbn in H; injection H as <- <-; constructor; unfold bar; cbn; auto; lia ].
  - (* LRelNext *)
    destruct (dp s) eqn:D; try discriminate. injection H as <- <-. apply inv2_dequeue; auto.
  - (* LRelBarrier *)
    destruct (dp s) eqn:D; try discriminate. injection H as <- <-. destruct I2 as [B G].
    constructor; unfold bar in *; cbn.
    + intros v un E Su. destruct (B _ _ E Su) as [Hb|Hb]; rewrite D in Hb; [injection Hb as <-; auto|discriminate].
    + rewrite G, D. auto.
  - (* LRelDeliver *)
    destruct (nth_error (units s) u) as [un|] eqn:E; [|discriminate].
    destruct (u_st un) eqn:Su; try discriminate.
    destruct (release_ids_spec (unit_tasks s u) s) as [_ _ _ (Eu & Ed & Er & Ew & _) _ _ _].
    set (s1 := release_ids (unit_tasks s u) s) in *. destruct I2 as [B G].
    destruct (u_chok un); cbn in H; injection H as <- <-.
    + constructor; unfold bar in *; cbn; rewrite ?Eu, ?Ed, ?Er, ?Ew.
      * intros v un' E' Su'. rewrite nth_error_upd_nth in E'. destruct (Nat.eqb_spec u v) as [<-|N]; eauto.
        rewrite E in E'. cbn in E'. injection E' as <-. cbn in Su'. destruct Su'; discriminate.
      * pose proof (countb_set_unit u UFinished _ _ E) as Cn. unfold unit_live in Cn at 2. rewrite Su in Cn.
        cbn in Cn. lia.
    + constructor; unfold bar in *; cbn; rewrite ?Eu, ?Ed, ?Er, ?Ew; auto.
Qed.

Lemma inv2_settle s s' os : inv s -> inv2 s -> settle1 s = Some (s', os) -> inv2 s'.
Proof.
  intros I I2 H. apply settle1_inv in H. destruct H.
  - destruct I2 as [B G]. constructor; unfold bar in *; cbn; auto. rewrite G, H. auto.
  - apply inv2_dequeue; auto.
  - destruct I2 as [B G]. destruct (i_dp _ I u (or_intror H)) as (un' & E' & S'). rewrite H1 in E'. injection E' as <-.
    constructor; unfold bar in *; cbn.
    + intros v un' E' Su'. rewrite nth_error_upd_nth in E'. destruct (Nat.eqb_spec u v) as [<-|N].
      * rewrite H1 in E'. cbn in E'. injection E' as <-. cbn in Su'. destruct Su'; discriminate.
      * destruct (B _ _ E' Su') as [Hb|Hb]; rewrite H in Hb; [discriminate|]. injection Hb as <-. congruence.
    + pose proof (countb_set_unit u URunning _ _ H1) as Cn. unfold unit_live in Cn at 2. rewrite S' in Cn.
      cbn in Cn. rewrite G, H. cbn. lia.
  - apply find_unit_some in H as (un' & E' & C & _). rewrite Nat.sub_0_r, H0 in E'. injection E' as <-.
    apply unit_complete_inv in C as [Su Fin]. destruct I2 as [B G].
    constructor; unfold bar in *; cbn.
    + intros v un' E' Su'. rewrite nth_error_upd_nth in E'. destruct (Nat.eqb_spec i v) as [<-|N]; eauto.
      rewrite H0 in E'. cbn in E'. injection E' as <-. cbn in Su'. destruct Su'; discriminate.
    + pose proof (countb_set_unit i UFinished _ _ H0) as Cn. unfold unit_live in Cn at 2. rewrite Su in Cn.
      cbn in Cn. lia.
  - apply find_unit_some in H as (un' & E' & C & _). rewrite Nat.sub_0_r, H0 in E'. injection E' as <-.
    apply unit_complete_inv in C as [Su Fin]. destruct I2 as [B G].
    constructor; unfold bar in *; cbn.
    + intros v un' E' Su'. rewrite nth_error_upd_nth in E'. destruct (Nat.eqb_spec i v) as [<-|N]; eauto.
      rewrite H0 in E'. cbn in E'. injection E' as <-. cbn in Su'. destruct Su'; discriminate.
    + pose proof (countb_set_unit i UAtDeliver _ _ H0) as Cn. unfold unit_live in Cn at 2. rewrite Su in Cn.
      cbn in Cn. lia.
  - destruct I2 as [B G]. constructor; unfold bar in *; cbn; auto.
  - destruct I2 as [B G]. constructor; unfold bar in *; cbn; auto.
Qed.

Theorem reachf_inv2 c s : reachf c s -> inv2 s.
Proof.
  induction 1.
  - constructor; cbn; auto. intros [|u] un E; discriminate.
  - eapply inv2_raw; eauto. eapply reachf_inv; eauto.
  - eapply inv2_settle; eauto. eapply reachf_inv; eauto.
Qed.

(* consequence used for restart: an idle wait group means every unit has finished *)
Lemma wg0_all_finished s : inv2 s -> wg s = 0 -> forall u un, nth_error (units s) u = Some un -> u_st un = UFinished.
Proof.
  intros [B G] Z u un E. rewrite Z in G.
  assert (C0 : countb unit_live (units s) = 0) by lia.
  rewrite countb_zero_forall in C0. specialize (C0 un (nth_error_In _ _ E)). unfold unit_live in C0.
  destruct (u_st un) eqn:Su; auto; try discriminate.
  all: destruct (B _ _ E) as [Hb|Hb]; auto; rewrite Hb in G; cbn in G; lia.
Qed.

(** * The structure lemmas in their reachable-state form *)
Lemma task_unit_bound c s k t : reachf c s -> nth_error (tasks s) k = Some t -> t_unit t < length (units s).
Proof. intros R. apply (i_unit _ (reachf_inv _ _ R)). Qed.

Lemma task_pre_skip c s k t e : reachf c s -> nth_error (tasks s) k = Some t -> t_pre t = Some e -> t_st t = TSkip.
Proof. intros R E. destruct (i_pre _ (reachf_inv _ _ R) _ _ E) as [P _]. apply P. Qed.

Lemma task_nopre_noskip c s k t : reachf c s -> nth_error (tasks s) k = Some t -> t_pre t = None -> t_st t <> TSkip.
Proof. intros R E. destruct (i_pre _ (reachf_inv _ _ R) _ _ E) as [_ P]. intros H Z. apply P; auto. Qed.

Lemma unit_done_all_finished c s u un : reachf c s -> nth_error (units s) u = Some un ->
  u_st un = UAtDeliver \/ u_st un = UFinished -> all_finished s u = true.
Proof. intros R. apply (i_fin _ (reachf_inv _ _ R)). Qed.

Lemma sem_wait_waiting c s k : reachf c s -> In k (sem_wait s) ->
  exists t, nth_error (tasks s) k = Some t /\ t_st t = TWaiting.
Proof. intros R. apply (i_wait _ (reachf_inv _ _ R)). Qed.

(* along a trace: the task at index k stays at index k, keeps its immutable fields, and its status only grows *)
Lemma run_task_le c tr s s' oss k t : reachf c s -> run s tr = Some (s', oss) -> nth_error (tasks s) k = Some t ->
  exists t', nth_error (tasks s') k = Some t' /\ task_le t t'.
Proof. intros R H E. destruct (run_ext _ _ _ _ _ R H) as [X _]. apply (X _ _ E). Qed.

Lemma run_unit_le c tr s s' oss u un : reachf c s -> run s tr = Some (s', oss) -> nth_error (units s) u = Some un ->
  exists un', nth_error (units s') u = Some un' /\ unit_le un un'.
Proof. intros R H E. destruct (run_ext _ _ _ _ _ R H) as [_ X]. apply (X _ _ E). Qed.

Lemma step_task_le c s l s' os k t : reachf c s -> step s l = Some (s', os) -> nth_error (tasks s) k = Some t ->
  exists t', nth_error (tasks s') k = Some t' /\ task_le t t'.
Proof. intros R H E. destruct (step_ext _ _ _ _ _ R H) as [X _]. apply (X _ _ E). Qed.

Lemma step_unit_le c s l s' os u un : reachf c s -> step s l = Some (s', os) -> nth_error (units s) u = Some un ->
  exists un', nth_error (units s') u = Some un' /\ unit_le un un'.
Proof. intros R H E. destruct (step_ext _ _ _ _ _ R H) as [_ X]. apply (X _ _ E). Qed.

(** * Concrete configurations and traces for the non-vacuity examples *)
Definition ex_m : bytes := [109%N].                         (* method "m" *)
Definition ex_cfg : config :=
  {| cf_K := 1; cf_push := false; cf_builtin := false; cf_methods := [ex_m]; cf_unblock := false |}.
Definition ex_cfg2 : config :=
  {| cf_K := 2; cf_push := true; cf_builtin := true; cf_methods := [ex_m]; cf_unblock := false |}.
Definition ex_msg (id method params : bytes) : jmsg :=
  {| j_id := id; j_method := method; j_params := params; j_error := None; j_result := []; j_err := None |}.
Definition ex_call (id params : bytes) : jmsg := ex_msg id ex_m params.
Definition ex_note (params : bytes) : jmsg := ex_msg [] ex_m params.
Definition st_of (c : config) (tr : list label) : state :=
  match run (init_of c) tr with Some (s, _) => s | None => init_of c end.
Definition obs_of (c : config) (tr : list label) : list (list obs) :=
  match run (init_of c) tr with Some (_, oss) => oss | None => [] end.

Lemma reach_st_of c tr : run (init_of c) tr <> None -> reach c (st_of c tr).
Proof.
  unfold st_of. destruct (run (init_of c) tr) as [[s oss]|] eqn:E; [|congruence].
  intros _. eapply run_reach; [apply reach_init|exact E].
Qed.

Lemma run_st_of c tr : run (init_of c) tr <> None -> run (init_of c) tr = Some (st_of c tr, obs_of c tr).
Proof. unfold st_of, obs_of. destruct (run (init_of c) tr) as [[s oss]|]; congruence. Qed.

(* a request "1" with params [] is read, dispatched and released; its handler runs *)
Definition ex_tr_running : list label :=
  [LStart; LRelNext; LFeed (FMsg (InMsgs false [ex_call [49%N] [91;93]%N])); LRelRead; LRelBarrier; LRelAcquire 0].
(* ... its handler has returned and the reply is about to be delivered *)
Definition ex_tr_atdeliver : list label :=
  ex_tr_running ++ [LGate [91;93]%N (ORes [50%N]); LRelHandled 0].
Definition ex_tr_delivered : list label := ex_tr_atdeliver ++ [LRelDeliver 0].

(** * Settling never touches an existing task *)
Definition keeps_tasks (a b : state) : Prop := forall k t, nth_error (tasks a) k = Some t -> nth_error (tasks b) k = Some t.

Lemma settle1_keeps s s' os : settle1 s = Some (s', os) -> keeps_tasks s s'.
Proof.
  intros H. apply settle1_inv in H. destruct H; intros k t E; cbn; auto.
  unfold dequeue. destruct (inq s) as [|[b ms] q]; [destruct (running s); auto|].
  cbn. apply nth_error_app_old; auto.
Qed.

Lemma settle_keeps : forall fuel s acc s' os, settle fuel s acc = (s', os) -> keeps_tasks s s'.
Proof.
  induction fuel as [|f IH]; cbn; intros s acc s' os H.
  - injection H as <- _. intros k t E; auto.
  - destruct (settle1 s) as [[s1 os1]|] eqn:E.
    + apply settle1_keeps in E. apply IH in H. intros k t Ek. auto.
    + injection H as <- _. intros k t Ek; auto.
Qed.

