(* SrvEventually: from 'at quiescence' to 'eventually'.
   SrvC08m proves that every window of a release label strictly decreases [mu_rel].  Hence, from every reachable state
   (after ANY history of environment actions and partial schedules), every run of release labels (the goroutines of
   the server passing their scheduling points, the environment doing nothing) has at most [mu_rel s] windows, can
   be extended to one that ends in a quiescent state, and a run of release labels cannot be extended any further
   exactly when it has reached a quiescent state.  The liveness theorems of the server properties that are stated
   'at a quiescent point' therefore hold 'eventually': in the last state of every maximal release-only run. *)
From Coq Require Import List NArith ZArith Bool Arith Lia.
From RecordUpdate Require Import RecordUpdate.
From JV Require Import Bytes Msg SrvModel SrvLemmas SrvBasics SrvC01 SrvC07 SrvC09 SrvC10 SrvC08 SrvC08b SrvC08c SrvC08q
  SrvC08m SrvHist SrvC01b.
From JV Require SrvC03 SrvC06 SrvC06b SrvNoCrash SrvC08n SrvC08r SrvC08u SrvC08w SrvC08x SrvC08y SrvC09b SrvC09c.
Import ListNotations.

(** * 0. release-only runs *)
Definition rel_only (tr : list label) : Prop := Forall (fun l => is_rel l = true) tr.

Lemma rel_only_app a b : rel_only a -> rel_only b -> rel_only (a ++ b).
Proof. intros A B. apply Forall_app. split; auto. Qed.

Lemma rel_only_no_start tr : rel_only tr -> ~ In LStart tr.
Proof. intros F I. unfold rel_only in F. rewrite Forall_forall in F. specialize (F _ I). discriminate F. Qed.

Lemma run_app_inv : forall tr1 s tr2 s2 oss, run s (tr1 ++ tr2) = Some (s2, oss) ->
  exists s1 oss1 oss2, run s tr1 = Some (s1, oss1) /\ run s1 tr2 = Some (s2, oss2) /\ oss = oss1 ++ oss2.
Proof.
  induction tr1 as [|l r IH]; cbn [app run]; intros s tr2 s2 oss H.
  - exists s, [], oss. auto.
  - destruct (step s l) as [[s0 os]|] eqn:E; [|discriminate].
    destruct (run s0 (r ++ tr2)) as [[sa ossa]|] eqn:E2; [|discriminate]. injection H as <- <-.
    destruct (IH _ _ _ _ E2) as (s1 & oss1 & oss2 & H1 & H2 & ->).
    exists s1, (os :: oss1), oss2. rewrite H1. auto.
Qed.

(* a scheduler: the first enabled release label *)
Definition pick_first (x : state) : label := hd LStart (enabled_rel x).

Lemma pick_first_ok x : quiescent x = false -> In (pick_first x) (enabled_rel x).
Proof.
  unfold quiescent, pick_first. destruct (enabled_rel x) as [|l r]; cbn; [discriminate|auto].
Qed.

(* a release label whose window is defined is one of the candidates: the state is not quiescent *)
Lemma rel_step_enabled s l x : is_rel l = true -> step s l = Some x -> In l (enabled_rel s).
Proof.
  intros Il H. unfold enabled_rel. apply filter_In. split; [|rewrite H; reflexivity].
  destruct x as [s' os]. apply step_decompose in H as (_ & s1 & os1 & Hr & _).
  destruct l; try discriminate Il; unfold step_raw in Hr.
  - apply (in_cand s SRead); [cbn; tauto|]. cbn. destruct (rd s); try discriminate. left; reflexivity.
  - apply (in_cand s SNext); [cbn; tauto|]. cbn. destruct (dp s); try discriminate. left; reflexivity.
  - apply (in_cand s SBarrier); [cbn; tauto|]. cbn. destruct (dp s); try discriminate. left; reflexivity.
  - apply (in_cand s SAcquire); [cbn; tauto|]. cbn. apply in_map.
    destruct (nth_error (tasks s) k) as [t|] eqn:E; [|discriminate].
    destruct (t_st t) eqn:St; try discriminate.
    destruct (unit_running s t) eqn:Ur; [|discriminate].
    apply (in_idxs_where (at_acquire s) (tasks s) 0 k t E). unfold at_acquire. rewrite St. exact Ur.
  - apply (in_cand s SHandled); [cbn; tauto|]. cbn. apply in_map.
    destruct (nth_error (tasks s) k) as [t|] eqn:E; [|discriminate].
    destruct (t_st t) eqn:St; try discriminate.
    apply (in_idxs_where at_handled (tasks s) 0 k t E). unfold at_handled. rewrite St. reflexivity.
  - apply (in_cand s SDeliver); [cbn; tauto|]. cbn. apply in_map.
    destruct (nth_error (units s) u) as [un|] eqn:E; [|discriminate].
    destruct (u_st un) eqn:Su; try discriminate.
    apply (in_idxs_where at_deliver (units s) 0 u un E). unfold at_deliver. rewrite Su. reflexivity.
  - apply (in_cand s SStop); [cbn; tauto|]. cbn.
    destruct (find_op n (ops s)) as [[n0|n0 id|n0 w m p]|] eqn:F; try discriminate.
    apply find_op_some in F as [I E]. cbn in E. subst n0. apply in_flat_map. exists (OpStop n). split; [exact I|left; reflexivity].
  - apply (in_cand s SCancel); [cbn; tauto|]. cbn.
    destruct (find_op n (ops s)) as [[n0|n0 id|n0 w m p]|] eqn:F; try discriminate.
    apply find_op_some in F as [I E]. cbn in E. subst n0. apply in_flat_map. exists (OpCancel n id). split; [exact I|left; reflexivity].
  - apply (in_cand s SPush); [cbn; tauto|]. cbn.
    destruct (find_op n (ops s)) as [[n0|n0 id|n0 w m p]|] eqn:F; try discriminate.
    apply find_op_some in F as [I E]. cbn in E. subst n0. apply in_flat_map. exists (OpPush n w m p). split; [exact I|left; reflexivity].
  - apply (in_cand s SCbWatch); [cbn; tauto|]. cbn. apply in_map.
    destruct (nth_error (cbs s) c) as [cb0|] eqn:E; [|discriminate].
    destruct (cb_watch cb0) eqn:W; try discriminate.
    apply (in_idxs_where watch_parked (cbs s) 0 c cb0 E). unfold watch_parked. rewrite W. reflexivity.
Qed.

(* quiescent = no release label has a window: the release-only runs that end in a quiescent state are the maximal ones *)
Theorem quiescent_iff_maximal s : quiescent s = true <-> forall l, is_rel l = true -> step s l = None.
Proof.
  split.
  - intros Q l Il. destruct (step s l) as [x|] eqn:E; auto. exfalso.
    apply (SrvC03.quiescent_none s l Q). eapply rel_step_enabled; eauto.
  - intros H. unfold quiescent. destruct (enabled_rel s) as [|l r] eqn:E; [reflexivity|exfalso].
    assert (I : In l (enabled_rel s)) by (rewrite E; left; reflexivity).
    pose proof (enabled_rel_is_rel _ _ I) as Il. unfold enabled_rel in I. apply filter_In in I as [_ I].
    rewrite (H l Il) in I. discriminate I.
Qed.

(* (i) a quiescent state is reached by a release-only run of at most mu_rel s windows *)
Theorem rel_quiescent_reachable c s : reach c s ->
  exists tr s' oss, run s tr = Some (s', oss) /\ rel_only tr /\ length tr <= mu_rel s /\ quiescent s' = true.
Proof.
  intros R. destruct (rel_eventually_quiescent c s R (mu_rel s) (le_n _) pick_first pick_first_ok)
    as (tr & s' & oss & Hr & F & Q & L).
  exists tr, s', oss. auto.
Qed.

(* (ii) every release-only run is a prefix of one that ends in a quiescent state; all of them are short *)
Theorem rel_run_extends c s tr s1 oss1 : reach c s -> run s tr = Some (s1, oss1) -> rel_only tr ->
  length tr <= mu_rel s /\
  exists tr2 s' oss2, run s (tr ++ tr2) = Some (s', oss1 ++ oss2) /\ rel_only (tr ++ tr2) /\
    length (tr ++ tr2) <= mu_rel s /\ quiescent s' = true.
Proof.
  intros R H F. pose proof (rel_bounded c _ _ _ _ R F H) as B. split; [lia|].
  destruct (rel_quiescent_reachable c s1 (run_reach _ _ _ _ _ R H)) as (tr2 & s' & oss2 & H2 & F2 & L2 & Q).
  exists tr2, s', oss2. split; [eapply run_app_fwd; eauto|]. split; [apply rel_only_app; auto|].
  split; [rewrite app_length; lia|exact Q].
Qed.

(* the schema of the 'eventually' theorems below: P holds in the last state of every maximal release-only run from s,
   such runs exist, and none is longer than mu_rel s *)
Definition eventually (s : state) (P : list label -> state -> list (list obs) -> Prop) : Prop :=
  (exists tr s' oss, run s tr = Some (s', oss) /\ rel_only tr /\ length tr <= mu_rel s /\ quiescent s' = true) /\
  (forall tr s' oss, run s tr = Some (s', oss) -> rel_only tr ->
     length tr <= mu_rel s /\ (quiescent s' = true -> P tr s' oss)).

Lemma eventually_intro c s (P : list label -> state -> list (list obs) -> Prop) : reach c s ->
  (forall tr s' oss, run s tr = Some (s', oss) -> rel_only tr -> reach c s' -> quiescent s' = true -> P tr s' oss) ->
  eventually s P.
Proof.
  intros R H. split; [apply (rel_quiescent_reachable c s R)|].
  intros tr s' oss Hr F. split; [apply (rel_run_length c _ _ _ _ R F Hr)|].
  intros Q. apply H; auto. eapply run_reach; eauto.
Qed.

Lemma eventually_spec s P : eventually s P <->
  (exists tr s' oss, run s tr = Some (s', oss) /\ Forall (fun l => is_rel l = true) tr /\ length tr <= mu_rel s /\
     quiescent s' = true) /\
  (forall tr s' oss, run s tr = Some (s', oss) -> Forall (fun l => is_rel l = true) tr ->
     length tr <= mu_rel s /\ (quiescent s' = true -> P tr s' oss)).
Proof. reflexivity. Qed.

(** * 1. what is still unfinished at a quiescent point *)
(* a request whose handler has been entered and has not returned, or that is queued for a handler slot while every
   slot is taken *)
Definition held_in_handler (s : state) (t : task) : Prop :=
  t_st t = TRunning \/ (t_st t = TWaiting /\ sem_free s = 0).

(* at a quiescent point every holder of a slot is executing its handler (a returned handler gives its slot back in
   its next window, which is enabled) *)
Lemma quiescent_holder_running c s k t : reach c s -> quiescent s = true ->
  nth_error (tasks s) k = Some t -> SrvC06.holds t = true -> t_st t = TRunning.
Proof.
  intros R Q E H. unfold SrvC06.holds in H.
  destruct (quiescent_tasks _ _ _ _ R Q E) as [Z|[(b & Z)|[Z|[(Z & _)|(Z & _)]]]]; auto; rewrite Z in H; discriminate.
Qed.

(* whoever is held back is held back by a handler that has not returned (Concurrency >= 1) *)
Lemma quiescent_held_by_running c s k t : reach c s -> quiescent s = true -> 0 < cf_K c ->
  nth_error (tasks s) k = Some t -> held_in_handler s t ->
  exists j tj, nth_error (tasks s) j = Some tj /\ t_st tj = TRunning.
Proof.
  intros R Q HK E [Z|(Z & F)]; [eauto|].
  destruct (SrvC06.sem_invariant _ _ R) as [Sem _]. rewrite F in Sem.
  destruct (countb_pos_exists SrvC06.holds (tasks s)) as (x & Hx & Px); [unfold SrvC06.slots_used in Sem; lia|].
  apply In_nth_error in Hx as (j & Ej). exists j, x. split; auto. eapply quiescent_holder_running; eauto.
Qed.

Lemma quiescent_unfinished_task c s k t : reach c s -> quiescent s = true ->
  nth_error (tasks s) k = Some t -> finished t = false -> unit_running s t = true -> held_in_handler s t.
Proof.
  intros R Q E F Ur. unfold finished in F. unfold held_in_handler.
  destruct (quiescent_tasks _ _ _ _ R Q E) as [Z|[(b & Z)|[Z|[Z|(_ & Z)]]]]; auto;
    try (rewrite Z in F; discriminate F). congruence.
Qed.

(* the dispatcher of a quiescent state that waits at the barrier waits for a notification of an earlier message *)
Lemma quiescent_barrier_held c s u : reach c s -> quiescent s = true -> dp s = DBarrierWait u ->
  0 < nbar s /\ S u = length (units s) /\
  exists k t, nth_error (tasks s) k = Some t /\ is_note t = true /\ runnable t = true /\ t_unit t < u /\
    unit_running s t = true /\ held_in_handler s t.
Proof.
  intros R Q D. pose proof (reach_reachf _ _ R) as Rf.
  destruct (reachf_inv8 _ _ Rf) as [Ic It N].
  assert (B : 0 < nbar s).
  { destruct (quiescent_dp _ _ R Q) as [Z|[Z|[(Z & _)|(u' & _ & B)]]]; try congruence. }
  split; [exact B|].
  destruct (proj1 (SrvC03.frontier _ _ Rf) u (or_intror D)) as (Lu & Ru & _). split; [exact Lu|].
  pose proof B as B0. unfold invn in N. rewrite N in B0.
  destruct (countb_pos_exists _ _ B0) as (t & Ht & P). apply In_nth_error in Ht as (k & Ek).
  unfold pend in P. apply andb_true_iff in P as [P Ur]. apply andb_true_iff in P as [P F].
  apply andb_true_iff in P as [Nt Rn]. apply negb_true_iff in F. rewrite <- unit_running_urun in Ur.
  exists k, t. split; [exact Ek|]. split; [exact Nt|]. split; [exact Rn|]. split.
  - pose proof (task_unit_bound _ _ _ _ Rf Ek) as Lt.
    destruct (Nat.eq_dec (t_unit t) u) as [Eq|Ne]; [|lia]. exfalso.
    pose proof (SrvC03.unit_running_released _ _ Ur) as Rl. rewrite Eq in Rl. congruence.
  - split; [exact Ur|]. eapply quiescent_unfinished_task; eauto.
Qed.

(* C01, general form: at a quiescent point the only unfinished work is
   - a message one of whose requests is in its handler or queued for a slot with every slot taken,
   - the message at the barrier, and the queued messages behind it, held back by a notification of an earlier
     message that is in its handler or queued for a slot with every slot taken;
   and (Concurrency >= 1) in each case some handler that was entered has not returned *)
Theorem quiescent_unfinished c s : reach c s -> quiescent s = true ->
  (forall u un, nth_error (units s) u = Some un -> u_st un <> UFinished ->
     (u_st un = URunning /\
      exists k t, nth_error (tasks s) k = Some t /\ t_unit t = u /\ held_in_handler s t) \/
     ((u_st un = UAtBarrier \/ u_st un = UBarrierWait) /\ dp s = DBarrierWait u /\ 0 < nbar s /\
      exists k t, nth_error (tasks s) k = Some t /\ is_note t = true /\ runnable t = true /\ t_unit t < u /\
        held_in_handler s t)) /\
  (inq s <> [] ->
     exists u k t, dp s = DBarrierWait u /\ 0 < nbar s /\ nth_error (tasks s) k = Some t /\ is_note t = true /\
       runnable t = true /\ t_unit t < u /\ held_in_handler s t) /\
  (forall k t, nth_error (tasks s) k = Some t -> held_in_handler s t -> 0 < cf_K c ->
     exists j tj, nth_error (tasks s) j = Some tj /\ t_st tj = TRunning).
Proof.
  intros R Q. pose proof (reach_reachf _ _ R) as Rf. split; [|split].
  - intros u un Eu Nf. destruct (quiescent_units _ _ _ _ R Q Eu) as [Nd Hr].
    destruct (u_st un) eqn:Su; try congruence.
    + right. split; [auto|]. pose proof (i_bar _ (reachf_inv2 _ _ Rf) u un Eu (or_introl Su)) as Hb.
      assert (D : dp s = DBarrierWait u).
      { destruct Hb as [Hb|Hb]; auto. exfalso.
        destruct (quiescent_dp _ _ R Q) as [Z|[Z|[(Z & _)|(u' & Z & _)]]]; congruence. }
      destruct (quiescent_barrier_held _ _ _ R Q D) as (B & _ & k & t & E & Nt & Rn & Lt & _ & Hh).
      split; [exact D|]. split; [exact B|]. exists k, t. auto.
    + right. split; [auto|]. pose proof (i_bar _ (reachf_inv2 _ _ Rf) u un Eu (or_intror Su)) as Hb.
      assert (D : dp s = DBarrierWait u).
      { destruct Hb as [Hb|Hb]; auto. exfalso.
        destruct (quiescent_dp _ _ R Q) as [Z|[Z|[(Z & _)|(u' & Z & _)]]]; congruence. }
      destruct (quiescent_barrier_held _ _ _ R Q D) as (B & _ & k & t & E & Nt & Rn & Lt & _ & Hh).
      split; [exact D|]. split; [exact B|]. exists k, t. auto.
    + left. split; [reflexivity|]. destruct (Hr eq_refl) as (k & t & Ek & Hu & F).
      exists k, t. split; [exact Ek|]. split; [exact Hu|].
      eapply quiescent_unfinished_task; eauto. unfold unit_running. rewrite Hu, Eu, Su. reflexivity.
  - intros Nq. destruct (reachf_inv8 _ _ Rf) as [Ic _ _].
    destruct (quiescent_dp _ _ R Q) as [Z|[Z|[(_ & _ & Z)|(u & D & B)]]].
    + destruct (ic_dpx _ Ic (or_intror Z)) as [Z' _]. congruence.
    + destruct (ic_dpx _ Ic (or_introl Z)) as [Z' _]. congruence.
    + congruence.
    + destruct (quiescent_barrier_held _ _ _ R Q D) as (_ & _ & k & t & E & Nt & Rn & Lt & _ & Hh).
      exists u, k, t. auto 10.
  - intros k t E Hh HK. eapply quiescent_held_by_running; eauto.
Qed.

(* hence, at rest (quiescent, no handler executing, Concurrency >= 1) everything has finished, whether the server
   is still running or has been stopped *)
Theorem quiescent_at_rest c s : reach c s -> quiescent s = true -> 0 < cf_K c ->
  (forall k t, nth_error (tasks s) k = Some t -> t_st t <> TRunning) ->
  inq s = [] /\ (forall u un, nth_error (units s) u = Some un -> u_st un = UFinished) /\
  (forall k t, nth_error (tasks s) k = Some t -> finished t = true).
Proof.
  intros R Q HK Nr. destruct (quiescent_unfinished c s R Q) as (A & B & C).
  assert (No : forall k t, nth_error (tasks s) k = Some t -> ~ held_in_handler s t).
  { intros k t E Hh. destruct (C _ _ E Hh HK) as (j & tj & Ej & Z). apply (Nr _ _ Ej Z). }
  assert (U : forall u un, nth_error (units s) u = Some un -> u_st un = UFinished).
  { intros u un Eu. destruct (u_st un) eqn:Su; auto; exfalso.
    all: destruct (A u un Eu) as [(_ & k & t & E & _ & Hh)|(_ & _ & _ & k & t & E & _ & _ & _ & Hh)];
      [congruence| |]; apply (No _ _ E Hh). }
  split; [|split; [exact U|]].
  - destruct (inq s) eqn:Iq; auto. exfalso.
    destruct B as (u & k & t & _ & _ & E & _ & _ & _ & Hh); [discriminate|]. apply (No _ _ E Hh).
  - intros k t E. pose proof (reach_reachf _ _ R) as Rf.
    pose proof (task_unit_bound _ _ _ _ Rf E) as Lt.
    destruct (nth_error (units s) (t_unit t)) as [un|] eqn:Eu; [|apply nth_error_None in Eu; lia].
    pose proof (i_fin _ (reachf_inv _ _ Rf) _ _ Eu (or_intror (U _ _ Eu))) as F.
    eapply all_finished_in; eauto. eapply nth_error_In; eauto.
Qed.

(** * 2. C01: every accepted message is eventually answered *)
(* [tr0] is any history (environment actions and partial schedules) leading to s; from there the goroutines of the
   server run on their own.  In the last state s' of every maximal release-only run:
   - the only unfinished work is what [quiescent_unfinished] says (requests in their handlers or queued for a slot
     with every slot taken by a handler that has not returned; messages behind the barrier of such a notification);
   - if no handler is still executing in s' (every handler that was entered has returned: the environment's only
     obligation), the queue is empty, every task and every unit has finished, every unit with something to say has
     been delivered exactly once on the whole trace and every silent one never;
   - the messages sent by the deliver windows of the whole trace are exactly the replies of the finished non-silent
     units, each once, with the responses of its tasks. *)
Definition c01_answered (c : config) (tr0 : list label) (oss0 : list (list obs))
    (tr : list label) (s' : state) (oss : list (list obs)) : Prop :=
  ((forall u un, nth_error (units s') u = Some un -> u_st un <> UFinished ->
      (u_st un = URunning /\
       exists k t, nth_error (tasks s') k = Some t /\ t_unit t = u /\ held_in_handler s' t) \/
      ((u_st un = UAtBarrier \/ u_st un = UBarrierWait) /\ dp s' = DBarrierWait u /\ 0 < nbar s' /\
       exists k t, nth_error (tasks s') k = Some t /\ is_note t = true /\ runnable t = true /\ t_unit t < u /\
         held_in_handler s' t)) /\
   (inq s' <> [] ->
      exists u k t, dp s' = DBarrierWait u /\ 0 < nbar s' /\ nth_error (tasks s') k = Some t /\ is_note t = true /\
        runnable t = true /\ t_unit t < u /\ held_in_handler s' t) /\
   (forall k t, nth_error (tasks s') k = Some t -> held_in_handler s' t -> 0 < cf_K c ->
      exists j tj, nth_error (tasks s') j = Some tj /\ t_st tj = TRunning)) /\
  ((forall k t, nth_error (tasks s') k = Some t -> t_st t <> TRunning) -> 0 < cf_K c ->
     inq s' = [] /\ (forall k t, nth_error (tasks s') k = Some t -> finished t = true) /\
     forall u, u < length (units s') ->
       ufin s' u = true /\
       (responses (unit_tasks s' u) <> [] -> countb (is_deliver u) (tr0 ++ tr) = 1) /\
       (responses (unit_tasks s' u) = [] -> countb (is_deliver u) (tr0 ++ tr) = 0)) /\
  (unit_sends (tr0 ++ tr) (oss0 ++ oss) =
     map (fun u => (u, ubatch s' u, responses (unit_tasks s' u))) (delivered (tr0 ++ tr)) /\
   NoDup (delivered (tr0 ++ tr)) /\
   (forall u, In u (delivered (tr0 ++ tr)) <-> ufin s' u = true /\ responses (unit_tasks s' u) <> [])).

Theorem c01_eventually_answered c tr0 s oss0 : run (init_of c) tr0 = Some (s, oss0) ->
  eventually s (c01_answered c tr0 oss0).
Proof.
  intros H0. assert (R : reach c s) by (eapply run_reach; [apply reach_init|eauto]).
  apply (eventually_intro c); auto. intros tr s' oss H F R' Q.
  pose proof (run_app_fwd _ _ _ _ _ _ _ H0 H) as Hall.
  split; [apply (quiescent_unfinished c s' R' Q)|]. split; [|apply (c01_output_history c _ _ _ Hall)].
  intros Nr HK. destruct (quiescent_at_rest c s' R' Q HK Nr) as (Iq & Fu & Ft).
  split; [exact Iq|]. split; [exact Ft|]. intros u Lu.
  destruct (nth_error (units s') u) as [un|] eqn:Eu; [|apply nth_error_None in Eu; lia].
  assert (Fi : ufin s' u = true) by (unfold ufin; rewrite Eu, (Fu _ _ Eu); reflexivity).
  split; [exact Fi|]. apply (c01_delivered_iff_nonsilent c _ _ _ u Hall Fi).
Qed.

(* REFUTED as first worded ("if no task of s is TRunning and the server runs, every unit is finished in the quiescent
   state reached"): a request that has been received but whose handler has not been entered yet enters it during the
   release-only run, and its return is an action of the environment.  Hence the hypothesis 'no handler is executing'
   is about the state s' that is reached (and SrvProgress.v adds the handler returns to the runs). *)
Definition tr_unentered : list label :=
  [LStart; LFeed (FMsg (InMsgs false [ex_call [49%N] [91;93]%N])); LRelRead].

Theorem c01_eventually_answered_naive_refuted :
  exists s tr s' oss, reach ex_cfg s /\ running s = true /\ 0 < cf_K ex_cfg /\
    forallb (fun t => match t_st t with TRunning => false | _ => true end) (tasks s) = true /\
    run s tr = Some (s', oss) /\ rel_only tr /\ quiescent s' = true /\
    map u_st (units s') = [URunning] /\ map t_st (tasks s') = [TRunning].
Proof.
  exists (st_of ex_cfg tr_unentered), [LRelNext; LRelBarrier; LRelAcquire 0; LRelNext]. eexists _, _.
  split; [apply reach_st_of; vm_compute; discriminate|].
  split; [vm_compute; reflexivity|]. split; [cbn; lia|]. split; [vm_compute; reflexivity|].
  split; [vm_compute; reflexivity|]. split; [repeat constructor|]. repeat split; vm_compute; reflexivity.
Qed.

(* non-vacuity: the handler of a call has returned; the server runs on its own for three windows (invoke returns,
   the reply is delivered) and is at rest: everything is finished and the reply has been sent *)
Example c01_eventually_answered_nonvacuous :
  let tr0 := ex_tr_running ++ [LGate [91;93]%N (ORes [50%N])] in
  let tr := [LRelHandled 0; LRelNext; LRelDeliver 0] in
  run (init_of ex_cfg) tr0 <> None /\ run (st_of ex_cfg tr0) tr <> None /\ rel_only tr /\
  quiescent (st_of ex_cfg (tr0 ++ tr)) = true /\ quiescent (st_of ex_cfg tr0) = false /\
  0 < cf_K ex_cfg /\
  forallb (fun t => match t_st t with TRunning => false | _ => true end) (tasks (st_of ex_cfg (tr0 ++ tr))) = true /\
  map u_st (units (st_of ex_cfg (tr0 ++ tr))) = [UFinished] /\
  unit_sends (tr0 ++ tr) (obs_of ex_cfg (tr0 ++ tr)) = [(0, false, [{| r_id := [49%N]; r_body := BRes [50%N] |}])].
Proof.
  cbv zeta. split; [vm_compute; discriminate|]. split; [vm_compute; discriminate|]. split; [repeat constructor|].
  repeat split; try (vm_compute; reflexivity).
Qed.

(** * 3. C03 / C06: later requests eventually start; the semaphore is work-conserving *)
Lemma released_mono s s' u : units_ext (units s) (units s') -> SrvC03.released s u = true -> SrvC03.released s' u = true.
Proof.
  unfold SrvC03.released, SrvC03.rel_in. intros X H.
  destruct (nth_error (units s) u) as [un|] eqn:E; [|discriminate].
  destruct (X _ _ E) as (un' & E' & Le). rewrite E'. destruct Le as [_ _ _ Rk].
  unfold SrvC03.released_u in *. destruct (u_st un); try discriminate; destruct (u_st un'); cbn in Rk; auto; lia.
Qed.

(* at a quiescent point the slots in use are exactly the executing handlers *)
Lemma quiescent_slots_executing c s : reach c s -> quiescent s = true -> SrvC06.slots_used s = SrvC06.executing s.
Proof.
  intros R Q. unfold SrvC06.slots_used, SrvC06.executing. apply SrvC03.countb_ext_in. intros t It.
  apply In_nth_error in It as (k & E). destruct (SrvC06.holds t) eqn:H.
  - unfold SrvC06.is_running. rewrite (quiescent_holder_running _ _ _ _ R Q E H). reflexivity.
  - unfold SrvC06.holds in H. unfold SrvC06.is_running. destruct (t_st t); auto; discriminate.
Qed.

(* everything the transport has delivered has been read *)
Lemma quiescent_reader c s : reach c s -> quiescent s = true ->
  (forall f, rd s <> RHold f) /\ (rd s = RIdle -> ch_in s = []).
Proof.
  intros R Q. split; [|apply (SrvC09b.reach_idle_empty c s R)].
  intros f Hf. destruct (reader_enabled s f (no_crash _ _ R) Hf) as (s' & os & E).
  apply (SrvC03.quiescent_none s LRelRead Q). eapply rel_step_enabled; eauto.
Qed.

(* a task of a released message at a quiescent point *)
Lemma quiescent_released_task c s k t : reach c s -> quiescent s = true ->
  nth_error (tasks s) k = Some t -> SrvC03.released s (t_unit t) = true ->
  t_st t = TSkip \/ (exists b, t_st t = TDone b) \/ t_st t = TRunning \/
  (t_st t = TWaiting /\ sem_free s = 0 /\ SrvC06.slots_used s = cf_K c /\ SrvC06.executing s = cf_K c).
Proof.
  intros R Q E Rl.
  destruct (SrvC03.quiescent_task _ _ _ _ R (no_crash _ _ R) Q E Rl) as [Z|[Z|[Z|(Z & F & U)]]]; auto.
  right. right. right. split; auto. split; auto. split; auto. rewrite <- (quiescent_slots_executing c s R Q). exact U.
Qed.

Definition c03_later_started (c : config) (s : state) (tr : list label) (s' : state) (oss : list (list obs)) : Prop :=
  ((forall f, rd s' <> RHold f) /\ (rd s' = RIdle -> ch_in s' = [])) /\
  ((inq s' <> [] \/ exists u, dp s' = DAtBarrier u \/ dp s' = DBarrierWait u) ->
     exists u k n, dp s' = DBarrierWait u /\ 0 < nbar s' /\ nth_error (tasks s') k = Some n /\ is_note n = true /\
       runnable n = true /\ t_unit n < u /\ held_in_handler s' n) /\
  (forall k t, nth_error (tasks s') k = Some t -> SrvC03.released s' (t_unit t) = true ->
     (t_st t = TAtAcquire \/ t_st t = TWaiting) ->
     t_st t = TWaiting /\ sem_free s' = 0 /\ SrvC06.slots_used s' = cf_K c /\ SrvC06.executing s' = cf_K c) /\
  ((forall j n, nth_error (tasks s') j = Some n -> runnable n = true -> is_note n = true ->
      SrvC03.released s' (t_unit n) = true -> exists b, t_st n = TDone b) ->
     inq s' = [] /\ nbar s' = 0 /\ (forall u, ~ (dp s' = DAtBarrier u \/ dp s' = DBarrierWait u)) /\
     forall v, v < length (units s') -> SrvC03.released s' v = true) /\
  (forall k t', before_start s k = true -> nth_error (tasks s') k = Some t' -> t_st t' = TRunning ->
     exists cn, In (OStart (t_params t') cn) (concat oss)).

Theorem c03_later_requests_eventually_start c s : reach c s -> eventually s (c03_later_started c s).
Proof.
  intros R. apply (eventually_intro c); auto. intros tr s' oss H F R' Q.
  pose proof (reach_reachf _ _ R') as Rf'. pose proof (no_crash _ _ R') as Cr'.
  split; [apply (quiescent_reader c s' R' Q)|]. split; [|split; [|split]].
  - intros Hold.
    assert (Hb : exists u, dp s' = DBarrierWait u).
    { destruct (quiescent_dp _ _ R' Q) as [Z|[Z|[(Z & _ & Iq)|(u & D & _)]]]; eauto; exfalso.
      - destruct (ic_dpx _ (i8_c _ (reachf_inv8 _ _ Rf')) (or_intror Z)) as [Iq _].
        destruct Hold as [N|(u & [Hb|Hb])]; congruence.
      - destruct (ic_dpx _ (i8_c _ (reachf_inv8 _ _ Rf')) (or_introl Z)) as [Iq _].
        destruct Hold as [N|(u & [Hb|Hb])]; congruence.
      - destruct Hold as [N|(u & [Hb|Hb])]; congruence. }
    destruct Hb as (u & D).
    destruct (quiescent_barrier_held _ _ _ R' Q D) as (B & _ & k & t & E & Nt & Rn & Lt & _ & Hh).
    exists u, k, t. auto 10.
  - intros k t E Rl St.
    destruct (quiescent_released_task _ _ _ _ R' Q E Rl) as [Z|[(b & Z)|[Z|Z]]]; auto; destruct St; congruence.
  - intros Hn.
    assert (Z : nbar s' = 0).
    { rewrite (SrvC03.inv_nbar _ _ Rf'). apply countb_zero_forall. intros x Hx. apply In_nth_error in Hx as (j & E).
      unfold SrvC03.open_note, SrvC03.open_in, SrvC03.rnote.
      destruct (runnable x) eqn:Ru, (is_note x) eqn:Nx, (SrvC03.rel_in (units s') (t_unit x)) eqn:Rl; cbn; auto.
      destruct (Hn _ _ E Ru Nx Rl) as (b & Dn). unfold SrvC03.tdone. rewrite Dn. reflexivity. }
    assert (Nb : forall u, ~ (dp s' = DAtBarrier u \/ dp s' = DBarrierWait u)).
    { intros u Hb. destruct (quiescent_dp _ _ R' Q) as [D|[D|[(D & _)|(u' & D & B)]]]; try lia;
        destruct Hb as [Hb|Hb]; congruence. }
    split; [|split; [exact Z|split; [exact Nb|]]].
    + destruct (quiescent_dp _ _ R' Q) as [D|[D|[(_ & _ & Iq)|(u' & D & B)]]]; auto; try lia.
      * apply (ic_dpx _ (i8_c _ (reachf_inv8 _ _ Rf')) (or_intror D)).
      * apply (ic_dpx _ (i8_c _ (reachf_inv8 _ _ Rf')) (or_introl D)).
    + apply (proj2 (SrvC03.frontier _ _ Rf')). exact Nb.
  - intros k t' B E' St'.
    assert (Bt : t_builtin t' = false).
    { destruct (t_builtin t') eqn:Bt; auto. destruct (SrvC06.builtin_never_running _ _ _ _ R' E' Bt St'). }
    destruct (SrvC08n.run_enter c tr s s' oss k t' (reach_reachf _ _ R) H B E') as [Hin|(cn & _ & Hin)]; eauto.
    + rewrite St'. cbn. lia.
    + rewrite St'. discriminate.
Qed.

(* non-vacuity (K = 1): a call is in its handler; a notification and then another call arrive in later messages.
   Running on its own the server reads both, dispatches the notification, which queues for the slot (all K slots are
   taken by executing handlers), and the third message waits at the barrier for that notification - not for the call *)
Definition tr_call_running : list label := ex_tr_running ++
  [LFeed (FMsg (InMsgs false [ex_note [1%N]])); LFeed (FMsg (InMsgs false [ex_call [50%N] [2%N]]))].

Example c03_later_requests_eventually_start_nonvacuous :
  exists s tr s' oss, reach ex_cfg s /\ run s tr = Some (s', oss) /\ rel_only tr /\ quiescent s' = true /\
    length tr = 7 /\ mu_rel s = 17 /\
    map t_st (tasks s') = [TRunning; TWaiting; TAtAcquire] /\ map u_st (units s') = [URunning; URunning; UAtBarrier] /\
    dp s' = DBarrierWait 2 /\ nbar s' = 1 /\ sem_free s' = 0 /\ SrvC06.executing s' = cf_K ex_cfg /\ inq s' = [] /\
    rd s' = RIdle /\ ch_in s = [FMsg (InMsgs false [ex_call [50%N] [2%N]])].
Proof.
  exists (st_of ex_cfg tr_call_running),
    [LRelRead; LRelRead; LRelNext; LRelBarrier; LRelAcquire 1; LRelNext; LRelBarrier]. eexists _, _.
  split; [apply reach_st_of; vm_compute; discriminate|]. split; [vm_compute; reflexivity|].
  split; [repeat constructor|]. repeat split; vm_compute; reflexivity.
Qed.

(* C06: work conservation, eventually.  In the last state s' of a maximal release-only run the slots in use are the
   executing handlers; with a free slot nobody waits for one; while fewer than K handlers are executing every request
   of every released message has entered its handler (or is finished); and a request that in s was queued for a slot
   or parked before Acquire with its message released has entered its handler during the run (OStart among its
   observations), or is done (cancelled, or the built-in), or still waits with K handlers executing *)
Definition c06_conserving (c : config) (s : state) (tr : list label) (s' : state) (oss : list (list obs)) : Prop :=
  SrvC06.slots_used s' = SrvC06.executing s' /\
  (0 < sem_free s' ->
     sem_wait s' = [] /\ forall k t, nth_error (tasks s') k = Some t -> t_st t <> TWaiting /\ at_acquire s' t = false) /\
  (SrvC06.executing s' < cf_K c -> forall k t, nth_error (tasks s') k = Some t -> SrvC03.released s' (t_unit t) = true ->
     t_st t = TSkip \/ (exists b, t_st t = TDone b) \/ t_st t = TRunning) /\
  (forall k t, nth_error (tasks s) k = Some t -> t_st t = TWaiting \/ at_acquire s t = true ->
     exists t', nth_error (tasks s') k = Some t' /\
       ((t_st t' = TRunning /\ exists cn, In (OStart (t_params t) cn) (concat oss)) \/
        (exists b, t_st t' = TDone b) \/
        (t_st t' = TWaiting /\ sem_free s' = 0 /\ SrvC06.executing s' = cf_K c))).

Theorem c06_eventually_work_conserving c s : reach c s -> eventually s (c06_conserving c s).
Proof.
  intros R. apply (eventually_intro c); auto. intros tr s' oss H F R' Q.
  pose proof (reach_reachf _ _ R) as Rf. pose proof (reach_reachf _ _ R') as Rf'. pose proof (no_crash _ _ R') as Cr'.
  split; [apply (quiescent_slots_executing c s' R' Q)|]. split; [|split].
  - intros Fr. split; [apply (SrvC06.wait_queue _ _ R'); exact Fr|]. apply (SrvC06.work_conserving c s' R' Cr' Q Fr).
  - intros Lt k t E Rl.
    destruct (quiescent_released_task _ _ _ _ R' Q E Rl) as [Z|[Z|[Z|(_ & _ & _ & Z)]]]; auto. lia.
  - intros k t E St.
    destruct (run_task_le _ _ _ _ _ _ _ Rf H E) as (t' & E' & Le). exists t'. split; [exact E'|].
    assert (Rl : SrvC03.released s (t_unit t) = true).
    { destruct St as [St|St].
      - destruct (SrvC03.released s (t_unit t)) eqn:Rl; auto.
        destruct (SrvC03.unreleased_pending _ _ _ _ Rf E Rl); congruence.
      - unfold at_acquire in St. destruct (t_st t); try discriminate. apply SrvC03.unit_running_released; auto. }
    assert (Rl' : SrvC03.released s' (t_unit t') = true).
    { rewrite (tl_unit _ _ Le). apply (released_mono s s'); auto. apply (run_ext _ _ _ _ _ Rf H). }
    assert (B : before_start s k = true).
    { unfold before_start. rewrite E. apply Nat.ltb_lt. destruct St as [St|St]; [rewrite St; cbn; lia|].
      unfold at_acquire in St. destruct (t_st t); try discriminate. cbn. lia. }
    assert (Ns : t_st t' <> TSkip).
    { destruct (tl_st _ _ Le) as (_ & Sk & _). intros Z. apply Sk in Z. destruct St as [St|St]; [congruence|].
      unfold at_acquire in St. rewrite Z in St. discriminate. }
    destruct (quiescent_released_task _ _ _ _ R' Q E' Rl') as [Z|[Z|[Z|(Z & Fr & _ & Ex)]]]; auto; [congruence|].
    left. split; [exact Z|].
    assert (Bt : t_builtin t' = false).
    { destruct (t_builtin t') eqn:Bt; auto. destruct (SrvC06.builtin_never_running _ _ _ _ R' E' Bt Z). }
    rewrite <- (tl_params _ _ Le).
    destruct (SrvC08n.run_enter c tr s s' oss k t' Rf H B E') as [Hin|(cn & _ & Hin)]; eauto.
    + rewrite Z. cbn. lia.
    + rewrite Z. discriminate.
Qed.

(* non-vacuity (K = 2, two slots): a batch of two calls has been released; running on its own the server lets both
   enter their handlers (two OStart), then both slots are taken *)
Definition tr_two_released : list label :=
  [LStart; LRelNext; LFeed (FMsg (InMsgs true [ex_call [49%N] [1%N]; ex_call [50%N] [2%N]])); LRelRead; LRelBarrier].

Example c06_eventually_work_conserving_nonvacuous :
  exists s tr s' oss, reach ex_cfg2 s /\ run s tr = Some (s', oss) /\ rel_only tr /\ quiescent s' = true /\
    sem_free s = 2 /\ map (fun t => at_acquire s t) (tasks s) = [true; true] /\
    map t_st (tasks s') = [TRunning; TRunning] /\ sem_free s' = 0 /\ SrvC06.executing s' = cf_K ex_cfg2 /\
    concat oss = [OStart [2%N] false; OStart [1%N] false].
Proof.
  exists (st_of ex_cfg2 tr_two_released), [LRelAcquire 1; LRelNext; LRelAcquire 0]. eexists _, _.
  split; [apply reach_st_of; vm_compute; discriminate|]. split; [vm_compute; reflexivity|].
  split; [repeat constructor|]. repeat split; vm_compute; reflexivity.
Qed.

Lemma before_start_spec s k : before_start s k = true <->
  nth_error (tasks s) k = None \/ exists t, nth_error (tasks s) k = Some t /\ (t_st t = TAtAcquire \/ t_st t = TWaiting).
Proof.
  unfold before_start. destruct (nth_error (tasks s) k) as [t|]; [|split; auto].
  split.
  - intros H. apply Nat.ltb_lt in H. right. exists t. split; auto. destruct (t_st t); cbn in H; auto; lia.
  - intros [H|(t0 & [= <-] & [H|H])]; [discriminate| |]; rewrite H; reflexivity.
Qed.

(** * 4. C08: every pending WaitStatus eventually returns, with the status of the first cause *)
Definition is_waitret (o : obs) : bool := match o with OWaitRet _ => true | _ => false end.
Definition count_waitret (os : list obs) : nat := countb is_waitret os.

Lemma nowait_count os : Forall nowait os -> count_waitret os = 0.
Proof.
  unfold count_waitret. induction 1 as [|o r H _ IH]; cbn; auto. destruct o; cbn in *; auto. tauto.
Qed.

(* the critical section of a release label neither calls WaitStatus nor lets it return *)
Lemma raw_rel_waits s l s' os : inv s -> is_rel l = true -> step_raw s l = Some (s', os) -> waits s' = waits s.
Proof.
  intros I Il H. apply raw_ctl in H; auto.
  destruct H as [L Rn Wg -> | c s0 s1 Sc Rn H0 P H1 | f L Rd Rn -> | f i L Rd Hf Rn S5 C0 Ri Wa Hq
                | L D -> | u L D -> | u un s1 L E Su -> Hs | S5 Cp Wa Cr]; auto.
  - assert (W0 : waits s0 = waits s) by (destruct H0 as [->|(n & ->)]; reflexivity).
    rewrite <- W0, <- (sr_waits _ _ _ P). destruct H1 as [->|(_ & ->)]; reflexivity.
  - apply dequeue_nontask_like.
  - pose proof (nontask_release (unit_tasks s u) s) as G. apply nontask_fields in G.
    assert (W1 : waits (release_ids (unit_tasks s u) s) = waits s) by apply G.
    destruct Hs as [(_ & ->)|(_ & ->)]; cbn; exact W1.
  - destruct Wa as [Wa|(L & _)]; auto. subst l. discriminate Il.
Qed.

(* wake-ups: each WaitStatus return takes one pending call *)
Lemma settle_waits c : forall fuel s acc s' os, reachf c s -> settle fuel s acc = (s', os) ->
  count_waitret os + waits s' = count_waitret acc + waits s.
Proof.
  induction fuel as [|n IH]; cbn; intros s acc s' os R H.
  - injection H as <- <-. lia.
  - destruct (settle1 s) as [[s1 os1]|] eqn:E; [|injection H as <- <-; lia].
    pose proof (rf_settle _ _ _ _ R E) as R1. rewrite (IH _ _ _ _ R1 H).
    unfold count_waitret. rewrite countb_app. pose proof (no_crash_f _ _ R1) as Cr1.
    apply settle1_inv in E.
    destruct E as [f q Rd Q | D _ | u un D _ Eu | i un F E _ | i un F E _ | W _ Q | W _ Q]; cbn; try lia.
    + destruct (dequeue_nontask_like s) as (_ & _ & Wd & _). rewrite Wd. lia.
    + cbn in Cr1. discriminate.
Qed.

Lemma step_rel_waits c s l s' os : reach c s -> is_rel l = true -> step s l = Some (s', os) ->
  count_waitret os + waits s' = waits s.
Proof.
  intros R Il H. pose proof (reach_reachf _ _ R) as Rf. pose proof (reachf_inv _ _ Rf) as I.
  apply step_decompose in H as (Cr & s1 & os1 & Hr & Hs).
  pose proof (raw_rel_waits _ _ _ _ I Il Hr) as W1.
  pose proof (nowait_count _ (raw_nowait _ _ _ _ I Hr)) as N1.
  destruct Hs as [(_ & -> & ->)|(_ & Hs)]; [lia|].
  pose proof (settle_waits c _ _ _ _ _ (rf_raw _ _ _ _ _ Rf Cr Hr) Hs). lia.
Qed.

Lemma run_rel_waits c : forall tr s s' oss, reach c s -> rel_only tr -> run s tr = Some (s', oss) ->
  count_waitret (concat oss) + waits s' = waits s.
Proof.
  induction tr as [|l r IH]; cbn [run]; intros s s' oss R F H.
  - injection H as <- <-. cbn. lia.
  - destruct (step s l) as [[s1 os]|] eqn:E; [|discriminate].
    destruct (run s1 r) as [[s2 oss2]|] eqn:E2; [|discriminate]. injection H as <- <-.
    inversion F as [|? ? Fl Fr]; subst. cbn [concat]. unfold count_waitret. rewrite countb_app.
    pose proof (step_rel_waits _ _ _ _ _ R Fl E) as A.
    pose proof (IH _ _ _ (reach_step _ _ _ _ _ R E) Fr E2) as B. unfold count_waitret in *. lia.
Qed.

(* [s0 -l-> s1] is the window that stopped the server, [tr1] any later history without a restart, leading to s; from
   there the goroutines run on their own.  In the last state s' of every maximal release-only run: the server is still
   stopped with the cause k of the stopping window; every WaitStatus return of the run reports k; returns + calls
   still pending = calls pending in s; and once no handler is executing and the reader's Recv has returned (which
   needs no assumption on a channel whose Close unblocks Recv), every pending call has returned and every goroutine
   has exited *)
Definition c08_waits_returned (c : config) (s0 : state) (l : label) (s : state)
    (tr : list label) (s' : state) (oss : list (list obs)) : Prop :=
  exists k, stop_cause s0 l k /\ stop_err s' = Some k /\ running s' = false /\
    (forall os r, In os oss -> In (OWaitRet r) os -> r = Some k) /\
    count_waitret (concat oss) + waits s' = waits s /\
    ((forall j t, nth_error (tasks s') j = Some t -> t_st t <> TRunning) ->
     (rd s' = RExited \/ rd s' = RNone \/ cf_unblock c = true) -> 0 < cf_K c ->
     waits s' = 0 /\ count_waitret (concat oss) = waits s /\ wg s' = 0 /\ all_done s').

Theorem c08_waitstatus_eventually_returns c s0 l s1 os1 tr1 s oss1 : reach c s0 -> step s0 l = Some (s1, os1) ->
  running s0 = true -> running s1 = false -> run s1 tr1 = Some (s, oss1) -> ~ In LStart tr1 ->
  eventually s (c08_waits_returned c s0 l s).
Proof.
  intros R0 St Rn0 Rn1 H1 Ns.
  assert (R1 : reach c s1) by (eapply reach_step; eauto).
  assert (R : reach c s) by (eapply run_reach; eauto).
  apply (eventually_intro c); auto. intros tr s' oss H F R' Q.
  pose proof (run_app_fwd _ _ _ _ _ _ _ H1 H) as Hall.
  assert (Ns' : ~ In LStart (tr1 ++ tr)).
  { intros I. apply in_app_or in I as [I|I]; [auto|apply (rel_only_no_start _ F I)]. }
  destruct (status_cause c s0 l s1 os1 (tr1 ++ tr) s' (oss1 ++ oss) R0 St Rn0 Rn1 Hall Ns') as (k & Sc & Se & _ & Hw).
  destruct (proj2 (stop_err_set c s' R') k Se) as (Rn' & _).
  exists k. split; [exact Sc|]. split; [exact Se|]. split; [exact Rn'|]. split; [|split].
  - intros os r I Ir. apply (Hw os r); auto. apply in_or_app. auto.
  - apply (run_rel_waits c tr s s' oss R F H).
  - intros Nr Hrd HK. pose proof (run_rel_waits c tr s s' oss R F H) as Wc.
    assert (T : wg s' = 0 /\ waits s' = 0 /\ all_done s').
    { destruct Hrd as [Hrd|[Hrd|Hu]].
      - apply (c08_terminates_q c s' R' Q Rn' (or_introl Hrd) Nr HK).
      - apply (c08_terminates_q c s' R' Q Rn' (or_intror Hrd) Nr HK).
      - apply (SrvC08u.terminates_unblock c s' R' Q Rn' Hu Nr HK). }
    destruct T as (Wg & W0 & Ad). split; [exact W0|]. split; [lia|]. split; [exact Wg|exact Ad].
Qed.

(* non-vacuity: two WaitStatus calls are pending when Stop is called with a call in its handler; the handler
   returns and the transport reports the closing error; then the server runs on its own: invoke returns, the reply is
   delivered, dispatcher and reader exit, and both calls return with the cause of the stop *)
Definition tr_two_waiting : list label :=
  [LStart; LCallWait; LCallWait; LRelNext; LFeed (FMsg (InMsgs false [ex_call [49%N] [91;93]%N])); LRelRead; LRelBarrier;
   LRelAcquire 0; LCallStop 1].

Example c08_waitstatus_eventually_returns_nonvacuous :
  exists s0 s1 os1 s tr s' oss,
    reach ex_cfg s0 /\ step s0 (LRelStop 1) = Some (s1, os1) /\ running s0 = true /\ running s1 = false /\
    run s1 [LGate [91;93]%N (ORes [50%N]); LFeed (FErr SCClosing)] = Some (s, [[OGate [91;93]%N true]; []]) /\
    run s tr = Some (s', oss) /\ rel_only tr /\ quiescent s' = true /\ waits s = 2 /\ waits s' = 0 /\ length tr = 4 /\
    concat oss = [OSend false false [{| r_id := [49%N]; r_body := BRes [50%N] |}];
                  OWaitRet (Some SCStop); OWaitRet (Some SCStop)] /\
    rd s' = RExited /\ 0 < cf_K ex_cfg /\
    forallb (fun t => match t_st t with TRunning => false | _ => true end) (tasks s') = true.
Proof.
  exists (st_of ex_cfg tr_two_waiting). eexists _, _, _.
  exists [LRelHandled 0; LRelDeliver 0; LRelNext; LRelRead]. eexists _, _.
  split; [apply reach_st_of; vm_compute; discriminate|]. split; [vm_compute; reflexivity|].
  split; [vm_compute; reflexivity|]. split; [vm_compute; reflexivity|]. split; [vm_compute; reflexivity|].
  split; [vm_compute; reflexivity|]. split; [repeat constructor|].
  repeat split; try (vm_compute; reflexivity).
Qed.

Lemma count_waitret_spec os :
  count_waitret os = length (filter (fun o => match o with OWaitRet _ => true | _ => false end) os).
Proof. unfold count_waitret. apply countb_filter_length. Qed.

(** * 5. C09: a Callback eventually returns *)
(* while the server runs its reader is alive *)
Definition run_rd (s : state) : Prop := running s = true -> rd_live (rd s) = 1.

Lemma raw_run_rd s l s' os : inv s -> run_rd s -> step_raw s l = Some (s', os) -> run_rd s'.
Proof.
  intros I P H. unfold run_rd in *. apply raw_ctl in H; auto.
  destruct H as [L Rn Wg -> | c s0 s1 Sc Rn H0 Ps H1 | f L Rd Rn -> | f i L Rd Hf Rn S5 C0 Ri Wa Hq
                | L D -> | u L D -> | u un s1 L E Su -> Hs | S5 Cp Wa Cr].
  - reflexivity.
  - intros Z. pose proof (sr_running _ _ _ Ps) as F. destruct H1 as [->|(_ & ->)]; cbn in Z; congruence.
  - cbn. congruence.
  - rewrite Ri. reflexivity.
  - destruct (dequeue_nontask_like s) as ((Rn & _) & Rd & _). rewrite Rn, Rd. exact P.
  - exact P.
  - pose proof (nontask_release (unit_tasks s u) s) as G. apply nontask_fields in G.
    assert (W1 : running (release_ids (unit_tasks s u) s) = running s /\ rd (release_ids (unit_tasks s u) s) = rd s)
      by (split; apply G).
    destruct W1 as [W1 W2]. destruct Hs as [(_ & ->)|(_ & ->)]; cbn; rewrite W1, W2; exact P.
  - destruct S5 as (Rn & _). unfold ctlp in Cp. injection Cp as _ _ Rd _ _. rewrite Rn, Rd. exact P.
Qed.

Lemma settle1_run_rd s s' os : run_rd s -> settle1 s = Some (s', os) -> run_rd s'.
Proof.
  intros P Hs. unfold run_rd in *. apply settle1_inv in Hs. destruct Hs; cbn; auto.
  destruct (dequeue_nontask_like s) as ((Rn & _) & Rd & _). rewrite Rn, Rd. exact P.
Qed.

Lemma reachf_run_rd c s : reachf c s -> run_rd s.
Proof.
  induction 1 as [|s l s' os R IH Cr Hs|s s' os R IH Hs].
  - unfold run_rd. cbn. discriminate.
  - eapply raw_run_rd; eauto. eapply reachf_inv; eauto.
  - eapply settle1_run_rd; eauto.
Qed.

(* how a callback record evolves: it keeps its operation number and id, a cancelled context stays cancelled, and a
   callback that has returned (slot written, or send failure) never becomes outstanding again *)
Definition cb_le (c c' : cb) : Prop :=
  cb_op c' = cb_op c /\ cb_id c' = cb_id c /\ (cb_cancelled c = true -> cb_cancelled c' = true) /\
  (live c' = true -> live c = true).

Lemma cb_le_refl c : cb_le c c.
Proof. repeat split; auto. Qed.

Lemma cb_le_trans a b c : cb_le a b -> cb_le b c -> cb_le a c.
Proof. intros (A1 & A2 & A3 & A4) (B1 & B2 & B3 & B4). repeat split; auto; congruence. Qed.

(* record i persists and evolves; if it was outstanding it still is, or its Callback returns in this very step *)
Definition cb_next (op : nat) (l0 l1 : list cb) (os : list obs) (i : nat) (c0 : cb) : Prop :=
  exists c', nth_error l1 i = Some c' /\ cb_le c0 c' /\
    (live c0 = true -> live c' = true \/ exists r, In (ORet op r) os /\ is_completion r = true).

Lemma cb_next_same op l os i c0 : nth_error l i = Some c0 -> cb_next op l l os i c0.
Proof. intros N. exists c0. split; auto. split; [apply cb_le_refl|auto]. Qed.

Lemma cb_next_upd op l os i c0 j f : nth_error l i = Some c0 ->
  (forall x, cb_le x (f x)) -> (forall x, live x = true -> live (f x) = true) -> cb_next op l (upd_nth j f l) os i c0.
Proof.
  intros N Hle Hl. rewrite <- (app_nil_r os). unfold cb_next. rewrite nth_error_upd_nth.
  destruct (Nat.eqb_spec j i) as [->|Ne].
  - rewrite N. cbn. exists (f c0). split; auto.
  - exists c0. split; auto. split; [apply cb_le_refl|auto].
Qed.

Lemma complete_cb_next j v s i c0 : nth_error (cbs s) i = Some c0 ->
  cb_next (cb_op c0) (cbs s) (cbs (fst (complete_cb j v s))) (snd (complete_cb j v s)) i c0.
Proof.
  intros N. unfold complete_cb. destruct (nth_error (cbs s) j) as [c|] eqn:Nj; cbn [fst snd]; [|apply cb_next_same; auto].
  change (cbs (s <| cbs ::= upd_nth j (fun c1 => wake_watch (c1 <| cb_slot := Some v |>)) |> <| calls ::= assoc_del (cb_id c) |>))
    with (upd_nth j (fun c1 => wake_watch (c1 <| cb_slot := Some v |>)) (cbs s)).
  unfold cb_next. rewrite nth_error_upd_nth. destruct (Nat.eqb_spec j i) as [->|Ne].
  - rewrite N. cbn [option_map]. assert (c = c0) by congruence. subst c.
    exists (wake_watch (c0 <| cb_slot := Some v |>)). split; auto. split.
    + repeat split; auto. cbn. discriminate.
    + intros L. right. unfold live in L. destruct (cb_slot c0); [discriminate|].
      apply negb_true_iff in L. rewrite L. exists (res_of_val v). split; [left; reflexivity|apply res_of_val_completion].
  - exists c0. split; auto. split; [apply cb_le_refl|auto].
Qed.

Lemma cb_next_trans op l0 l1 l2 os1 os2 i c0 c1 : cb_op c1 = op ->
  (exists c', nth_error l1 i = Some c' /\ c' = c1) -> cb_next op l0 l1 os1 i c0 -> cb_next op l1 l2 os2 i c1 ->
  incl os1 os2 -> cb_next op l0 l2 os2 i c0.
Proof.
  intros Eo (c' & N1 & ->) (x & Nx & Le1 & H1) (c2 & N2 & Le2 & H2) Inc.
  assert (x = c1) by congruence. subst x.
  exists c2. split; auto. split; [eapply cb_le_trans; eauto|].
  intros L. destruct (H1 L) as [L1|(r & Ir & Kr)]; [apply H2; auto|].
  right. exists r. split; auto.
Qed.

Lemma filter_batch_acc_incl : forall ms s keep acc, incl acc (snd (filter_batch ms s keep acc)).
Proof.
  induction ms as [|m r IH]; intros s keep acc; cbn [filter_batch]; [apply incl_refl|].
  destruct (is_req_or_notif m); [apply IH|].
  destruct (assoc (fix_id (j_id m)) (calls s)) as [i|].
  - destruct (complete_cb i _ s) as [s1 os1]. eapply incl_tran; [|apply IH]. apply incl_appl, incl_refl.
  - destruct (c_push s && is_nil (j_method m) && has_reply_fields m); apply IH.
Qed.

Lemma filter_batch_next : forall ms s keep acc i c0, nth_error (cbs s) i = Some c0 ->
  cb_next (cb_op c0) (cbs s) (cbs (fst (fst (filter_batch ms s keep acc)))) (snd (filter_batch ms s keep acc)) i c0.
Proof.
  induction ms as [|m r IH]; intros s keep acc i c0 N; cbn [filter_batch]; [apply cb_next_same; auto|].
  destruct (is_req_or_notif m); [apply IH; auto|].
  destruct (assoc (fix_id (j_id m)) (calls s)) as [j|].
  2:{ destruct (c_push s && is_nil (j_method m) && has_reply_fields m); apply IH; auto. }
  pose proof (complete_cb_next j (match j_error m with Some e => CErr (we_code e) (we_msg e) | None => CRes (j_result m) end)
                s i c0 N) as C1.
  destruct (complete_cb j _ s) as [s1 os1]. cbn [fst snd] in C1.
  destruct C1 as (c1 & N1 & Le1 & H1).
  pose proof (IH s1 keep (acc ++ os1) i c1 N1) as C2.
  assert (Eo : cb_op c1 = cb_op c0) by apply Le1. rewrite Eo in C2.
  eapply (cb_next_trans (cb_op c0) (cbs s) (cbs s1) _ (acc ++ os1) _ i c0 c1); eauto.
  - exists c1. split; auto. split; auto. intros L. destruct (H1 L) as [L1|(r0 & Ir & Kr)]; auto.
    right. exists r0. split; auto. apply in_or_app. auto.
  - apply filter_batch_acc_incl.
Qed.

Lemma stop_cb_le cl c : cb_le c (stop_cb cl c) /\ (live c = true -> live (stop_cb cl c) = true).
Proof. unfold stop_cb. destruct (assoc (cb_id c) cl); [|split; [apply cb_le_refl|auto]]. repeat split; auto. Qed.

Lemma stop_locked_next sc s op os i c0 : nth_error (cbs s) i = Some c0 ->
  cb_next op (cbs s) (cbs (fst (stop_locked sc s))) os i c0.
Proof.
  intros N. destruct (stop_locked sc s) as [s' os'] eqn:E. cbn [fst].
  apply SrvC09.stop_locked_spec in E as [(_ & -> & _)|(_ & _ & _ & _ & _ & _ & _ & _ & _ & _ & _ & Cb)];
    [apply cb_next_same; auto|].
  rewrite Cb. exists (stop_cb (calls s) c0). split; [apply map_nth_error; auto|].
  destruct (stop_cb_le (calls s) c0) as [Le Lv]. split; auto.
Qed.

Lemma read_cs_next f s i c0 : nth_error (cbs s) i = Some c0 ->
  cb_next (cb_op c0) (cbs s) (cbs (fst (read_cs f s))) (snd (read_cs f s)) i c0.
Proof.
  intros N. unfold read_cs.
  assert (Msg : forall i0, cb_next (cb_op c0) (cbs s)
     (cbs (fst (if negb (running s) then (s <| rd := RExited |> <| wg ::= pred |>, [])
           else match i0 with
           | InBad => let '(s', os) := push_error s ParseError s_invalid_value in (s' <| rd := RIdle |>, os)
           | InMsgs _ [] => let '(s', os) := push_error s InvalidRequest s_empty_batch in (s' <| rd := RIdle |>, os)
           | InMsgs b ms =>
               let '(s1, keep, os) := filter_batch ms s [] [] in
               match keep with
               | [] => (s1 <| rd := RIdle |>, os)
               | _ => let s2 := s1 <| inq ::= fun q => q ++ [(b, keep)] |> <| rd := RIdle |> in
                      if work_closed s2 && (length (inq s2) =? 1)
                      then (s2 <| crash := Some CrSendOnClosedWork |>, os ++ [OCrash CrSendOnClosedWork])
                      else (s2, os)
               end
           end)))
     (snd (if negb (running s) then (s <| rd := RExited |> <| wg ::= pred |>, [])
           else match i0 with
           | InBad => let '(s', os) := push_error s ParseError s_invalid_value in (s' <| rd := RIdle |>, os)
           | InMsgs _ [] => let '(s', os) := push_error s InvalidRequest s_empty_batch in (s' <| rd := RIdle |>, os)
           | InMsgs b ms =>
               let '(s1, keep, os) := filter_batch ms s [] [] in
               match keep with
               | [] => (s1 <| rd := RIdle |>, os)
               | _ => let s2 := s1 <| inq ::= fun q => q ++ [(b, keep)] |> <| rd := RIdle |> in
                      if work_closed s2 && (length (inq s2) =? 1)
                      then (s2 <| crash := Some CrSendOnClosedWork |>, os ++ [OCrash CrSendOnClosedWork])
                      else (s2, os)
               end
           end)) i c0).
  { intros i0. destruct (negb (running s)); [apply cb_next_same; auto|].
    destruct i0 as [|b ms]; [apply cb_next_same; auto|]. destruct ms as [|m ms]; [apply cb_next_same; auto|].
    pose proof (filter_batch_next (m :: ms) s [] [] i c0 N) as Fb.
    destruct (filter_batch (m :: ms) s [] []) as [[s1 keep] os1]. cbn [fst snd] in Fb.
    destruct keep as [|k0 kr]; [exact Fb|]. cbv zeta.
    match goal with |- context [if ?b then _ else _] => destruct b end; cbn [fst snd]; [|exact Fb].
    destruct Fb as (c' & N' & Le & Hl). exists c'. split; [exact N'|]. split; [exact Le|].
    intros L. destruct (Hl L) as [L1|(r & Ir & Kr)]; auto. right. exists r. split; auto. apply in_or_app. auto. }
  destruct f as [i0|i0|sc]; [apply Msg|apply Msg|].
  pose proof (stop_locked_next sc s (cb_op c0) (snd (stop_locked sc s)) i c0 N) as St.
  destruct (stop_locked sc s) as [s2 os2]. exact St.
Qed.

Lemma raw_cb_next s l s' os i c0 : step_raw s l = Some (s', os) -> nth_error (cbs s) i = Some c0 ->
  cb_next (cb_op c0) (cbs s) (cbs s') os i c0.
Proof.
  intros H N.
  destruct (neutral l) eqn:Neu.
  { apply step_raw_neutral in H as [P _]; auto. apply pv_fields in P.
    destruct P as (_ & _ & _ & _ & _ & _ & -> & _). apply cb_next_same; auto. }
  destruct l; try discriminate Neu; cbn [step_raw] in H.
  - destruct (negb (running s) && (wg s =? 0)); [|discriminate]. injection H as <- <-. apply cb_next_same; auto.
  - injection H as <- <-. apply cb_next_same; auto.
  - injection H as <- <-. apply cb_next_same; auto.
  - injection H as <- <-. apply cb_next_same; auto.
  - destruct (c_push s); injection H as <- <-; apply cb_next_same; auto.
  - destruct (find_idx _ 0 (cbs s)) as [j|]; injection H as <- <-; [|apply cb_next_same; auto].
    apply cb_next_upd; auto.
    + intros x. destruct (cb_cancelled x) eqn:Cx; [apply cb_le_refl|]. repeat split; auto.
    + intros x L. destruct (cb_cancelled x); auto.
  - destruct (rd s) as [| |f|]; try discriminate. injection H as H.
    pose proof (read_cs_next f s i c0 N) as X. rewrite H in X. exact X.
  - destruct (find_op n (ops s)) as [[| |]|]; try discriminate.
    match type of H with context [stop_locked SCStop ?x] =>
      pose proof (fun o => stop_locked_next SCStop x (cb_op c0) o i c0 N) as X;
      destruct (stop_locked SCStop x) as [s2 os2] end.
    injection H as <- <-. apply X.
  - destruct (find_op n (ops s)) as [[| |]|]; try discriminate. cbn in H.
    destruct (assoc id (used s)) as [owner|]; injection H as <- <-; [|apply cb_next_same; auto].
    pose proof (cancel_task_pv owner (s <| ops ::= del_op n |>)) as P. apply pv_fields in P.
    destruct P as (_ & _ & _ & _ & _ & _ & -> & _). apply cb_next_same; auto.
  - destruct (find_op n (ops s)) as [[| |n' w m p]|]; try discriminate. cbn in H.
    destruct (running s); cbn in H; [|injection H as <- <-; apply cb_next_same; auto].
    destruct w; [|injection H as <- <-; apply cb_next_same; auto].
    assert (App : forall x, cb_next (cb_op c0) (cbs s) (cbs s ++ [x]) os i c0).
    { intros x. exists c0. split; [apply nth_error_app_old; auto|]. split; [apply cb_le_refl|auto]. }
    destruct (send_fail s); [injection H as <- <-; apply App|].
    destruct (find _ (ended s)) as [[? ?]|]; injection H as <- <-; apply App.
  - rename c into j.
    destruct (nth_error (cbs s) j) as [cb0|] eqn:Nj; [|discriminate].
    destruct (cb_watch cb0) eqn:W; try discriminate.
    set (s1 := s <| cbs ::= upd_nth j (fun c => c <| cb_watch := WDone |>) |>) in *.
    assert (U : cb_next (cb_op c0) (cbs s) (cbs s1) [] i c0).
    { apply cb_next_upd; auto. intros x. repeat split; auto. }
    destruct (assoc (cb_id cb0) (calls s1)) as [j'|]; [|injection H as <- <-; exact U].
    destruct (cb_slot cb0); [injection H as <- <-; exact U|].
    destruct (j' =? j); [|injection H as <- <-; exact U].
    assert (E : exists v, complete_cb j v s1 = (s', os)).
    { destruct (cb_ctx cb0) as [[|]|]; injection H as H; eauto. }
    destruct E as (v & E). destruct U as (c1 & N1 & Le1 & H1).
    pose proof (complete_cb_next j v s1 i c1 N1) as C2. rewrite E in C2. cbn [fst snd] in C2.
    assert (Eo : cb_op c1 = cb_op c0) by apply Le1. rewrite Eo in C2.
    eapply (cb_next_trans (cb_op c0) (cbs s) (cbs s1) _ [] _ i c0 c1); eauto.
    all: try (intros x Hx; destruct Hx).
    all: try (exists c1; split; auto; split; auto).
Qed.

Lemma step_cb_next s l s' os i c0 : step s l = Some (s', os) -> nth_error (cbs s) i = Some c0 ->
  cb_next (cb_op c0) (cbs s) (cbs s') os i c0.
Proof.
  intros H N. apply step_obs_raw in H as (_ & s1 & os1 & ex & Raw & -> & _ & P).
  apply pv_fields in P. destruct P as (_ & _ & _ & _ & _ & _ & -> & _).
  destruct (raw_cb_next _ _ _ _ _ _ Raw N) as (c' & N' & Le & Hl). exists c'. split; auto. split; auto.
  intros L. destruct (Hl L) as [L1|(r & Ir & Kr)]; auto. right. exists r. split; auto. apply in_or_app. auto.
Qed.

Lemma run_cb_next : forall tr s s' oss i c0, run s tr = Some (s', oss) -> nth_error (cbs s) i = Some c0 ->
  cb_next (cb_op c0) (cbs s) (cbs s') (concat oss) i c0.
Proof.
  induction tr as [|l r IH]; cbn [run]; intros s s' oss i c0 H N.
  - injection H as <- <-. apply cb_next_same; auto.
  - destruct (step s l) as [[s1 os]|] eqn:E; [|discriminate].
    destruct (run s1 r) as [[s2 oss2]|] eqn:E2; [|discriminate]. injection H as <- <-. cbn [concat].
    destruct (step_cb_next _ _ _ _ _ _ E N) as (c1 & N1 & Le1 & H1).
    destruct (IH _ _ _ _ _ E2 N1) as (c2 & N2 & Le2 & H2).
    assert (Eo : cb_op c1 = cb_op c0) by apply Le1. rewrite Eo in H2.
    exists c2. split; auto. split; [eapply cb_le_trans; eauto|].
    intros L. destruct (H1 L) as [L1|(r0 & Ir & Kr)].
    + destruct (H2 L1) as [L2|(r0 & Ir & Kr)]; auto. right. exists r0. split; auto. apply in_or_app. auto.
    + right. exists r0. split; auto. apply in_or_app. auto.
Qed.

(* a reply bearing the id k is in the transport (fed, not yet read) or held by the reader *)
Definition has_reply (k : bytes) (f : feed) : Prop :=
  exists ms m, msgs_feed f ms /\ In m ms /\ is_req_or_notif m = false /\ fix_id (j_id m) = k.
Definition reply_pending (s : state) (k : bytes) : Prop :=
  (exists f, rd s = RHold f /\ has_reply k f) \/ (exists f, In f (ch_in s) /\ has_reply k f).

Lemma read_cs_assoc_none f s k : assoc k (calls s) = None -> assoc k (calls (fst (read_cs f s))) = None.
Proof.
  intros A. destruct f as [i0|i0|sc]; unfold read_cs.
  1,2: destruct (negb (running s)); [exact A|];
       destruct i0 as [|b ms]; [exact A|]; destruct ms as [|m ms]; [exact A|];
       pose proof (filter_batch_assoc_none (m :: ms) s [] [] k A) as Fb;
       destruct (filter_batch (m :: ms) s [] []) as [[s1 keep] os1]; cbn [fst] in Fb;
       destruct keep as [|k0 kr]; [exact Fb|]; cbv zeta;
       match goal with |- context [if ?b then _ else _] => destruct b end; exact Fb.
  destruct (stop_locked sc s) as [s2 os2] eqn:St. cbn [fst].
  apply SrvC09.stop_locked_spec in St as [(_ & -> & _)|(_ & _ & _ & _ & _ & _ & Cl & _)]; [exact A|].
  change (assoc k (calls s2) = None). rewrite Cl. exact A.
Qed.

Lemma read_cs_stopped f s ms : msgs_feed f ms -> running s = false -> running (fst (read_cs f s)) = false.
Proof. intros (b & [-> | ->]) Rn; unfold read_cs; rewrite Rn; cbn; exact Rn. Qed.

Lemma raw_reply_pending s l s1 os1 k : inv_push s -> is_rel l = true -> step_raw s l = Some (s1, os1) ->
  reply_pending s k -> running s1 = true -> reply_pending s1 k \/ assoc k (calls s1) = None.
Proof.
  intros Ip Il H Pend Rn1.
  destruct (SrvC08u.quiet_label l) eqn:Ql.
  { apply SrvC08u.raw_chp in H; auto. unfold SrvC08u.chp in H. injection H as H1 H2 _. left.
    unfold reply_pending. rewrite H1, H2. exact Pend. }
  destruct l; try discriminate Ql; try discriminate Il.
  - (* LRelRead *)
    pose proof H as Raw. unfold step_raw in H. destruct (rd s) as [| |f0|] eqn:Rd; try discriminate. injection H as H.
    destruct (SrvC08y.read_cs_feeds _ _ _ _ H) as [Ch _].
    destruct Pend as [(f & Rf & Hr)|(f & Inf & Hr)].
    + rewrite Rd in Rf. injection Rf as <-. destruct Hr as (ms & m & M & Im & Q & Ek). right.
      destruct (running s) eqn:Rn.
      * destruct (assoc k (calls s)) as [i|] eqn:A.
        -- destruct (ip_reg _ Ip _ _ (assoc_in _ _ _ A)) as (c0 & N0 & _).
           rewrite <- Ek in A. rewrite <- Ek.
           apply (reply_completes_raw s f0 ms m i c0 s1 os1 Ip Rn Rd M Im Q A N0 Raw).
        -- pose proof (read_cs_assoc_none f0 s k A) as X. rewrite H in X. exact X.
      * pose proof (read_cs_stopped f0 s ms M Rn) as X. rewrite H in X. cbn [fst] in X. congruence.
    + left. right. exists f. split; auto. destruct Ch as [-> | ->]; auto. apply in_or_app. auto.
  - (* LRelStop *)
    unfold step_raw in H. destruct (find_op n (ops s)) as [[n0|n0 id|n0 w m p]|]; try discriminate.
    match type of H with context [stop_locked SCStop ?x] =>
      pose proof (SrvC08y.stop_locked_chin SCStop x) as X; destruct (stop_locked SCStop x) as [s2 os2] end.
    injection H as <- <-. destruct (X _ _ eq_refl) as [Ch Rd]. cbn in Ch, Rd. left. unfold reply_pending. rewrite Rd.
    destruct Pend as [P|(f & Inf & Hr)]; [left; exact P|right]. exists f. split; auto.
    destruct Ch as [-> | ->]; auto. apply in_or_app. auto.
Qed.

Lemma settle1_reply_pending s s' os k : settle1 s = Some (s', os) -> reply_pending s k -> reply_pending s' k.
Proof.
  intros H Pend. apply settle1_inv in H.
  destruct H as [f q Rd Q | D _ | u un D _ _ | i un F E _ | i un F E _ | W _ Q | W _ Q]; try exact Pend.
  - destruct Pend as [(g & Rg & _)|(g & Ing & Hr)]; [congruence|]. rewrite Q in Ing. destruct Ing as [->|Ing].
    + left. exists g. split; auto.
    + right. exists g. split; auto.
  - destruct (dequeue_nontask_like s) as (_ & Rd & _ & _ & _ & Ch & _). unfold reply_pending. rewrite Rd, Ch. exact Pend.
Qed.

Lemma settle_reply_pending k : forall fuel s acc s' os, settle fuel s acc = (s', os) -> reply_pending s k ->
  reply_pending s' k.
Proof.
  induction fuel as [|n IH]; cbn; intros s acc s' os H Pend.
  - injection H as <- _. exact Pend.
  - destruct (settle1 s) as [[s1 os1]|] eqn:E; [|injection H as <- _; exact Pend].
    eapply IH; eauto. eapply settle1_reply_pending; eauto.
Qed.

Lemma step_reply_pending c s l s' os k : reach c s -> is_rel l = true -> step s l = Some (s', os) ->
  reply_pending s k -> running s' = true -> reply_pending s' k \/ assoc k (calls s') = None.
Proof.
  intros R Il H Pend Rn'. pose proof (inv_push_reach _ _ R) as Ip.
  apply step_decompose in H as (Cr & s1 & os1 & Hr & Hs).
  destruct Hs as [(_ & -> & _)|(_ & Hs)]; [eapply raw_reply_pending; eauto|].
  pose proof (settle_running _ _ _ _ _ Hs) as Rs. pose proof (settle_pv _ _ _ _ _ Hs) as P. apply pv_fields in P.
  destruct P as (_ & _ & _ & _ & Cl & _).
  destruct (raw_reply_pending _ _ _ _ k Ip Il Hr Pend) as [P1|A1]; [congruence| |].
  - left. eapply settle_reply_pending; eauto.
  - right. rewrite Cl. exact A1.
Qed.

Lemma rel_run_stopped c tr s s' oss : reach c s -> rel_only tr -> run s tr = Some (s', oss) ->
  running s = false -> running s' = false.
Proof.
  intros R F H Rn. apply (stopped_only_notes_trace c tr s s' oss R Rn H (rel_only_no_start _ F)).
Qed.

(* an outstanding callback whose reply is pending: along a release-only run that ends with the server still running
   the reply stays pending, or the callback has returned *)
Lemma run_reply_pending c k i : forall tr s s' oss c0, reach c s -> rel_only tr -> run s tr = Some (s', oss) ->
  nth_error (cbs s) i = Some c0 -> cb_id c0 = k -> reply_pending s k -> running s' = true ->
  reply_pending s' k \/ (forall c', nth_error (cbs s') i = Some c' -> live c' = false).
Proof.
  induction tr as [|l r IH]; cbn [run]; intros s s' oss c0 R F H N Ek Pend Rn'.
  - injection H as <- _. auto.
  - destruct (step s l) as [[s1 os]|] eqn:E; [|discriminate].
    destruct (run s1 r) as [[s2 oss2]|] eqn:E2; [|discriminate]. injection H as <- <-.
    inversion F as [|? ? Fl Fr]; subst.
    pose proof (reach_step _ _ _ _ _ R E) as R1.
    assert (Rn1 : running s1 = true).
    { destruct (running s1) eqn:Rn1; auto. rewrite (rel_run_stopped c r s1 s2 oss2 R1 Fr E2 Rn1) in Rn'. discriminate. }
    destruct (step_cb_next _ _ _ _ _ _ E N) as (c1 & N1 & Le1 & _).
    assert (Ek1 : cb_id c1 = cb_id c0) by apply Le1.
    destruct (step_reply_pending c s l s1 os (cb_id c0) R Fl E Pend Rn1) as [P1|A1].
    + apply (IH s1 s2 oss2 c1 R1 Fr E2 N1 Ek1 P1 Rn').
    + right. intros c' N'. destruct (run_cb_next _ _ _ _ _ _ E2 N1) as (c2 & N2 & Le2 & _).
      assert (c2 = c') by congruence. subst c2.
      destruct (live c') eqn:L'; auto. exfalso.
      assert (L1 : live c1 = true) by (apply Le2; auto).
      pose proof (SrvC09c.live_registered c s1 i c1 R1 N1 L1) as I1.
      pose proof (NoDup_assoc _ _ _ (ip_nodup _ (inv_push_reach _ _ R1)) I1) as A. congruence.
Qed.

(* C09: in the last state s' of every maximal release-only run from s, for every callback record i of s:
   - it is still there with its operation number and id; a callback that had returned has not come back;
   - if it is still outstanding, the server is running, its context is alive, the reader is idle and no reply
     with its id is in the transport: nobody has answered, cancelled or stopped;
   - hence, if in s the server was stopped, or its context had ended, or a reply with its id had been fed (in the
     transport or held by the reader), the Callback has returned: it was outstanding in s, is not in s', is no longer
     registered, and its return (a result, an error or a context error) is among the observations of the run *)
Definition cb_triggered (s : state) (c0 : cb) : Prop :=
  running s = false \/ cb_cancelled c0 = true \/ cb_ctx c0 <> None \/ reply_pending s (cb_id c0).

Definition c09_returned (s : state) (tr : list label) (s' : state) (oss : list (list obs)) : Prop :=
  forall i c0, nth_error (cbs s) i = Some c0 ->
    exists c', nth_error (cbs s') i = Some c' /\ cb_op c' = cb_op c0 /\ cb_id c' = cb_id c0 /\
      (live c' = true -> live c0 = true /\ In (cb_id c0, i) (calls s') /\ running s' = true /\ cb_ctx c' = None /\
         cb_cancelled c' = false /\ rd s' = RIdle /\ ch_in s' = [] /\ ~ cb_triggered s c0) /\
      (live c0 = true -> cb_triggered s c0 ->
         live c' = false /\ ~ In (cb_id c0, i) (calls s') /\
         exists r, In (ORet (cb_op c0) r) (concat oss) /\ is_completion r = true).

Theorem c09_callback_eventually_returns c s : reach c s -> eventually s (c09_returned s).
Proof.
  intros R. apply (eventually_intro c); auto. intros tr s' oss H F R' Q i c0 N.
  pose proof (reach_reachf _ _ R') as Rf'. pose proof (no_crash _ _ R') as Cr'.
  destruct (run_cb_next _ _ _ _ _ _ H N) as (c' & N' & (Eo & Ei & Cc & Lv) & Hl).
  assert (Alive : live c' = true -> live c0 = true /\ In (cb_id c0, i) (calls s') /\ running s' = true /\
            cb_ctx c' = None /\ cb_cancelled c' = false /\ rd s' = RIdle /\ ch_in s' = [] /\ ~ cb_triggered s c0).
  { intros L'. pose proof (Lv L') as L0.
    pose proof (SrvC09c.live_registered c s' i c' R' N' L') as I'. rewrite Ei in I'.
    destruct (quiescent_complete c s' _ _ R' Cr' Q I') as (cx & Nx & _ & Cx & Ccx & Rn').
    assert (cx = c') by congruence. subst cx.
    destruct (quiescent_reader c s' R' Q) as [Nh Idle].
    assert (Ri : rd s' = RIdle).
    { pose proof (reachf_run_rd c s' Rf' Rn') as Lr. destruct (rd s') eqn:Rd; cbn in Lr; try discriminate; auto.
      destruct (Nh f eq_refl). }
    split; [exact L0|]. split; [exact I'|]. split; [exact Rn'|]. split; [exact Cx|]. split; [exact Ccx|].
    split; [exact Ri|]. split; [exact (Idle Ri)|].
    intros [Tr|[Tr|[Tr|Tr]]].
    - rewrite (rel_run_stopped c tr s s' oss R F H Tr) in Rn'. discriminate.
    - rewrite (Cc Tr) in Ccx. discriminate.
    - pose proof (SrvC09c.live_registered c s i c0 R N L0) as I0.
      destruct (ip_reg _ (inv_push_reach _ _ R) _ _ I0) as (cy & Ny & _ & (_ & _ & _ & O4 & _)).
      assert (cy = c0) by congruence. subst cy. rewrite (Cc (O4 Tr)) in Ccx. discriminate.
    - destruct (run_reply_pending c (cb_id c0) i tr s s' oss c0 R F H N eq_refl Tr Rn') as [P'|Nl].
      + destruct P' as [(f & Rf & _)|(f & Inf & _)]; [congruence|]. rewrite (Idle Ri) in Inf. destruct Inf.
      + rewrite (Nl _ N') in L'. discriminate. }
  exists c'. split; [exact N'|]. split; [exact Eo|]. split; [exact Ei|]. split; [exact Alive|].
  intros L0 Tr.
  assert (L' : live c' = false).
  { destruct (live c') eqn:L'; auto. exfalso. destruct (Alive eq_refl) as (_ & _ & _ & _ & _ & _ & _ & Nt). auto. }
  split; [exact L'|]. split.
  - intros I'. destruct (ip_reg _ (inv_push_reach _ _ R') _ _ I') as (cy & Ny & _ & (O1 & O2 & _)).
    assert (cy = c') by congruence. subst cy. unfold live in L'. rewrite O1, O2 in L'. discriminate.
  - destruct (Hl L0) as [L1|Hr]; [congruence|exact Hr].
Qed.

(* non-vacuity: a Callback is outstanding and the peer's reply has been fed; running on its own the server reads it
   and the Callback returns the result; its watcher exits *)
Definition tr_cb_fed : list label :=
  [LStart; LCallPush 2 true [109]%N [50]%N; LRelPush 2; LFeed (FMsg (InMsgs false [reply_msg [49]%N [51]%N]))].

Example c09_callback_eventually_returns_nonvacuous :
  exists s c0 tr s' oss, reach cfg_push s /\ nth_error (cbs s) 0 = Some c0 /\ live c0 = true /\ cb_op c0 = 2 /\
    reply_pending s (cb_id c0) /\ cb_triggered s c0 /\ calls s = [([49]%N, 0)] /\
    run s tr = Some (s', oss) /\ rel_only tr /\ quiescent s' = true /\
    concat oss = [ORet 2 (ACbRes [51]%N)] /\ calls s' = [] /\ option_map live (nth_error (cbs s') 0) = Some false.
Proof.
  exists (st_of cfg_push tr_cb_fed). eexists. exists [LRelRead; LRelCbWatch 0; LRelNext]. eexists _, _.
  split; [apply reach_st_of; vm_compute; discriminate|]. split; [vm_compute; reflexivity|].
  split; [vm_compute; reflexivity|]. split; [vm_compute; reflexivity|].
  assert (P : reply_pending (st_of cfg_push tr_cb_fed) [49]%N).
  { left. eexists. split; [vm_compute; reflexivity|].
    exists [reply_msg [49]%N [51]%N], (reply_msg [49]%N [51]%N).
    split; [exists false; left; reflexivity|]. split; [left; reflexivity|]. split; vm_compute; reflexivity. }
  split; [exact P|]. split; [right; right; right; exact P|].
  split; [vm_compute; reflexivity|]. split; [vm_compute; reflexivity|]. split; [repeat constructor|].
  repeat split; vm_compute; reflexivity.
Qed.

Lemma live_spec c : live c = true <-> cb_slot c = None /\ cb_ret c = false.
Proof.
  unfold live. destruct (cb_slot c); [split; [discriminate|intros [X _]; discriminate]|].
  rewrite negb_true_iff. split; [auto|tauto].
Qed.

(* non-vacuity of [quiescent_unfinished]: the quiescent state of c03_later_requests_eventually_start_nonvacuous shows
   the three cases at once: unit 0 has a request in its handler, unit 1 a notification queued for the slot with every
   slot taken, unit 2 waits at the barrier for that notification *)
Example quiescent_unfinished_nonvacuous :
  exists s, reach ex_cfg s /\ quiescent s = true /\ 0 < cf_K ex_cfg /\
    map u_st (units s) = [URunning; URunning; UAtBarrier] /\ map t_st (tasks s) = [TRunning; TWaiting; TAtAcquire] /\
    map is_note (tasks s) = [false; true; false] /\ map t_unit (tasks s) = [0; 1; 2] /\
    dp s = DBarrierWait 2 /\ nbar s = 1 /\ sem_free s = 0.
Proof.
  exists (st_of ex_cfg (tr_call_running ++ [LRelRead; LRelRead; LRelNext; LRelBarrier; LRelAcquire 1; LRelNext; LRelBarrier])).
  split; [apply reach_st_of; vm_compute; discriminate|]. split; [vm_compute; reflexivity|]. split; [cbn; lia|].
  repeat split; vm_compute; reflexivity.
Qed.
