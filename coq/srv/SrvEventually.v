(* SrvEventually: from 'at quiescence' to 'eventually'.
   SrvC08m proves that every window of a release label strictly decreases [mu_rel].  Hence, from every reachable state
   (after ANY history of environment actions and partial schedules), every run of release labels (the goroutines of
   the server passing their scheduling points, the environment doing nothing) has at most [mu_rel s] windows, can
   be extended to one that ends in a quiescent state, and a run of release labels cannot be extended any further
   exactly when it has reached a quiescent state.  The liveness theorems of the server properties that are stated
   'at a quiescent point' therefore hold 'eventually': in the last state of every maximal release-only run. *)
From Coq Require Import List NArith ZArith Bool Arith Lia.
From RecordUpdate Require Import RecordUpdate.
From JV Require Import Bytes Msg SrvModel SrvLemmas SrvBasics SrvC01 SrvC07 SrvC09 SrvC10 SrvC08 SrvC08b SrvC08c SrvC08q
  SrvC08m SrvHist SrvC01b.
From JV Require SrvC03 SrvC06 SrvC06b SrvNoCrash SrvC08n SrvC08r SrvC08u SrvC08w SrvC08x SrvC09b SrvC09c.
Import ListNotations.

(** * 0. release-only runs *)
Definition rel_only (tr : list label) : Prop := Forall (fun l => is_rel l = true) tr.

Lemma rel_only_app a b : rel_only a -> rel_only b -> rel_only (a ++ b).
Proof. intros A B. apply Forall_app. split; auto. Qed.

Lemma rel_only_no_start tr : rel_only tr -> ~ In LStart tr.
Proof. intros F I. unfold rel_only in F. rewrite Forall_forall in F. specialize (F _ I). discriminate F. Qed.

Lemma run_app_inv : forall tr1 s tr2 s2 oss, run s (tr1 ++ tr2) = Some (s2, oss) ->
  exists s1 oss1 oss2, run s tr1 = Some (s1, oss1) /\ run s1 tr2 = Some (s2, oss2) /\ oss = oss1 ++ oss2.
Proof.
  induction tr1 as [|l r IH]; cbn [app run]; intros s tr2 s2 oss H.
  - exists s, [], oss. auto.
  - destruct (step s l) as [[s0 os]|] eqn:E; [|discriminate].
    destruct (run s0 (r ++ tr2)) as [[sa ossa]|] eqn:E2; [|discriminate]. injection H as <- <-.
    destruct (IH _ _ _ _ E2) as (s1 & oss1 & oss2 & H1 & H2 & ->).
    exists s1, (os :: oss1), oss2. rewrite H1. auto.
Qed.

(* a scheduler: the first enabled release label *)
Definition pick_first (x : state) : label := hd LStart (enabled_rel x).

Lemma pick_first_ok x : quiescent x = false -> In (pick_first x) (enabled_rel x).
Proof.
  unfold quiescent, pick_first. destruct (enabled_rel x) as [|l r]; cbn; [discriminate|auto].
Qed.

(* a release label whose window is defined is one of the candidates: the state is not quiescent *)
Lemma rel_step_enabled s l x : is_rel l = true -> step s l = Some x -> In l (enabled_rel s).
Proof.
  intros Il H. unfold enabled_rel. apply filter_In. split; [|rewrite H; reflexivity].
  destruct x as [s' os]. apply step_decompose in H as (_ & s1 & os1 & Hr & _).
  destruct l; try discriminate Il; unfold step_raw in Hr.
  - apply (in_cand s SRead); [cbn; tauto|]. cbn. destruct (rd s); try discriminate. left; reflexivity.
  - apply (in_cand s SNext); [cbn; tauto|]. cbn. destruct (dp s); try discriminate. left; reflexivity.
  - apply (in_cand s SBarrier); [cbn; tauto|]. cbn. destruct (dp s); try discriminate. left; reflexivity.
  - apply (in_cand s SAcquire); [cbn; tauto|]. cbn. apply in_map.
    destruct (nth_error (tasks s) k) as [t|] eqn:E; [|discriminate].
    destruct (t_st t) eqn:St; try discriminate.
    destruct (unit_running s t) eqn:Ur; [|discriminate].
    apply (in_idxs_where (at_acquire s) (tasks s) 0 k t E). unfold at_acquire. rewrite St. exact Ur.
  - apply (in_cand s SHandled); [cbn; tauto|]. cbn. apply in_map.
    destruct (nth_error (tasks s) k) as [t|] eqn:E; [|discriminate].
    destruct (t_st t) eqn:St; try discriminate.
    apply (in_idxs_where at_handled (tasks s) 0 k t E). unfold at_handled. rewrite St. reflexivity.
  - apply (in_cand s SDeliver); [cbn; tauto|]. cbn. apply in_map.
    destruct (nth_error (units s) u) as [un|] eqn:E; [|discriminate].
    destruct (u_st un) eqn:Su; try discriminate.
    apply (in_idxs_where at_deliver (units s) 0 u un E). unfold at_deliver. rewrite Su. reflexivity.
  - apply (in_cand s SStop); [cbn; tauto|]. cbn.
    destruct (find_op n (ops s)) as [[n0|n0 id|n0 w m p]|] eqn:F; try discriminate.
    apply find_op_some in F as [I E]. cbn in E. subst n0. apply in_flat_map. exists (OpStop n). split; [exact I|left; reflexivity].
  - apply (in_cand s SCancel); [cbn; tauto|]. cbn.
    destruct (find_op n (ops s)) as [[n0|n0 id|n0 w m p]|] eqn:F; try discriminate.
    apply find_op_some in F as [I E]. cbn in E. subst n0. apply in_flat_map. exists (OpCancel n id). split; [exact I|left; reflexivity].
  - apply (in_cand s SPush); [cbn; tauto|]. cbn.
    destruct (find_op n (ops s)) as [[n0|n0 id|n0 w m p]|] eqn:F; try discriminate.
    apply find_op_some in F as [I E]. cbn in E. subst n0. apply in_flat_map. exists (OpPush n w m p). split; [exact I|left; reflexivity].
  - apply (in_cand s SCbWatch); [cbn; tauto|]. cbn. apply in_map.
    destruct (nth_error (cbs s) c) as [cb0|] eqn:E; [|discriminate].
    destruct (cb_watch cb0) eqn:W; try discriminate.
    apply (in_idxs_where watch_parked (cbs s) 0 c cb0 E). unfold watch_parked. rewrite W. reflexivity.
Qed.

(* quiescent = no release label has a window: the release-only runs that end in a quiescent state are the maximal ones *)
Theorem quiescent_iff_maximal s : quiescent s = true <-> forall l, is_rel l = true -> step s l = None.
Proof.
  split.
  - intros Q l Il. destruct (step s l) as [x|] eqn:E; auto. exfalso.
    apply (SrvC03.quiescent_none s l Q). eapply rel_step_enabled; eauto.
  - intros H. unfold quiescent. destruct (enabled_rel s) as [|l r] eqn:E; [reflexivity|exfalso].
    assert (I : In l (enabled_rel s)) by (rewrite E; left; reflexivity).
    pose proof (enabled_rel_is_rel _ _ I) as Il. unfold enabled_rel in I. apply filter_In in I as [_ I].
    rewrite (H l Il) in I. discriminate I.
Qed.

(* (i) a quiescent state is reached by a release-only run of at most mu_rel s windows *)
Theorem rel_quiescent_reachable c s : reach c s ->
  exists tr s' oss, run s tr = Some (s', oss) /\ rel_only tr /\ length tr <= mu_rel s /\ quiescent s' = true.
Proof.
  intros R. destruct (rel_eventually_quiescent c s R (mu_rel s) (le_n _) pick_first pick_first_ok)
    as (tr & s' & oss & Hr & F & Q & L).
  exists tr, s', oss. auto.
Qed.

(* (ii) every release-only run is a prefix of one that ends in a quiescent state; all of them are short *)
Theorem rel_run_extends c s tr s1 oss1 : reach c s -> run s tr = Some (s1, oss1) -> rel_only tr ->
  length tr <= mu_rel s /\
  exists tr2 s' oss2, run s (tr ++ tr2) = Some (s', oss1 ++ oss2) /\ rel_only (tr ++ tr2) /\
    length (tr ++ tr2) <= mu_rel s /\ quiescent s' = true.
Proof.
  intros R H F. pose proof (rel_bounded c _ _ _ _ R F H) as B. split; [lia|].
  destruct (rel_quiescent_reachable c s1 (run_reach _ _ _ _ _ R H)) as (tr2 & s' & oss2 & H2 & F2 & L2 & Q).
  exists tr2, s', oss2. split; [eapply run_app_fwd; eauto|]. split; [apply rel_only_app; auto|].
  split; [rewrite app_length; lia|exact Q].
Qed.

(* the schema of the 'eventually' theorems below: P holds in the last state of every maximal release-only run from s,
   such runs exist, and none is longer than mu_rel s *)
Definition eventually (s : state) (P : list label -> state -> list (list obs) -> Prop) : Prop :=
  (exists tr s' oss, run s tr = Some (s', oss) /\ rel_only tr /\ length tr <= mu_rel s /\ quiescent s' = true) /\
  (forall tr s' oss, run s tr = Some (s', oss) -> rel_only tr ->
     length tr <= mu_rel s /\ (quiescent s' = true -> P tr s' oss)).

Lemma eventually_intro c s (P : list label -> state -> list (list obs) -> Prop) : reach c s ->
  (forall tr s' oss, run s tr = Some (s', oss) -> rel_only tr -> reach c s' -> quiescent s' = true -> P tr s' oss) ->
  eventually s P.
Proof.
  intros R H. split; [apply (rel_quiescent_reachable c s R)|].
  intros tr s' oss Hr F. split; [apply (rel_run_length c _ _ _ _ R F Hr)|].
  intros Q. apply H; auto. eapply run_reach; eauto.
Qed.

Lemma eventually_spec s P : eventually s P <->
  (exists tr s' oss, run s tr = Some (s', oss) /\ Forall (fun l => is_rel l = true) tr /\ length tr <= mu_rel s /\
     quiescent s' = true) /\
  (forall tr s' oss, run s tr = Some (s', oss) -> Forall (fun l => is_rel l = true) tr ->
     length tr <= mu_rel s /\ (quiescent s' = true -> P tr s' oss)).
Proof. reflexivity. Qed.

(** * 1. what is still unfinished at a quiescent point *)
(* a request whose handler has been entered and has not returned, or that is queued for a handler slot while every
   slot is taken *)
Definition held_in_handler (s : state) (t : task) : Prop :=
  t_st t = TRunning \/ (t_st t = TWaiting /\ sem_free s = 0).

(* at a quiescent point every holder of a slot is executing its handler (a returned handler gives its slot back in
   its next window, which is enabled) *)
Lemma quiescent_holder_running c s k t : reach c s -> quiescent s = true ->
  nth_error (tasks s) k = Some t -> SrvC06.holds t = true -> t_st t = TRunning.
Proof.
  intros R Q E H. unfold SrvC06.holds in H.
  destruct (quiescent_tasks _ _ _ _ R Q E) as [Z|[(b & Z)|[Z|[(Z & _)|(Z & _)]]]]; auto; rewrite Z in H; discriminate.
Qed.

(* whoever is held back is held back by a handler that has not returned (Concurrency >= 1) *)
Lemma quiescent_held_by_running c s k t : reach c s -> quiescent s = true -> 0 < cf_K c ->
  nth_error (tasks s) k = Some t -> held_in_handler s t ->
  exists j tj, nth_error (tasks s) j = Some tj /\ t_st tj = TRunning.
Proof.
  intros R Q HK E [Z|(Z & F)]; [eauto|].
  destruct (SrvC06.sem_invariant _ _ R) as [Sem _]. rewrite F in Sem.
  destruct (countb_pos_exists SrvC06.holds (tasks s)) as (x & Hx & Px); [unfold SrvC06.slots_used in Sem; lia|].
  apply In_nth_error in Hx as (j & Ej). exists j, x. split; auto. eapply quiescent_holder_running; eauto.
Qed.

Lemma quiescent_unfinished_task c s k t : reach c s -> quiescent s = true ->
  nth_error (tasks s) k = Some t -> finished t = false -> unit_running s t = true -> held_in_handler s t.
Proof.
  intros R Q E F Ur. unfold finished in F. unfold held_in_handler.
  destruct (quiescent_tasks _ _ _ _ R Q E) as [Z|[(b & Z)|[Z|[Z|(_ & Z)]]]]; auto;
    try (rewrite Z in F; discriminate F). congruence.
Qed.

(* the dispatcher of a quiescent state that waits at the barrier waits for a notification of an earlier message *)
Lemma quiescent_barrier_held c s u : reach c s -> quiescent s = true -> dp s = DBarrierWait u ->
  0 < nbar s /\ S u = length (units s) /\
  exists k t, nth_error (tasks s) k = Some t /\ is_note t = true /\ runnable t = true /\ t_unit t < u /\
    unit_running s t = true /\ held_in_handler s t.
Proof.
  intros R Q D. pose proof (reach_reachf _ _ R) as Rf.
  destruct (reachf_inv8 _ _ Rf) as [Ic It N].
  assert (B : 0 < nbar s).
  { destruct (quiescent_dp _ _ R Q) as [Z|[Z|[(Z & _)|(u' & _ & B)]]]; try congruence. }
  split; [exact B|].
  destruct (proj1 (SrvC03.frontier _ _ Rf) u (or_intror D)) as (Lu & Ru & _). split; [exact Lu|].
  pose proof B as B0. unfold invn in N. rewrite N in B0.
  destruct (countb_pos_exists _ _ B0) as (t & Ht & P). apply In_nth_error in Ht as (k & Ek).
  unfold pend in P. apply andb_true_iff in P as [P Ur]. apply andb_true_iff in P as [P F].
  apply andb_true_iff in P as [Nt Rn]. apply negb_true_iff in F. rewrite <- unit_running_urun in Ur.
  exists k, t. split; [exact Ek|]. split; [exact Nt|]. split; [exact Rn|]. split.
  - pose proof (task_unit_bound _ _ _ _ Rf Ek) as Lt.
    destruct (Nat.eq_dec (t_unit t) u) as [Eq|Ne]; [|lia]. exfalso.
    pose proof (SrvC03.unit_running_released _ _ Ur) as Rl. rewrite Eq in Rl. congruence.
  - split; [exact Ur|]. eapply quiescent_unfinished_task; eauto.
Qed.

(* C01, general form: at a quiescent point the only unfinished work is
   - a message one of whose requests is in its handler or queued for a slot with every slot taken,
   - the message at the barrier, and the queued messages behind it, held back by a notification of an earlier
     message that is in its handler or queued for a slot with every slot taken;
   and (Concurrency >= 1) in each case some handler that was entered has not returned *)
Theorem quiescent_unfinished c s : reach c s -> quiescent s = true ->
  (forall u un, nth_error (units s) u = Some un -> u_st un <> UFinished ->
     (u_st un = URunning /\
      exists k t, nth_error (tasks s) k = Some t /\ t_unit t = u /\ held_in_handler s t) \/
     ((u_st un = UAtBarrier \/ u_st un = UBarrierWait) /\ dp s = DBarrierWait u /\ 0 < nbar s /\
      exists k t, nth_error (tasks s) k = Some t /\ is_note t = true /\ runnable t = true /\ t_unit t < u /\
        held_in_handler s t)) /\
  (inq s <> [] ->
     exists u k t, dp s = DBarrierWait u /\ 0 < nbar s /\ nth_error (tasks s) k = Some t /\ is_note t = true /\
       runnable t = true /\ t_unit t < u /\ held_in_handler s t) /\
  (forall k t, nth_error (tasks s) k = Some t -> held_in_handler s t -> 0 < cf_K c ->
     exists j tj, nth_error (tasks s) j = Some tj /\ t_st tj = TRunning).
Proof.
  intros R Q. pose proof (reach_reachf _ _ R) as Rf. split; [|split].
  - intros u un Eu Nf. destruct (quiescent_units _ _ _ _ R Q Eu) as [Nd Hr].
    destruct (u_st un) eqn:Su; try congruence.
    + right. split; [auto|]. pose proof (i_bar _ (reachf_inv2 _ _ Rf) u un Eu (or_introl Su)) as Hb.
      assert (D : dp s = DBarrierWait u).
      { destruct Hb as [Hb|Hb]; auto. exfalso.
        destruct (quiescent_dp _ _ R Q) as [Z|[Z|[(Z & _)|(u' & Z & _)]]]; congruence. }
      destruct (quiescent_barrier_held _ _ _ R Q D) as (B & _ & k & t & E & Nt & Rn & Lt & _ & Hh).
      split; [exact D|]. split; [exact B|]. exists k, t. auto.
    + right. split; [auto|]. pose proof (i_bar _ (reachf_inv2 _ _ Rf) u un Eu (or_intror Su)) as Hb.
      assert (D : dp s = DBarrierWait u).
      { destruct Hb as [Hb|Hb]; auto. exfalso.
        destruct (quiescent_dp _ _ R Q) as [Z|[Z|[(Z & _)|(u' & Z & _)]]]; congruence. }
      destruct (quiescent_barrier_held _ _ _ R Q D) as (B & _ & k & t & E & Nt & Rn & Lt & _ & Hh).
      split; [exact D|]. split; [exact B|]. exists k, t. auto.
    + left. split; [reflexivity|]. destruct (Hr eq_refl) as (k & t & Ek & Hu & F).
      exists k, t. split; [exact Ek|]. split; [exact Hu|].
      eapply quiescent_unfinished_task; eauto. unfold unit_running. rewrite Hu, Eu, Su. reflexivity.
  - intros Nq. destruct (reachf_inv8 _ _ Rf) as [Ic _ _].
    destruct (quiescent_dp _ _ R Q) as [Z|[Z|[(_ & _ & Z)|(u & D & B)]]].
    + destruct (ic_dpx _ Ic (or_intror Z)) as [Z' _]. congruence.
    + destruct (ic_dpx _ Ic (or_introl Z)) as [Z' _]. congruence.
    + congruence.
    + destruct (quiescent_barrier_held _ _ _ R Q D) as (_ & _ & k & t & E & Nt & Rn & Lt & _ & Hh).
      exists u, k, t. auto 10.
  - intros k t E Hh HK. eapply quiescent_held_by_running; eauto.
Qed.

(* hence, at rest (quiescent, no handler executing, Concurrency >= 1) everything has finished, whether the server
   is still running or has been stopped *)
Theorem quiescent_at_rest c s : reach c s -> quiescent s = true -> 0 < cf_K c ->
  (forall k t, nth_error (tasks s) k = Some t -> t_st t <> TRunning) ->
  inq s = [] /\ (forall u un, nth_error (units s) u = Some un -> u_st un = UFinished) /\
  (forall k t, nth_error (tasks s) k = Some t -> finished t = true).
Proof.
  intros R Q HK Nr. destruct (quiescent_unfinished c s R Q) as (A & B & C).
  assert (No : forall k t, nth_error (tasks s) k = Some t -> ~ held_in_handler s t).
  { intros k t E Hh. destruct (C _ _ E Hh HK) as (j & tj & Ej & Z). apply (Nr _ _ Ej Z). }
  assert (U : forall u un, nth_error (units s) u = Some un -> u_st un = UFinished).
  { intros u un Eu. destruct (u_st un) eqn:Su; auto; exfalso.
    all: destruct (A u un Eu) as [(_ & k & t & E & _ & Hh)|(_ & _ & _ & k & t & E & _ & _ & _ & Hh)];
      [congruence| |]; apply (No _ _ E Hh). }
  split; [|split; [exact U|]].
  - destruct (inq s) eqn:Iq; auto. exfalso.
    destruct B as (u & k & t & _ & _ & E & _ & _ & _ & Hh); [discriminate|]. apply (No _ _ E Hh).
  - intros k t E. pose proof (reach_reachf _ _ R) as Rf.
    pose proof (task_unit_bound _ _ _ _ Rf E) as Lt.
    destruct (nth_error (units s) (t_unit t)) as [un|] eqn:Eu; [|apply nth_error_None in Eu; lia].
    pose proof (i_fin _ (reachf_inv _ _ Rf) _ _ Eu (or_intror (U _ _ Eu))) as F.
    eapply all_finished_in; eauto. eapply nth_error_In; eauto.
Qed.

(** * 2. C01: every accepted message is eventually answered *)
(* [tr0] is any history (environment actions and partial schedules) leading to s; from there the goroutines of the
   server run on their own.  In the last state s' of every maximal release-only run:
   - the only unfinished work is what [quiescent_unfinished] says (requests in their handlers or queued for a slot
     with every slot taken by a handler that has not returned; messages behind the barrier of such a notification);
   - if no handler is still executing in s' (every handler that was entered has returned: the environment's only
     obligation), the queue is empty, every task and every unit has finished, every unit with something to say has
     been delivered exactly once on the whole trace and every silent one never;
   - the messages sent by the deliver windows of the whole trace are exactly the replies of the finished non-silent
     units, each once, with the responses of its tasks. *)
Definition c01_answered (c : config) (tr0 : list label) (oss0 : list (list obs))
    (tr : list label) (s' : state) (oss : list (list obs)) : Prop :=
  ((forall u un, nth_error (units s') u = Some un -> u_st un <> UFinished ->
      (u_st un = URunning /\
       exists k t, nth_error (tasks s') k = Some t /\ t_unit t = u /\ held_in_handler s' t) \/
      ((u_st un = UAtBarrier \/ u_st un = UBarrierWait) /\ dp s' = DBarrierWait u /\ 0 < nbar s' /\
       exists k t, nth_error (tasks s') k = Some t /\ is_note t = true /\ runnable t = true /\ t_unit t < u /\
         held_in_handler s' t)) /\
   (inq s' <> [] ->
      exists u k t, dp s' = DBarrierWait u /\ 0 < nbar s' /\ nth_error (tasks s') k = Some t /\ is_note t = true /\
        runnable t = true /\ t_unit t < u /\ held_in_handler s' t) /\
   (forall k t, nth_error (tasks s') k = Some t -> held_in_handler s' t -> 0 < cf_K c ->
      exists j tj, nth_error (tasks s') j = Some tj /\ t_st tj = TRunning)) /\
  ((forall k t, nth_error (tasks s') k = Some t -> t_st t <> TRunning) -> 0 < cf_K c ->
     inq s' = [] /\ (forall k t, nth_error (tasks s') k = Some t -> finished t = true) /\
     forall u, u < length (units s') ->
       ufin s' u = true /\
       (responses (unit_tasks s' u) <> [] -> countb (is_deliver u) (tr0 ++ tr) = 1) /\
       (responses (unit_tasks s' u) = [] -> countb (is_deliver u) (tr0 ++ tr) = 0)) /\
  (unit_sends (tr0 ++ tr) (oss0 ++ oss) =
     map (fun u => (u, ubatch s' u, responses (unit_tasks s' u))) (delivered (tr0 ++ tr)) /\
   NoDup (delivered (tr0 ++ tr)) /\
   (forall u, In u (delivered (tr0 ++ tr)) <-> ufin s' u = true /\ responses (unit_tasks s' u) <> [])).

Theorem c01_eventually_answered c tr0 s oss0 : run (init_of c) tr0 = Some (s, oss0) ->
  eventually s (c01_answered c tr0 oss0).
Proof.
  intros H0. assert (R : reach c s) by (eapply run_reach; [apply reach_init|eauto]).
  apply (eventually_intro c); auto. intros tr s' oss H F R' Q.
  pose proof (run_app_fwd _ _ _ _ _ _ _ H0 H) as Hall.
  split; [apply (quiescent_unfinished c s' R' Q)|]. split; [|apply (c01_output_history c _ _ _ Hall)].
  intros Nr HK. destruct (quiescent_at_rest c s' R' Q HK Nr) as (Iq & Fu & Ft).
  split; [exact Iq|]. split; [exact Ft|]. intros u Lu.
  destruct (nth_error (units s') u) as [un|] eqn:Eu; [|apply nth_error_None in Eu; lia].
  assert (Fi : ufin s' u = true) by (unfold ufin; rewrite Eu, (Fu _ _ Eu); reflexivity).
  split; [exact Fi|]. apply (c01_delivered_iff_nonsilent c _ _ _ u Hall Fi).
Qed.

(* REFUTED as first worded ("if no task of s is TRunning and the server runs, every unit is finished in the quiescent
   state reached"): a request that has been received but whose handler has not been entered yet enters it during the
   release-only run, and its return is an action of the environment.  Hence the hypothesis 'no handler is executing'
   is about the state s' that is reached (and SrvProgress.v adds the handler returns to the runs). *)
Definition tr_unentered : list label :=
  [LStart; LFeed (FMsg (InMsgs false [ex_call [49%N] [91;93]%N])); LRelRead].

Theorem c01_eventually_answered_naive_refuted :
  exists s tr s' oss, reach ex_cfg s /\ running s = true /\ 0 < cf_K ex_cfg /\
    forallb (fun t => match t_st t with TRunning => false | _ => true end) (tasks s) = true /\
    run s tr = Some (s', oss) /\ rel_only tr /\ quiescent s' = true /\
    map u_st (units s') = [URunning] /\ map t_st (tasks s') = [TRunning].
Proof.
  exists (st_of ex_cfg tr_unentered), [LRelNext; LRelBarrier; LRelAcquire 0; LRelNext]. eexists _, _.
  split; [apply reach_st_of; vm_compute; discriminate|].
  split; [vm_compute; reflexivity|]. split; [cbn; lia|]. split; [vm_compute; reflexivity|].
  split; [vm_compute; reflexivity|]. split; [repeat constructor|]. repeat split; vm_compute; reflexivity.
Qed.

(* non-vacuity: the handler of a call has returned; the server runs on its own for three windows (invoke returns,
   the reply is delivered) and is at rest: everything is finished and the reply has been sent *)
Example c01_eventually_answered_nonvacuous :
  let tr0 := ex_tr_running ++ [LGate [91;93]%N (ORes [50%N])] in
  let tr := [LRelHandled 0; LRelNext; LRelDeliver 0] in
  run (init_of ex_cfg) tr0 <> None /\ run (st_of ex_cfg tr0) tr <> None /\ rel_only tr /\
  quiescent (st_of ex_cfg (tr0 ++ tr)) = true /\ quiescent (st_of ex_cfg tr0) = false /\
  0 < cf_K ex_cfg /\
  forallb (fun t => match t_st t with TRunning => false | _ => true end) (tasks (st_of ex_cfg (tr0 ++ tr))) = true /\
  map u_st (units (st_of ex_cfg (tr0 ++ tr))) = [UFinished] /\
  unit_sends (tr0 ++ tr) (obs_of ex_cfg (tr0 ++ tr)) = [(0, false, [{| r_id := [49%N]; r_body := BRes [50%N] |}])].
Proof.
  cbv zeta. split; [vm_compute; discriminate|]. split; [vm_compute; discriminate|]. split; [repeat constructor|].
  repeat split; try (vm_compute; reflexivity).
Qed.

(** * 3. C03 / C06: later requests eventually start; the semaphore is work-conserving *)
Lemma released_mono s s' u : units_ext (units s) (units s') -> SrvC03.released s u = true -> SrvC03.released s' u = true.
Proof.
  unfold SrvC03.released, SrvC03.rel_in. intros X H.
  destruct (nth_error (units s) u) as [un|] eqn:E; [|discriminate].
  destruct (X _ _ E) as (un' & E' & Le). rewrite E'. destruct Le as [_ _ _ Rk].
  unfold SrvC03.released_u in *. destruct (u_st un); try discriminate; destruct (u_st un'); cbn in Rk; auto; lia.
Qed.

(* at a quiescent point the slots in use are exactly the executing handlers *)
Lemma quiescent_slots_executing c s : reach c s -> quiescent s = true -> SrvC06.slots_used s = SrvC06.executing s.
Proof.
  intros R Q. unfold SrvC06.slots_used, SrvC06.executing. apply SrvC03.countb_ext_in. intros t It.
  apply In_nth_error in It as (k & E). destruct (SrvC06.holds t) eqn:H.
  - unfold SrvC06.is_running. rewrite (quiescent_holder_running _ _ _ _ R Q E H). reflexivity.
  - unfold SrvC06.holds in H. unfold SrvC06.is_running. destruct (t_st t); auto; discriminate.
Qed.

(* everything the transport has delivered has been read *)
Lemma quiescent_reader c s : reach c s -> quiescent s = true ->
  (forall f, rd s <> RHold f) /\ (rd s = RIdle -> ch_in s = []).
Proof.
  intros R Q. split; [|apply (SrvC09b.reach_idle_empty c s R)].
  intros f Hf. destruct (reader_enabled s f (no_crash _ _ R) Hf) as (s' & os & E).
  apply (SrvC03.quiescent_none s LRelRead Q). eapply rel_step_enabled; eauto.
Qed.

(* a task of a released message at a quiescent point *)
Lemma quiescent_released_task c s k t : reach c s -> quiescent s = true ->
  nth_error (tasks s) k = Some t -> SrvC03.released s (t_unit t) = true ->
  t_st t = TSkip \/ (exists b, t_st t = TDone b) \/ t_st t = TRunning \/
  (t_st t = TWaiting /\ sem_free s = 0 /\ SrvC06.slots_used s = cf_K c /\ SrvC06.executing s = cf_K c).
Proof.
  intros R Q E Rl.
  destruct (SrvC03.quiescent_task _ _ _ _ R (no_crash _ _ R) Q E Rl) as [Z|[Z|[Z|(Z & F & U)]]]; auto.
  right. right. right. split; auto. split; auto. split; auto. rewrite <- (quiescent_slots_executing c s R Q). exact U.
Qed.

Definition c03_later_started (c : config) (s : state) (tr : list label) (s' : state) (oss : list (list obs)) : Prop :=
  ((forall f, rd s' <> RHold f) /\ (rd s' = RIdle -> ch_in s' = [])) /\
  ((inq s' <> [] \/ exists u, dp s' = DAtBarrier u \/ dp s' = DBarrierWait u) ->
     exists u k n, dp s' = DBarrierWait u /\ 0 < nbar s' /\ nth_error (tasks s') k = Some n /\ is_note n = true /\
       runnable n = true /\ t_unit n < u /\ held_in_handler s' n) /\
  (forall k t, nth_error (tasks s') k = Some t -> SrvC03.released s' (t_unit t) = true ->
     (t_st t = TAtAcquire \/ t_st t = TWaiting) ->
     t_st t = TWaiting /\ sem_free s' = 0 /\ SrvC06.slots_used s' = cf_K c /\ SrvC06.executing s' = cf_K c) /\
  ((forall j n, nth_error (tasks s') j = Some n -> runnable n = true -> is_note n = true ->
      SrvC03.released s' (t_unit n) = true -> exists b, t_st n = TDone b) ->
     inq s' = [] /\ nbar s' = 0 /\ (forall u, ~ (dp s' = DAtBarrier u \/ dp s' = DBarrierWait u)) /\
     forall v, v < length (units s') -> SrvC03.released s' v = true) /\
  (forall k t', before_start s k = true -> nth_error (tasks s') k = Some t' -> t_st t' = TRunning ->
     exists cn, In (OStart (t_params t') cn) (concat oss)).

Theorem c03_later_requests_eventually_start c s : reach c s -> eventually s (c03_later_started c s).
Proof.
  intros R. apply (eventually_intro c); auto. intros tr s' oss H F R' Q.
  pose proof (reach_reachf _ _ R') as Rf'. pose proof (no_crash _ _ R') as Cr'.
  split; [apply (quiescent_reader c s' R' Q)|]. split; [|split; [|split]].
  - intros Hold.
    assert (Hb : exists u, dp s' = DBarrierWait u).
    { destruct (quiescent_dp _ _ R' Q) as [Z|[Z|[(Z & _ & Iq)|(u & D & _)]]]; eauto; exfalso.
      - destruct (ic_dpx _ (i8_c _ (reachf_inv8 _ _ Rf')) (or_intror Z)) as [Iq _].
        destruct Hold as [N|(u & [Hb|Hb])]; congruence.
      - destruct (ic_dpx _ (i8_c _ (reachf_inv8 _ _ Rf')) (or_introl Z)) as [Iq _].
        destruct Hold as [N|(u & [Hb|Hb])]; congruence.
      - destruct Hold as [N|(u & [Hb|Hb])]; congruence. }
    destruct Hb as (u & D).
    destruct (quiescent_barrier_held _ _ _ R' Q D) as (B & _ & k & t & E & Nt & Rn & Lt & _ & Hh).
    exists u, k, t. auto 10.
  - intros k t E Rl St.
    destruct (quiescent_released_task _ _ _ _ R' Q E Rl) as [Z|[(b & Z)|[Z|Z]]]; auto; destruct St; congruence.
  - intros Hn.
    assert (Z : nbar s' = 0).
    { rewrite (SrvC03.inv_nbar _ _ Rf'). apply countb_zero_forall. intros x Hx. apply In_nth_error in Hx as (j & E).
      unfold SrvC03.open_note, SrvC03.open_in, SrvC03.rnote.
      destruct (runnable x) eqn:Ru, (is_note x) eqn:Nx, (SrvC03.rel_in (units s') (t_unit x)) eqn:Rl; cbn; auto.
      destruct (Hn _ _ E Ru Nx Rl) as (b & Dn). unfold SrvC03.tdone. rewrite Dn. reflexivity. }
    assert (Nb : forall u, ~ (dp s' = DAtBarrier u \/ dp s' = DBarrierWait u)).
    { intros u Hb. destruct (quiescent_dp _ _ R' Q) as [D|[D|[(D & _)|(u' & D & B)]]]; try lia;
        destruct Hb as [Hb|Hb]; congruence. }
    split; [|split; [exact Z|split; [exact Nb|]]].
    + destruct (quiescent_dp _ _ R' Q) as [D|[D|[(_ & _ & Iq)|(u' & D & B)]]]; auto; try lia.
      * apply (ic_dpx _ (i8_c _ (reachf_inv8 _ _ Rf')) (or_intror D)).
      * apply (ic_dpx _ (i8_c _ (reachf_inv8 _ _ Rf')) (or_introl D)).
    + apply (proj2 (SrvC03.frontier _ _ Rf')). exact Nb.
  - intros k t' B E' St'.
    assert (Bt : t_builtin t' = false).
    { destruct (t_builtin t') eqn:Bt; auto. destruct (SrvC06.builtin_never_running _ _ _ _ R' E' Bt St'). }
    destruct (SrvC08n.run_enter c tr s s' oss k t' (reach_reachf _ _ R) H B E') as [Hin|(cn & _ & Hin)]; eauto.
    + rewrite St'. cbn. lia.
    + rewrite St'. discriminate.
Qed.

(* non-vacuity (K = 1): a call is in its handler; a notification and then another call arrive in later messages.
   Running on its own the server reads both, dispatches the notification, which queues for the slot (all K slots are
   taken by executing handlers), and the third message waits at the barrier for that notification - not for the call *)
Definition tr_call_running : list label := ex_tr_running ++
  [LFeed (FMsg (InMsgs false [ex_note [1%N]])); LFeed (FMsg (InMsgs false [ex_call [50%N] [2%N]]))].

Example c03_later_requests_eventually_start_nonvacuous :
  exists s tr s' oss, reach ex_cfg s /\ run s tr = Some (s', oss) /\ rel_only tr /\ quiescent s' = true /\
    length tr = 7 /\ mu_rel s = 17 /\
    map t_st (tasks s') = [TRunning; TWaiting; TAtAcquire] /\ map u_st (units s') = [URunning; URunning; UAtBarrier] /\
    dp s' = DBarrierWait 2 /\ nbar s' = 1 /\ sem_free s' = 0 /\ SrvC06.executing s' = cf_K ex_cfg /\ inq s' = [] /\
    rd s' = RIdle /\ ch_in s = [FMsg (InMsgs false [ex_call [50%N] [2%N]])].
Proof.
  exists (st_of ex_cfg tr_call_running),
    [LRelRead; LRelRead; LRelNext; LRelBarrier; LRelAcquire 1; LRelNext; LRelBarrier]. eexists _, _.
  split; [apply reach_st_of; vm_compute; discriminate|]. split; [vm_compute; reflexivity|].
  split; [repeat constructor|]. repeat split; vm_compute; reflexivity.
Qed.

(* C06: work conservation, eventually.  In the last state s' of a maximal release-only run the slots in use are the
   executing handlers; with a free slot nobody waits for one; while fewer than K handlers are executing every request
   of every released message has entered its handler (or is finished); and a request that in s was queued for a slot
   or parked before Acquire with its message released has entered its handler during the run (OStart among its
   observations), or is done (cancelled, or the built-in), or still waits with K handlers executing *)
Definition c06_conserving (c : config) (s : state) (tr : list label) (s' : state) (oss : list (list obs)) : Prop :=
  SrvC06.slots_used s' = SrvC06.executing s' /\
  (0 < sem_free s' ->
     sem_wait s' = [] /\ forall k t, nth_error (tasks s') k = Some t -> t_st t <> TWaiting /\ at_acquire s' t = false) /\
  (SrvC06.executing s' < cf_K c -> forall k t, nth_error (tasks s') k = Some t -> SrvC03.released s' (t_unit t) = true ->
     t_st t = TSkip \/ (exists b, t_st t = TDone b) \/ t_st t = TRunning) /\
  (forall k t, nth_error (tasks s) k = Some t -> t_st t = TWaiting \/ at_acquire s t = true ->
     exists t', nth_error (tasks s') k = Some t' /\
       ((t_st t' = TRunning /\ exists cn, In (OStart (t_params t) cn) (concat oss)) \/
        (exists b, t_st t' = TDone b) \/
        (t_st t' = TWaiting /\ sem_free s' = 0 /\ SrvC06.executing s' = cf_K c))).

Theorem c06_eventually_work_conserving c s : reach c s -> eventually s (c06_conserving c s).
Proof.
  intros R. apply (eventually_intro c); auto. intros tr s' oss H F R' Q.
  pose proof (reach_reachf _ _ R) as Rf. pose proof (reach_reachf _ _ R') as Rf'. pose proof (no_crash _ _ R') as Cr'.
  split; [apply (quiescent_slots_executing c s' R' Q)|]. split; [|split].
  - intros Fr. split; [apply (SrvC06.wait_queue _ _ R'); exact Fr|]. apply (SrvC06.work_conserving c s' R' Cr' Q Fr).
  - intros Lt k t E Rl.
    destruct (quiescent_released_task _ _ _ _ R' Q E Rl) as [Z|[Z|[Z|(_ & _ & _ & Z)]]]; auto. lia.
  - intros k t E St.
    destruct (run_task_le _ _ _ _ _ _ _ Rf H E) as (t' & E' & Le). exists t'. split; [exact E'|].
    assert (Rl : SrvC03.released s (t_unit t) = true).
    { destruct St as [St|St].
      - destruct (SrvC03.released s (t_unit t)) eqn:Rl; auto.
        destruct (SrvC03.unreleased_pending _ _ _ _ Rf E Rl); congruence.
      - unfold at_acquire in St. destruct (t_st t); try discriminate. apply SrvC03.unit_running_released; auto. }
    assert (Rl' : SrvC03.released s' (t_unit t') = true).
    { rewrite (tl_unit _ _ Le). apply (released_mono s s'); auto. apply (run_ext _ _ _ _ _ Rf H). }
    assert (B : before_start s k = true).
    { unfold before_start. rewrite E. apply Nat.ltb_lt. destruct St as [St|St]; [rewrite St; cbn; lia|].
      unfold at_acquire in St. destruct (t_st t); try discriminate. cbn. lia. }
    assert (Ns : t_st t' <> TSkip).
    { destruct (tl_st _ _ Le) as (_ & Sk & _). intros Z. apply Sk in Z. destruct St as [St|St]; [congruence|].
      unfold at_acquire in St. rewrite Z in St. discriminate. }
    destruct (quiescent_released_task _ _ _ _ R' Q E' Rl') as [Z|[Z|[Z|(Z & Fr & _ & Ex)]]]; auto; [congruence|].
    left. split; [exact Z|].
    assert (Bt : t_builtin t' = false).
    { destruct (t_builtin t') eqn:Bt; auto. destruct (SrvC06.builtin_never_running _ _ _ _ R' E' Bt Z). }
    rewrite <- (tl_params _ _ Le).
    destruct (SrvC08n.run_enter c tr s s' oss k t' Rf H B E') as [Hin|(cn & _ & Hin)]; eauto.
    + rewrite Z. cbn. lia.
    + rewrite Z. discriminate.
Qed.

(* non-vacuity (K = 2, two slots): a batch of two calls has been released; running on its own the server lets both
   enter their handlers (two OStart), then both slots are taken *)
Definition tr_two_released : list label :=
  [LStart; LRelNext; LFeed (FMsg (InMsgs true [ex_call [49%N] [1%N]; ex_call [50%N] [2%N]])); LRelRead; LRelBarrier].

Example c06_eventually_work_conserving_nonvacuous :
  exists s tr s' oss, reach ex_cfg2 s /\ run s tr = Some (s', oss) /\ rel_only tr /\ quiescent s' = true /\
    sem_free s = 2 /\ map (fun t => at_acquire s t) (tasks s) = [true; true] /\
    map t_st (tasks s') = [TRunning; TRunning] /\ sem_free s' = 0 /\ SrvC06.executing s' = cf_K ex_cfg2 /\
    concat oss = [OStart [2%N] false; OStart [1%N] false].
Proof.
  exists (st_of ex_cfg2 tr_two_released), [LRelAcquire 1; LRelNext; LRelAcquire 0]. eexists _, _.
  split; [apply reach_st_of; vm_compute; discriminate|]. split; [vm_compute; reflexivity|].
  split; [repeat constructor|]. repeat split; vm_compute; reflexivity.
Qed.

Lemma before_start_spec s k : before_start s k = true <->
  nth_error (tasks s) k = None \/ exists t, nth_error (tasks s) k = Some t /\ (t_st t = TAtAcquire \/ t_st t = TWaiting).
Proof.
  unfold before_start. destruct (nth_error (tasks s) k) as [t|]; [|split; auto].
  split.
  - intros H. apply Nat.ltb_lt in H. right. exists t. split; auto. destruct (t_st t); cbn in H; auto; lia.
  - intros [H|(t0 & [= <-] & [H|H])]; [discriminate| |]; rewrite H; reflexivity.
Qed.

(** * 4. C08: every pending WaitStatus eventually returns, with the status of the first cause *)
Definition is_waitret (o : obs) : bool := match o with OWaitRet _ => true | _ => false end.
Definition count_waitret (os : list obs) : nat := countb is_waitret os.

Lemma nowait_count os : Forall nowait os -> count_waitret os = 0.
Proof.
  unfold count_waitret. induction 1 as [|o r H _ IH]; cbn; auto. destruct o; cbn in *; auto. tauto.
Qed.

(* the critical section of a release label neither calls WaitStatus nor lets it return *)
Lemma raw_rel_waits s l s' os : inv s -> is_rel l = true -> step_raw s l = Some (s', os) -> waits s' = waits s.
Proof.
  intros I Il H. apply raw_ctl in H; auto.
  destruct H as [L Rn Wg -> | c s0 s1 Sc Rn H0 P H1 | f L Rd Rn -> | f i L Rd Hf Rn S5 C0 Ri Wa Hq
                | L D -> | u L D -> | u un s1 L E Su -> Hs | S5 Cp Wa Cr]; auto.
  - assert (W0 : waits s0 = waits s) by (destruct H0 as [->|(n & ->)]; reflexivity).
    rewrite <- W0, <- (sr_waits _ _ _ P). destruct H1 as [->|(_ & ->)]; reflexivity.
  - apply dequeue_nontask_like.
  - pose proof (nontask_release (unit_tasks s u) s) as G. apply nontask_fields in G.
    assert (W1 : waits (release_ids (unit_tasks s u) s) = waits s) by apply G.
    destruct Hs as [(_ & ->)|(_ & ->)]; cbn; exact W1.
  - destruct Wa as [Wa|(L & _)]; auto. subst l. discriminate Il.
Qed.

(* wake-ups: each WaitStatus return takes one pending call *)
Lemma settle_waits c : forall fuel s acc s' os, reachf c s -> settle fuel s acc = (s', os) ->
  count_waitret os + waits s' = count_waitret acc + waits s.
Proof.
  induction fuel as [|n IH]; cbn; intros s acc s' os R H.
  - injection H as <- <-. lia.
  - destruct (settle1 s) as [[s1 os1]|] eqn:E; [|injection H as <- <-; lia].
    pose proof (rf_settle _ _ _ _ R E) as R1. rewrite (IH _ _ _ _ R1 H).
    unfold count_waitret. rewrite countb_app. pose proof (no_crash_f _ _ R1) as Cr1.
    apply settle1_inv in E.
    destruct E as [f q Rd Q | D _ | u un D _ Eu | i un F E _ | i un F E _ | W _ Q | W _ Q]; cbn; try lia.
    + destruct (dequeue_nontask_like s) as (_ & _ & Wd & _). rewrite Wd. lia.
    + cbn in Cr1. discriminate.
Qed.

Lemma step_rel_waits c s l s' os : reach c s -> is_rel l = true -> step s l = Some (s', os) ->
  count_waitret os + waits s' = waits s.
Proof.
  intros R Il H. pose proof (reach_reachf _ _ R) as Rf. pose proof (reachf_inv _ _ Rf) as I.
  apply step_decompose in H as (Cr & s1 & os1 & Hr & Hs).
  pose proof (raw_rel_waits _ _ _ _ I Il Hr) as W1.
  pose proof (nowait_count _ (raw_nowait _ _ _ _ I Hr)) as N1.
  destruct Hs as [(_ & -> & ->)|(_ & Hs)]; [lia|].
  pose proof (settle_waits c _ _ _ _ _ (rf_raw _ _ _ _ _ Rf Cr Hr) Hs). lia.
Qed.

Lemma run_rel_waits c : forall tr s s' oss, reach c s -> rel_only tr -> run s tr = Some (s', oss) ->
  count_waitret (concat oss) + waits s' = waits s.
Proof.
  induction tr as [|l r IH]; cbn [run]; intros s s' oss R F H.
  - injection H as <- <-. cbn. lia.
  - destruct (step s l) as [[s1 os]|] eqn:E; [|discriminate].
    destruct (run s1 r) as [[s2 oss2]|] eqn:E2; [|discriminate]. injection H as <- <-.
    inversion F as [|? ? Fl Fr]; subst. cbn [concat]. unfold count_waitret. rewrite countb_app.
    pose proof (step_rel_waits _ _ _ _ _ R Fl E) as A.
    pose proof (IH _ _ _ (reach_step _ _ _ _ _ R E) Fr E2) as B. unfold count_waitret in *. lia.
Qed.

(* [s0 -l-> s1] is the window that stopped the server, [tr1] any later history without a restart, leading to s; from
   there the goroutines run on their own.  In the last state s' of every maximal release-only run: the server is still
   stopped with the cause k of the stopping window; every WaitStatus return of the run reports k; returns + calls
   still pending = calls pending in s; and once no handler is executing and the reader's Recv has returned (which
   needs no assumption on a channel whose Close unblocks Recv), every pending call has returned and every goroutine
   has exited *)
Definition c08_waits_returned (c : config) (s0 : state) (l : label) (s : state)
    (tr : list label) (s' : state) (oss : list (list obs)) : Prop :=
  exists k, stop_cause s0 l k /\ stop_err s' = Some k /\ running s' = false /\
    (forall os r, In os oss -> In (OWaitRet r) os -> r = Some k) /\
    count_waitret (concat oss) + waits s' = waits s /\
    ((forall j t, nth_error (tasks s') j = Some t -> t_st t <> TRunning) ->
     (rd s' = RExited \/ rd s' = RNone \/ cf_unblock c = true) -> 0 < cf_K c ->
     waits s' = 0 /\ count_waitret (concat oss) = waits s /\ wg s' = 0 /\ all_done s').

Theorem c08_waitstatus_eventually_returns c s0 l s1 os1 tr1 s oss1 : reach c s0 -> step s0 l = Some (s1, os1) ->
  running s0 = true -> running s1 = false -> run s1 tr1 = Some (s, oss1) -> ~ In LStart tr1 ->
  eventually s (c08_waits_returned c s0 l s).
Proof.
  intros R0 St Rn0 Rn1 H1 Ns.
  assert (R1 : reach c s1) by (eapply reach_step; eauto).
  assert (R : reach c s) by (eapply run_reach; eauto).
  apply (eventually_intro c); auto. intros tr s' oss H F R' Q.
  pose proof (run_app_fwd _ _ _ _ _ _ _ H1 H) as Hall.
  assert (Ns' : ~ In LStart (tr1 ++ tr)).
  { intros I. apply in_app_or in I as [I|I]; [auto|apply (rel_only_no_start _ F I)]. }
  destruct (status_cause c s0 l s1 os1 (tr1 ++ tr) s' (oss1 ++ oss) R0 St Rn0 Rn1 Hall Ns') as (k & Sc & Se & _ & Hw).
  destruct (proj2 (stop_err_set c s' R') k Se) as (Rn' & _).
  exists k. split; [exact Sc|]. split; [exact Se|]. split; [exact Rn'|]. split; [|split].
  - intros os r I Ir. apply (Hw os r); auto. apply in_or_app. auto.
  - apply (run_rel_waits c tr s s' oss R F H).
  - intros Nr Hrd HK. pose proof (run_rel_waits c tr s s' oss R F H) as Wc.
    assert (T : wg s' = 0 /\ waits s' = 0 /\ all_done s').
    { destruct Hrd as [Hrd|[Hrd|Hu]].
      - apply (c08_terminates_q c s' R' Q Rn' (or_introl Hrd) Nr HK).
      - apply (c08_terminates_q c s' R' Q Rn' (or_intror Hrd) Nr HK).
      - apply (SrvC08u.terminates_unblock c s' R' Q Rn' Hu Nr HK). }
    destruct T as (Wg & W0 & Ad). split; [exact W0|]. split; [lia|]. split; [exact Wg|exact Ad].
Qed.

(* non-vacuity: two WaitStatus calls are pending when Stop is called with a call in its handler; the handler
   returns and the transport reports the closing error; then the server runs on its own: invoke returns, the reply is
   delivered, dispatcher and reader exit, and both calls return with the cause of the stop *)
Definition tr_two_waiting : list label :=
  [LStart; LCallWait; LCallWait; LRelNext; LFeed (FMsg (InMsgs false [ex_call [49%N] [91;93]%N])); LRelRead; LRelBarrier;
   LRelAcquire 0; LCallStop 1].

Example c08_waitstatus_eventually_returns_nonvacuous :
  exists s0 s1 os1 s tr s' oss,
    reach ex_cfg s0 /\ step s0 (LRelStop 1) = Some (s1, os1) /\ running s0 = true /\ running s1 = false /\
    run s1 [LGate [91;93]%N (ORes [50%N]); LFeed (FErr SCClosing)] = Some (s, [[OGate [91;93]%N true]; []]) /\
    run s tr = Some (s', oss) /\ rel_only tr /\ quiescent s' = true /\ waits s = 2 /\ waits s' = 0 /\ length tr = 4 /\
    concat oss = [OSend false false [{| r_id := [49%N]; r_body := BRes [50%N] |}];
                  OWaitRet (Some SCStop); OWaitRet (Some SCStop)] /\
    rd s' = RExited /\ 0 < cf_K ex_cfg /\
    forallb (fun t => match t_st t with TRunning => false | _ => true end) (tasks s') = true.
Proof.
  exists (st_of ex_cfg tr_two_waiting). eexists _, _, _.
  exists [LRelHandled 0; LRelDeliver 0; LRelNext; LRelRead]. eexists _, _.
  split; [apply reach_st_of; vm_compute; discriminate|]. split; [vm_compute; reflexivity|].
  split; [vm_compute; reflexivity|]. split; [vm_compute; reflexivity|]. split; [vm_compute; reflexivity|].
  split; [vm_compute; reflexivity|]. split; [repeat constructor|].
  repeat split; try (vm_compute; reflexivity).
Qed.

Lemma count_waitret_spec os :
  count_waitret os = length (filter (fun o => match o with OWaitRet _ => true | _ => false end) os).
Proof. unfold count_waitret. apply countb_filter_length. Qed.
