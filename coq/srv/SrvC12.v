(* C12 (server half): a final record delivered together with io.EOF.
   channel Recv may return (record, io.EOF) for an unterminated last record (Split framings,
   c12_split_partial_whole).  The server's reader treats such a result as a record; the EOF is
   seen by the next Recv.  In SrvModel the harness feeds [FMsgEOF i] for the record and then
   [FErr SCEOF] separately.  This file states what the model does with [FMsgEOF i]: at every
   point where the model looks at a feed - enqueueing (LFeed), being picked up by the reader
   (settle1), and the reader's critical section (read_cs, run by LRelRead) - it is handled exactly
   like [FMsg i].  Proofs about SrvModel; restated in props/C12.v.  (Not proved here: a whole-trace
   bisimulation between traces that differ only in the tag.) *)
From Coq Require Import List NArith ZArith Bool Arith Lia.
From RecordUpdate Require Import RecordUpdate.
From JV Require Import Bytes Msg SrvModel.
Import ListNotations.

(* the reader's critical section does the same for a record that came with io.EOF *)
Lemma read_cs_data_eof : forall i s, read_cs (FMsgEOF i) s = read_cs (FMsg i) s.
Proof. reflexivity. Qed.

(* feeding it only enqueues it, as for any feed *)
Lemma feed_data_eof : forall i s,
  step_raw s (LFeed (FMsgEOF i)) = Some (s <| ch_in ::= fun q => q ++ [FMsgEOF i] |>, []) /\
  step_raw s (LFeed (FMsg i)) = Some (s <| ch_in ::= fun q => q ++ [FMsg i] |>, []).
Proof. split; reflexivity. Qed.

(* an idle reader picks it up like any feed *)
Lemma pickup_data_eof : forall i q s,
  rd s = RIdle -> ch_in s = FMsgEOF i :: q ->
  settle1 s = Some (s <| rd := RHold (FMsgEOF i) |> <| ch_in := q |>, []).
Proof. intros i q s H1 H2. unfold settle1. rewrite H1, H2. reflexivity. Qed.

(* releasing the reader that holds it runs the critical section of a plain record *)
Lemma rel_read_data_eof : forall i s,
  rd s = RHold (FMsgEOF i) -> step_raw s LRelRead = Some (read_cs (FMsg i) s).
Proof. intros i s H. cbn [step_raw]. rewrite H. reflexivity. Qed.

(* the record is processed (not dropped) while the server runs: the reader goes back to idle and
   will see the separately fed io.EOF next; only a stopped server makes the reader exit *)
Lemma read_cs_data_eof_reader : forall i s s' os,
  read_cs (FMsgEOF i) s = (s', os) ->
  rd s' = if running s then RIdle else RExited.
Proof.
  intros i s s' os H. cbn [read_cs] in H. destruct (running s) eqn:Er; cbn [negb] in H.
  - destruct i as [|b ms].
    + unfold push_error in H. inversion H; subst. reflexivity.
    + destruct ms as [|m ms'].
      * unfold push_error in H. inversion H; subst. reflexivity.
      * destruct (filter_batch (m :: ms') s [] []) as [[s1 keep] os1]. destruct keep as [|k keep'].
        -- inversion H; subst. reflexivity.
        -- remember (s1 <| inq ::= fun q => q ++ [(b, k :: keep')] |> <| rd := RIdle |>) as s2.
           destruct (work_closed s2 && (length (inq s2) =? 1)); inversion H; subst; reflexivity.
  - inversion H; subst. reflexivity.
Qed.

Theorem srv_final_record : forall i s,
  read_cs (FMsgEOF i) s = read_cs (FMsg i) s /\
  step_raw s (LFeed (FMsgEOF i)) = Some (s <| ch_in ::= fun q => q ++ [FMsgEOF i] |>, []) /\
  (forall q, rd s = RIdle -> ch_in s = FMsgEOF i :: q ->
             settle1 s = Some (s <| rd := RHold (FMsgEOF i) |> <| ch_in := q |>, [])) /\
  (rd s = RHold (FMsgEOF i) -> step_raw s LRelRead = Some (read_cs (FMsg i) s)) /\
  (forall s' os, read_cs (FMsgEOF i) s = (s', os) -> rd s' = if running s then RIdle else RExited).
Proof.
  intros i s. split; [apply read_cs_data_eof|]. split; [apply feed_data_eof|].
  split; [intros q; apply pickup_data_eof|]. split; [apply rel_read_data_eof|].
  apply read_cs_data_eof_reader.
Qed.

(* a concrete run: the observations of a server that receives an (unparsable) final record with
   io.EOF and then io.EOF are those of the same record without the tag, and the run exists *)
Example srv_final_record_run :
  let s0 := init 1 false false [] false in
  let tr x := [LStart; LFeed x; LRelRead; LFeed (FErr SCEOF); LRelRead] in
  option_map snd (run s0 (tr (FMsgEOF InBad))) = option_map snd (run s0 (tr (FMsg InBad))) /\
  exists oss, option_map snd (run s0 (tr (FMsgEOF InBad))) = Some oss /\ In OClose (concat oss).
Proof. vm_compute. split; [reflexivity|]. eexists. split; [reflexivity|]. cbn. tauto. Qed.
