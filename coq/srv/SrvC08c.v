(* SrvC08c: C08.5 in-flight calls are cancelled by the stop and queued calls are dropped,
   C08.6 (queue form) valid notifications queued before the stop are kept, in order,
   C08.8 a stopped and waited-for server restarts fresh. *)
From Coq Require Import List NArith ZArith Bool Arith Lia.
From RecordUpdate Require Import RecordUpdate.
From JV Require Import Bytes Msg SrvModel SrvLemmas SrvBasics SrvC01 SrvC07 SrvC09 SrvC10 SrvC08 SrvC08b.
From JV Require SrvC06.
Import ListNotations.

(** * the raw critical section of a stop window *)
Lemma stop_raw s l s1 os1 : inv s -> step_raw s l = Some (s1, os1) -> running s = true -> running s1 = false ->
  exists k s0 sx, stop_cause s l k /\ (s0 = s \/ exists n, s0 = s <| ops ::= del_op n |>) /\ stop_run k s0 sx /\
    (s1 = sx \/ (l = LRelRead /\ s1 = sx <| rd := RExited |> <| wg ::= pred |>)).
Proof.
  intros I H Rn Rn1. pose proof (raw_three _ _ _ _ I H) as T. apply raw_ctl in H; auto.
  destruct H as [L Rn0 Wg -> | k s0 sx Sc _ H0 P H1 | f L Rd Rn0 -> | f i L Rd Hf _ S5 C0 Ri Wa Hq
                | L D -> | u L D -> | u un sx L E Su -> Hs | S5 Cp Wa Cr Ln].
  - congruence.
  - exists k, s0, sx. auto.
  - congruence.
  - destruct S5 as (A & _). congruence.
  - destruct (dequeue_nontask_like s) as ((A & _) & _). congruence.
  - cbn in Rn1. congruence.
  - destruct T as [(Z & _)|[(k & Sc & _)|(A & _)]]; [congruence| |congruence]. subst l. inversion Sc.
  - destruct S5 as (A & _). congruence.
Qed.

(** * C08.5 the stop cancels every reserved (in-flight) call *)
Theorem calls_cancelled c s l s' os : reach c s -> step s l = Some (s', os) -> running s = true -> running s' = false ->
  used s' = [] /\
  (forall k t, nth_error (tasks s) k = Some t ->
     nth_error (tasks s') k = Some (if owner_in (used s) k then cancel_fn t else t)) /\
  (forall k t un, nth_error (tasks s) k = Some t -> t_hasctx t = true -> t_id t <> [] ->
     nth_error (units s) (t_unit t) = Some un -> u_st un <> UFinished -> owner_in (used s) k = true).
Proof.
  intros R H Rn Rn'. pose proof (reach_reachf _ _ R) as Rf. pose proof (reachf_inv _ _ Rf) as I.
  split; [apply (reachf_inv_idle c s'); auto; eapply step_reachf; eauto|]. split.
  - apply step_decompose in H as (C & s1 & os1 & Hr & Hs).
    assert (K : same5 s1 s' /\ keeps_tasks s1 s').
    { destruct Hs as [(_ & -> & _)|(_ & Hs)]; [split; [apply same5_refl|intros k t E; auto]|].
      split; [eapply settle_same5; eauto|eapply settle_keeps; eauto]. }
    destruct K as ((A & _) & Kt).
    destruct (stop_raw _ _ _ _ I Hr Rn) as (k0 & s0 & sx & _ & H0 & P & H1); [congruence|].
    intros k t E. apply Kt.
    assert (T0 : tasks s0 = tasks s /\ used s0 = used s) by (destruct H0 as [->|(n & ->)]; auto).
    destruct T0 as (T0 & U0). rewrite <- T0 in E. rewrite <- U0.
    destruct H1 as [->|(_ & ->)]; cbn; apply (sr_tasks _ _ _ P); auto.
  - intros k t un E Hc Hi Eu Su.
    pose proof (iu_rec _ (reachf_inv_used _ _ Rf) Rn (no_crash _ _ R) k t E Hc Hi) as A.
    apply owner_in_spec. exists (t_id t). apply assoc_in. apply A. exists un. auto.
Qed.

(* in the words of the property: a call whose unit has not been answered sees its context cancelled;
   one that was still queued for a slot is answered with the cancellation error and never runs *)
Theorem calls_cancelled_inflight c s l s' os k t un : reach c s -> step s l = Some (s', os) ->
  running s = true -> running s' = false ->
  nth_error (tasks s) k = Some t -> t_hasctx t = true -> t_id t <> [] ->
  nth_error (units s) (t_unit t) = Some un -> u_st un <> UFinished ->
  exists t', nth_error (tasks s') k = Some t' /\ t_cancelled t' = true /\ t_id t' = t_id t /\
    (t_st t = TWaiting -> t_st t' = TDone (Some cancel_err)) /\ (t_st t <> TWaiting -> t_st t' = t_st t).
Proof.
  intros R H Rn Rn' E Hc Hi Eu Su.
  destruct (calls_cancelled _ _ _ _ _ R H Rn Rn') as (_ & A & B).
  specialize (A _ _ E). rewrite (B _ _ _ E Hc Hi Eu Su) in A.
  exists (cancel_fn t). split; auto. split; [apply cancel_fn_cancelled|].
  unfold cancel_fn. destruct (t_st t) eqn:St; cbn; repeat split; auto; try congruence; intros Z; congruence.
Qed.

(** * while the server is stopped only retained notifications are ever given a task *)
Definition retained_note (t : task) : Prop := is_note t = true /\ response_of t = None /\ t_cancelled t = false.

Lemma mk_task_retained s u ids m : keep_note m = true -> retained_note (mk_task s u ids m).
Proof.
  intros K. split; [|split; [apply mk_task_keep_silent; auto|apply mk_task_cancelled]].
  unfold is_note. rewrite mk_task_id. unfold keep_note, is_notification in K.
  apply andb_true_iff in K as [K _]. apply andb_true_iff in K as [_ K]. apply beq_eq in K. rewrite K. reflexivity.
Qed.

Lemma dequeue_new_retained s k t : invc s -> running s = false -> length (tasks s) <= k ->
  nth_error (tasks (dequeue s)) k = Some t -> retained_note t.
Proof.
  intros Ic Rn Lk E. unfold dequeue in E. pose proof (ic_q _ Ic Rn) as Q.
  destruct (inq s) as [|[b ms] q]; [rewrite Rn in E; cbn in E; apply nth_error_some_lt in E; lia|].
  cbn in E. rewrite nth_error_app2 in E by auto. apply nth_error_In, in_map_iff in E as (m & <- & Hm).
  inversion Q as [|x y (m0 & Em & Km) _]. subst. cbn in Em. subst ms. destruct Hm as [<-|[]].
  apply mk_task_retained; auto.
Qed.

Definition only_notes (a b : state) : Prop :=
  ext a b /\ (running a = false -> running b = false /\
     forall k t, length (tasks a) <= k -> nth_error (tasks b) k = Some t -> is_note t = true /\ response_of t = None).

Lemma only_notes_refl a : only_notes a a.
Proof. split; [apply ext_refl|]. intros Rn. split; auto. intros k t L E. apply nth_error_some_lt in E. lia. Qed.

Lemma only_notes_trans a b d : only_notes a b -> only_notes b d -> only_notes a d.
Proof.
  intros [Xa Ha] [Xb Hb]. split; [eapply ext_trans; eauto|]. intros Rn.
  destruct (Ha Rn) as (Rb & Na). destruct (Hb Rb) as (Rd & Nb). split; auto.
  intros k t L E. destruct (Nat.lt_ge_cases k (length (tasks b))) as [Lt|Ge].
  - destruct (nth_error (tasks b) k) as [tb|] eqn:Eb; [|apply nth_error_None in Eb; lia].
    destruct Xb as [Xt _]. destruct (Xt _ _ Eb) as (t2 & E2 & Le). rewrite E in E2. injection E2 as <-.
    destruct (Na _ _ L Eb) as (N1 & N2). split.
    + unfold is_note in *. rewrite (tl_id _ _ Le). auto.
    + apply (response_none_le _ _ Le). auto.
  - apply (Nb k); auto.
Qed.

Lemma only_notes_same_len a b : ext a b -> length (tasks b) = length (tasks a) -> (running a = false -> running b = false) ->
  only_notes a b.
Proof.
  intros X L Rn. split; auto. intros Ra. split; auto. intros k t Lk E. apply nth_error_some_lt in E. lia.
Qed.

Lemma only_notes_dequeue a : inv a -> invc a -> only_notes a (dequeue a).
Proof.
  intros I Ic. split; [apply dequeue_ok; auto|]. intros Rn.
  destruct (dequeue_nontask_like a) as ((A & _) & _). split; [congruence|].
  intros k t L E. destruct (dequeue_new_retained _ _ _ Ic Rn L E) as (N1 & N2 & _). auto.
Qed.

Lemma only_notes_raw c s l s' os : reachf c s -> step_raw s l = Some (s', os) -> l <> LStart -> only_notes s s'.
Proof.
  intros R H Nl. pose proof (reachf_inv _ _ R) as I.
  destruct (raw_step_ok _ _ _ _ I H) as [_ X].
  assert (Rn : running s = false -> running s' = false).
  { intros Rn. destruct (raw_three _ _ _ _ I H) as [(Z & _)|[(k & _ & Z & _)|(A & _)]]; congruence. }
  destruct (raw_shape_ok _ _ _ _ I H) as [_ L| -> |u un _ _ _ _ L].
  - apply only_notes_same_len; auto.
  - apply only_notes_dequeue; auto. apply (reachf_inv8 _ _ R).
  - apply only_notes_same_len; auto.
Qed.

Lemma only_notes_settle c s s' os : reachf c s -> settle1 s = Some (s', os) -> only_notes s s'.
Proof.
  intros R H. pose proof (reachf_inv _ _ R) as I. destruct (settle1_ok _ _ _ I H) as [_ X].
  pose proof (settle1_same5 _ _ _ H) as (A & _).
  apply settle1_inv in H. destruct H; try (apply only_notes_same_len; auto; congruence).
  apply only_notes_dequeue; auto. apply (reachf_inv8 _ _ R).
Qed.

Theorem stopped_only_notes c s l s' os : reach c s -> running s = false -> step s l = Some (s', os) -> l <> LStart ->
  running s' = false /\
  forall k t, length (tasks s) <= k -> nth_error (tasks s') k = Some t -> is_note t = true /\ response_of t = None.
Proof.
  intros R Rn H Nl. pose proof (reach_reachf _ _ R) as Rf.
  apply step_decompose in H as (C & s1 & os1 & Hr & Hs).
  pose proof (only_notes_raw _ _ _ _ _ Rf Hr Nl) as O1.
  assert (O2 : only_notes s1 s').
  { destruct Hs as [(_ & -> & _)|(_ & Hs)]; [apply only_notes_refl|].
    eapply (lift_settle c only_notes only_notes_refl only_notes_trans); [|eapply rf_raw; eauto|exact Hs].
    intros a b o Ra Hab. eapply only_notes_settle; eauto. }
  destruct (only_notes_trans _ _ _ O1 O2) as [_ K]. apply K; auto.
Qed.

Theorem stopped_only_notes_trace c : forall tr s s' oss, reach c s -> running s = false -> run s tr = Some (s', oss) ->
  ~ In LStart tr ->
  running s' = false /\
  forall k t, length (tasks s) <= k -> nth_error (tasks s') k = Some t -> is_note t = true /\ response_of t = None.
Proof.
  induction tr as [|l r IH]; cbn; intros s s' oss R Rn H Ns.
  - injection H as <- _. split; auto. intros k t L E. apply nth_error_some_lt in E. lia.
  - destruct (step s l) as [[s1 os]|] eqn:E1; [|discriminate].
    destruct (run s1 r) as [[s2 oss2]|] eqn:E2; [|discriminate]. injection H as <- _.
    assert (R1 : reach c s1) by (eapply reach_step; eauto).
    destruct (stopped_only_notes _ _ _ _ _ R Rn E1) as (Rn1 & N1); [intros ->; apply Ns; auto|].
    destruct (IH _ _ _ R1 Rn1 E2) as (Rn2 & N2); [intros Hi; apply Ns; auto|]. split; auto.
    intros k t L E. destruct (Nat.lt_ge_cases k (length (tasks s1))) as [Lt|Ge]; [|apply (N2 k); auto].
    destruct (nth_error (tasks s1) k) as [t1|] eqn:Ek; [|apply nth_error_None in Ek; lia].
    destruct (run_task_le _ _ _ _ _ _ _ (reach_reachf _ _ R1) E2 Ek) as (t2 & Ek2 & Le).
    rewrite E in Ek2. injection Ek2 as <-. destruct (N1 _ _ L Ek) as (M1 & M2). split.
    + unfold is_note in *. rewrite (tl_id _ _ Le). auto.
    + apply (response_none_le _ _ Le). auto.
Qed.
