(* SrvC08c: C08.5 in-flight calls are cancelled by the stop and queued calls are dropped,
   C08.6 (queue form) valid notifications queued before the stop are kept, in order,
   C08.8 a stopped and waited-for server restarts fresh. *)
From Coq Require Import List NArith ZArith Bool Arith Lia.
From RecordUpdate Require Import RecordUpdate.
From JV Require Import Bytes Msg SrvModel SrvLemmas SrvBasics SrvC01 SrvC07 SrvC09 SrvC10 SrvC08 SrvC08b.
From JV Require SrvC06.
Import ListNotations.

(** * the raw critical section of a stop window *)
Lemma stop_raw s l s1 os1 : inv s -> step_raw s l = Some (s1, os1) -> running s = true -> running s1 = false ->
  exists k s0 sx, stop_cause s l k /\ (s0 = s \/ exists n, s0 = s <| ops ::= del_op n |>) /\ stop_run k s0 sx /\
    (s1 = sx \/ (l = LRelRead /\ s1 = sx <| rd := RExited |> <| wg ::= pred |>)).
Proof.
  intros I H Rn Rn1. pose proof (raw_three _ _ _ _ I H) as T. apply raw_ctl in H; auto.
  destruct H as [L Rn0 Wg -> | k s0 sx Sc _ H0 P H1 | f L Rd Rn0 -> | f i L Rd Hf _ S5 C0 Ri Wa Hq
                | L D -> | u L D -> | u un sx L E Su -> Hs | S5 Cp Wa Cr Ln].
  - congruence.
  - exists k, s0, sx. auto.
  - congruence.
  - destruct S5 as (A & _). congruence.
  - destruct (dequeue_nontask_like s) as ((A & _) & _). congruence.
  - cbn in Rn1. congruence.
  - destruct T as [(Z & _)|[(k & Sc & _)|(A & _)]]; [congruence| |congruence]. subst l. inversion Sc.
  - destruct S5 as (A & _). congruence.
Qed.

(** * C08.5 the stop cancels every reserved (in-flight) call *)
Theorem calls_cancelled c s l s' os : reach c s -> step s l = Some (s', os) -> running s = true -> running s' = false ->
  used s' = [] /\
  (forall k t, nth_error (tasks s) k = Some t ->
     nth_error (tasks s') k = Some (if owner_in (used s) k then cancel_fn t else t)) /\
  (forall k t un, nth_error (tasks s) k = Some t -> t_hasctx t = true -> t_id t <> [] ->
     nth_error (units s) (t_unit t) = Some un -> u_st un <> UFinished -> owner_in (used s) k = true).
Proof.
  intros R H Rn Rn'. pose proof (reach_reachf _ _ R) as Rf. pose proof (reachf_inv _ _ Rf) as I.
  split; [apply (reachf_inv_idle c s'); auto; eapply step_reachf; eauto|]. split.
  - apply step_decompose in H as (C & s1 & os1 & Hr & Hs).
    assert (K : same5 s1 s' /\ keeps_tasks s1 s').
    { destruct Hs as [(_ & -> & _)|(_ & Hs)]; [split; [apply same5_refl|intros k t E; auto]|].
      split; [eapply settle_same5; eauto|eapply settle_keeps; eauto]. }
    destruct K as ((A & _) & Kt).
    destruct (stop_raw _ _ _ _ I Hr Rn) as (k0 & s0 & sx & _ & H0 & P & H1); [congruence|].
    intros k t E. apply Kt.
    assert (T0 : tasks s0 = tasks s /\ used s0 = used s) by (destruct H0 as [->|(n & ->)]; auto).
    destruct T0 as (T0 & U0). rewrite <- T0 in E. rewrite <- U0.
    destruct H1 as [->|(_ & ->)]; cbn; apply (sr_tasks _ _ _ P); auto.
  - intros k t un E Hc Hi Eu Su.
    pose proof (iu_rec _ (reachf_inv_used _ _ Rf) Rn (no_crash _ _ R) k t E Hc Hi) as A.
    apply owner_in_spec. exists (t_id t). apply assoc_in. apply A. exists un. auto.
Qed.

(* in the words of the property: a call whose unit has not been answered sees its context cancelled;
   one that was still queued for a slot is answered with the cancellation error and never runs *)
Theorem calls_cancelled_inflight c s l s' os k t un : reach c s -> step s l = Some (s', os) ->
  running s = true -> running s' = false ->
  nth_error (tasks s) k = Some t -> t_hasctx t = true -> t_id t <> [] ->
  nth_error (units s) (t_unit t) = Some un -> u_st un <> UFinished ->
  exists t', nth_error (tasks s') k = Some t' /\ t_cancelled t' = true /\ t_id t' = t_id t /\
    (t_st t = TWaiting -> t_st t' = TDone (Some cancel_err)) /\ (t_st t <> TWaiting -> t_st t' = t_st t).
Proof.
  intros R H Rn Rn' E Hc Hi Eu Su.
  destruct (calls_cancelled _ _ _ _ _ R H Rn Rn') as (_ & A & B).
  specialize (A _ _ E). rewrite (B _ _ _ E Hc Hi Eu Su) in A.
  exists (cancel_fn t). split; auto. split; [apply cancel_fn_cancelled|].
  unfold cancel_fn. destruct (t_st t) eqn:St; cbn; repeat split; auto; try congruence; intros Z; congruence.
Qed.

(** * while the server is stopped only retained notifications are ever given a task *)
Definition retained_note (t : task) : Prop := is_note t = true /\ response_of t = None /\ t_cancelled t = false.

Lemma mk_task_retained s u ids m : keep_note m = true -> retained_note (mk_task s u ids m).
Proof.
  intros K. split; [|split; [apply mk_task_keep_silent; auto|apply mk_task_cancelled]].
  unfold is_note. rewrite mk_task_id. unfold keep_note, is_notification in K.
  apply andb_true_iff in K as [K _]. apply andb_true_iff in K as [_ K]. apply beq_eq in K. rewrite K. reflexivity.
Qed.

Lemma dequeue_new_retained s k t : invc s -> running s = false -> length (tasks s) <= k ->
  nth_error (tasks (dequeue s)) k = Some t -> retained_note t.
Proof.
  intros Ic Rn Lk E. unfold dequeue in E. pose proof (ic_q _ Ic Rn) as Q.
  destruct (inq s) as [|[b ms] q]; [rewrite Rn in E; cbn in E; apply nth_error_some_lt in E; lia|].
  cbn in E. rewrite nth_error_app2 in E by auto. apply nth_error_In, in_map_iff in E as (m & <- & Hm).
  inversion Q as [|x y (m0 & Em & Km) _]. subst. cbn in Em. subst ms. destruct Hm as [<-|[]].
  apply mk_task_retained; auto.
Qed.

Definition only_notes (a b : state) : Prop :=
  ext a b /\ (running a = false -> running b = false /\
     forall k t, length (tasks a) <= k -> nth_error (tasks b) k = Some t -> is_note t = true /\ response_of t = None).

Lemma only_notes_refl a : only_notes a a.
Proof. split; [apply ext_refl|]. intros Rn. split; auto. intros k t L E. apply nth_error_some_lt in E. lia. Qed.

Lemma only_notes_trans a b d : only_notes a b -> only_notes b d -> only_notes a d.
Proof.
  intros [Xa Ha] [Xb Hb]. split; [eapply ext_trans; eauto|]. intros Rn.
  destruct (Ha Rn) as (Rb & Na). destruct (Hb Rb) as (Rd & Nb). split; auto.
  intros k t L E. destruct (Nat.lt_ge_cases k (length (tasks b))) as [Lt|Ge].
  - destruct (nth_error (tasks b) k) as [tb|] eqn:Eb; [|apply nth_error_None in Eb; lia].
    destruct Xb as [Xt _]. destruct (Xt _ _ Eb) as (t2 & E2 & Le). rewrite E in E2. injection E2 as <-.
    destruct (Na _ _ L Eb) as (N1 & N2). split.
    + unfold is_note in *. rewrite (tl_id _ _ Le). auto.
    + apply (response_none_le _ _ Le). auto.
  - apply (Nb k); auto.
Qed.

Lemma only_notes_same_len a b : ext a b -> length (tasks b) = length (tasks a) -> (running a = false -> running b = false) ->
  only_notes a b.
Proof.
  intros X L Rn. split; auto. intros Ra. split; auto. intros k t Lk E. apply nth_error_some_lt in E. lia.
Qed.

Lemma only_notes_dequeue a : inv a -> invc a -> only_notes a (dequeue a).
Proof.
  intros I Ic. split; [apply dequeue_ok; auto|]. intros Rn.
  destruct (dequeue_nontask_like a) as ((A & _) & _). split; [congruence|].
  intros k t L E. destruct (dequeue_new_retained _ _ _ Ic Rn L E) as (N1 & N2 & _). auto.
Qed.

Lemma only_notes_raw c s l s' os : reachf c s -> step_raw s l = Some (s', os) -> l <> LStart -> only_notes s s'.
Proof.
  intros R H Nl. pose proof (reachf_inv _ _ R) as I.
  destruct (raw_step_ok _ _ _ _ I H) as [_ X].
  assert (Rn : running s = false -> running s' = false).
  { intros Rn. destruct (raw_three _ _ _ _ I H) as [(Z & _)|[(k & _ & Z & _)|(A & _)]]; congruence. }
  destruct (raw_shape_ok _ _ _ _ I H) as [_ L| -> |u un _ _ _ _ L].
  - apply only_notes_same_len; auto.
  - apply only_notes_dequeue; auto. apply (reachf_inv8 _ _ R).
  - apply only_notes_same_len; auto.
Qed.

Lemma only_notes_settle c s s' os : reachf c s -> settle1 s = Some (s', os) -> only_notes s s'.
Proof.
  intros R H. pose proof (reachf_inv _ _ R) as I. destruct (settle1_ok _ _ _ I H) as [_ X].
  pose proof (settle1_same5 _ _ _ H) as (A & _).
  apply settle1_inv in H. destruct H; try (apply only_notes_same_len; auto; congruence).
  apply only_notes_dequeue; auto. apply (reachf_inv8 _ _ R).
Qed.

Theorem stopped_only_notes c s l s' os : reach c s -> running s = false -> step s l = Some (s', os) -> l <> LStart ->
  running s' = false /\
  forall k t, length (tasks s) <= k -> nth_error (tasks s') k = Some t -> is_note t = true /\ response_of t = None.
Proof.
  intros R Rn H Nl. pose proof (reach_reachf _ _ R) as Rf.
  apply step_decompose in H as (C & s1 & os1 & Hr & Hs).
  pose proof (only_notes_raw _ _ _ _ _ Rf Hr Nl) as O1.
  assert (O2 : only_notes s1 s').
  { destruct Hs as [(_ & -> & _)|(_ & Hs)]; [apply only_notes_refl|].
    eapply (lift_settle c only_notes only_notes_refl only_notes_trans); [|eapply rf_raw; eauto|exact Hs].
    intros a b o Ra Hab. eapply only_notes_settle; eauto. }
  destruct (only_notes_trans _ _ _ O1 O2) as [_ K]. apply K; auto.
Qed.

Theorem stopped_only_notes_trace c : forall tr s s' oss, reach c s -> running s = false -> run s tr = Some (s', oss) ->
  ~ In LStart tr ->
  running s' = false /\
  forall k t, length (tasks s) <= k -> nth_error (tasks s') k = Some t -> is_note t = true /\ response_of t = None.
Proof.
  induction tr as [|l r IH]; cbn; intros s s' oss R Rn H Ns.
  - injection H as <- _. split; auto. intros k t L E. apply nth_error_some_lt in E. lia.
  - destruct (step s l) as [[s1 os]|] eqn:E1; [|discriminate].
    destruct (run s1 r) as [[s2 oss2]|] eqn:E2; [|discriminate]. injection H as <- _.
    assert (R1 : reach c s1) by (eapply reach_step; eauto).
    destruct (stopped_only_notes _ _ _ _ _ R Rn E1) as (Rn1 & N1); [intros ->; apply Ns; auto|].
    destruct (IH _ _ _ R1 Rn1 E2) as (Rn2 & N2); [intros Hi; apply Ns; auto|]. split; auto.
    intros k t L E. destruct (Nat.lt_ge_cases k (length (tasks s1))) as [Lt|Ge]; [|apply (N2 k); auto].
    destruct (nth_error (tasks s1) k) as [t1|] eqn:Ek; [|apply nth_error_None in Ek; lia].
    destruct (run_task_le _ _ _ _ _ _ _ (reach_reachf _ _ R1) E2 Ek) as (t2 & Ek2 & Le).
    rewrite E in Ek2. injection Ek2 as <-. destruct (N1 _ _ L Ek) as (M1 & M2). split.
    + unfold is_note in *. rewrite (tl_id _ _ Le). auto.
    + apply (response_none_le _ _ Le). auto.
Qed.

(** * C08.6 (queue form) what the stop does to the queue *)
Lemma stop_queue_app q1 q2 : stop_queue (q1 ++ q2) = stop_queue q1 ++ stop_queue q2.
Proof. unfold stop_queue. rewrite map_app, concat_app. reflexivity. Qed.

Lemma stop_queue_cons b ms q : stop_queue ((b, ms) :: q) = map (fun m => (b, [m])) (filter keep_note ms) ++ stop_queue q.
Proof. reflexivity. Qed.

(* a message is retained, as a unit of its own, exactly if it is a valid notification of some queued record *)
Lemma in_stop_queue q b m : In (b, [m]) (stop_queue q) <-> exists ms, In (b, ms) q /\ In m ms /\ keep_note m = true.
Proof.
  unfold stop_queue. split.
  - intros Hin. apply in_concat in Hin as (l & Hl & Hin). apply in_map_iff in Hl as ([b0 ms] & <- & Hq).
    apply in_map_iff in Hin as (m0 & E & Hm). cbn in E. injection E as <- <-.
    apply filter_In in Hm as [Hm K]. exists ms. auto.
  - intros (ms & Hq & Hm & K). apply in_concat. exists (map (fun m => (b, [m])) (filter keep_note ms)). split.
    + apply in_map_iff. exists (b, ms). auto.
    + apply in_map_iff. exists m. split; auto. apply filter_In. auto.
Qed.

(* order: the retained notifications are the queue's valid notifications, flattened in arrival order *)
Definition queue_notes (q : list (bool * list jmsg)) : list jmsg := concat (map (fun bm => filter keep_note (snd bm)) q).

Lemma stop_queue_order q : concat (map snd (stop_queue q)) = queue_notes q.
Proof.
  induction q as [|[b ms] q IH]; auto. rewrite stop_queue_cons, map_app, concat_app, IH.
  unfold queue_notes. cbn. f_equal. induction (filter keep_note ms) as [|m r IHr]; cbn; auto. f_equal; auto.
Qed.

Lemma mk_task_ext a a0 u ids m : used a0 = used a -> c_builtin a0 = c_builtin a -> c_methods a0 = c_methods a ->
  mk_task a0 u ids m = mk_task a u ids m.
Proof. intros U B M. unfold mk_task, pre_err, assign_method. rewrite U, B, M. reflexivity. Qed.

(* settling dequeues at most once, and only if the dispatcher was waiting for work *)
Definition qsame (a b : state) : Prop := inq b = inq a /\ dp b <> DWaitWork.
Definition qeq (a b : state) : Prop :=
  inq b = inq a /\ tasks b = tasks a /\ units b = units a /\ used b = used a /\ running b = running a /\
  c_builtin b = c_builtin a /\ c_methods b = c_methods a /\ dp b = dp a.

Lemma settle_no_dequeue : forall fuel a acc b os, dp a <> DWaitWork -> settle fuel a acc = (b, os) ->
  inq b = inq a /\ dp b <> DWaitWork /\ keeps_tasks a b.
Proof.
  induction fuel as [|f IH]; cbn; intros a acc b os D H.
  - injection H as <- _. repeat split; auto. intros k t E; auto.
  - destruct (settle1 a) as [[a1 os1]|] eqn:E; [|injection H as <- _; repeat split; auto; intros k t Ek; auto].
    pose proof (settle1_keeps _ _ _ E) as K1. apply settle1_inv in E.
    assert (X : inq a1 = inq a /\ dp a1 <> DWaitWork).
    { destruct E; cbn; auto; try (split; auto; discriminate). congruence. }
    destruct X as (Q1 & D1). destruct (IH _ _ _ _ D1 H) as (Q & Db & K). repeat split; auto; try congruence.
    intros k t Ek. auto.
Qed.

Lemma dequeue_inq_nil a : inq a = [] -> inq (dequeue a) = [].
Proof. intros Q. unfold dequeue. rewrite Q. destruct (running a); cbn; auto. Qed.

Lemma settle1_inq a a1 os : settle1 a = Some (a1, os) -> inq a1 = inq a \/ (dp a = DWaitWork /\ a1 = dequeue a).
Proof. intros H. apply settle1_inv in H. destruct H; cbn; auto. Qed.

Lemma settle_inq_nil : forall fuel a acc b os, inq a = [] -> settle fuel a acc = (b, os) -> inq b = [].
Proof.
  induction fuel as [|f IH]; cbn; intros a acc b os Q H.
  - injection H as <- _. auto.
  - destruct (settle1 a) as [[a1 os1]|] eqn:E; [|injection H as <- _; auto].
    eapply IH; [|exact H]. destruct (settle1_inq _ _ _ E) as [->|(_ & ->)]; auto. apply dequeue_inq_nil; auto.
Qed.

(* a waiting dispatcher with work takes it before anything else happens, except the reader's wake-up *)
Lemma settle1_prio a a1 os : dp a = DWaitWork -> inq a <> [] -> settle1 a = Some (a1, os) ->
  (exists f q, rd a = RIdle /\ ch_in a = f :: q /\ a1 = a <| rd := RHold f |> <| ch_in := q |>) \/ a1 = dequeue a.
Proof.
  intros D Q H. unfold settle1 in H. rewrite D in H.
  assert (C : negb (running a) || negb (is_nil_list (inq a)) = true).
  { destruct (inq a); [congruence|]. cbn. apply orb_true_r. }
  rewrite C in H.
  destruct (rd a) eqn:Rd; try (injection H as <- _; auto; fail).
  destruct (ch_in a) as [|f q] eqn:Ch; injection H as <- _; auto.
  left. exists f, q. auto.
Qed.

Lemma qeq_refl a : qeq a a.
Proof. repeat split. Qed.
Lemma qeq_trans a b d : qeq a b -> qeq b d -> qeq a d.
Proof. unfold qeq. intuition congruence. Qed.

Lemma settle_one_dequeue : forall fuel a acc b os, settle fuel a acc = (b, os) ->
  (inq b = inq a /\ keeps_tasks a b) \/
  (dp a = DWaitWork /\ exists a0, qeq a a0 /\ inq a0 <> [] /\ inq b = inq (dequeue a0) /\ keeps_tasks (dequeue a0) b).
Proof.
  induction fuel as [|f IH]; intros a acc b os H0; pose proof H0 as H; cbn in H.
  - injection H as <- _. left. split; auto. intros k t E; auto.
  - pose proof (settle_keeps _ _ _ _ _ H0) as Kab.
    destruct (settle1 a) as [[a1 os1]|] eqn:E; [|injection H as <- _; left; split; auto].
    assert (Nd : dp a <> DWaitWork -> inq b = inq a /\ keeps_tasks a b).
    { intros D. destruct (settle_no_dequeue _ _ _ _ _ D H0) as (Q & _ & K). auto. }
    destruct (dp a) eqn:D; try (left; apply Nd; discriminate).
    destruct (inq a) as [|bm q] eqn:Q.
    + (* waiting, nothing queued *)
      left. split; auto. eapply settle_inq_nil; [|exact H].
      destruct (settle1_inq _ _ _ E) as [->|(_ & ->)]; auto. apply dequeue_inq_nil; auto.
    + (* waiting with work *)
      destruct (settle1_prio a a1 os1 D) as [(f0 & q0 & Rd & Ch & ->)| ->]; [rewrite Q; discriminate|exact E| |].
      * destruct (IH _ _ _ _ H) as [(Qb & K)|(D1 & a0 & Qe & Ne & Qb & K)].
        -- left. split; auto. rewrite Qb. cbn. auto.
        -- right. split; auto. exists a0. repeat split; auto; try apply Qe.
      * assert (D1 : dp (dequeue a) <> DWaitWork) by (unfold dequeue; rewrite Q; destruct bm; cbn; discriminate).
        destruct (settle_no_dequeue _ _ _ _ _ D1 H) as (Qb & _ & K). right. split; auto.
        exists a. repeat split; auto. rewrite Q. discriminate.
Qed.

Lemma mk_task_method s u ids m : t_method (mk_task s u ids m) = j_method m /\ t_params (mk_task s u ids m) = j_params m.
Proof.
  unfold mk_task. destruct (pre_err s ids m); auto. destruct (is_nil (j_method m)); auto.
  destruct (assign_method s (j_method m)); auto.
Qed.

Theorem notifications_kept c s l s' os : reach c s -> step s l = Some (s', os) -> running s = true -> running s' = false ->
  kept_only (inq s') /\
  (inq s' = stop_queue (inq s) \/
   (dp s = DWaitWork /\ exists b m q, stop_queue (inq s) = (b, [m]) :: q /\ inq s' = q /\ keep_note m = true /\
      exists t, nth_error (tasks s') (length (tasks s)) = Some t /\ t_unit t = length (units s) /\
                t_method t = j_method m /\ t_params t = j_params m /\ retained_note t)).
Proof.
  intros R H Rn Rn'. pose proof (reach_reachf _ _ R) as Rf. pose proof (reachf_inv _ _ Rf) as I.
  split; [apply (ic_q _ (i8_c _ (reachf_inv8 _ _ (step_reachf _ _ _ _ _ Rf H)))); auto|].
  apply step_decompose in H as (C & s1 & os1 & Hr & Hs).
  assert (Rn1 : running s1 = false).
  { destruct Hs as [(_ & -> & _)|(_ & Hs)]; auto. destruct (settle_same5 _ _ _ _ _ Hs) as (A & _). congruence. }
  destruct (stop_raw _ _ _ _ I Hr Rn Rn1) as (k0 & s0 & sx & _ & H0 & P & H1).
  assert (F : inq s1 = stop_queue (inq s) /\ dp s1 = dp s /\ length (tasks s1) = length (tasks s) /\
              units s1 = units s).
  { assert (F0 : inq s0 = inq s /\ dp s0 = dp s /\ tasks s0 = tasks s /\ units s0 = units s)
      by (destruct H0 as [->|(n & ->)]; auto).
    destruct F0 as (F1 & F2 & F3 & F4). destruct P.
    destruct H1 as [->|(_ & ->)]; cbn; repeat split; congruence. }
  destruct F as (F1 & F2 & F3 & F4).
  destruct Hs as [(_ & -> & _)|(C1 & Hs)]; [left; auto|].
  destruct (settle_one_dequeue _ _ _ _ _ Hs) as [(Q & _)|(D & a0 & Qe & Ne & Qb & K)]; [left; congruence|].
  right. split; [congruence|].
  destruct Qe as (E1 & E2 & E3 & E4 & E5 & E6 & E7 & E8).
  pose proof (stop_queue_kept (inq s)) as Kq. rewrite <- F1, <- E1 in Kq.
  destruct (inq a0) as [|[b ms] q] eqn:Qa; [congruence|].
  inversion Kq as [|x y (m & Em & Km) _]. subst. cbn in Em. subst ms.
  exists b, m, q. split; [congruence|]. split.
  { rewrite Qb. unfold dequeue. rewrite Qa. reflexivity. }
  split; auto.
  exists (mk_task a0 (length (units a0)) (map (fun m0 => fix_id (j_id m0)) [m]) m).
  split; [|split; [rewrite mk_task_unit; congruence|]].
  - apply K. unfold dequeue. rewrite Qa. cbn. rewrite <- F3, <- E2. apply nth_error_app_new.
  - destruct (mk_task_method a0 (length (units a0)) (map (fun m0 => fix_id (j_id m0)) [m]) m) as (M1 & M2).
    repeat split; auto; apply mk_task_retained; auto.
Qed.

(** * C08.8 restart *)
Definition started (s : state) : state :=
  s <| running := true |> <| starts ::= S |> <| stop_err := None |> <| work_closed := false |>
    <| wg := 2 |> <| rd := RIdle |> <| dp := DAtNext |> <| ch_in := [] |>.

Lemma find_unit_none_all (p : nat -> unit_ -> bool) : forall l i,
  (forall k x, nth_error l k = Some x -> p (i + k) x = false) -> find_unit p i l = None.
Proof.
  induction l as [|y r IH]; intros i H; cbn; auto.
  pose proof (H 0 y eq_refl) as H0. rewrite Nat.add_0_r in H0. rewrite H0. apply IH.
  intros k x E. replace (S i + k) with (i + S k) by lia. apply H. auto.
Qed.

Record fresh_fields (c : config) (s' : state) : Prop := {
  ff_running : running s' = true;
  ff_err : stop_err s' = None;
  ff_wc : work_closed s' = false;
  ff_wg : wg s' = 2;
  ff_rd : rd s' = RIdle;
  ff_dp : dp s' = DAtNext;
  ff_chin : ch_in s' = [];
  ff_inq : inq s' = [];
  ff_used : used s' = [];
  ff_wait : sem_wait s' = [];
  ff_free : sem_free s' = cf_K c;
  ff_nbar : nbar s' = 0;
  ff_crash : crash s' = None;
  ff_cfg : c_K s' = cf_K c /\ c_push s' = cf_push c /\ c_builtin s' = cf_builtin c /\ c_methods s' = cf_methods c /\
           c_unblock s' = cf_unblock c;
  ff_units : forall u un, nth_error (units s') u = Some un -> u_st un = UFinished;
  ff_tasks : forall k t, nth_error (tasks s') k = Some t -> finished t = true;
  (* callbacks of the previous run that are still registered are dead: cancelled, their watcher about to complete them *)
  ff_calls : forall id i, In (id, i) (calls s') ->
      exists cb0, nth_error (cbs s') i = Some cb0 /\ cb_id cb0 = id /\ cb_cancelled cb0 = true /\ cb_watch cb0 = WParked /\
                  cb_slot cb0 = None
}.

Definition cfgp (s : state) := (c_K s, c_push s, c_builtin s, c_methods s, c_unblock s).

Lemma nontask_cfgp s s' : nontask s' = nontask s -> cfgp s' = cfgp s.
Proof.
  intros H. apply nontask_fields in H. destruct H as (H1 & H2 & H3 & H4 & H5 & _).
  unfold cfgp. rewrite H1, H2, H3, H4, H5. reflexivity.
Qed.

Lemma stop_locked_cfgp k s s' os : stop_locked k s = (s', os) -> cfgp s' = cfgp s.
Proof.
  intros H. destruct (running s) eqn:Rn.
  - apply stop_locked_run in H as [_ P]; auto. destruct (sr_cfg _ _ _ P) as (H1 & H2 & H3 & H4 & H5).
    unfold cfgp. rewrite H1, H2, H3, H4, H5. reflexivity.
  - apply stop_locked_spec in H as [(_ & -> & _)|(Rn' & _)]; [reflexivity|congruence].
Qed.

Lemma sbc_cfgp s s' : same_but_cb s s' -> cfgp s' = cfgp s.
Proof. unfold same_but_cb. intros ->. reflexivity. Qed.

Lemma raw_cfgp s l s' os : step_raw s l = Some (s', os) -> cfgp s' = cfgp s.
Proof.
  intros H. destruct l; unfold step_raw in H.
  - destruct (negb (running s) && (wg s =? 0)); [|discriminate]. injection H as <- <-. reflexivity.
  - injection H as <- <-. reflexivity.
  - injection H as <- <-. reflexivity.
  - destruct (find_idx _ 0 (tasks s)) as [k|]; [|discriminate].
    destruct (nth_error (tasks s) k) as [t|]; [|discriminate]. injection H as <- <-. reflexivity.
  - injection H as <- <-. reflexivity.
  - injection H as <- <-. reflexivity.
  - destruct (c_push s); injection H as <- <-; reflexivity.
  - injection H as <- <-. reflexivity.
  - destruct (find_idx _ 0 (cbs s)); injection H as <- <-; reflexivity.
  - (* LRelRead *)
    destruct (rd s) as [| |f|] eqn:Rd; try discriminate. injection H as H.
    assert (Msg : forall i, (if negb (running s) then (s <| rd := RExited |> <| wg ::= pred |>, [])
           else match i with
           | InBad => let '(s', os) := push_error s ParseError s_invalid_value in (s' <| rd := RIdle |>, os)
           | InMsgs _ [] => let '(s', os) := push_error s InvalidRequest s_empty_batch in (s' <| rd := RIdle |>, os)
           | InMsgs b ms =>
               let '(s1, keep, os) := filter_batch ms s [] [] in
               match keep with
               | [] => (s1 <| rd := RIdle |>, os)
               | _ => let s2 := s1 <| inq ::= fun q => q ++ [(b, keep)] |> <| rd := RIdle |> in
                      if work_closed s2 && (length (inq s2) =? 1)
                      then (s2 <| crash := Some CrSendOnClosedWork |>, os ++ [OCrash CrSendOnClosedWork])
                      else (s2, os)
               end
           end) = (s', os) -> cfgp s' = cfgp s).
    { intros i H'. destruct (negb (running s)); [injection H' as <- <-; reflexivity|].
      destruct i as [|b ms]; [cbn in H'; injection H' as <- <-; reflexivity|].
      destruct ms as [|m ms]; [cbn in H'; injection H' as <- <-; reflexivity|].
      pose proof (filter_batch_sbc (m :: ms) s [] []) as F.
      destruct (filter_batch (m :: ms) s [] []) as [[s1 keep] os1]. cbn [fst] in F. apply sbc_cfgp in F.
      destruct keep as [|k0 kr]; [injection H' as <- <-; exact F|]. cbv zeta in H'.
      match type of H' with (if ?c then _ else _) = _ => destruct c end; injection H' as <- <-; exact F. }
    destruct f as [i|i|k]; [apply (Msg i); exact H|apply (Msg i); exact H|].
    cbn in H. destruct (stop_locked k s) as [s0 os0] eqn:St. injection H as <- <-.
    apply stop_locked_cfgp in St. exact St.
  - destruct (dp s); try discriminate. injection H as <- <-.
    unfold dequeue. destruct (inq s) as [|[b ms] q]; [destruct (running s)|]; reflexivity.
  - destruct (dp s); try discriminate. injection H as <- <-. reflexivity.
  - destruct (nth_error (tasks s) k) as [t|]; [|discriminate].
    destruct (t_st t); try discriminate.
    destruct (negb (unit_running s t)); [discriminate|].
    destruct (t_cancelled t); [injection H as <- <-; reflexivity|].
    destruct (sem_free s); [injection H as <- <-; reflexivity|].
    destruct (sem_wait s); [|injection H as <- <-; reflexivity].
    destruct (t_builtin t); injection H as <- <-; reflexivity.
  - destruct (nth_error (tasks s) k) as [t|] eqn:E; [|discriminate].
    destruct (t_st t) eqn:St; try discriminate.
    set (s0 := set_task k (fun t => t <| t_st := TDone (body_of_outcome t o) |>) s <| sem_free ::= S |>) in *.
    pose proof (nontask_grant (S (length (sem_wait s0))) s0 []) as G.
    destruct (grant (S (length (sem_wait s0))) s0 []) as [s2 os2]. cbn [fst] in G.
    apply nontask_cfgp in G.
    destruct (is_note t); [destruct (nbar s2)|]; injection H as <- <-; exact G.
  - destruct (nth_error (units s) u) as [un|]; [|discriminate].
    destruct (u_st un); try discriminate.
    pose proof (nontask_cfgp _ _ (nontask_release (unit_tasks s u) s)) as G.
    destruct (u_chok un); cbn in H; injection H as <- <-; exact G.
  - destruct (find_op n (ops s)) as [[n0|n0 id|n0 w m p]|]; try discriminate.
    destruct (stop_locked SCStop (s <| ops ::= del_op n |>)) as [s0 os0] eqn:St. injection H as <- <-.
    apply stop_locked_cfgp in St. exact St.
  - destruct (find_op n (ops s)) as [[n0|n0 id|n0 w m p]|]; try discriminate.
    injection H as <- <-. destruct (assoc id _) as [owner|]; [|reflexivity].
    rewrite (nontask_cfgp _ _ (nontask_cancel owner (s <| ops ::= del_op n |>))). reflexivity.
  - destruct (find_op n (ops s)) as [[| |n0 wantid m p]|]; try discriminate.
    cbn in H. destruct (running s); cbn in H; [|injection H as <- <-; reflexivity].
    destruct wantid; [|injection H as <- <-; reflexivity].
    destruct (send_fail s); [injection H as <- <-; reflexivity|].
    destruct (find _ (ended s)) as [[? ?]|]; injection H as <- <-; reflexivity.
  - destruct (nth_error (cbs s) c) as [cb0|]; [|discriminate].
    destruct (cb_watch cb0); try discriminate.
    cbn in H.
    destruct (assoc (cb_id cb0) (calls s)) as [j|]; [|injection H as <- <-; reflexivity].
    destruct (cb_slot cb0); [injection H as <- <-; reflexivity|].
    destruct (j =? c); [|injection H as <- <-; reflexivity].
    destruct (match cb_ctx cb0 with Some WDeadline => _ | _ => _ end) as [code msg].
    injection H as H. unfold complete_cb in H. cbn in H.
    destruct (nth_error (upd_nth c _ (cbs s)) c); injection H as <- <-; reflexivity.
Qed.

Lemma cfg_const c s : reachf c s -> cfgp s = (cf_K c, cf_push c, cf_builtin c, cf_methods c, cf_unblock c).
Proof.
  induction 1 as [|s l s' os R IH Cr H|s s' os R IH H].
  - reflexivity.
  - rewrite (raw_cfgp _ _ _ _ H). exact IH.
  - rewrite <- IH. apply settle1_inv in H. destruct H; try reflexivity.
    unfold dequeue. destruct (inq s) as [|[b ms] q]; [destruct (running s)|]; reflexivity.
Qed.

Theorem restart_fresh c s : reach c s -> wg s = 0 -> running s = false ->
  step s LStart = Some (started s, []) /\ fresh_fields c (started s) /\
  tasks (started s) = tasks s /\ units (started s) = units s /\ cbs (started s) = cbs s /\
  call_id (started s) = call_id s /\ starts (started s) = S (starts s) /\ closes (started s) = closes s.
Proof.
  intros R Z Rn. pose proof (reach_reachf _ _ R) as Rf.
  pose proof (idle_all_done _ _ Rf Z) as A. pose proof (no_crash _ _ R) as Cr.
  assert (St : step s LStart = Some (started s, [])).
  { unfold step. rewrite Cr. unfold step_raw. rewrite Rn, Z. cbn [negb andb Nat.eqb]. fold (started s).
    change (crash (started s)) with (crash s). rewrite Cr.
    assert (S1 : settle1 (started s) = None).
    { unfold settle1. cbn.
      rewrite find_unit_none_all.
      - rewrite andb_false_r. reflexivity.
      - intros k x E. unfold unit_complete. cbn in E. rewrite (ad_units _ A _ _ E). reflexivity. }
    unfold settle_fuel. cbn [settle Nat.add]. rewrite S1. reflexivity. }
  split; auto. split; [|repeat split].
  pose proof (cfg_const _ _ Rf) as Cf. unfold cfgp in Cf. injection Cf as C1 C2 C3 C4 C5.
  destruct (SrvC06.inv_reachf _ _ Rf) as [[W0 _] _].
  constructor; cbn; auto; try apply A.
  - (* all slots are free *)
    pose proof (SrvC06.wf_sem _ _ _ _ W0) as Sm. rewrite C1 in Sm.
    rewrite (countb_false SrvC06.holds (tasks s)) in Sm; [lia|].
    intros t Ht. apply In_nth_error in Ht as (k & E). pose proof (ad_tasks _ A _ _ E) as F.
    unfold SrvC06.holds, finished in *. destruct (t_st t); auto; discriminate.
  - intros id i Hin. destruct (ip_reg _ (inv_push_reachf _ _ Rf) _ _ Hin) as (cb0 & E & Ei & Sl & _ & Wt & _ & Cn).
    specialize (Cn Rn). rewrite Cn in Wt. exists cb0. auto.
Qed.

(* at a window boundary a waiting dispatcher has an empty queue, so the stop window keeps exactly the
   valid notifications: nothing is consumed inside the window *)
Lemma waiting_with_work_settles s : dp s = DWaitWork -> inq s <> [] -> settle1 s <> None.
Proof.
  intros D Q. unfold settle1. rewrite D.
  assert (C : negb (running s) || negb (is_nil_list (inq s)) = true).
  { destruct (inq s); [congruence|]. cbn. apply orb_true_r. }
  rewrite C. destruct (rd s); try discriminate. destruct (ch_in s); discriminate.
Qed.

Theorem notifications_kept_exact c s l s' os : reach c s -> step s l = Some (s', os) ->
  running s = true -> running s' = false -> inq s' = stop_queue (inq s).
Proof.
  intros R H Rn Rn'. destruct (notifications_kept _ _ _ _ _ R H Rn Rn') as (_ & [E|(D & b & m & q & E & _)]); auto.
  exfalso. apply (waiting_with_work_settles s D).
  - intros Z. rewrite Z in E. discriminate.
  - apply (reach_settled c); auto. apply (no_crash c); auto.
Qed.

(* the same, as one equation: the restarted state IS the freshly started initial state, except for
   - the history: the (finished) tasks and units, the callback table and counter, the start/close counters;
   - what the environment has pending: API calls not yet run ([ops]), WaitStatus calls ([waits]), ended caller
     contexts ([ended]) and the state of the transport ([send_fail]) *)
Theorem restart_fresh_eq c s : reach c s -> wg s = 0 -> running s = false ->
  started s = started (init_of c)
                <| tasks := tasks s |> <| units := units s |>
                <| calls := calls s |> <| call_id := call_id s |> <| cbs := cbs s |>
                <| starts := S (starts s) |> <| closes := closes s |>
                <| ops := ops s |> <| waits := waits s |> <| ended := ended s |> <| send_fail := send_fail s |>.
Proof.
  intros R Z Rn. destruct (restart_fresh _ _ R Z Rn) as (_ & F & _).
  destruct F as [F1 F2 F3 F4 F5 F6 F7 F8 F9 F10 F11 F12 F13 (G1 & G2 & G3 & G4 & G5) _ _ _].
  unfold started in *. destruct s. cbn in *. subst. reflexivity.
Qed.
