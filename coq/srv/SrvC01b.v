(* C01, second part: the reply of a unit is the reply to an accepted inbound message (batch flag, request order);
   a finished unit was delivered iff it has something to say; the body of a call is the outcome of its one
   handler invocation. *)
From Coq Require Import List NArith ZArith Bool Arith Lia.
From RecordUpdate Require Import RecordUpdate.
From JV Require Import Bytes Msg SrvModel SrvLemmas SrvBasics SrvC07 SrvC01 SrvC08 SrvHist.
Import ListNotations.

(** * C01 with the history: array iff the inbound message was an array, replies in request order *)
Definition has_id (r : rsp) : bool := negb (beq (r_id r) null_bytes).
Definition call_ids (ms : list jmsg) : list bytes := filter (fun i => negb (is_nil i)) (map (fun m => fix_id (j_id m)) ms).

Lemma map_id_filter_note ts :
  map t_id (filter (fun t => negb (is_note t)) ts) = filter (fun i => negb (is_nil i)) (map t_id ts).
Proof. induction ts as [|t r IH]; cbn; auto. unfold is_note at 1. destruct (is_nil (t_id t)); cbn; congruence. Qed.

(* the message a deliver window sends is the reply to log entry number u: same array flag, and the replies that
   carry an id are those of the calls of that entry, in request order; the window comes after the handlers of
   every member have returned (c01_send_origin) *)
Theorem c01_send_answers_accepted c tr s oss u s' os ok b rs :
  run (init_of c) tr = Some (s, oss) -> step s (LRelDeliver u) = Some (s', os) -> In (OSend ok b rs) os ->
  exists ms, nth_error (alog (init_of c) tr []) u = Some (b, ms) /\
    rs = responses (unit_tasks s u) /\ map tmem (unit_tasks s u) = map jmem ms /\
    map r_id (filter has_id rs) = call_ids ms.
Proof.
  intros H Hs Ho.
  assert (R : reach c s) by (eapply run_reach; [apply reach_init|eauto]).
  destruct (c01_send_origin _ _ _ _ _ _ _ _ R Hs Ho) as [(u0 & un & El & Eu & Su & -> & -> & Fin)|(El & _)];
    [|discriminate El].
  injection El as <-.
  destruct (alog_unit c tr s oss u un H Eu) as (ms & Ea & Hm). exists ms. repeat split; auto.
  assert (Ids : map t_id (unit_tasks s u) = map (fun m => fix_id (j_id m)) ms).
  { transitivity (map (fun x : member => fst (fst x)) (map tmem (unit_tasks s u))).
    - rewrite map_map. reflexivity.
    - rewrite <- Hm, map_map. reflexivity. }
  unfold has_id. rewrite c01_responses_calls.
  - rewrite map_map. cbn. unfold call_ids. rewrite <- Ids. apply map_id_filter_note.
  - intros t It. apply (in_map t_id) in It. rewrite Ids in It. apply in_map_iff in It as (m & <- & _).
    apply fix_id_not_null.
Qed.

(* no stop so far: entry number u of the log is the u-th message the reader accepted *)
Theorem c01_send_answers_accepted_nostop c tr s oss u s' os ok b rs :
  run (init_of c) tr = Some (s, oss) -> stop_free (init_of c) tr = true ->
  step s (LRelDeliver u) = Some (s', os) -> In (OSend ok b rs) os ->
  exists ms, nth_error (accepted (init_of c) tr) u = Some (b, ms) /\
    rs = responses (unit_tasks s u) /\ map tmem (unit_tasks s u) = map jmem ms /\
    map r_id (filter has_id rs) = call_ids ms.
Proof.
  intros H Sf Hs Ho. destruct (c01_send_answers_accepted _ _ _ _ _ _ _ _ _ _ H Hs Ho) as (ms & Ea & Q).
  exists ms. split; auto. rewrite alog_stop_free in Ea by auto. exact Ea.
Qed.

(* a batch of two calls and a notification is answered with an array of the two replies, in request order *)
Definition ex_tr_batch : list label :=
  [LStart; LRelNext; LFeed (FMsg (InMsgs true [ex_call [49%N] [1%N]; ex_note [2%N]; ex_call [50%N] [3%N]])); LRelRead;
   LRelBarrier; LRelAcquire 1; LGate [2%N] (ORes []); LRelHandled 1; LRelAcquire 2; LGate [3%N] (ORes [51%N]); LRelHandled 2;
   LRelAcquire 0; LGate [1%N] (ORes [52%N]); LRelHandled 0].

Example c01_send_answers_accepted_nonvacuous :
  run (init_of ex_cfg) ex_tr_batch <> None /\ stop_free (init_of ex_cfg) ex_tr_batch = true /\
  map qmem (accepted (init_of ex_cfg) ex_tr_batch) = [(true, [([49%N], ex_m, [1%N]); ([], ex_m, [2%N]); ([50%N], ex_m, [3%N])])] /\
  option_map snd (step (st_of ex_cfg ex_tr_batch) (LRelDeliver 0)) =
    Some [OSend true true [{| r_id := [49%N]; r_body := BRes [52%N] |}; {| r_id := [50%N]; r_body := BRes [51%N] |}]].
Proof. vm_compute. repeat split; auto. discriminate. Qed.
