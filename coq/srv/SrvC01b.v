(* C01, second part: the reply of a unit is the reply to an accepted inbound message (batch flag, request order);
   a finished unit was delivered iff it has something to say; the body of a call is the outcome of its one
   handler invocation. *)
From Coq Require Import List NArith ZArith Bool Arith Lia.
From RecordUpdate Require Import RecordUpdate.
From JV Require Import Bytes Msg SrvModel SrvLemmas SrvBasics SrvC07 SrvC01 SrvC08 SrvHist.
From JV Require SrvC03 SrvNoCrash.
Import ListNotations.

(** * C01 with the history: array iff the inbound message was an array, replies in request order *)
Definition has_id (r : rsp) : bool := negb (beq (r_id r) null_bytes).
Definition call_ids (ms : list jmsg) : list bytes := filter (fun i => negb (is_nil i)) (map (fun m => fix_id (j_id m)) ms).

Lemma map_id_filter_note ts :
  map t_id (filter (fun t => negb (is_note t)) ts) = filter (fun i => negb (is_nil i)) (map t_id ts).
Proof. induction ts as [|t r IH]; cbn; auto. unfold is_note at 1. destruct (is_nil (t_id t)); cbn; congruence. Qed.

(* the message a deliver window sends is the reply to log entry number u: same array flag, and the replies that
   carry an id are those of the calls of that entry, in request order; the window comes after the handlers of
   every member have returned (c01_send_origin) *)
Theorem c01_send_answers_accepted c tr s oss u s' os ok b rs :
  run (init_of c) tr = Some (s, oss) -> step s (LRelDeliver u) = Some (s', os) -> In (OSend ok b rs) os ->
  exists ms, nth_error (alog (init_of c) tr []) u = Some (b, ms) /\
    rs = responses (unit_tasks s u) /\ map tmem (unit_tasks s u) = map jmem ms /\
    map r_id (filter has_id rs) = call_ids ms.
Proof.
  intros H Hs Ho.
  assert (R : reach c s) by (eapply run_reach; [apply reach_init|eauto]).
  destruct (c01_send_origin _ _ _ _ _ _ _ _ R Hs Ho) as [(u0 & un & El & Eu & Su & -> & -> & Fin)|(El & _)];
    [|discriminate El].
  injection El as <-.
  destruct (alog_unit c tr s oss u un H Eu) as (ms & Ea & Hm). exists ms. repeat split; auto.
  assert (Ids : map t_id (unit_tasks s u) = map (fun m => fix_id (j_id m)) ms).
  { transitivity (map (fun x : member => fst (fst x)) (map tmem (unit_tasks s u))).
    - rewrite map_map. reflexivity.
    - rewrite <- Hm, map_map. reflexivity. }
  unfold has_id. rewrite c01_responses_calls.
  - rewrite map_map. cbn. unfold call_ids. rewrite <- Ids. apply map_id_filter_note.
  - intros t It. apply (in_map t_id) in It. rewrite Ids in It. apply in_map_iff in It as (m & <- & _).
    apply fix_id_not_null.
Qed.

(* no stop so far: entry number u of the log is the u-th message the reader accepted *)
Theorem c01_send_answers_accepted_nostop c tr s oss u s' os ok b rs :
  run (init_of c) tr = Some (s, oss) -> stop_free (init_of c) tr = true ->
  step s (LRelDeliver u) = Some (s', os) -> In (OSend ok b rs) os ->
  exists ms, nth_error (accepted (init_of c) tr) u = Some (b, ms) /\
    rs = responses (unit_tasks s u) /\ map tmem (unit_tasks s u) = map jmem ms /\
    map r_id (filter has_id rs) = call_ids ms.
Proof.
  intros H Sf Hs Ho. destruct (c01_send_answers_accepted _ _ _ _ _ _ _ _ _ _ H Hs Ho) as (ms & Ea & Q).
  exists ms. split; auto. rewrite alog_stop_free in Ea by auto. exact Ea.
Qed.

(* a batch of two calls and a notification is answered with an array of the two replies, in request order *)
Definition ex_tr_batch : list label :=
  [LStart; LRelNext; LFeed (FMsg (InMsgs true [ex_call [49%N] [1%N]; ex_note [2%N]; ex_call [50%N] [3%N]])); LRelRead;
   LRelBarrier; LRelAcquire 1; LGate [2%N] (ORes []); LRelHandled 1; LRelAcquire 2; LGate [3%N] (ORes [51%N]); LRelHandled 2;
   LRelAcquire 0; LGate [1%N] (ORes [52%N]); LRelHandled 0].

Example c01_send_answers_accepted_nonvacuous :
  run (init_of ex_cfg) ex_tr_batch <> None /\ stop_free (init_of ex_cfg) ex_tr_batch = true /\
  map qmem (accepted (init_of ex_cfg) ex_tr_batch) = [(true, [([49%N], ex_m, [1%N]); ([], ex_m, [2%N]); ([50%N], ex_m, [3%N])])] /\
  option_map snd (step (st_of ex_cfg ex_tr_batch) (LRelDeliver 0)) =
    Some [OSend true true [{| r_id := [49%N]; r_body := BRes [52%N] |}; {| r_id := [50%N]; r_body := BRes [51%N] |}]].
Proof. vm_compute. repeat split; auto. discriminate. Qed.

(** * C01: a finished unit was delivered iff it has something to say *)
(* how a unit becomes finished: by its deliver step, or silently *)
Definition rfin (u : nat) (s s' : state) : Prop :=
  ext2 s s' /\ (ufin s u = false -> ufin s' u = true -> responses (unit_tasks s' u) = []).

Lemma ufin_lt s u : ufin s u = true -> u < length (units s).
Proof. unfold ufin. destruct (nth_error (units s) u) eqn:E; [|discriminate]. intros _. eapply nth_error_some_lt; eauto. Qed.

Lemma rfin_refl u s : rfin u s s.
Proof. split; [apply ext2_refl|]. congruence. Qed.

Lemma rfin_trans u a b d : rfin u a b -> rfin u b d -> rfin u a d.
Proof.
  intros [X1 F1] [X2 F2]. split; [eapply ext2_trans; eauto|]. intros Fa Fd.
  destruct (ufin b u) eqn:Fb; [|auto].
  apply (silent_stable b d u X2); [apply ufin_lt; auto|]. auto.
Qed.

Lemma ufin_dequeue s u : ufin (dequeue s) u = true -> ufin s u = true.
Proof.
  unfold dequeue. destruct (inq s) as [|[b ms] q]; [destruct (running s); auto|].
  unfold ufin. cbn. destruct (Nat.lt_ge_cases u (length (units s))) as [Lt|Ge].
  - rewrite nth_error_app1 by auto. auto.
  - rewrite nth_error_app2 by auto. destruct (u - length (units s)) as [|[|n]]; cbn; discriminate.
Qed.

Lemma rfin_raw c u s l s1 os : reachf c s -> crash s = None -> step_raw s l = Some (s1, os) -> l <> LRelDeliver u ->
  rfin u s s1.
Proof.
  intros R Cr H Nl. split; [eapply raw_ext2; eauto|]. intros F0 F1. exfalso.
  pose proof (reachf_inv _ _ R) as I.
  destruct (raw_shape_ok _ _ _ _ I H) as [U L| -> |v un El Ev Sv U L].
  - unfold ufin in *. rewrite U in F1. congruence.
  - apply ufin_dequeue in F1. congruence.
  - unfold ufin in *. rewrite U, nth_error_upd_nth_neq in F1; [congruence|]. intros <-. auto.
Qed.

Lemma rfin_settle1 c u s s' os : reachf c s -> settle1 s = Some (s', os) -> rfin u s s'.
Proof.
  intros R H. split; [eapply settle1_ext2; eauto|]. intros F0 F1.
  apply settle1_inv in H. destruct H; try (exfalso; unfold ufin in *; cbn in F1; congruence).
  - exfalso. apply ufin_dequeue in F1. congruence.
  - exfalso. unfold ufin in *. cbn in F1. rewrite nth_error_upd_nth in F1.
    destruct (Nat.eqb_spec u0 u) as [->|N]; [|congruence]. rewrite H1 in F1. cbn in F1. discriminate.
  - destruct (Nat.eq_dec i u) as [->|N]; [exact H1|].
    exfalso. unfold ufin in *. cbn in F1. rewrite nth_error_upd_nth_neq in F1 by auto. congruence.
  - exfalso. unfold ufin in *. cbn in F1. rewrite nth_error_upd_nth in F1.
    destruct (Nat.eqb_spec i u) as [->|N]; [|congruence]. rewrite H0 in F1. cbn in F1. discriminate.
Qed.

Lemma finish_cause c s l s' os u : reachf c s -> step s l = Some (s', os) -> ufin s u = false -> ufin s' u = true ->
  l = LRelDeliver u \/ responses (unit_tasks s' u) = [].
Proof.
  intros R H F0 F1.
  assert (D : {l = LRelDeliver u} + {l <> LRelDeliver u}).
  { destruct l; try (right; discriminate). destruct (Nat.eq_dec u0 u) as [->|N]; [left; auto|right; congruence]. }
  destruct D as [->|Nl]; [left; auto|right].
  apply step_decompose in H as (Cr & s1 & os1 & Hr & Hs).
  pose proof (rfin_raw c u _ _ _ _ R Cr Hr Nl) as R1.
  destruct Hs as [(_ & -> & _)|(_ & Hs)]; [apply R1; auto|].
  assert (R2 : rfin u s1 s').
  { apply (lift_settle c (rfin u) (rfin_refl u) (rfin_trans u) (rfin_settle1 c u) _ _ _ _ _ (rf_raw _ _ _ _ _ R Cr Hr) Hs). }
  apply (rfin_trans u _ _ _ R1 R2); auto.
Qed.

Lemma delivered_once_from c u : forall tr s s' oss, reachf c s -> ufin s u = false -> run s tr = Some (s', oss) ->
  ufin s' u = true -> responses (unit_tasks s' u) <> [] -> countb (is_deliver u) tr = 1.
Proof.
  induction tr as [|l r IH]; intros s s' oss R F0 H F1 Ns.
  - cbn in H. injection H as <- _. congruence.
  - cbn in H. destruct (step s l) as [[s1 os]|] eqn:St; [|discriminate].
    destruct (run s1 r) as [[s2 oss2]|] eqn:Rn; [|discriminate]. injection H as <- _.
    assert (R1 : reachf c s1) by (eapply step_reachf; eauto).
    cbn [countb]. destruct (ufin s1 u) eqn:F.
    + destruct (finish_cause _ _ _ _ _ _ R St F0 F) as [->|Z].
      * pose proof (deliver_once_from c u r _ _ _ R1 Rn) as B. rewrite F in B. cbn. rewrite Nat.eqb_refl. lia.
      * exfalso. apply Ns. apply (silent_stable s1 s2 u); [eapply run_ext2; eauto|apply ufin_lt; auto|auto].
    + rewrite (IH _ _ _ R1 F Rn F1 Ns). destruct (is_deliver u l) eqn:D; auto. exfalso.
      destruct l; try discriminate D. cbn in D. apply Nat.eqb_eq in D. subst u0.
      destruct (deliver_finishes _ _ _ _ _ R St) as [Cr|F']; [|congruence].
      pose proof (run_crashed _ _ _ _ Cr Rn) as Er. subst r. cbn in Rn. injection Rn as <- _. congruence.
Qed.

Lemma ufin_init c u : ufin (init_of c) u = false.
Proof. unfold ufin. cbn. destruct u; reflexivity. Qed.

(* the deliver window of a unit in a reachable state: it sends the unit's reply and finishes the unit *)
Lemma deliver_window_nc c s u s' os : reach c s -> step s (LRelDeliver u) = Some (s', os) ->
  exists un ok extra, nth_error (units s) u = Some un /\ u_st un = UAtDeliver /\ all_finished s u = true /\
    os = OSend ok (u_batch un) (responses (unit_tasks s u)) :: extra /\ Forall settle_obs extra /\ ufin s' u = true.
Proof.
  intros R H. pose proof (no_crash_step _ _ _ _ _ R H) as Nc.
  destruct (c01_deliver_window _ _ _ _ _ R H) as (un & Eu & Su & Fin & [(Ck & ok & extra & -> & Fa)|(Ck & ->)]).
  - exists un, ok, extra. repeat split; auto.
    destruct (deliver_finishes _ _ _ _ _ (reach_reachf _ _ R) H) as [Cr|F]; [congruence|auto].
  - exfalso. apply step_decompose in H as (Cr & s1 & os1 & Hr & Hs). unfold step_raw in Hr.
    rewrite Eu, Su, Ck in Hr. cbn in Hr. injection Hr as <- <-.
    destruct Hs as [(_ & -> & _)|(Cr1 & _)]; cbn in *; congruence.
Qed.

(** ** responses of a finished unit never change *)
Lemma list_ext_split {A} (R : A -> A -> Prop) : forall l l', list_ext R l l' ->
  exists l1 l2, l' = l1 ++ l2 /\ Forall2 R l l1.
Proof.
  induction l as [|x l IH]; intros l' X.
  - exists [], l'. split; auto.
  - destruct (X 0 x eq_refl) as (y & E & Rxy). destruct l' as [|y' l'']; [discriminate|]. cbn in E. injection E as ->.
    destruct (IH l'') as (l1 & l2 & -> & F). { intros k a Ek. apply (X (S k) a Ek). }
    exists (y :: l1), l2. split; auto.
Qed.

Lemma forall2_length {A B} (R : A -> B -> Prop) l l' : Forall2 R l l' -> length l = length l'.
Proof. induction 1; cbn; auto. Qed.

Lemma response_of_finished_le t t' : task_le t t' -> finished t = true -> response_of t' = response_of t.
Proof.
  intros [_ Li _ _ Lp _ _ _ (_ & Sk & Dn & _)] F.
  assert (St : t_st t' = t_st t).
  { unfold finished in F. destruct (t_st t) eqn:E; try discriminate.
    - exact (proj1 Sk eq_refl).
    - exact (Dn _ eq_refl). }
  unfold response_of, is_note, task_body. rewrite Li, Lp, St. reflexivity.
Qed.

Lemma responses_filter_le u : forall ts l1, Forall2 task_le ts l1 ->
  forallb finished (filter (fun t => t_unit t =? u) ts) = true ->
  responses (filter (fun t => t_unit t =? u) l1) = responses (filter (fun t => t_unit t =? u) ts).
Proof.
  induction 1 as [|t t' ts l1 Le _ IH]; cbn; auto. intros F.
  rewrite (tl_unit _ _ Le). destruct (t_unit t =? u); [|auto].
  cbn in F. apply andb_true_iff in F as [Ft Fr]. cbn.
  rewrite (response_of_finished_le _ _ Le Ft), (IH Fr). reflexivity.
Qed.

Lemma responses_stable s s' u : ext2 s s' -> u < length (units s) -> all_finished s u = true ->
  responses (unit_tasks s' u) = responses (unit_tasks s u).
Proof.
  intros [[X _] Fr] Lu Fin. unfold unit_tasks.
  destruct (list_ext_split _ _ _ X) as (l1 & l2 & E & F2). rewrite E, filter_app.
  rewrite (filter_none _ l2), app_nil_r.
  - apply responses_filter_le; auto.
  - intros t It. apply In_nth_error in It as [j Ej].
    assert (Ek : nth_error (tasks s') (length (tasks s) + j) = Some t).
    { rewrite E, nth_error_app2; rewrite <- (forall2_length _ _ _ F2); [|lia]. rewrite <- Ej. f_equal. lia. }
    assert (Ge : length (tasks s) <= length (tasks s) + j) by lia.
    pose proof (Fr _ _ Ge Ek). apply Nat.eqb_neq. lia.
Qed.

(** ** the output history *)
Definition send_of (u : nat) (o : obs) : list (nat * bool * list rsp) :=
  match o with OSend _ b rs => [(u, b, rs)] | _ => [] end.

(* the messages sent by deliver windows, in trace order, each with the unit it belongs to *)
Fixpoint unit_sends (tr : list label) (oss : list (list obs)) : list (nat * bool * list rsp) :=
  match tr, oss with
  | l :: r, os :: oss' =>
      (match l with LRelDeliver u => flat_map (send_of u) os | _ => [] end) ++ unit_sends r oss'
  | _, _ => []
  end.

Fixpoint delivered (tr : list label) : list nat :=
  match tr with
  | [] => []
  | LRelDeliver u :: r => u :: delivered r
  | _ :: r => delivered r
  end.

Definition ubatch (s : state) (u : nat) : bool :=
  match nth_error (units s) u with Some un => u_batch un | None => false end.

Lemma flat_send_settle u extra : Forall settle_obs extra -> flat_map (send_of u) extra = [].
Proof. induction 1 as [|o r Ho _ IH]; cbn; auto. destruct o; cbn in *; auto; tauto. Qed.

Lemma unit_sends_from c : forall tr s s' oss, reach c s -> run s tr = Some (s', oss) ->
  unit_sends tr oss = map (fun u => (u, ubatch s' u, responses (unit_tasks s' u))) (delivered tr).
Proof.
  induction tr as [|l r IH]; intros s s' oss R H.
  - cbn in H. injection H as <- <-. reflexivity.
  - cbn in H. destruct (step s l) as [[s1 os]|] eqn:St; [|discriminate].
    destruct (run s1 r) as [[s2 oss2]|] eqn:Rn; [|discriminate]. injection H as <- <-.
    assert (R1 : reach c s1) by (eapply reach_step; eauto).
    cbn [unit_sends]. rewrite (IH _ _ _ R1 Rn).
    destruct l; cbn [delivered app]; auto.
    assert (Hr : run s (LRelDeliver u :: r) = Some (s2, os :: oss2)) by (cbn; rewrite St, Rn; reflexivity).
    destruct (deliver_window_nc _ _ _ _ _ R St) as (un & ok & extra & Eu & Su & Fin & -> & Fa & F1).
    cbn [flat_map send_of]. rewrite (flat_send_settle u extra Fa). cbn [app map]. f_equal.
    pose proof (reach_reachf _ _ R) as Rf.
    destruct (run_unit_le _ _ _ _ _ _ _ Rf Hr Eu) as (un' & Eu' & Le).
    unfold ubatch. rewrite Eu', (ul_batch _ _ Le).
    rewrite (responses_stable s s2 u); auto.
    + eapply run_ext2; eauto.
    + eapply nth_error_some_lt; eauto.
Qed.

Lemma delivered_count u : forall tr, In u (delivered tr) <-> 0 < countb (is_deliver u) tr.
Proof.
  induction tr as [|l r IH]; cbn; [split; [tauto|lia]|].
  destruct l; cbn; rewrite ?IH; try tauto.
  destruct (Nat.eqb_spec u0 u) as [->|N]; split; intros H; try lia; auto.
  all: destruct H as [H|H]; [congruence|lia].
Qed.

Lemma delivered_nodup : forall tr, (forall u, countb (is_deliver u) tr <= 1) -> NoDup (delivered tr).
Proof.
  induction tr as [|l r IH]; intros B; [constructor|].
  assert (Br : forall u, countb (is_deliver u) r <= 1).
  { intros u. specialize (B u). cbn in B. destruct (is_deliver u l); lia. }
  destruct l; cbn; auto. constructor; auto.
  intros I. apply delivered_count in I. specialize (B u). cbn in B. rewrite Nat.eqb_refl in B. lia.
Qed.

Lemma delivered_nonsilent c u : forall tr s s' oss, reach c s -> run s tr = Some (s', oss) -> In u (delivered tr) ->
  ufin s' u = true /\ responses (unit_tasks s' u) <> [].
Proof.
  induction tr as [|l r IH]; intros s s' oss R H I; [destruct I|].
  cbn in H. destruct (step s l) as [[s1 os]|] eqn:St; [|discriminate].
  destruct (run s1 r) as [[s2 oss2]|] eqn:Rn; [|discriminate]. injection H as <- _.
  assert (R1 : reach c s1) by (eapply reach_step; eauto).
  assert (Rest : In u (delivered r) -> ufin s2 u = true /\ responses (unit_tasks s2 u) <> []) by (eapply IH; eauto).
  destruct l; cbn in I; auto. destruct I as [->|I]; auto.
  destruct (deliver_window_nc _ _ _ _ _ R St) as (un & ok & extra & Eu & Su & Fin & _ & _ & F1).
  pose proof (reach_reachf _ _ R) as Rf. pose proof (reach_reachf _ _ R1) as Rf1. split.
  - eapply ufin_mono; [|exact F1]. apply (run_ext _ _ _ _ _ Rf1 Rn).
  - intros Z. apply (reachf_inv_deliv c s Rf u un Eu Su).
    assert (Hr : run s (LRelDeliver u :: r) = Some (s2, os :: oss2)) by (cbn; rewrite St, Rn; reflexivity).
    apply (silent_stable s s2 u); auto; [eapply run_ext2; eauto|eapply nth_error_some_lt; eauto].
Qed.

(* C01: a finished unit with something to say was delivered exactly once; a finished unit with nothing to say never *)
Theorem c01_delivered_iff_nonsilent c tr s oss u : run (init_of c) tr = Some (s, oss) -> ufin s u = true ->
  (responses (unit_tasks s u) <> [] -> countb (is_deliver u) tr = 1) /\
  (responses (unit_tasks s u) = [] -> countb (is_deliver u) tr = 0).
Proof.
  intros H F. split.
  - intros Ns. eapply (delivered_once_from c u tr (init_of c)); eauto; [constructor|apply ufin_init].
  - intros Z. destruct (countb (is_deliver u) tr) eqn:C; auto. exfalso.
    assert (I : In u (delivered tr)) by (apply delivered_count; lia).
    destruct (delivered_nonsilent c u tr _ _ _ (reach_init c) H I) as [_ Ns]. auto.
Qed.

(* C01: the messages sent by deliver windows are exactly the replies of the finished units that have something to
   say: one message per such unit, with the unit's batch flag and the responses of its tasks (as they are at the end
   of the trace: they never change once the unit is complete), in the order of the deliver windows *)
Theorem c01_output_history c tr s oss : run (init_of c) tr = Some (s, oss) ->
  unit_sends tr oss = map (fun u => (u, ubatch s u, responses (unit_tasks s u))) (delivered tr) /\
  NoDup (delivered tr) /\
  (forall u, In u (delivered tr) <-> ufin s u = true /\ responses (unit_tasks s u) <> []).
Proof.
  intros H. split; [|split].
  - eapply unit_sends_from; eauto. apply reach_init.
  - apply delivered_nodup. intros u. eapply c01_deliver_once; eauto.
  - intros u. split.
    + eapply delivered_nonsilent; eauto. apply reach_init.
    + intros [F Ns]. apply delivered_count.
      destruct (c01_delivered_iff_nonsilent c tr s oss u H F) as [A _]. rewrite (A Ns). lia.
Qed.

Example c01_output_history_nonvacuous :
  let tr := ex_tr_batch ++ [LRelDeliver 0] in
  run (init_of ex_cfg) tr <> None /\ delivered tr = [0] /\ ufin (st_of ex_cfg tr) 0 = true /\
  unit_sends tr (obs_of ex_cfg tr) =
    [(0, true, [{| r_id := [49%N]; r_body := BRes [52%N] |}; {| r_id := [50%N]; r_body := BRes [51%N] |}])].
Proof. vm_compute. repeat split; auto. discriminate. Qed.

(* a silent unit (one notification) finishes without any deliver window *)
Example c01_silent_finished_nonvacuous :
  let tr := ex_tr_note ++ [LRelHandled 0] in
  run (init_of ex_cfg) tr <> None /\ ufin (st_of ex_cfg tr) 0 = true /\ responses (unit_tasks (st_of ex_cfg tr) 0) = [] /\
  delivered tr = [] /\ unit_sends tr (obs_of ex_cfg tr) = [].
Proof. vm_compute. repeat split; auto. discriminate. Qed.

(* the reply of a complete unit never changes, on any trace *)
Theorem c01_reply_stable_run c s tr s' oss u un : reach c s -> run s tr = Some (s', oss) ->
  nth_error (units s) u = Some un -> all_finished s u = true ->
  responses (unit_tasks s' u) = responses (unit_tasks s u).
Proof.
  intros R H Eu Fin. apply responses_stable; auto.
  - apply (run_ext2 c tr s s' oss); auto. apply reach_reachf; auto.
  - eapply nth_error_some_lt; eauto.
Qed.

(** * C01: the body of a call is the outcome of its one handler invocation *)
(* the task an LGate label gives its outcome to: the first running task with these params *)
Definition gate_idx (s : state) (p : bytes) : option nat :=
  find_idx (fun t => beq (t_params t) p && match t_st t with TRunning => true | _ => false end) 0 (tasks s).

Definition gate_of (k : nat) (s : state) (l : label) : list outcome :=
  match l with
  | LGate p o => match gate_idx s p with Some j => if j =? k then [o] else [] | None => [] end
  | _ => []
  end.

(* ghost: the outcomes the gates of the run gave to task k, in trace order *)
Fixpoint gate_log (k : nat) (s : state) (tr : list label) : list outcome :=
  match tr with
  | [] => []
  | l :: r => match step s l with
              | Some (s1, _) => gate_of k s l ++ gate_log k s1 r
              | None => []
              end
  end.

(* the life of a task so far: ec = how often its handler was entered, gl = the outcomes it was given *)
Definition lifet (t : task) (ec : nat) (gl : list outcome) : Prop :=
  match t_st t with
  | TSkip | TAtAcquire | TWaiting => ec = 0 /\ gl = []
  | TRunning => ec = 1 /\ gl = [] /\ t_builtin t = false
  | TAtHandled o => if t_builtin t then ec = 0 /\ gl = [] /\ o = ORes [] else ec = 1 /\ gl = [o]
  | TDone bo =>
      (ec = 0 /\ gl = [] /\ (bo = Some cancel_err \/ (t_builtin t = true /\ bo = body_of_outcome t (ORes [])))) \/
      (ec = 1 /\ t_builtin t = false /\ exists o, gl = [o] /\ bo = body_of_outcome t o)
  end.

Definition life (k : nat) (s : state) (ec : nat) (gl : list outcome) : Prop :=
  match nth_error (tasks s) k with
  | None => ec = 0 /\ gl = []
  | Some t => lifet t ec gl
  end.

Definition fresh_st (t : task) : Prop := t_st t = TSkip \/ t_st t = TAtAcquire.

(* tasks are never removed or changed by settling, and new ones are fresh *)
Definition grows (s s' : state) : Prop :=
  keeps_tasks s s' /\ forall k t, nth_error (tasks s) k = None -> nth_error (tasks s') k = Some t -> fresh_st t.

Lemma grows_refl s : grows s s.
Proof. split; [intros k t E; auto|]. intros k t E1 E2. congruence. Qed.

Lemma grows_trans a b d : grows a b -> grows b d -> grows a d.
Proof.
  intros [K1 F1] [K2 F2]. split; [intros k t E; auto|].
  intros k t Ea Ed. destruct (nth_error (tasks b) k) as [tb|] eqn:Eb.
  - rewrite (K2 _ _ Eb) in Ed. injection Ed as <-. eauto.
  - eauto.
Qed.

Lemma dequeue_grows s : grows s (dequeue s).
Proof.
  unfold dequeue. destruct (inq s) as [|[b ms] q].
  { destruct (running s); (split; [intros k t E; exact E|intros k t E1 E2; cbn in E2; congruence]). }
  split; cbn.
  - intros k t E. apply nth_error_app_old; auto.
  - intros k t E1 E2. apply nth_error_None in E1. rewrite nth_error_app2 in E2 by auto.
    apply nth_error_In, in_map_iff in E2 as (m & <- & _).
    destruct (mk_task_st s (length (units s)) (map (fun m0 => fix_id (j_id m0)) ms) m) as [[S _]|[S _]];
      [left|right]; exact S.
Qed.

Lemma settle1_grows s s' os : settle1 s = Some (s', os) -> grows s s'.
Proof.
  intros H. apply settle1_inv in H. destruct H; try apply grows_refl; try apply dequeue_grows.
  all: split; [intros k t E; exact E|intros k t E1 E2; cbn in E2; congruence].
Qed.

Lemma settle_grows : forall fuel s acc s' os, settle fuel s acc = (s', os) -> grows s s'.
Proof.
  induction fuel as [|f IH]; cbn; intros s acc s' os H.
  - injection H as <- _. apply grows_refl.
  - destruct (settle1 s) as [[s1 os1]|] eqn:E.
    + eapply grows_trans; [eapply settle1_grows; eauto|eapply IH; eauto].
    + injection H as <- _. apply grows_refl.
Qed.

(* the gate window, with the index it chose *)
Lemma gate_window_idx s p o s' os : step s (LGate p o) = Some (s', os) ->
  exists k t, gate_idx s p = Some k /\ nth_error (tasks s) k = Some t /\ t_st t = TRunning /\
    nth_error (tasks s') k = Some (t <| t_st := TAtHandled o |>) /\
    (forall j tj, j <> k -> nth_error (tasks s) j = Some tj -> nth_error (tasks s') j = Some tj) /\
    (forall j, nth_error (tasks s) j = None -> forall tj, nth_error (tasks s') j = Some tj -> fresh_st tj).
Proof.
  intros H. apply step_decompose in H as (_ & s1 & os1 & Hr & Hs).
  assert (G : grows s1 s').
  { destruct Hs as [(_ & -> & _)|(_ & Hs)]; [apply grows_refl|eapply settle_grows; eauto]. }
  destruct G as [K Fr].
  unfold step_raw in Hr. fold (gate_idx s p) in Hr.
  destruct (gate_idx s p) as [k|] eqn:F; [|discriminate].
  destruct (nth_error (tasks s) k) as [t|] eqn:E; [|discriminate]. injection Hr as <- <-.
  unfold gate_idx in F. apply find_idx_some in F as (x & Ex & Px & _). rewrite Nat.sub_0_r, E in Ex. injection Ex as <-.
  apply andb_true_iff in Px as [_ Ps].
  exists k, t. split; auto. split; auto. split; [destruct (t_st t); try discriminate; auto|]. split; [|split].
  - apply K. cbn. apply nth_error_upd_nth_eq; auto.
  - intros j tj N Ej. apply K. cbn. rewrite nth_error_upd_nth_neq; auto.
  - intros j Ej tj Ej'. apply (Fr j); auto. cbn. rewrite nth_error_upd_nth.
    destruct (k =? j); rewrite Ej; reflexivity.
Qed.

(* what the acquire window makes of its task *)
Lemma acquire_st s k s1 os t t1 : step_raw s (LRelAcquire k) = Some (s1, os) ->
  nth_error (tasks s) k = Some t -> nth_error (tasks s1) k = Some t1 ->
  (t_st t1 = TRunning -> t_builtin t = false) /\ (forall o, t_st t1 = TAtHandled o -> t_builtin t = true /\ o = ORes []).
Proof.
  intros H E E1. unfold step_raw in H. rewrite E in H.
  destruct (t_st t) eqn:St; try discriminate.
  destruct (negb (unit_running s t)); [discriminate|].
  assert (Q : forall x s2, s1 = s2 -> tasks s2 = upd_nth k (fun t => t <| t_st := x |>) (tasks s) -> t_st t1 = x).
  { intros x s2 -> T. rewrite T in E1. rewrite (nth_error_upd_nth_eq _ _ _ _ E) in E1. injection E1 as <-. reflexivity. }
  destruct (t_cancelled t); [injection H as H _; rewrite (Q _ _ (eq_sym H) eq_refl); split; [discriminate|intros; discriminate]|].
  destruct (sem_free s); [injection H as H _; rewrite (Q _ _ (eq_sym H) eq_refl); split; [discriminate|intros; discriminate]|].
  destruct (sem_wait s); [|injection H as H _; rewrite (Q _ _ (eq_sym H) eq_refl); split; [discriminate|intros; discriminate]].
  destruct (t_builtin t); injection H as H _; rewrite (Q _ _ (eq_sym H) eq_refl).
  - split; [discriminate|]. intros o [= <-]. auto.
  - split; auto. intros; discriminate.
Qed.

Lemma body_cancel_fn t o : body_of_outcome (cancel_fn t) o = body_of_outcome t o.
Proof. unfold cancel_fn. destruct (t_st t); reflexivity. Qed.

Lemma lifet_cancel_fn t ec gl : lifet t ec gl -> lifet (cancel_fn t) ec gl.
Proof.
  unfold lifet. intros H. destruct (t_st t) eqn:St; unfold cancel_fn; rewrite St; cbn; rewrite ?St; auto.
  left. destruct H as [-> ->]. auto.
Qed.

Lemma enters_same s s' k t : nth_error (tasks s) k = Some t -> nth_error (tasks s') k = Some t -> enters k s s' = false.
Proof.
  intros E E'. unfold enters, before_start, in_handler. rewrite E, E'. destruct (t_st t); reflexivity.
Qed.

Lemma enters_st s s' k t t' : nth_error (tasks s) k = Some t -> nth_error (tasks s') k = Some t' ->
  enters k s s' = (rank (t_st t) <? 2) && match t_st t' with TRunning => true | _ => false end.
Proof. intros E E'. unfold enters, before_start, in_handler. rewrite E, E'. reflexivity. Qed.

(* one window *)
Lemma life_step c k s l s' os ec gl : reach c s -> step s l = Some (s', os) -> life k s ec gl ->
  life k s' (ec + (if enters k s s' then 1 else 0)) (gl ++ gate_of k s l).
Proof.
  intros R H L. pose proof (reach_reachf _ _ R) as Rf. pose proof (reachf_inv _ _ Rf) as I.
  (* the gate *)
  assert (Dg : (exists p o, l = LGate p o) \/ (forall p o, l <> LGate p o)).
  { destruct l; try (right; intros; discriminate). left; eauto. }
  destruct Dg as [(p & o & ->)|Ng].
  { destruct (gate_window_idx _ _ _ _ _ H) as (k0 & t0 & Gi & E0 & St0 & E0' & Oth & New).
    unfold life in *. cbn [gate_of]. rewrite Gi.
    destruct (Nat.eqb_spec k0 k) as [->|N].
    - rewrite E0 in L. rewrite E0'. rewrite (enters_st _ _ _ _ _ E0 E0'). cbn. rewrite St0. cbn.
      unfold lifet in *. cbn. rewrite St0 in L. destruct L as (-> & -> & ->). cbn. auto.
    - rewrite app_nil_r. destruct (nth_error (tasks s) k) as [t|] eqn:E.
      + rewrite (Oth _ _ (not_eq_sym N) E). rewrite (enters_same _ _ _ _ E (Oth _ _ (not_eq_sym N) E)).
        rewrite Nat.add_0_r. auto.
      + destruct L as [-> ->]. destruct (nth_error (tasks s') k) as [t'|] eqn:E'.
        * assert (En : enters k s s' = false).
          { unfold enters, in_handler. rewrite E'. destruct (New _ E _ E') as [S|S]; rewrite S; apply andb_false_r. }
          rewrite En. unfold lifet. destruct (New _ E _ E') as [S|S]; rewrite S; auto.
        * unfold enters, in_handler. rewrite E'. rewrite andb_false_r. auto. }
  assert (Gz : gate_of k s l = []) by (destruct l; auto; destruct (Ng params o); auto).
  rewrite Gz, app_nil_r.
  apply step_decompose in H as (Cr & s1 & os1 & Hr & Hs).
  assert (G : grows s1 s').
  { destruct Hs as [(_ & -> & _)|(_ & Hs)]; [apply grows_refl|eapply settle_grows; eauto]. }
  destruct G as [K Fr].
  unfold life in *. destruct (nth_error (tasks s) k) as [t|] eqn:E.
  2:{ (* the task does not exist yet: it may be created, fresh *)
    destruct L as [-> ->].
    assert (New : forall t', nth_error (tasks s') k = Some t' -> fresh_st t').
    { intros t' E'. destruct (nth_error (tasks s1) k) as [t1|] eqn:E1; [|eapply Fr; eauto].
      rewrite (K _ _ E1) in E'. injection E' as <-.
      destruct (raw_shape_ok _ _ _ _ I Hr) as [_ Ln| -> |v un _ _ _ _ Ln].
      - apply nth_error_None in E. apply nth_error_some_lt in E1. lia.
      - destruct (dequeue_grows s) as [_ Fd]. eapply Fd; eauto.
      - apply nth_error_None in E. apply nth_error_some_lt in E1. lia. }
    destruct (nth_error (tasks s') k) as [t'|] eqn:E'.
    - assert (En : enters k s s' = false).
      { unfold enters, in_handler. rewrite E'. destruct (New _ eq_refl) as [S|S]; rewrite S; apply andb_false_r. }
      rewrite En. unfold lifet. destruct (New _ eq_refl) as [S|S]; rewrite S; auto.
    - unfold enters, in_handler. rewrite E'. rewrite andb_false_r. auto. }
  destruct (raw_tchg _ _ _ _ I Hr _ _ E) as (t1 & E1 & Tc).
  pose proof (K _ _ E1) as E'. rewrite E'. rewrite (enters_st _ _ _ _ _ E E').
  destruct Tc as [_ | Ow _ _ _ | p o El St | El St Ur Cn | x El St Ur Cn Hx | o El St | j El Nj St].
  - (* unchanged *) destruct (t_st t); cbn; rewrite ?andb_false_r, Nat.add_0_r; auto.
  - (* cancelled *)
    assert (Z : (rank (t_st t) <? 2) && match t_st (cancel_fn t) with TRunning => true | _ => false end = false).
    { unfold cancel_fn. destruct (t_st t) eqn:St; cbn; rewrite ?St; auto. }
    rewrite Z, Nat.add_0_r. apply lifet_cancel_fn; auto.
  - destruct (Ng _ _ El).
  - (* acquire with a cancelled context *)
    cbn. rewrite andb_false_r, Nat.add_0_r. unfold lifet in *. rewrite St in L. cbn. destruct L as [-> ->]. auto.
  - (* acquire *)
    subst l. destruct (acquire_st _ _ _ _ _ _ Hr E E1) as [Br Bh]. cbn in Br, Bh.
    unfold lifet in *. rewrite St in L. destruct L as [-> ->]. rewrite St. cbn.
    destruct Hx as [->|[->| ->]]; cbn.
    + auto.
    + rewrite (Br eq_refl). auto.
    + destruct (Bh _ eq_refl) as [Bt _]. rewrite Bt. auto.
  - (* invoke returned *)
    cbn. rewrite andb_false_r, Nat.add_0_r. unfold lifet in *. rewrite St in L. cbn.
    destruct (t_builtin t) eqn:B.
    + destruct L as (-> & -> & ->). left. auto.
    + destruct L as (-> & ->). right. split; auto. split; auto. exists o. auto.
  - (* granted a slot *)
    unfold lifet in *. rewrite St in L. destruct L as [-> ->]. rewrite St. unfold granted. cbn.
    destruct (t_builtin t) eqn:B; cbn; rewrite ?B; auto.
Qed.

Lemma life_run c k : forall tr s s' oss ec gl, reach c s -> run s tr = Some (s', oss) -> life k s ec gl ->
  life k s' (ec + enter_count k s tr) (gl ++ gate_log k s tr).
Proof.
  induction tr as [|l r IH]; cbn; intros s s' oss ec gl R H L.
  - injection H as <- _. rewrite Nat.add_0_r, app_nil_r. auto.
  - destruct (step s l) as [[s1 os]|] eqn:St; [|discriminate].
    destruct (run s1 r) as [[s2 oss2]|] eqn:Rn; [|discriminate]. injection H as <- _.
    pose proof (life_step c k s l s1 os ec gl R St L) as L1.
    pose proof (IH _ _ _ _ _ (reach_step _ _ _ _ _ R St) Rn L1) as L2.
    rewrite Nat.add_assoc, app_assoc. exact L2.
Qed.

(* the life of every task of every trace *)
Theorem c01_task_life c tr s oss k t : run (init_of c) tr = Some (s, oss) -> nth_error (tasks s) k = Some t ->
  lifet t (enter_count k (init_of c) tr) (gate_log k (init_of c) tr).
Proof.
  intros H E.
  assert (L0 : life k (init_of c) 0 []) by (unfold life; cbn; destruct k; cbn; auto).
  pose proof (life_run c k tr _ _ _ 0 [] (reach_init c) H L0) as L. unfold life in L. rewrite E in L. exact L.
Qed.

(* C01: the body stored for a call of a user handler, unless it is the cancellation error, is the body of the
   outcome given by the one gate of the one invocation of its handler *)
Theorem c01_body_is_unique_outcome c tr s oss k t b : run (init_of c) tr = Some (s, oss) ->
  nth_error (tasks s) k = Some t -> t_st t = TDone (Some b) -> t_builtin t = false -> b <> cancel_err ->
  enter_count k (init_of c) tr = 1 /\ exists o, gate_log k (init_of c) tr = [o] /\ Some b = body_of_outcome t o.
Proof.
  intros H E St B Nc. pose proof (c01_task_life c tr s oss k t H E) as L. unfold lifet in L. rewrite St in L.
  destruct L as [(_ & _ & [Q|(Q & _)])|(Ec & _ & o & Gl & Q)].
  - injection Q as ->. congruence.
  - congruence.
  - split; auto. exists o. auto.
Qed.

(* a call that ended with the cancellation error: either its handler never ran (cancelled while queued or before
   the semaphore) or it ran once and that is the outcome it returned *)
Theorem c01_cancel_err_body c tr s oss k t : run (init_of c) tr = Some (s, oss) ->
  nth_error (tasks s) k = Some t -> t_st t = TDone (Some cancel_err) -> t_builtin t = false ->
  (enter_count k (init_of c) tr = 0 /\ gate_log k (init_of c) tr = []) \/
  (enter_count k (init_of c) tr = 1 /\ exists o, gate_log k (init_of c) tr = [o] /\ body_of_outcome t o = Some cancel_err).
Proof.
  intros H E St B. pose proof (c01_task_life c tr s oss k t H E) as L. unfold lifet in L. rewrite St in L.
  destruct L as [(Ec & Gl & _)|(Ec & _ & o & Gl & Q)]; [left; auto|right]. split; auto. exists o. auto.
Qed.

(* a member rejected by checkAndAssign: no handler entry, no gate *)
Theorem c01_rejected_never_entered c tr s oss k t e : run (init_of c) tr = Some (s, oss) ->
  nth_error (tasks s) k = Some t -> t_pre t = Some e ->
  enter_count k (init_of c) tr = 0 /\ gate_log k (init_of c) tr = [].
Proof.
  intros H E P. pose proof (c01_task_life c tr s oss k t H E) as L. unfold lifet in L.
  assert (R : reachf c s) by (apply reach_reachf; eapply run_reach; [apply reach_init|eauto]).
  rewrite (task_pre_skip _ _ _ _ _ R E P) in L. exact L.
Qed.

(* the built-in rpc.serverInfo never enters a user handler and needs no gate *)
Theorem c01_builtin_never_entered c tr s oss k t : run (init_of c) tr = Some (s, oss) ->
  nth_error (tasks s) k = Some t -> t_builtin t = true ->
  enter_count k (init_of c) tr = 0 /\ gate_log k (init_of c) tr = [].
Proof.
  intros H E B. pose proof (c01_task_life c tr s oss k t H E) as L. unfold lifet in L. rewrite B in L.
  destruct (t_st t); try tauto.
  - destruct L as (_ & _ & Q). discriminate.
  - destruct L as [(Ec & Gl & _)|(_ & Q & _)]; [auto|discriminate].
Qed.

(** ** notifications *)
(* a notification never ends with the cancellation error: its context is never cancelled *)
Definition note_ok (s : state) : Prop :=
  forall k t, nth_error (tasks s) k = Some t -> is_note t = true -> t_st t <> TDone (Some cancel_err).

Lemma is_note_le t t' : task_le t t' -> is_note t' = is_note t.
Proof. intros Le. unfold is_note. rewrite (tl_id _ _ Le). reflexivity. Qed.

Lemma fresh_not_done t b : fresh_st t -> t_st t <> TDone b.
Proof. intros [S|S]; rewrite S; discriminate. Qed.

Theorem reachf_note_ok c s : reachf c s -> note_ok s.
Proof.
  induction 1 as [|s l s1 os R IH Cr H|s s' os R IH H].
  - intros [|k] t E; discriminate.
  - pose proof (reachf_inv _ _ R) as I. intros k t1 E1 Nt1.
    destruct (nth_error (tasks s) k) as [t|] eqn:E.
    + destruct (raw_tchg _ _ _ _ I H _ _ E) as (t1' & E1' & Tc). rewrite E1 in E1'. injection E1' as <-.
      pose proof (is_note_le _ _ (tchg_le _ _ _ _ _ Tc)) as Nt. rewrite Nt1 in Nt. symmetry in Nt.
      pose proof (IH _ _ E Nt) as P.
      destruct Tc as [_ | Ow _ _ _ | p o El St | El St Ur Cn | x El St Ur Cn Hx | o El St | j El Nj St]; cbn; try congruence.
      * rewrite (owner_not_note s k t (reachf_inv_used _ _ R) Ow E) in Nt. discriminate.
      * rewrite (SrvC03.notes_never_cancelled _ _ _ _ R E Nt) in Cn. discriminate.
      * destruct Hx as [->|[->| ->]]; discriminate.
      * unfold body_of_outcome. rewrite Nt. discriminate.
      * unfold granted. cbn. destruct (t_builtin t); discriminate.
    + apply fresh_not_done.
      destruct (raw_shape_ok _ _ _ _ I H) as [_ Ln| -> |v un _ _ _ _ Ln].
      * apply nth_error_None in E. apply nth_error_some_lt in E1. lia.
      * destruct (dequeue_grows s) as [_ Fd]. eapply Fd; eauto.
      * apply nth_error_None in E. apply nth_error_some_lt in E1. lia.
  - destruct (settle1_grows _ _ _ H) as [K Fr]. intros k t' E' Nt.
    destruct (nth_error (tasks s) k) as [t|] eqn:E.
    + rewrite (K _ _ E) in E'. injection E' as <-. eapply IH; eauto.
    + apply fresh_not_done. eapply Fr; eauto.
Qed.

(* a notification to a user handler that has finished: its handler was entered exactly once, returned once, and
   nothing was stored as a reply body *)
Theorem c01_notification_once c tr s oss k t bo : run (init_of c) tr = Some (s, oss) ->
  nth_error (tasks s) k = Some t -> is_note t = true -> t_builtin t = false -> t_st t = TDone bo ->
  enter_count k (init_of c) tr = 1 /\ (exists o, gate_log k (init_of c) tr = [o]) /\ bo = None.
Proof.
  intros H E Nt B St. pose proof (c01_task_life c tr s oss k t H E) as L. unfold lifet in L. rewrite St in L.
  assert (R : reachf c s) by (apply reach_reachf; eapply run_reach; [apply reach_init|eauto]).
  destruct L as [(_ & _ & [Q|(Q & _)])|(Ec & _ & o & Gl & Q)].
  - exfalso. apply (reachf_note_ok c s R k t E Nt). congruence.
  - congruence.
  - split; auto. split; [eauto|]. rewrite Q. unfold body_of_outcome. rewrite Nt. reflexivity.
Qed.

(* at a quiescent point: a runnable notification (to a user handler) of a message that has passed the barrier
   has been entered exactly once, unless it is still queued for a slot with every slot taken *)
Theorem c01_notification_once_at_quiescence c tr s oss k t : run (init_of c) tr = Some (s, oss) ->
  quiescent s = true -> nth_error (tasks s) k = Some t -> is_note t = true -> t_pre t = None -> t_builtin t = false ->
  SrvC03.released s (t_unit t) = true ->
  enter_count k (init_of c) tr = 1 \/
  (t_st t = TWaiting /\ sem_free s = 0 /\ enter_count k (init_of c) tr = 0).
Proof.
  intros H Q E Nt P B Rl.
  assert (R : reach c s) by (eapply run_reach; [apply reach_init|eauto]).
  pose proof (c01_task_life c tr s oss k t H E) as L. unfold lifet in L.
  destruct (t_st t) eqn:St.
  - exfalso. apply (task_nopre_noskip c s k t (reach_reachf _ _ R) E P). auto.
  - destruct (SrvNoCrash.c03_only_slot_nc c s k t R Q E Rl) as (W & _); [rewrite St; auto|congruence].
  - destruct (SrvNoCrash.c03_only_slot_nc c s k t R Q E Rl) as (_ & F & _); [rewrite St; auto|].
    right. destruct L as [Ec _]. auto.
  - left. destruct L as (Ec & _). auto.
  - left. rewrite B in L. destruct L as (Ec & _). auto.
  - left. destruct (c01_notification_once c tr s oss k t b H E Nt B St) as (Ec & _). auto.
Qed.

Example c01_body_is_unique_outcome_nonvacuous :
  exists t, nth_error (tasks (st_of ex_cfg ex_tr_delivered)) 0 = Some t /\ t_st t = TDone (Some (BRes [50%N])) /\
    t_builtin t = false /\ BRes [50%N] <> cancel_err /\ run (init_of ex_cfg) ex_tr_delivered <> None /\
    enter_count 0 (init_of ex_cfg) ex_tr_delivered = 1 /\ gate_log 0 (init_of ex_cfg) ex_tr_delivered = [ORes [50%N]].
Proof. eexists. vm_compute. repeat split; try reflexivity; discriminate. Qed.

(* a call cancelled while it waits for a slot: answered with the cancellation error, never entered *)
Definition ex_tr_cancel_wait : list label :=
  [LStart; LRelNext; LFeed (FMsg (InMsgs true [ex_call [49%N] [1%N]; ex_call [50%N] [2%N]])); LRelRead; LRelBarrier;
   LRelAcquire 0; LRelAcquire 1; LCallCancel 7 [50%N]; LRelCancel 7].

Example c01_cancel_err_body_nonvacuous :
  exists t, run (init_of ex_cfg) ex_tr_cancel_wait <> None /\
    nth_error (tasks (st_of ex_cfg ex_tr_cancel_wait)) 1 = Some t /\ t_st t = TDone (Some cancel_err) /\
    t_builtin t = false /\ enter_count 1 (init_of ex_cfg) ex_tr_cancel_wait = 0 /\
    gate_log 1 (init_of ex_cfg) ex_tr_cancel_wait = [].
Proof. eexists. vm_compute. repeat split; try reflexivity; discriminate. Qed.

Example c01_notification_once_nonvacuous :
  let tr := ex_tr_note ++ [LRelHandled 0] in
  exists t, run (init_of ex_cfg) tr <> None /\ nth_error (tasks (st_of ex_cfg tr)) 0 = Some t /\ is_note t = true /\
    t_builtin t = false /\ t_st t = TDone None /\ enter_count 0 (init_of ex_cfg) tr = 1 /\
    gate_log 0 (init_of ex_cfg) tr = [ORes [50%N]].
Proof. eexists. vm_compute. repeat split; try reflexivity; discriminate. Qed.

Example c01_notification_once_at_quiescence_nonvacuous :
  let tr := ex_tr_note ++ [LRelHandled 0; LRelNext] in
  exists t, run (init_of ex_cfg) tr <> None /\ quiescent (st_of ex_cfg tr) = true /\
    nth_error (tasks (st_of ex_cfg tr)) 0 = Some t /\ is_note t = true /\ t_pre t = None /\ t_builtin t = false /\
    SrvC03.released (st_of ex_cfg tr) (t_unit t) = true.
Proof. eexists. vm_compute. repeat split; try reflexivity; discriminate. Qed.

Example c01_rejected_never_entered_nonvacuous :
  let tr := [LStart; LRelNext; LFeed (FMsg (InMsgs false [ex_msg [49%N] [120%N] []])); LRelRead] in
  exists t e, run (init_of ex_cfg) tr <> None /\ nth_error (tasks (st_of ex_cfg tr)) 0 = Some t /\ t_pre t = Some e.
Proof. eexists _, _. vm_compute. repeat split; try reflexivity; discriminate. Qed.

Example c01_builtin_never_entered_nonvacuous :
  let tr := [LStart; LRelNext; LFeed (FMsg (InMsgs false [ex_msg [49%N] rpc_server_info []])); LRelRead; LRelBarrier;
             LRelAcquire 0; LRelHandled 0] in
  exists t, run (init_of ex_cfg2) tr <> None /\ nth_error (tasks (st_of ex_cfg2 tr)) 0 = Some t /\ t_builtin t = true /\
    t_st t = TDone (Some BWild).
Proof. eexists. vm_compute. repeat split; try reflexivity; discriminate. Qed.

(** * at rest everything has been answered *)
(* a quiescent point of a running server with at least one slot at which no handler is executing (every gate has
   been given): the queue is empty and every dispatch unit has finished *)
Theorem c01_all_finished_at_rest c s : reach c s -> quiescent s = true -> running s = true -> 0 < cf_K c ->
  (forall k t, nth_error (tasks s) k = Some t -> t_st t <> TRunning) ->
  inq s = [] /\ forall u un, nth_error (units s) u = Some un -> u_st un = UFinished.
Proof.
  intros R Qu Rn Kp Nr. pose proof (no_crash _ _ R) as Cr. pose proof (reach_reachf _ _ R) as Rf.
  assert (Z : SrvC06.slots_used s = 0).
  { unfold SrvC06.slots_used. apply countb_zero_forall. intros t It. apply In_nth_error in It as (k & E).
    unfold SrvC06.holds. destruct (t_st t) eqn:St; auto.
    - destruct (Nr _ _ E St).
    - exfalso. apply (SrvC03.quiescent_none _ (LRelHandled k) Qu). eapply SrvC03.handled_enabled; eauto. }
  assert (Fin : forall k t, nth_error (tasks s) k = Some t -> SrvC03.released s (t_unit t) = true -> finished t = true).
  { intros k t E Rl. unfold finished.
    destruct (SrvC03.quiescent_task _ _ _ _ R Cr Qu E Rl) as [Sk|[(b & Dn)|[Rg|(_ & _ & Q)]]].
    - rewrite Sk. auto.
    - rewrite Dn. auto.
    - destruct (Nr _ _ E Rg).
    - lia. }
  destruct (SrvNoCrash.c03_all_dispatched_nc c s R Qu Rn) as (Iq & _ & _ & Rel).
  { intros j n E Ru Nn Rl. pose proof (Fin _ _ E Rl) as F. unfold finished in F.
    destruct (t_st n) eqn:St; try discriminate; eauto.
    exfalso. unfold runnable in Ru. destruct (t_pre n) eqn:P; [discriminate|].
    apply (task_nopre_noskip c s j n Rf E P). auto. }
  split; auto. intros u un Eu.
  pose proof (Rel u (nth_error_some_lt _ _ _ Eu)) as Ru.
  destruct (SrvNoCrash.c01_quiescent_complete_nc c s R Qu) as [Qa Qb].
  assert (Af : all_finished s u = true).
  { unfold all_finished, unit_tasks. apply forallb_forall. intros t It. apply filter_In in It as [It Ut].
    apply Nat.eqb_eq in Ut. apply In_nth_error in It as (k & E). apply (Fin k t E). rewrite Ut. auto. }
  unfold SrvC03.released, SrvC03.rel_in in Ru. rewrite Eu in Ru. unfold SrvC03.released_u in Ru.
  destruct (u_st un) eqn:Su; try discriminate; auto.
  - rewrite (Qa _ _ Eu Su) in Af. discriminate.
  - destruct (Qb _ _ Eu Su).
Qed.

(* ... hence every accepted message has been answered: each unit with something to say was delivered exactly once
   (and its message is in the output history: c01_output_history), each silent one never *)
Theorem c01_all_answered_at_rest c tr s oss : run (init_of c) tr = Some (s, oss) ->
  quiescent s = true -> running s = true -> 0 < cf_K c ->
  (forall k t, nth_error (tasks s) k = Some t -> t_st t <> TRunning) ->
  inq s = [] /\
  forall u, u < length (units s) ->
    ufin s u = true /\
    (responses (unit_tasks s u) <> [] -> countb (is_deliver u) tr = 1) /\
    (responses (unit_tasks s u) = [] -> countb (is_deliver u) tr = 0).
Proof.
  intros H Qu Rn Kp Nr.
  assert (R : reach c s) by (eapply run_reach; [apply reach_init|eauto]).
  destruct (c01_all_finished_at_rest c s R Qu Rn Kp Nr) as [Iq Fu]. split; auto.
  intros u Lu. destruct (nth_error (units s) u) as [un|] eqn:Eu; [|apply nth_error_None in Eu; lia].
  assert (F : ufin s u = true) by (unfold ufin; rewrite Eu, (Fu _ _ Eu); auto).
  split; auto. apply (c01_delivered_iff_nonsilent c tr s oss u H F).
Qed.

Example c01_all_answered_at_rest_nonvacuous :
  let tr := ex_tr_batch ++ [LRelDeliver 0; LRelNext] in
  run (init_of ex_cfg) tr <> None /\ quiescent (st_of ex_cfg tr) = true /\ running (st_of ex_cfg tr) = true /\
  0 < cf_K ex_cfg /\ length (units (st_of ex_cfg tr)) = 1 /\
  forallb (fun t => match t_st t with TRunning => false | _ => true end) (tasks (st_of ex_cfg tr)) = true.
Proof. vm_compute. repeat split; auto. discriminate. Qed.
