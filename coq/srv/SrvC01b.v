(* C01, second part: the reply of a unit is the reply to an accepted inbound message (batch flag, request order);
   a finished unit was delivered iff it has something to say; the body of a call is the outcome of its one
   handler invocation. *)
From Coq Require Import List NArith ZArith Bool Arith Lia.
From RecordUpdate Require Import RecordUpdate.
From JV Require Import Bytes Msg SrvModel SrvLemmas SrvBasics SrvC07 SrvC01 SrvC08 SrvHist.
Import ListNotations.

(** * C01 with the history: array iff the inbound message was an array, replies in request order *)
Definition has_id (r : rsp) : bool := negb (beq (r_id r) null_bytes).
Definition call_ids (ms : list jmsg) : list bytes := filter (fun i => negb (is_nil i)) (map (fun m => fix_id (j_id m)) ms).

Lemma map_id_filter_note ts :
  map t_id (filter (fun t => negb (is_note t)) ts) = filter (fun i => negb (is_nil i)) (map t_id ts).
Proof. induction ts as [|t r IH]; cbn; auto. unfold is_note at 1. destruct (is_nil (t_id t)); cbn; congruence. Qed.

(* the message a deliver window sends is the reply to log entry number u: same array flag, and the replies that
   carry an id are those of the calls of that entry, in request order; the window comes after the handlers of
   every member have returned (c01_send_origin) *)
Theorem c01_send_answers_accepted c tr s oss u s' os ok b rs :
  run (init_of c) tr = Some (s, oss) -> step s (LRelDeliver u) = Some (s', os) -> In (OSend ok b rs) os ->
  exists ms, nth_error (alog (init_of c) tr []) u = Some (b, ms) /\
    rs = responses (unit_tasks s u) /\ map tmem (unit_tasks s u) = map jmem ms /\
    map r_id (filter has_id rs) = call_ids ms.
Proof.
  intros H Hs Ho.
  assert (R : reach c s) by (eapply run_reach; [apply reach_init|eauto]).
  destruct (c01_send_origin _ _ _ _ _ _ _ _ R Hs Ho) as [(u0 & un & El & Eu & Su & -> & -> & Fin)|(El & _)];
    [|discriminate El].
  injection El as <-.
  destruct (alog_unit c tr s oss u un H Eu) as (ms & Ea & Hm). exists ms. repeat split; auto.
  assert (Ids : map t_id (unit_tasks s u) = map (fun m => fix_id (j_id m)) ms).
  { transitivity (map (fun x : member => fst (fst x)) (map tmem (unit_tasks s u))).
    - rewrite map_map. reflexivity.
    - rewrite <- Hm, map_map. reflexivity. }
  unfold has_id. rewrite c01_responses_calls.
  - rewrite map_map. cbn. unfold call_ids. rewrite <- Ids. apply map_id_filter_note.
  - intros t It. apply (in_map t_id) in It. rewrite Ids in It. apply in_map_iff in It as (m & <- & _).
    apply fix_id_not_null.
Qed.

(* no stop so far: entry number u of the log is the u-th message the reader accepted *)
Theorem c01_send_answers_accepted_nostop c tr s oss u s' os ok b rs :
  run (init_of c) tr = Some (s, oss) -> stop_free (init_of c) tr = true ->
  step s (LRelDeliver u) = Some (s', os) -> In (OSend ok b rs) os ->
  exists ms, nth_error (accepted (init_of c) tr) u = Some (b, ms) /\
    rs = responses (unit_tasks s u) /\ map tmem (unit_tasks s u) = map jmem ms /\
    map r_id (filter has_id rs) = call_ids ms.
Proof.
  intros H Sf Hs Ho. destruct (c01_send_answers_accepted _ _ _ _ _ _ _ _ _ _ H Hs Ho) as (ms & Ea & Q).
  exists ms. split; auto. rewrite alog_stop_free in Ea by auto. exact Ea.
Qed.

(* a batch of two calls and a notification is answered with an array of the two replies, in request order *)
Definition ex_tr_batch : list label :=
  [LStart; LRelNext; LFeed (FMsg (InMsgs true [ex_call [49%N] [1%N]; ex_note [2%N]; ex_call [50%N] [3%N]])); LRelRead;
   LRelBarrier; LRelAcquire 1; LGate [2%N] (ORes []); LRelHandled 1; LRelAcquire 2; LGate [3%N] (ORes [51%N]); LRelHandled 2;
   LRelAcquire 0; LGate [1%N] (ORes [52%N]); LRelHandled 0].

Example c01_send_answers_accepted_nonvacuous :
  run (init_of ex_cfg) ex_tr_batch <> None /\ stop_free (init_of ex_cfg) ex_tr_batch = true /\
  map qmem (accepted (init_of ex_cfg) ex_tr_batch) = [(true, [([49%N], ex_m, [1%N]); ([], ex_m, [2%N]); ([50%N], ex_m, [3%N])])] /\
  option_map snd (step (st_of ex_cfg ex_tr_batch) (LRelDeliver 0)) =
    Some [OSend true true [{| r_id := [49%N]; r_body := BRes [52%N] |}; {| r_id := [50%N]; r_body := BRes [51%N] |}]].
Proof. vm_compute. repeat split; auto. discriminate. Qed.

(** * C01: a finished unit was delivered iff it has something to say *)
(* how a unit becomes finished: by its deliver step, or silently *)
Definition rfin (u : nat) (s s' : state) : Prop :=
  ext2 s s' /\ (ufin s u = false -> ufin s' u = true -> responses (unit_tasks s' u) = []).

Lemma ufin_lt s u : ufin s u = true -> u < length (units s).
Proof. unfold ufin. destruct (nth_error (units s) u) eqn:E; [|discriminate]. intros _. eapply nth_error_some_lt; eauto. Qed.

Lemma rfin_refl u s : rfin u s s.
Proof. split; [apply ext2_refl|]. congruence. Qed.

Lemma rfin_trans u a b d : rfin u a b -> rfin u b d -> rfin u a d.
Proof.
  intros [X1 F1] [X2 F2]. split; [eapply ext2_trans; eauto|]. intros Fa Fd.
  destruct (ufin b u) eqn:Fb; [|auto].
  apply (silent_stable b d u X2); [apply ufin_lt; auto|]. auto.
Qed.

Lemma ufin_dequeue s u : ufin (dequeue s) u = true -> ufin s u = true.
Proof.
  unfold dequeue. destruct (inq s) as [|[b ms] q]; [destruct (running s); auto|].
  unfold ufin. cbn. destruct (Nat.lt_ge_cases u (length (units s))) as [Lt|Ge].
  - rewrite nth_error_app1 by auto. auto.
  - rewrite nth_error_app2 by auto. destruct (u - length (units s)) as [|[|n]]; cbn; discriminate.
Qed.

Lemma rfin_raw c u s l s1 os : reachf c s -> crash s = None -> step_raw s l = Some (s1, os) -> l <> LRelDeliver u ->
  rfin u s s1.
Proof.
  intros R Cr H Nl. split; [eapply raw_ext2; eauto|]. intros F0 F1. exfalso.
  pose proof (reachf_inv _ _ R) as I.
  destruct (raw_shape_ok _ _ _ _ I H) as [U L| -> |v un El Ev Sv U L].
  - unfold ufin in *. rewrite U in F1. congruence.
  - apply ufin_dequeue in F1. congruence.
  - unfold ufin in *. rewrite U, nth_error_upd_nth_neq in F1; [congruence|]. intros <-. auto.
Qed.

Lemma rfin_settle1 c u s s' os : reachf c s -> settle1 s = Some (s', os) -> rfin u s s'.
Proof.
  intros R H. split; [eapply settle1_ext2; eauto|]. intros F0 F1.
  apply settle1_inv in H. destruct H; try (exfalso; unfold ufin in *; cbn in F1; congruence).
  - exfalso. apply ufin_dequeue in F1. congruence.
  - exfalso. unfold ufin in *. cbn in F1. rewrite nth_error_upd_nth in F1.
    destruct (Nat.eqb_spec u0 u) as [->|N]; [|congruence]. rewrite H1 in F1. cbn in F1. discriminate.
  - destruct (Nat.eq_dec i u) as [->|N]; [exact H1|].
    exfalso. unfold ufin in *. cbn in F1. rewrite nth_error_upd_nth_neq in F1 by auto. congruence.
  - exfalso. unfold ufin in *. cbn in F1. rewrite nth_error_upd_nth in F1.
    destruct (Nat.eqb_spec i u) as [->|N]; [|congruence]. rewrite H0 in F1. cbn in F1. discriminate.
Qed.

Lemma finish_cause c s l s' os u : reachf c s -> step s l = Some (s', os) -> ufin s u = false -> ufin s' u = true ->
  l = LRelDeliver u \/ responses (unit_tasks s' u) = [].
Proof.
  intros R H F0 F1.
  assert (D : {l = LRelDeliver u} + {l <> LRelDeliver u}).
  { destruct l; try (right; discriminate). destruct (Nat.eq_dec u0 u) as [->|N]; [left; auto|right; congruence]. }
  destruct D as [->|Nl]; [left; auto|right].
  apply step_decompose in H as (Cr & s1 & os1 & Hr & Hs).
  pose proof (rfin_raw c u _ _ _ _ R Cr Hr Nl) as R1.
  destruct Hs as [(_ & -> & _)|(_ & Hs)]; [apply R1; auto|].
  assert (R2 : rfin u s1 s').
  { apply (lift_settle c (rfin u) (rfin_refl u) (rfin_trans u) (rfin_settle1 c u) _ _ _ _ _ (rf_raw _ _ _ _ _ R Cr Hr) Hs). }
  apply (rfin_trans u _ _ _ R1 R2); auto.
Qed.

Lemma delivered_once_from c u : forall tr s s' oss, reachf c s -> ufin s u = false -> run s tr = Some (s', oss) ->
  ufin s' u = true -> responses (unit_tasks s' u) <> [] -> countb (is_deliver u) tr = 1.
Proof.
  induction tr as [|l r IH]; intros s s' oss R F0 H F1 Ns.
  - cbn in H. injection H as <- _. congruence.
  - cbn in H. destruct (step s l) as [[s1 os]|] eqn:St; [|discriminate].
    destruct (run s1 r) as [[s2 oss2]|] eqn:Rn; [|discriminate]. injection H as <- _.
    assert (R1 : reachf c s1) by (eapply step_reachf; eauto).
    cbn [countb]. destruct (ufin s1 u) eqn:F.
    + destruct (finish_cause _ _ _ _ _ _ R St F0 F) as [->|Z].
      * pose proof (deliver_once_from c u r _ _ _ R1 Rn) as B. rewrite F in B. cbn. rewrite Nat.eqb_refl. lia.
      * exfalso. apply Ns. apply (silent_stable s1 s2 u); [eapply run_ext2; eauto|apply ufin_lt; auto|auto].
    + rewrite (IH _ _ _ R1 F Rn F1 Ns). destruct (is_deliver u l) eqn:D; auto. exfalso.
      destruct l; try discriminate D. cbn in D. apply Nat.eqb_eq in D. subst u0.
      destruct (deliver_finishes _ _ _ _ _ R St) as [Cr|F']; [|congruence].
      pose proof (run_crashed _ _ _ _ Cr Rn) as Er. subst r. cbn in Rn. injection Rn as <- _. congruence.
Qed.

Lemma ufin_init c u : ufin (init_of c) u = false.
Proof. unfold ufin. cbn. destruct u; reflexivity. Qed.

(* the deliver window of a unit in a reachable state: it sends the unit's reply and finishes the unit *)
Lemma deliver_window_nc c s u s' os : reach c s -> step s (LRelDeliver u) = Some (s', os) ->
  exists un ok extra, nth_error (units s) u = Some un /\ u_st un = UAtDeliver /\ all_finished s u = true /\
    os = OSend ok (u_batch un) (responses (unit_tasks s u)) :: extra /\ Forall settle_obs extra /\ ufin s' u = true.
Proof.
  intros R H. pose proof (no_crash_step _ _ _ _ _ R H) as Nc.
  destruct (c01_deliver_window _ _ _ _ _ R H) as (un & Eu & Su & Fin & [(Ck & ok & extra & -> & Fa)|(Ck & ->)]).
  - exists un, ok, extra. repeat split; auto.
    destruct (deliver_finishes _ _ _ _ _ (reach_reachf _ _ R) H) as [Cr|F]; [congruence|auto].
  - exfalso. apply step_decompose in H as (Cr & s1 & os1 & Hr & Hs). unfold step_raw in Hr.
    rewrite Eu, Su, Ck in Hr. cbn in Hr. injection Hr as <- <-.
    destruct Hs as [(_ & -> & _)|(Cr1 & _)]; cbn in *; congruence.
Qed.

(** ** responses of a finished unit never change *)
Lemma list_ext_split {A} (R : A -> A -> Prop) : forall l l', list_ext R l l' ->
  exists l1 l2, l' = l1 ++ l2 /\ Forall2 R l l1.
Proof.
  induction l as [|x l IH]; intros l' X.
  - exists [], l'. split; auto.
  - destruct (X 0 x eq_refl) as (y & E & Rxy). destruct l' as [|y' l'']; [discriminate|]. cbn in E. injection E as ->.
    destruct (IH l'') as (l1 & l2 & -> & F). { intros k a Ek. apply (X (S k) a Ek). }
    exists (y :: l1), l2. split; auto.
Qed.

Lemma forall2_length {A B} (R : A -> B -> Prop) l l' : Forall2 R l l' -> length l = length l'.
Proof. induction 1; cbn; auto. Qed.

Lemma response_of_finished_le t t' : task_le t t' -> finished t = true -> response_of t' = response_of t.
Proof.
  intros [_ Li _ _ Lp _ _ _ (_ & Sk & Dn & _)] F.
  assert (St : t_st t' = t_st t).
  { unfold finished in F. destruct (t_st t) eqn:E; try discriminate.
    - exact (proj1 Sk eq_refl).
    - exact (Dn _ eq_refl). }
  unfold response_of, is_note, task_body. rewrite Li, Lp, St. reflexivity.
Qed.

Lemma responses_filter_le u : forall ts l1, Forall2 task_le ts l1 ->
  forallb finished (filter (fun t => t_unit t =? u) ts) = true ->
  responses (filter (fun t => t_unit t =? u) l1) = responses (filter (fun t => t_unit t =? u) ts).
Proof.
  induction 1 as [|t t' ts l1 Le _ IH]; cbn; auto. intros F.
  rewrite (tl_unit _ _ Le). destruct (t_unit t =? u); [|auto].
  cbn in F. apply andb_true_iff in F as [Ft Fr]. cbn.
  rewrite (response_of_finished_le _ _ Le Ft), (IH Fr). reflexivity.
Qed.

Lemma responses_stable s s' u : ext2 s s' -> u < length (units s) -> all_finished s u = true ->
  responses (unit_tasks s' u) = responses (unit_tasks s u).
Proof.
  intros [[X _] Fr] Lu Fin. unfold unit_tasks.
  destruct (list_ext_split _ _ _ X) as (l1 & l2 & E & F2). rewrite E, filter_app.
  rewrite (filter_none _ l2), app_nil_r.
  - apply responses_filter_le; auto.
  - intros t It. apply In_nth_error in It as [j Ej].
    assert (Ek : nth_error (tasks s') (length (tasks s) + j) = Some t).
    { rewrite E, nth_error_app2; rewrite <- (forall2_length _ _ _ F2); [|lia]. rewrite <- Ej. f_equal. lia. }
    assert (Ge : length (tasks s) <= length (tasks s) + j) by lia.
    pose proof (Fr _ _ Ge Ek). apply Nat.eqb_neq. lia.
Qed.

(** ** the output history *)
Definition send_of (u : nat) (o : obs) : list (nat * bool * list rsp) :=
  match o with OSend _ b rs => [(u, b, rs)] | _ => [] end.

(* the messages sent by deliver windows, in trace order, each with the unit it belongs to *)
Fixpoint unit_sends (tr : list label) (oss : list (list obs)) : list (nat * bool * list rsp) :=
  match tr, oss with
  | l :: r, os :: oss' =>
      (match l with LRelDeliver u => flat_map (send_of u) os | _ => [] end) ++ unit_sends r oss'
  | _, _ => []
  end.

Fixpoint delivered (tr : list label) : list nat :=
  match tr with
  | [] => []
  | LRelDeliver u :: r => u :: delivered r
  | _ :: r => delivered r
  end.

Definition ubatch (s : state) (u : nat) : bool :=
  match nth_error (units s) u with Some un => u_batch un | None => false end.

Lemma flat_send_settle u extra : Forall settle_obs extra -> flat_map (send_of u) extra = [].
Proof. induction 1 as [|o r Ho _ IH]; cbn; auto. destruct o; cbn in *; auto; tauto. Qed.

Lemma unit_sends_from c : forall tr s s' oss, reach c s -> run s tr = Some (s', oss) ->
  unit_sends tr oss = map (fun u => (u, ubatch s' u, responses (unit_tasks s' u))) (delivered tr).
Proof.
  induction tr as [|l r IH]; intros s s' oss R H.
  - cbn in H. injection H as <- <-. reflexivity.
  - cbn in H. destruct (step s l) as [[s1 os]|] eqn:St; [|discriminate].
    destruct (run s1 r) as [[s2 oss2]|] eqn:Rn; [|discriminate]. injection H as <- <-.
    assert (R1 : reach c s1) by (eapply reach_step; eauto).
    cbn [unit_sends]. rewrite (IH _ _ _ R1 Rn).
    destruct l; cbn [delivered app]; auto.
    assert (Hr : run s (LRelDeliver u :: r) = Some (s2, os :: oss2)) by (cbn; rewrite St, Rn; reflexivity).
    destruct (deliver_window_nc _ _ _ _ _ R St) as (un & ok & extra & Eu & Su & Fin & -> & Fa & F1).
    cbn [flat_map send_of]. rewrite (flat_send_settle u extra Fa). cbn [app map]. f_equal.
    pose proof (reach_reachf _ _ R) as Rf.
    destruct (run_unit_le _ _ _ _ _ _ _ Rf Hr Eu) as (un' & Eu' & Le).
    unfold ubatch. rewrite Eu', (ul_batch _ _ Le).
    rewrite (responses_stable s s2 u); auto.
    + eapply run_ext2; eauto.
    + eapply nth_error_some_lt; eauto.
Qed.

Lemma delivered_count u : forall tr, In u (delivered tr) <-> 0 < countb (is_deliver u) tr.
Proof.
  induction tr as [|l r IH]; cbn; [split; [tauto|lia]|].
  destruct l; cbn; rewrite ?IH; try tauto.
  destruct (Nat.eqb_spec u0 u) as [->|N]; split; intros H; try lia; auto.
  all: destruct H as [H|H]; [congruence|lia].
Qed.

Lemma delivered_nodup : forall tr, (forall u, countb (is_deliver u) tr <= 1) -> NoDup (delivered tr).
Proof.
  induction tr as [|l r IH]; intros B; [constructor|].
  assert (Br : forall u, countb (is_deliver u) r <= 1).
  { intros u. specialize (B u). cbn in B. destruct (is_deliver u l); lia. }
  destruct l; cbn; auto. constructor; auto.
  intros I. apply delivered_count in I. specialize (B u). cbn in B. rewrite Nat.eqb_refl in B. lia.
Qed.

Lemma delivered_nonsilent c u : forall tr s s' oss, reach c s -> run s tr = Some (s', oss) -> In u (delivered tr) ->
  ufin s' u = true /\ responses (unit_tasks s' u) <> [].
Proof.
  induction tr as [|l r IH]; intros s s' oss R H I; [destruct I|].
  cbn in H. destruct (step s l) as [[s1 os]|] eqn:St; [|discriminate].
  destruct (run s1 r) as [[s2 oss2]|] eqn:Rn; [|discriminate]. injection H as <- _.
  assert (R1 : reach c s1) by (eapply reach_step; eauto).
  assert (Rest : In u (delivered r) -> ufin s2 u = true /\ responses (unit_tasks s2 u) <> []) by (eapply IH; eauto).
  destruct l; cbn in I; auto. destruct I as [->|I]; auto.
  destruct (deliver_window_nc _ _ _ _ _ R St) as (un & ok & extra & Eu & Su & Fin & _ & _ & F1).
  pose proof (reach_reachf _ _ R) as Rf. pose proof (reach_reachf _ _ R1) as Rf1. split.
  - eapply ufin_mono; [|exact F1]. apply (run_ext _ _ _ _ _ Rf1 Rn).
  - intros Z. apply (reachf_inv_deliv c s Rf u un Eu Su).
    assert (Hr : run s (LRelDeliver u :: r) = Some (s2, os :: oss2)) by (cbn; rewrite St, Rn; reflexivity).
    apply (silent_stable s s2 u); auto; [eapply run_ext2; eauto|eapply nth_error_some_lt; eauto].
Qed.

(* C01: a finished unit with something to say was delivered exactly once; a finished unit with nothing to say never *)
Theorem c01_delivered_iff_nonsilent c tr s oss u : run (init_of c) tr = Some (s, oss) -> ufin s u = true ->
  (responses (unit_tasks s u) <> [] -> countb (is_deliver u) tr = 1) /\
  (responses (unit_tasks s u) = [] -> countb (is_deliver u) tr = 0).
Proof.
  intros H F. split.
  - intros Ns. eapply (delivered_once_from c u tr (init_of c)); eauto; [constructor|apply ufin_init].
  - intros Z. destruct (countb (is_deliver u) tr) eqn:C; auto. exfalso.
    assert (I : In u (delivered tr)) by (apply delivered_count; lia).
    destruct (delivered_nonsilent c u tr _ _ _ (reach_init c) H I) as [_ Ns]. auto.
Qed.

(* C01: the messages sent by deliver windows are exactly the replies of the finished units that have something to
   say: one message per such unit, with the unit's batch flag and the responses of its tasks (as they are at the end
   of the trace: they never change once the unit is complete), in the order of the deliver windows *)
Theorem c01_output_history c tr s oss : run (init_of c) tr = Some (s, oss) ->
  unit_sends tr oss = map (fun u => (u, ubatch s u, responses (unit_tasks s u))) (delivered tr) /\
  NoDup (delivered tr) /\
  (forall u, In u (delivered tr) <-> ufin s u = true /\ responses (unit_tasks s u) <> []).
Proof.
  intros H. split; [|split].
  - eapply unit_sends_from; eauto. apply reach_init.
  - apply delivered_nodup. intros u. eapply c01_deliver_once; eauto.
  - intros u. split.
    + eapply delivered_nonsilent; eauto. apply reach_init.
    + intros [F Ns]. apply delivered_count.
      destruct (c01_delivered_iff_nonsilent c tr s oss u H F) as [A _]. rewrite (A Ns). lia.
Qed.

Example c01_output_history_nonvacuous :
  let tr := ex_tr_batch ++ [LRelDeliver 0] in
  run (init_of ex_cfg) tr <> None /\ delivered tr = [0] /\ ufin (st_of ex_cfg tr) 0 = true /\
  unit_sends tr (obs_of ex_cfg tr) =
    [(0, true, [{| r_id := [49%N]; r_body := BRes [52%N] |}; {| r_id := [50%N]; r_body := BRes [51%N] |}])].
Proof. vm_compute. repeat split; auto. discriminate. Qed.

(* a silent unit (one notification) finishes without any deliver window *)
Example c01_silent_finished_nonvacuous :
  let tr := ex_tr_note ++ [LRelHandled 0] in
  run (init_of ex_cfg) tr <> None /\ ufin (st_of ex_cfg tr) 0 = true /\ responses (unit_tasks (st_of ex_cfg tr) 0) = [] /\
  delivered tr = [] /\ unit_sends tr (obs_of ex_cfg tr) = [].
Proof. vm_compute. repeat split; auto. discriminate. Qed.
