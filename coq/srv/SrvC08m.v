(* SrvC08m: C08.7 no livelock.  A measure [mu_rel] of the state that every window of a release label strictly
   decreases: from any reachable state every sequence of release labels (goroutines of the server passing their
   scheduling points, with no action of the environment in between) has at most [mu_rel s] members.  With
   c08_terminates this turns "at quiescence" into "eventually": the parked goroutines run out of steps. *)
From Coq Require Import List NArith ZArith Bool Arith Lia.
From RecordUpdate Require Import RecordUpdate.
From JV Require Import Bytes Msg SrvModel SrvLemmas SrvBasics SrvC01 SrvC07 SrvC09 SrvC10 SrvC08 SrvC08b SrvC08c SrvC08q SrvC08x.
Import ListNotations.

(** * weighted sums *)
Fixpoint wsum {A} (w : A -> nat) (l : list A) : nat := match l with [] => 0 | x :: r => w x + wsum w r end.

Lemma wsum_app {A} (w : A -> nat) l r : wsum w (l ++ r) = wsum w l + wsum w r.
Proof. induction l as [|x l IH]; cbn; auto. rewrite IH. lia. Qed.

Lemma wsum_upd_nth {A} (w : A -> nat) n f l x : nth_error l n = Some x ->
  wsum w (upd_nth n f l) + w x = wsum w l + w (f x).
Proof.
  revert n; induction l as [|y r IH]; intros [|n]; cbn; try discriminate.
  - intros [= ->]. lia.
  - intros H. specialize (IH _ H). lia.
Qed.

Lemma wsum_le_nth {A} (w : A -> nat) : forall l l', length l' = length l ->
  (forall j x, nth_error l j = Some x -> exists x', nth_error l' j = Some x' /\ w x' <= w x) -> wsum w l' <= wsum w l.
Proof.
  induction l as [|x r IH]; intros [|x' r'] L H; cbn in *; try discriminate; auto.
  destruct (H 0 x eq_refl) as (y & Ey & Fy). cbn in Ey. injection Ey as <-.
  assert (wsum w r' <= wsum w r); [|lia]. apply IH; [lia|]. intros j z E. apply (H (S j)); auto.
Qed.

Lemma wsum_lt_nth {A} (w : A -> nat) : forall l l' k x x', length l' = length l ->
  (forall j y, nth_error l j = Some y -> exists y', nth_error l' j = Some y' /\ w y' <= w y) ->
  nth_error l k = Some x -> nth_error l' k = Some x' -> w x' < w x -> wsum w l' < wsum w l.
Proof.
  induction l as [|a r IH]; intros [|a' r'] k x x' L H Ek Ek' Lt; cbn in *; try discriminate.
  - destruct k; discriminate.
  - destruct k as [|k].
    + cbn in Ek, Ek'. injection Ek as ->. injection Ek' as ->.
      assert (wsum w r' <= wsum w r); [|lia]. apply wsum_le_nth; [lia|]. intros j z E. apply (H (S j)); auto.
    + destruct (H 0 a eq_refl) as (y & Ey & Fy). cbn in Ey. injection Ey as <-.
      assert (wsum w r' < wsum w r); [|lia]. apply (IH r' k x x'); auto; try lia. intros j z E. apply (H (S j)); auto.
Qed.

Lemma wsum_map_same {A} (w : A -> nat) (f : A -> A) l : (forall x, w (f x) = w x) -> wsum w (map f l) = wsum w l.
Proof. intros H. induction l as [|x l IH]; cbn; try rewrite H, IH; auto. Qed.

Lemma wsum_filter_le {A} (w : A -> nat) p l : wsum w (filter p l) <= wsum w l.
Proof. induction l as [|x l IH]; cbn; auto. destruct (p x); cbn; lia. Qed.

(** * the weights *)
(* a task: the scheduling points its goroutine may still pass (before sem.Acquire, after the handler) *)
Definition tw (t : task) : nat :=
  match t_st t with TAtAcquire => 2 | TWaiting | TRunning | TAtHandled _ => 1 | TDone _ | TSkip => 0 end.
(* a dispatch unit: its delivery *)
Definition uw (u : unit_) : nat := match u_st u with UFinished => 0 | _ => 1 end.
(* a callback: its watcher's scheduling point *)
Definition cw (c : cb) : nat := match cb_watch c with WDone => 0 | _ => 1 end.
(* a pending API operation: its critical section; a Callback also starts a watcher *)
Definition ow (o : op) : nat := match o with OpPush _ _ _ _ => 2 | _ => 1 end.
(* a queued record: dispatcher (next, barrier) + its unit + two points per member; never less than a kept member *)
Definition ew (bm : bool * list jmsg) : nat := 5 * Nat.max 1 (length (snd bm)).
(* a record the reader has or will receive: its critical section, and what it may queue *)
Definition fw (f : feed) : nat :=
  match f with
  | FMsg (InMsgs _ ms) | FMsgEOF (InMsgs _ ms) => 1 + 5 * Nat.max 1 (length ms)
  | _ => 1
  end.
Definition rdw (r : rdpc) : nat := match r with RHold f => fw f | _ => 0 end.
Definition dpw (d : dppc) : nat := match d with DAtNext => 1 | DAtBarrier _ => 2 | DBarrierWait _ => 1 | _ => 0 end.

#[local] Arguments ew : simpl never.
#[local] Arguments fw : simpl never.
#[local] Arguments Nat.mul : simpl never.
#[local] Arguments Nat.max : simpl never.

Definition mu_tasks (s : state) : nat := wsum tw (tasks s).
Definition mu_rest (s : state) : nat :=
  rdw (rd s) + wsum fw (ch_in s) + dpw (dp s) + wsum ew (inq s) + wsum uw (units s) + wsum cw (cbs s) +
  wsum ow (ops s) + (if running s then 2 else 0).
Definition mu_rel (s : state) : nat := mu_tasks s + mu_rest s.

Lemma mu_rest_nontask s s' : nontask s' = nontask s -> mu_rest s' = mu_rest s.
Proof. intros H. change (mu_rest (nontask s') = mu_rest (nontask s)). rewrite H. reflexivity. Qed.

(** * monotonicity of the weights along the orders of SrvBasics *)
Lemma task_le_tw t t' : task_le t t' -> tw t' <= tw t.
Proof.
  intros [_ _ _ _ _ _ _ _ (Rk & Sk & Dn & _)]. unfold tw.
  destruct (t_st t) eqn:A; destruct (t_st t') eqn:B; cbn in Rk; try lia.
  all: try (destruct Sk as [Sk1 Sk2]; try (specialize (Sk1 eq_refl); discriminate); try (specialize (Sk2 eq_refl); discriminate)).
Qed.

Lemma unit_le_uw u u' : unit_le u u' -> uw u' <= uw u.
Proof. intros [_ _ _ Rk]. unfold uw. destruct (u_st u), (u_st u'); cbn in Rk; lia. Qed.

Lemma tasks_ext_tw ts ts' : tasks_ext ts ts' -> length ts' = length ts -> wsum tw ts' <= wsum tw ts.
Proof.
  intros X L. apply wsum_le_nth; auto. intros j x E. destruct (X _ _ E) as (x' & E' & Le). exists x'. split; auto.
  apply task_le_tw; auto.
Qed.

Lemma units_ext_uw us us' : units_ext us us' -> length us' = length us -> wsum uw us' <= wsum uw us.
Proof.
  intros X L. apply wsum_le_nth; auto. intros j x E. destruct (X _ _ E) as (x' & E' & Le). exists x'. split; auto.
  apply unit_le_uw; auto.
Qed.

(** * the helpers *)
Lemma cancel_task_mu k s : mu_rel (cancel_task k s) <= mu_rel s.
Proof.
  unfold mu_rel. rewrite (mu_rest_nontask _ _ (nontask_cancel k s)).
  assert (mu_tasks (cancel_task k s) <= mu_tasks s); [|lia].
  apply tasks_ext_tw; [apply cancel_task_ext|apply cancel_task_len].
Qed.

Lemma fold_cancel_mu (l : list (bytes * nat)) s : mu_rel (fold_left (fun st p => cancel_task (snd p) st) l s) <= mu_rel s.
Proof.
  unfold mu_rel. rewrite (mu_rest_nontask _ _ (nontask_fold l s)).
  destruct (fold_cancel_spec l s) as (_ & X & L & _).
  assert (mu_tasks (fold_left (fun st p => cancel_task (snd p) st) l s) <= mu_tasks s); [|lia].
  apply tasks_ext_tw; auto.
Qed.

Lemma grant_mu fuel s acc : wait_ok s -> mu_rel (fst (grant fuel s acc)) <= mu_rel s.
Proof.
  intros W. unfold mu_rel. rewrite (mu_rest_nontask _ _ (nontask_grant fuel s acc)).
  destruct (grant_spec fuel s acc W) as [_ X L _ _ _ _ _].
  assert (mu_tasks (fst (grant fuel s acc)) <= mu_tasks s); [|lia].
  apply tasks_ext_tw; auto.
Qed.

Lemma release_ids_mu ts s : mu_rel (release_ids ts s) <= mu_rel s.
Proof.
  unfold mu_rel. rewrite (mu_rest_nontask _ _ (nontask_release ts s)).
  destruct (release_ids_spec ts s) as [_ X L _ _ _ _].
  assert (mu_tasks (release_ids ts s) <= mu_tasks s); [|lia].
  apply tasks_ext_tw; auto.
Qed.

Lemma stop_queue_ew q : wsum ew (stop_queue q) <= wsum ew q.
Proof.
  induction q as [|[b ms] q IH]; [cbn; lia|]. rewrite stop_queue_cons, wsum_app. cbn [wsum].
  assert (K : wsum ew (map (fun m => (b, [m])) (filter keep_note ms)) <= ew (b, ms)); [|lia].
  unfold ew at 2. cbn [snd].
  assert (G : forall l : list jmsg, wsum ew (map (fun m => (b, [m])) l) = 5 * length l).
  { induction l as [|m l IHl]; cbn; auto. rewrite IHl. unfold ew. cbn. lia. }
  rewrite G. assert (length (filter keep_note ms) <= length ms) by (clear; induction ms as [|x l IH]; cbn; [lia|destruct (keep_note x); cbn; lia]). lia.
Qed.

Lemma stop_cb_cw cl c : cw (stop_cb cl c) = cw c.
Proof. unfold stop_cb, cw. destruct (assoc (cb_id c) cl); auto. cbn. destruct (cb_watch c); reflexivity. Qed.

(* stopLocked releases the two units the running server holds for it, and may hand the reader the closing error *)
Lemma stop_locked_mu k s s' os : stop_locked k s = (s', os) ->
  mu_rel s' <= mu_rel s /\ (running s = true -> mu_rel s' + 1 <= mu_rel s).
Proof.
  intros H. destruct (running s) eqn:Rn.
  2:{ rewrite stop_idempotent in H; auto. injection H as <- _. split; [lia|discriminate]. }
  pose proof H as H2. apply stop_locked_run in H as [_ P]; auto.
  apply SrvC09.stop_locked_spec in H2 as [(Z & _)|(_ & _ & _ & _ & _ & _ & _ & _ & _ & _ & _ & Cb)]; [congruence|].
  assert (T : wsum tw (tasks s') <= wsum tw (tasks s)).
  { apply wsum_le_nth; [apply (sr_len _ _ _ P)|]. intros j x E. rewrite (sr_tasks _ _ _ P _ _ E).
    eexists; split; [reflexivity|]. destruct (owner_in (used s) j); auto. apply task_le_tw, cancel_fn_le. }
  assert (Q : wsum ew (inq s') <= wsum ew (inq s)) by (rewrite (sr_inq _ _ _ P); apply stop_queue_ew).
  assert (Ch : wsum fw (ch_in s') <= wsum fw (ch_in s) + 1).
  { rewrite (sr_chin _ _ _ P). destruct (c_unblock s); [rewrite wsum_app; cbn; change (fw (FErr SCClosing)) with 1; lia|lia]. }
  assert (C : wsum cw (cbs s') = wsum cw (cbs s)) by (rewrite Cb; apply wsum_map_same; intros; apply stop_cb_cw).
  assert (E : mu_rel s' + 1 <= mu_rel s).
  { unfold mu_rel, mu_tasks, mu_rest. rewrite (sr_rd _ _ _ P), (sr_dp _ _ _ P), (sr_units _ _ _ P), (sr_ops _ _ _ P),
      (sr_running _ _ _ P), Rn, C. lia. }
  split; [lia|auto].
Qed.

(* completing a callback wakes its watcher: the watcher's weight does not change *)
Lemma complete_cb_mu i r s : mu_rel (fst (complete_cb i r s)) = mu_rel s.
Proof.
  unfold complete_cb. destruct (nth_error (cbs s) i) as [c|] eqn:N; cbn [fst]; auto.
  unfold mu_rel, mu_tasks, mu_rest. cbn.
  pose proof (wsum_upd_nth cw i (fun c => wake_watch (c <| cb_slot := Some r |>)) (cbs s) c N) as U.
  assert (Z : cw (wake_watch (c <| cb_slot := Some r |>)) = cw c).
  { unfold cw. cbn. destruct (cb_watch c); reflexivity. }
  cbv beta in U. rewrite Z in U. lia.
Qed.

Lemma filter_batch_mu : forall ms s keep acc s' keep' acc', filter_batch ms s keep acc = (s', keep', acc') ->
  mu_rel s' = mu_rel s /\ length keep' <= length keep + length ms.
Proof.
  induction ms as [|m r IH]; intros s keep acc s' keep' acc' E; cbn [filter_batch] in E.
  - injection E as <- <- _. rewrite rev_length. cbn. split; lia.
  - destruct (is_req_or_notif m).
    { destruct (IH _ _ _ _ _ _ E) as [A B]. cbn in *. split; auto. lia. }
    destruct (assoc (fix_id (j_id m)) (calls s)) as [i|] eqn:A.
    2:{ destruct (c_push s && is_nil (j_method m) && has_reply_fields m);
          destruct (IH _ _ _ _ _ _ E) as [A1 B1]; cbn in *; split; auto; lia. }
    match type of E with context [complete_cb ?i ?v ?s] =>
      pose proof (complete_cb_mu i v s) as P; destruct (complete_cb i v s) as [s1 os1] end.
    cbn [fst] in P. destruct (IH _ _ _ _ _ _ E) as [A1 B1]. cbn in *. split; [congruence|lia].
Qed.

Lemma mk_tasks_tw s u ids ms : wsum tw (map (mk_task s u ids) ms) <= 2 * length ms.
Proof.
  induction ms as [|m r IH]; cbn [map wsum length]; [lia|].
  assert (tw (mk_task s u ids m) <= 2); [|lia].
  destruct (mk_task_st s u ids m) as [(A & _)|(A & _)]; unfold tw; rewrite A; lia.
Qed.

(* the dispatcher's nextRequest: one step of the dispatcher; a queued record pays for the unit and tasks it becomes *)
Lemma dequeue_mu s : mu_rel (dequeue s) + dpw (dp s) <= mu_rel s.
Proof.
  unfold dequeue. destruct (inq s) as [|[b ms] q] eqn:Q.
  - destruct (running s) eqn:Rn; unfold mu_rel, mu_tasks, mu_rest; cbn; rewrite ?Q, ?Rn; cbn; lia.
  - unfold mu_rel, mu_tasks, mu_rest. cbn. rewrite Q, !wsum_app. cbn.
    pose proof (mk_tasks_tw s (length (units s)) (map (fun m => fix_id (j_id m)) ms) ms) as T.
    unfold ew. cbn [snd]. destruct (dp s); cbn; lia.
Qed.

Lemma del_op_ow n l o : find_op n l = Some o -> wsum ow (del_op n l) + ow o <= wsum ow l.
Proof.
  unfold find_op, del_op. induction l as [|x l IH]; cbn; [discriminate|].
  destruct (op_num x =? n) eqn:E; cbn.
  - intros [= ->]. pose proof (wsum_filter_le ow (fun o0 => negb (op_num o0 =? n)) l). lia.
  - intros H. specialize (IH H). lia.
Qed.

Lemma fw_pos f : 1 <= fw f.
Proof. unfold fw. destruct f as [[|b ms]|[|b ms]|c]; lia. Qed.

(* the reader's critical section consumes the record it holds *)
Lemma read_cs_mu f s s' os : rd s = RHold f -> read_cs f s = (s', os) -> mu_rel s' < mu_rel s.
Proof.
  intros Rd H. pose proof (fw_pos f) as Fp.
  assert (Base : forall s0, mu_rel s0 <= mu_rel s -> rd s0 = rd s -> forall r w, rdw r = 0 ->
            mu_rel (s0 <| rd := r |> <| wg := w |>) < mu_rel s /\ mu_rel (s0 <| rd := r |>) < mu_rel s).
  { intros s0 Le R0 r w Zr. unfold mu_rel, mu_tasks, mu_rest in *. cbn. rewrite R0, Rd in Le. cbn in Le. rewrite Zr, Rd. cbn [rdw]. lia. }
  assert (Msg : forall i, f = FMsg i \/ f = FMsgEOF i ->
     (if negb (running s) then (s <| rd := RExited |> <| wg ::= pred |>, [])
           else match i with
           | InBad => let '(s', os) := push_error s ParseError s_invalid_value in (s' <| rd := RIdle |>, os)
           | InMsgs _ [] => let '(s', os) := push_error s InvalidRequest s_empty_batch in (s' <| rd := RIdle |>, os)
           | InMsgs b ms =>
               let '(s1, keep, os) := filter_batch ms s [] [] in
               match keep with
               | [] => (s1 <| rd := RIdle |>, os)
               | _ => let s2 := s1 <| inq ::= fun q => q ++ [(b, keep)] |> <| rd := RIdle |> in
                      if work_closed s2 && (length (inq s2) =? 1)
                      then (s2 <| crash := Some CrSendOnClosedWork |>, os ++ [OCrash CrSendOnClosedWork])
                      else (s2, os)
               end
           end) = (s', os) -> mu_rel s' < mu_rel s).
  { intros i Hf H'. destruct (negb (running s)).
    { injection H' as <- _. exact (proj1 (Base s (le_n _) eq_refl RExited (pred (wg s)) eq_refl)). }
    destruct i as [|b ms]; [cbn in H'; injection H' as <- _; exact (proj2 (Base s (le_n _) eq_refl RIdle 0 eq_refl))|].
    destruct ms as [|m ms]; [cbn in H'; injection H' as <- _; exact (proj2 (Base s (le_n _) eq_refl RIdle 0 eq_refl))|].
    pose proof (filter_batch_sbc (m :: ms) s [] []) as Sb.
    destruct (filter_batch (m :: ms) s [] []) as [[s1 keep] os1] eqn:F. cbn [fst] in Sb.
    destruct (filter_batch_mu _ _ _ _ _ _ _ F) as [Mu Lk]. cbn [length] in Lk.
    assert (R1 : rd s1 = rd s) by (apply sbc_fields in Sb; apply Sb).
    destruct keep as [|k0 kr]; [injection H' as <- _; assert (Le1 : mu_rel s1 <= mu_rel s) by lia; exact (proj2 (Base s1 Le1 R1 RIdle 0 eq_refl))|]. cbv zeta in H'.
    assert (G : mu_rel (s1 <| inq ::= fun q => q ++ [(b, k0 :: kr)] |> <| rd := RIdle |>) < mu_rel s).
    { unfold mu_rel, mu_tasks, mu_rest in *. cbn. rewrite wsum_app. cbn. rewrite R1, Rd in Mu. cbn in Mu.
      assert (E : fw f = 1 + 5 * Nat.max 1 (length (m :: ms))) by (destruct Hf as [-> | ->]; reflexivity).
      change (ew (b, k0 :: kr)) with (5 * Nat.max 1 (S (length kr))). rewrite Rd. cbn [rdw]. cbn [length] in *. lia. }
    match type of H' with (if ?c then _ else _) = _ => destruct c end; injection H' as <- _; exact G. }
  destruct f as [i|i|k].
  - apply (Msg i); auto.
  - apply (Msg i); auto.
  - cbn in H. destruct (stop_locked k s) as [s0 os0] eqn:St. injection H as <- _.
    destruct (stop_locked_mu _ _ _ _ St) as [Le _].
    assert (R0 : rd s0 = rd s).
    { destruct (running s) eqn:Rn.
      - apply stop_locked_run in St as [_ P]; auto. apply (sr_rd _ _ _ P).
      - rewrite stop_idempotent in St; auto. injection St as <- _. reflexivity. }
    exact (proj1 (Base s0 Le R0 RExited (pred (wg s0)) eq_refl)).
Qed.

Lemma set_task_mu k f s s1 t : nth_error (tasks s) k = Some t -> tasks s1 = upd_nth k f (tasks s) ->
  mu_rest s1 = mu_rest s -> mu_rel s1 + tw t = mu_rel s + tw (f t).
Proof.
  intros E T M. unfold mu_rel, mu_tasks. rewrite T, M. pose proof (wsum_upd_nth tw k f (tasks s) t E). lia.
Qed.

Definition is_rel (l : label) : bool :=
  match l with
  | LRelRead | LRelNext | LRelBarrier | LRelAcquire _ | LRelHandled _ | LRelDeliver _
  | LRelStop _ | LRelCancel _ | LRelPush _ | LRelCbWatch _ => true
  | _ => false
  end.

(** * every critical section of a parked goroutine strictly decreases the measure *)
Lemma raw_rel_mu c s l s' os : reachf c s -> crash s = None -> is_rel l = true -> step_raw s l = Some (s', os) ->
  mu_rel s' < mu_rel s.
Proof.
  intros R Cr Il H. pose proof (reachf_inv _ _ R) as I. pose proof (raw_no_crash _ _ _ _ _ R Cr H) as Cr'.
  destruct l; try discriminate Il; unfold step_raw in H.
  - (* LRelRead *)
    destruct (rd s) as [| |f|] eqn:Rd; try discriminate. injection H as H. eapply read_cs_mu; eauto.
  - (* LRelNext *)
    destruct (dp s) eqn:D; try discriminate. injection H as <- _. pose proof (dequeue_mu s) as Q. rewrite D in Q. cbn in Q. lia.
  - (* LRelBarrier *)
    destruct (dp s) eqn:D; try discriminate. injection H as <- _. unfold mu_rel, mu_tasks, mu_rest. cbn. rewrite D. cbn. lia.
  - (* LRelAcquire *)
    destruct (nth_error (tasks s) k) as [t|] eqn:E; [|discriminate].
    destruct (t_st t) eqn:St; try discriminate.
    destruct (negb (unit_running s t)); [discriminate|].
    assert (U : forall x, tw (t <| t_st := x |>) <= 1 ->
              forall s1, tasks s1 = upd_nth k (fun t => t <| t_st := x |>) (tasks s) -> mu_rest s1 = mu_rest s ->
              mu_rel s1 < mu_rel s).
    { intros x Hx s1 T1 M1. unfold mu_rel, mu_tasks. rewrite T1, M1.
      pose proof (wsum_upd_nth tw k (fun t => t <| t_st := x |>) (tasks s) t E) as W.
      assert (tw t = 2) by (unfold tw; rewrite St; reflexivity). cbv beta in W. lia. }
    destruct (t_cancelled t); [injection H as <- _; apply (U (TDone (Some cancel_err))); auto; reflexivity|].
    destruct (sem_free s) as [|fr]; [injection H as <- _; apply (U TWaiting); auto; reflexivity|].
    destruct (sem_wait s); [|injection H as <- _; apply (U TWaiting); auto; reflexivity].
    destruct (t_builtin t); injection H as <- _; [apply (U (TAtHandled (ORes [])))|apply (U TRunning)]; auto; reflexivity.
  - (* LRelHandled *)
    destruct (nth_error (tasks s) k) as [t|] eqn:E; [|discriminate].
    destruct (t_st t) eqn:St; try discriminate.
    set (s1 := set_task k (fun t => t <| t_st := TDone (body_of_outcome t o) |>) s <| sem_free ::= S |>) in *.
    assert (W1 : wait_ok s1).
    { unfold wait_ok, s1; cbn. apply wait_ok_upd; [apply I|]. eapply wait_not_in; eauto; [apply I|congruence]. }
    assert (M1 : mu_rel s1 < mu_rel s).
    { pose proof (set_task_mu k (fun t0 => t0 <| t_st := TDone (body_of_outcome t0 o) |>) s s1 t E eq_refl eq_refl) as W.
      assert (tw t = 1) by (unfold tw; rewrite St; reflexivity). cbv beta in W.
      assert (tw (t <| t_st := TDone (body_of_outcome t o) |>) = 0) by reflexivity. lia. }
    pose proof (grant_mu (S (length (sem_wait s1))) s1 [] W1) as G.
    destruct (grant (S (length (sem_wait s1))) s1 []) as [s2 os2]. cbn [fst] in G.
    assert (F : mu_rel s' = mu_rel s2).
    { destruct (is_note t); [destruct (nbar s2)|]; injection H as <- _; reflexivity. }
    lia.
  - (* LRelDeliver *)
    destruct (nth_error (units s) u) as [un|] eqn:E; [|discriminate].
    destruct (u_st un) eqn:Su; try discriminate.
    pose proof (release_ids_mu (unit_tasks s u) s) as Rm.
    pose proof (nontask_release (unit_tasks s u) s) as Nt. apply nontask_fields in Nt.
    assert (Eu : units (release_ids (unit_tasks s u) s) = units s) by apply Nt.
    destruct (u_chok un); cbn in H; injection H as <- _; [|cbn in Cr'; discriminate].
    set (s1 := release_ids (unit_tasks s u) s) in *.
    assert (mu_rel (set_unit u (fun x => x <| u_st := UFinished |>) s1 <| wg ::= pred |>) + 1 = mu_rel s1); [|lia].
    unfold mu_rel, mu_tasks, mu_rest. cbn. rewrite <- Eu in E.
    pose proof (wsum_upd_nth uw u (fun x => x <| u_st := UFinished |>) (units s1) un E) as W.
    assert (uw un = 1) by (unfold uw; rewrite Su; reflexivity).
    assert (uw (un <| u_st := UFinished |>) = 0) by reflexivity. cbv beta in W. lia.
  - (* LRelStop *)
    destruct (find_op n (ops s)) as [[n0|n0 id|n0 w m p]|] eqn:F; try discriminate.
    destruct (stop_locked SCStop (s <| ops ::= del_op n |>)) as [s0 os0] eqn:St. injection H as <- _.
    destruct (stop_locked_mu _ _ _ _ St) as [Le _].
    pose proof (del_op_ow _ _ _ F) as D. cbn [ow] in D.
    assert (mu_rel (s <| ops ::= del_op n |>) + 1 <= mu_rel s); [|lia].
    unfold mu_rel, mu_tasks, mu_rest. cbn. lia.
  - (* LRelCancel *)
    destruct (find_op n (ops s)) as [[n0|n0 id|n0 w m p]|] eqn:F; try discriminate.
    injection H as <- _. pose proof (del_op_ow _ _ _ F) as D. cbn [ow] in D.
    assert (M0 : mu_rel (s <| ops ::= del_op n |>) + 1 <= mu_rel s).
    { unfold mu_rel, mu_tasks, mu_rest. cbn. lia. }
    match goal with |- context [assoc ?a ?b] => destruct (assoc a b) as [owner|] end; [|lia].
    pose proof (cancel_task_mu owner (s <| ops ::= del_op n |>)). lia.
  - (* LRelPush *)
    destruct (find_op n (ops s)) as [[n0|n0 id|n0 w m p]|] eqn:F; try discriminate.
    pose proof (del_op_ow _ _ _ F) as D. cbn [ow] in D.
    cbn in H. destruct (running s) eqn:Rn; cbn in H.
    2:{ injection H as <- _. unfold mu_rel, mu_tasks, mu_rest. cbn. rewrite Rn. lia. }
    destruct w.
    + destruct (send_fail s).
      * injection H as <- _. unfold mu_rel, mu_tasks, mu_rest. cbn. rewrite Rn, wsum_app. cbn. lia.
      * injection H as <- _. unfold mu_rel, mu_tasks, mu_rest. cbn. rewrite Rn, wsum_app.
        destruct (find _ (ended s)) as [[? ?]|]; cbn; lia.
    + injection H as <- _. unfold mu_rel, mu_tasks, mu_rest. cbn. rewrite Rn. lia.
  - (* LRelCbWatch *)
    rename c0 into i.
    destruct (nth_error (cbs s) i) as [cb0|] eqn:N; [|discriminate].
    destruct (cb_watch cb0) eqn:W; try discriminate.
    set (s1 := s <| cbs ::= upd_nth i (fun c => c <| cb_watch := WDone |>) |>) in *.
    assert (M1 : mu_rel s1 + 1 = mu_rel s).
    { unfold mu_rel, mu_tasks, mu_rest, s1. cbn.
      pose proof (wsum_upd_nth cw i (fun c => c <| cb_watch := WDone |>) (cbs s) cb0 N) as U.
      assert (cw cb0 = 1) by (unfold cw; rewrite W; reflexivity).
      assert (cw (cb0 <| cb_watch := WDone |>) = 0) by reflexivity. cbv beta in U. lia. }
    destruct (assoc (cb_id cb0) (calls s1)) as [j|]; [|injection H as <- _; lia].
    destruct (cb_slot cb0); [injection H as <- _; lia|].
    destruct (j =? i); [|injection H as <- _; lia].
    assert (E : exists v, complete_cb i v s1 = (s', os)).
    { destruct (cb_ctx cb0) as [[|]|]; injection H as H; eauto. }
    destruct E as (v & E). pose proof (complete_cb_mu i v s1) as Cm. rewrite E in Cm. cbn [fst] in Cm. lia.
Qed.

(* wake-ups never increase it *)
Lemma settle1_mu_rel s s' os : inv s -> settle1 s = Some (s', os) -> mu_rel s' <= mu_rel s.
Proof.
  intros I H. apply settle1_inv in H.
  destruct H as [f q Rd Q | D _ | u un D _ Eu | i un F E _ | i un F E _ | W _ Q | W _ Q].
  - unfold mu_rel, mu_tasks, mu_rest. cbn. rewrite Rd, Q. cbn. lia.
  - pose proof (dequeue_mu s). lia.
  - destruct (i_dp _ I u (or_intror D)) as (un' & E' & S'). rewrite Eu in E'. injection E' as <-.
    unfold mu_rel, mu_tasks, mu_rest. cbn. rewrite D. cbn.
    pose proof (wsum_upd_nth uw u (fun x => x <| u_st := URunning |>) (units s) un Eu) as U.
    assert (uw un = 1) by (unfold uw; rewrite S'; reflexivity).
    assert (uw (un <| u_st := URunning |>) = 1) by reflexivity. cbv beta in U. lia.
  - unfold mu_rel, mu_tasks, mu_rest. cbn.
    pose proof (wsum_upd_nth uw i (fun x => x <| u_st := UFinished |>) (units s) un E) as U.
    assert (uw (un <| u_st := UFinished |>) = 0) by reflexivity. cbv beta in U. lia.
  - apply find_unit_some in F as (un' & E' & C & _). rewrite Nat.sub_0_r, E in E'. injection E' as <-.
    apply unit_complete_inv in C as [Su _].
    unfold mu_rel, mu_tasks, mu_rest. cbn.
    pose proof (wsum_upd_nth uw i (fun x => x <| u_st := UAtDeliver |>) (units s) un E) as U.
    assert (uw un = 1) by (unfold uw; rewrite Su; reflexivity).
    assert (uw (un <| u_st := UAtDeliver |>) = 1) by reflexivity. cbv beta in U. lia.
  - unfold mu_rel, mu_tasks, mu_rest. cbn. lia.
  - unfold mu_rel, mu_tasks, mu_rest. cbn. lia.
Qed.

Lemma settle_mu_rel c : forall fuel s acc s' os, reachf c s -> settle fuel s acc = (s', os) -> mu_rel s' <= mu_rel s.
Proof.
  induction fuel as [|n IH]; cbn; intros s acc s' os R H.
  - injection H as <- _. lia.
  - destruct (settle1 s) as [[s1 os1]|] eqn:E; [|injection H as <- _; lia].
    pose proof (settle1_mu_rel _ _ _ (reachf_inv _ _ R) E). pose proof (IH _ _ _ _ (rf_settle _ _ _ _ R E) H). lia.
Qed.

(** * C08.7 no livelock *)
Theorem rel_step_decreases c s l s' os : reach c s -> is_rel l = true -> step s l = Some (s', os) ->
  mu_rel s' < mu_rel s.
Proof.
  intros R Il H. pose proof (reach_reachf _ _ R) as Rf.
  apply step_decompose in H as (Cr & s1 & os1 & Hr & Hs).
  pose proof (raw_rel_mu _ _ _ _ _ Rf Cr Il Hr) as M1.
  destruct Hs as [(_ & -> & _)|(_ & Hs)]; auto.
  pose proof (settle_mu_rel c _ _ _ _ _ (rf_raw _ _ _ _ _ Rf Cr Hr) Hs). lia.
Qed.

Theorem rel_bounded c : forall tr s s' oss, reach c s -> Forall (fun l => is_rel l = true) tr ->
  run s tr = Some (s', oss) -> length tr + mu_rel s' <= mu_rel s.
Proof.
  induction tr as [|l r IH]; cbn [run length]; intros s s' oss R F H.
  - injection H as <- _. lia.
  - destruct (step s l) as [[s1 os]|] eqn:E; [|discriminate].
    destruct (run s1 r) as [[s2 oss2]|] eqn:E2; [|discriminate]. injection H as <- _.
    inversion F as [|? ? Fl Fr]; subst.
    pose proof (rel_step_decreases _ _ _ _ _ R Fl E).
    pose proof (IH _ _ _ (reach_step _ _ _ _ _ R E) Fr E2). lia.
Qed.

(* hence: as long as the environment does nothing, the parked goroutines can take at most [mu_rel s] steps, after
   which the state is quiescent *)
Corollary rel_run_length c tr s s' oss : reach c s -> Forall (fun l => is_rel l = true) tr ->
  run s tr = Some (s', oss) -> length tr <= mu_rel s.
Proof. intros R F H. pose proof (rel_bounded c _ _ _ _ R F H). lia. Qed.

Lemma enabled_rel_is_rel s l : In l (enabled_rel s) -> is_rel l = true.
Proof.
  unfold enabled_rel. intros H. apply filter_In in H as [H _]. apply in_flat_map in H as (x & _ & H).
  destruct x; cbn in H.
  - destruct (rd s); try (destruct H; fail); destruct H as [<-|[]]; reflexivity.
  - destruct (dp s); try (destruct H; fail); destruct H as [<-|[]]; reflexivity.
  - destruct (dp s); try (destruct H; fail); destruct H as [<-|[]]; reflexivity.
  - apply in_map_iff in H as (k & <- & _). reflexivity.
  - apply in_map_iff in H as (k & <- & _). reflexivity.
  - apply in_map_iff in H as (k & <- & _). reflexivity.
  - apply in_flat_map in H as (o & _ & H). destruct o; try (destruct H; fail); destruct H as [<-|[]]; reflexivity.
  - apply in_flat_map in H as (o & _ & H). destruct o; try (destruct H; fail); destruct H as [<-|[]]; reflexivity.
  - apply in_flat_map in H as (o & _ & H). destruct o; try (destruct H; fail); destruct H as [<-|[]]; reflexivity.
  - apply in_map_iff in H as (k & <- & _). reflexivity.
Qed.

(* a schedule that always fires an enabled release label reaches a quiescent state within mu_rel s steps:
   any maximal run of enabled release labels is finite *)
Theorem rel_eventually_quiescent c s : reach c s ->
  forall n, mu_rel s <= n -> forall pick : state -> label,
    (forall x, quiescent x = false -> In (pick x) (enabled_rel x)) ->
    exists tr s' oss, run s tr = Some (s', oss) /\ Forall (fun l => is_rel l = true) tr /\ quiescent s' = true /\
      length tr <= mu_rel s.
Proof.
  intros R n. revert s R. induction n as [|n IH]; intros s R Le pick Hp.
  - destruct (quiescent s) eqn:Q.
    + exists [], s, []. cbn. repeat split; auto. lia.
    + exfalso. specialize (Hp _ Q). pose proof (enabled_rel_is_rel _ _ Hp) as Il.
      unfold enabled_rel in Hp. apply filter_In in Hp as [_ Hs].
      destruct (step s (pick s)) as [[s1 os]|] eqn:E; [|discriminate].
      pose proof (rel_step_decreases _ _ _ _ _ R Il E). lia.
  - destruct (quiescent s) eqn:Q.
    + exists [], s, []. cbn. repeat split; auto. lia.
    + pose proof (Hp _ Q) as Hin. pose proof (enabled_rel_is_rel _ _ Hin) as Il.
      unfold enabled_rel in Hin. apply filter_In in Hin as [_ Hs].
      destruct (step s (pick s)) as [[s1 os]|] eqn:E; [|discriminate].
      pose proof (rel_step_decreases _ _ _ _ _ R Il E) as D.
      destruct (IH s1 (reach_step _ _ _ _ _ R E)) with (pick := pick) as (tr & s' & oss & Hr & F & Q' & L); auto; [lia|].
      exists (pick s :: tr), s', (os :: oss). cbn [run]. rewrite E, Hr. repeat split; auto. cbn. lia.
Qed.

(* the scenario of SrvC08x: a call in flight (its handler has not returned) when Stop comes: 6 units of measure,
   2 releases to quiescence; a batch of two members just fed to a started server weighs 14 *)
Example rel_bounded_nonvacuous :
  exists s s' oss, reach ex_cfg s /\
    run s [LRelStop 1; LRelNext] = Some (s', oss) /\ mu_rel s = 6 /\ mu_rel s' = 2 /\ quiescent s' = true /\
    mu_rel (st_of ex_cfg [LStart; LFeed (FMsg x_batch)]) = 14.
Proof.
  exists (st_of ex_cfg tr_before_stop). eexists _, _. split; [reach_ex|].
  split; [vm_compute; reflexivity|]. repeat split; vm_compute; reflexivity.
Qed.

(* with c08_terminates: under any schedule of the parked goroutines the stopped server reaches, within mu_rel s
   steps, a quiescent state, and there - once the reader's Recv has returned and the handlers have returned - every
   goroutine has exited and every WaitStatus call has returned *)
Corollary eventually_terminates c s : reach c s -> forall pick : state -> label,
  (forall x, quiescent x = false -> In (pick x) (enabled_rel x)) ->
  exists tr s' oss, run s tr = Some (s', oss) /\ Forall (fun l => is_rel l = true) tr /\ length tr <= mu_rel s /\
    quiescent s' = true /\
    (running s' = false -> (rd s' = RExited \/ rd s' = RNone) ->
     (forall k t, nth_error (tasks s') k = Some t -> t_st t <> TRunning) -> 0 < cf_K c ->
     wg s' = 0 /\ waits s' = 0 /\ all_done s').
Proof.
  intros R pick Hp. destruct (rel_eventually_quiescent c s R (mu_rel s) (le_n _) pick Hp) as (tr & s' & oss & Hr & F & Q & L).
  exists tr, s', oss. split; [exact Hr|]. split; [exact F|]. split; [exact L|]. split; [exact Q|].
  intros Rn Hrd Hnr HK. apply (c08_terminates_q c s' (run_reach _ _ _ _ _ R Hr) Q Rn Hrd Hnr HK).
Qed.

Lemma mu_rel_spec s : mu_rel s =
  wsum tw (tasks s) +
  (rdw (rd s) + wsum fw (ch_in s) + dpw (dp s) + wsum ew (inq s) + wsum uw (units s) + wsum cw (cbs s) +
   wsum ow (ops s) + (if running s then 2 else 0)).
Proof. reflexivity. Qed.

Lemma weights_spec :
  (forall t, tw t = match t_st t with TAtAcquire => 2 | TWaiting | TRunning | TAtHandled _ => 1 | TDone _ | TSkip => 0 end) /\
  (forall u, uw u = match u_st u with UFinished => 0 | _ => 1 end) /\
  (forall c, cw c = match cb_watch c with WDone => 0 | _ => 1 end) /\
  (forall o, ow o = match o with OpPush _ _ _ _ => 2 | _ => 1 end) /\
  (forall bm, ew bm = 5 * Nat.max 1 (length (snd bm))) /\
  (forall f, fw f = match f with
                    | FMsg (InMsgs _ ms) | FMsgEOF (InMsgs _ ms) => 1 + 5 * Nat.max 1 (length ms)
                    | _ => 1
                    end) /\
  (forall r, rdw r = match r with RHold f => fw f | _ => 0 end) /\
  (forall d, dpw d = match d with DAtNext => 1 | DAtBarrier _ => 2 | DBarrierWait _ => 1 | _ => 0 end) /\
  (forall A (w : A -> nat) x r, wsum w (x :: r) = w x + wsum w r) /\ (forall A (w : A -> nat), wsum w [] = 0).
Proof. repeat split. Qed.

Lemma is_rel_spec l : is_rel l = true <->
  l = LRelRead \/ l = LRelNext \/ l = LRelBarrier \/ (exists k, l = LRelAcquire k) \/ (exists k, l = LRelHandled k) \/
  (exists u, l = LRelDeliver u) \/ (exists n, l = LRelStop n) \/ (exists n, l = LRelCancel n) \/
  (exists n, l = LRelPush n) \/ (exists i, l = LRelCbWatch i).
Proof.
  split.
  - destruct l; cbn; try discriminate; intros _; eauto 12.
  - intros [-> |[-> |[-> |[(k & ->)|[(k & ->)|[(k & ->)|[(k & ->)|[(k & ->)|[(k & ->)|(k & ->)]]]]]]]]]; reflexivity.
Qed.
