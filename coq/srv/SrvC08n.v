(* SrvC08n: C08.6 "every valid notification received before the stop has still been handed to its handler":
   the notifications queued at the stop are accounted for, one task each, in order, from the stop window to
   any later quiescent point (no Start in between) at which no handler is still running. *)
From Coq Require Import List NArith ZArith Bool Arith Lia.
From RecordUpdate Require Import RecordUpdate.
From JV Require Import Bytes Msg SrvModel SrvLemmas SrvBasics SrvC01 SrvC07 SrvC09 SrvC10 SrvC08 SrvC08b SrvC08c SrvC08q SrvC08r SrvC08x.
From JV Require SrvC06.
Import ListNotations.

(** * list helpers *)
Lemma map_ext_nth {A B} (f : A -> B) : forall (l l' : list A), length l' = length l ->
  (forall j x, nth_error l j = Some x -> exists x', nth_error l' j = Some x' /\ f x' = f x) -> map f l' = map f l.
Proof.
  induction l as [|x r IH]; intros [|x' r'] L H; cbn in *; try discriminate; auto.
  destruct (H 0 x eq_refl) as (y & Ey & Fy). cbn in Ey. injection Ey as <-. rewrite Fy. f_equal.
  apply IH; [lia|]. intros j z E. apply (H (S j)); auto.
Qed.

(** * what a task remembers of the request it was made from *)
Definition tdesc (t : task) : bytes * bytes * option (Z * bytes) * bool * bytes :=
  (t_method t, t_params t, t_pre t, t_builtin t, t_id t).
(* ... and what the task of a retained notification will look like (the server is stopped: nothing is reserved) *)
Definition mdesc (c : config) (m : jmsg) : bytes * bytes * option (Z * bytes) * bool * bytes :=
  match assign_method (init_of c) (j_method m) with
  | Some b => (j_method m, j_params m, None, b, [])
  | None => (j_method m, j_params m, Some err_not_found, false, [])
  end.
(* the tasks there are and the tasks there will be *)
Definition acct (c : config) (s : state) : list (bytes * bytes * option (Z * bytes) * bool * bytes) :=
  map tdesc (tasks s) ++ map (mdesc c) (concat (map snd (inq s))).

Lemma task_le_tdesc t t' : task_le t t' -> tdesc t' = tdesc t.
Proof. intros [_ Id M P Pr _ B _ _]. unfold tdesc. congruence. Qed.

Lemma tasks_ext_tdesc ts ts' : tasks_ext ts ts' -> length ts' = length ts -> map tdesc ts' = map tdesc ts.
Proof.
  intros X L. apply map_ext_nth; auto. intros j x E. destruct (X _ _ E) as (x' & E' & Le).
  exists x'. split; auto. apply task_le_tdesc; auto.
Qed.

Lemma assign_method_cfg a b m : c_builtin b = c_builtin a -> c_methods b = c_methods a ->
  assign_method b m = assign_method a m.
Proof. intros B M. unfold assign_method. rewrite B, M. reflexivity. Qed.

Lemma assign_method_const c s m : reachf c s -> assign_method s m = assign_method (init_of c) m.
Proof.
  intros R. pose proof (cfg_const _ _ R) as Cf. unfold cfgp in Cf. injection Cf as _ _ B M _.
  apply assign_method_cfg; auto.
Qed.

Lemma keep_note_fields m : keep_note m = true -> j_err m = None /\ fix_id (j_id m) = [] /\ j_method m <> [].
Proof.
  unfold keep_note, is_notification, is_req_or_notif. intros H.
  apply andb_true_iff in H as [H1 H2]. apply andb_true_iff in H1 as [H1 H3].
  apply andb_true_iff in H1 as [H1 _]. apply andb_true_iff in H1 as [H1 _].
  apply beq_eq in H3. destruct (j_err m) eqn:Je; [discriminate|]. repeat split; auto.
  intros Z. rewrite Z in H1. cbn in H1. discriminate.
Qed.

Lemma mk_task_keep c s u ids m : reachf c s -> keep_note m = true -> tdesc (mk_task s u ids m) = mdesc c m.
Proof.
  intros R K. destruct (keep_note_fields _ K) as (Je & Fi & Nm).
  unfold mk_task, pre_err, mdesc. rewrite Fi, Je. cbn [is_nil negb andb].
  destruct (j_method m) as [|x0 xs] eqn:Jm; [congruence|]. cbn [is_nil].
  rewrite <- (assign_method_const c s (x0 :: xs) R).
  destruct (assign_method s (x0 :: xs)); unfold tdesc; cbn; rewrite ?Jm; reflexivity.
Qed.

Lemma acct_dequeue c s : reachf c s -> kept_only (inq s) -> acct c (dequeue s) = acct c s.
Proof.
  intros R Q. unfold dequeue, acct. destruct (inq s) as [|[b ms] q] eqn:Eq.
  - destruct (running s); cbn; rewrite Eq; reflexivity.
  - cbn. inversion Q as [|x y (m & Em & Km) _]. subst. cbn in Em. subst ms.
    cbn. rewrite map_app, <- app_assoc. cbn. rewrite (mk_task_keep c); auto.
Qed.

Lemma acct_same c s s' : tasks_ext (tasks s) (tasks s') -> length (tasks s') = length (tasks s) -> inq s' = inq s ->
  acct c s' = acct c s.
Proof. intros X L Q. unfold acct. rewrite Q, (tasks_ext_tdesc _ _ X L). reflexivity. Qed.

(** * while the server is stopped the account does not change *)
Lemma acct_raw c s l s' os : reachf c s -> running s = false -> l <> LStart -> step_raw s l = Some (s', os) ->
  acct c s' = acct c s /\ running s' = false.
Proof.
  intros R Rn Nl H. pose proof (reachf_inv _ _ R) as I. pose proof (i8_c _ (reachf_inv8 _ _ R)) as Ic.
  destruct (raw_step_ok _ _ _ _ I H) as [_ [X _]].
  apply raw_ctl in H; auto.
  destruct H as [L Rn0 Wg -> | k s0 sx Sc Rn0 H0 P H1 | f L Rd Rn0 -> | f i L Rd Hf Rn0 S5 C0 Ri Wa Hq
                | L D -> | u L D -> | u un sx L E Su -> Hs | S5 Cp Wa Cr Ln].
  - congruence.
  - congruence.
  - split; auto.
  - congruence.
  - split; [apply acct_dequeue; auto; apply (ic_q _ Ic Rn)|].
    destruct (dequeue_nontask_like s) as ((A & _) & _). congruence.
  - split; auto.
  - pose proof (nontask_release (unit_tasks s u) s) as Nt. apply nontask_fields in Nt.
    destruct (release_ids_spec (unit_tasks s u) s) as [_ _ Lr _ _ _ _].
    assert (Q : inq (release_ids (unit_tasks s u) s) = inq s /\ running (release_ids (unit_tasks s u) s) = running s)
      by (split; apply Nt).
    destruct Q as [Q1 Q2].
    destruct Hs as [(_ & ->)|(_ & ->)]; (split; [apply acct_same; auto|cbn; congruence]).
  - unfold ctlp in Cp. injection Cp as _ Q _ _ _. destruct S5 as (A & _).
    split; [apply acct_same; auto|congruence].
Qed.

Lemma acct_settle1 c s s' os : reachf c s -> running s = false -> settle1 s = Some (s', os) ->
  acct c s' = acct c s /\ running s' = false.
Proof.
  intros R Rn H. pose proof (i8_c _ (reachf_inv8 _ _ R)) as Ic.
  pose proof (settle1_same5 _ _ _ H) as (A & _).
  split; [|congruence].
  apply settle1_inv in H. destruct H; try reflexivity.
  apply acct_dequeue; auto. apply (ic_q _ Ic Rn).
Qed.

Lemma acct_settle c : forall fuel s acc s' os, reachf c s -> running s = false -> settle fuel s acc = (s', os) ->
  acct c s' = acct c s /\ running s' = false.
Proof.
  induction fuel as [|f IH]; cbn; intros s acc s' os R Rn H.
  - injection H as <- _. auto.
  - destruct (settle1 s) as [[s1 os1]|] eqn:E; [|injection H as <- _; auto].
    destruct (acct_settle1 _ _ _ _ R Rn E) as [A1 R1].
    destruct (IH _ _ _ _ (rf_settle _ _ _ _ R E) R1 H) as [A2 R2]. split; congruence.
Qed.

Lemma acct_step c s l s' os : reachf c s -> running s = false -> l <> LStart -> step s l = Some (s', os) ->
  acct c s' = acct c s /\ running s' = false.
Proof.
  intros R Rn Nl H. apply step_decompose in H as (C & s1 & os1 & Hr & Hs).
  destruct (acct_raw _ _ _ _ _ R Rn Nl Hr) as [A1 R1].
  destruct Hs as [(_ & -> & _)|(_ & Hs)]; auto.
  destruct (acct_settle c _ _ _ _ _ (rf_raw _ _ _ _ _ R C Hr) R1 Hs) as [A2 R2]. split; congruence.
Qed.

Lemma acct_run c : forall tr s s' oss, reachf c s -> running s = false -> ~ In LStart tr -> run s tr = Some (s', oss) ->
  acct c s' = acct c s /\ running s' = false.
Proof.
  induction tr as [|l r IH]; cbn; intros s s' oss R Rn Ns H.
  - injection H as <- _. auto.
  - destruct (step s l) as [[s1 os]|] eqn:E; [|discriminate].
    destruct (run s1 r) as [[s2 oss2]|] eqn:E2; [|discriminate]. injection H as <- _.
    destruct (acct_step _ _ _ _ _ R Rn (fun Z => Ns (or_introl Z)) E) as [A1 R1].
    destruct (IH _ _ _ (step_reachf _ _ _ _ _ R E) R1 (fun Z => Ns (or_intror Z)) E2) as [A2 R2]. split; congruence.
Qed.

(* the stop window: the tasks are those there were, the queue is what the stop retains *)
Lemma acct_stop c s l s1 os : reach c s -> step s l = Some (s1, os) -> running s = true -> running s1 = false ->
  acct c s1 = map tdesc (tasks s) ++ map (mdesc c) (queue_notes (inq s)).
Proof.
  intros R H Rn Rn1. pose proof (reach_reachf _ _ R) as Rf. pose proof (reachf_inv _ _ Rf) as I.
  apply step_decompose in H as (C & sr & osr & Hr & Hs).
  assert (Rnr : running sr = false).
  { destruct Hs as [(_ & -> & _)|(_ & Hs)]; auto. destruct (settle_same5 _ _ _ _ _ Hs) as (A & _). congruence. }
  assert (Ar : acct c sr = map tdesc (tasks s) ++ map (mdesc c) (queue_notes (inq s))).
  { destruct (raw_step_ok _ _ _ _ I Hr) as [_ [X _]].
    destruct (stop_raw _ _ _ _ I Hr Rn Rnr) as (k0 & s0 & sx & _ & H0 & P & H1).
    assert (F0 : inq s0 = inq s /\ tasks s0 = tasks s) by (destruct H0 as [->|(n & ->)]; auto).
    destruct F0 as (F1 & F2).
    assert (F : inq sr = stop_queue (inq s) /\ length (tasks sr) = length (tasks s)).
    { destruct P. destruct H1 as [->|(_ & ->)]; cbn; split; congruence. }
    destruct F as (F3 & F4). unfold acct. rewrite F3, stop_queue_order, (tasks_ext_tdesc _ _ X F4). reflexivity. }
  destruct Hs as [(_ & -> & _)|(_ & Hs)]; auto.
  destruct (acct_settle c _ _ _ _ _ (rf_raw _ _ _ _ _ Rf C Hr) Rnr Hs) as [A2 _]. congruence.
Qed.

(** * a notification that is done has no result *)
Definition note_done (s : state) : Prop :=
  forall k t b, nth_error (tasks s) k = Some t -> is_note t = true -> t_st t = TDone b -> b = None.

Lemma dequeue_tasks s k t : nth_error (tasks (dequeue s)) k = Some t ->
  nth_error (tasks s) k = Some t \/ (length (tasks s) <= k /\ (t_st t = TSkip \/ t_st t = TAtAcquire)).
Proof.
  unfold dequeue. destruct (inq s) as [|[b ms] q]; [destruct (running s); cbn; auto|]. cbn.
  intros E. destruct (Nat.lt_ge_cases k (length (tasks s))) as [Lt|Ge].
  - rewrite nth_error_app1 in E by auto. auto.
  - right. split; auto. rewrite nth_error_app2 in E by auto.
    apply nth_error_In, in_map_iff in E as (m & <- & _).
    destruct (mk_task_st s (length (units s)) (map (fun m0 => fix_id (j_id m0)) ms) m) as [(A & _)|(A & _)]; auto.
Qed.

Lemma tchg_note_done s l k t t' : inv_used s -> invt s -> nth_error (tasks s) k = Some t -> tchg s l k t t' ->
  is_note t' = true -> (forall b, t_st t = TDone b -> b = None) -> forall b, t_st t' = TDone b -> b = None.
Proof.
  intros Iu It E Ch Nt Hd b Sb.
  destruct Ch as [| O _ _ _ | p o _ St | _ St _ Cn | x _ St _ _ Hx | o _ St | j _ _ St].
  - eauto.
  - exfalso. pose proof (owner_not_note _ _ _ Iu O E) as Z.
    destruct (cancel_fn_le t) as [_ Id _ _ _ _ _ _ _]. unfold is_note in *. rewrite Id in Nt. congruence.
  - cbn in Sb. discriminate.
  - exfalso. change (is_note t = true) in Nt. pose proof (it_canc _ It _ _ E Nt). congruence.
  - cbn in Sb. destruct Hx as [->|[->| ->]]; discriminate.
  - cbn in Sb. change (is_note t = true) in Nt. injection Sb as <-. unfold body_of_outcome. rewrite Nt. reflexivity.
  - unfold granted in Sb. cbn in Sb. destruct (t_builtin t); discriminate.
Qed.

Theorem reachf_note_done c s : reachf c s -> note_done s.
Proof.
  induction 1 as [|s l s' os R IH Cr H|s s' os R IH H].
  - intros k t b E. destruct k; discriminate.
  - pose proof (reachf_inv _ _ R) as I. pose proof (reachf_inv_used _ _ R) as Iu.
    pose proof (i8_t _ (reachf_inv8 _ _ R)) as It.
    pose proof (raw_tchg _ _ _ _ I H) as X.
    assert (Same : length (tasks s') = length (tasks s) -> note_done s').
    { intros L k t' b E' Nt Sb. destruct (back_tchg _ _ _ _ _ X L E') as (t & E & Ch).
      eapply (tchg_note_done s l k t t'); eauto. intros b0. apply (IH k); auto.
      destruct (raw_step_ok _ _ _ _ I H) as [_ [Xe _]]. destruct (Xe _ _ E) as (t2 & E2 & Le).
      rewrite E' in E2. injection E2 as <-. destruct Le as [_ Id _ _ _ _ _ _ _]. unfold is_note in *. congruence. }
    destruct (raw_shape_ok _ _ _ _ I H) as [_ L| -> |u un _ _ _ _ L]; auto.
    intros k t b E Nt Sb. apply dequeue_tasks in E as [E|(_ & [Z|Z])]; [eauto|congruence|congruence].
  - apply settle1_inv in H. destruct H; try exact IH.
    intros k t b E Nt Sb. apply dequeue_tasks in E as [E|(_ & [Z|Z])]; [eauto|congruence|congruence].
Qed.

(** * a handler that was entered left its OStart in the observations *)
Lemma grant_keeps_pc : forall fuel s acc s' os k t, grant fuel s acc = (s', os) -> nth_error (tasks s) k = Some t ->
  exists t', nth_error (tasks s') k = Some t' /\ t_params t' = t_params t /\ t_cancelled t' = t_cancelled t.
Proof.
  induction fuel as [|f IH]; cbn; intros s acc s' os k t H E.
  - injection H as <- _. eauto.
  - destruct (sem_wait s) as [|k0 r]; [injection H as <- _; eauto|].
    destruct (sem_free s) as [|fr]; [injection H as <- _; eauto|].
    destruct (nth_error (tasks s) k0) as [t0|] eqn:E0; [|injection H as <- _; eauto].
    destruct (t_builtin t0).
    + destruct (Nat.eq_dec k0 k) as [->|N].
      * destruct (IH _ _ _ _ k (t <| t_st := TAtHandled (ORes []) |>) H) as (t' & E' & P & Cn); eauto.
        cbn. erewrite nth_error_upd_nth_eq; eauto.
      * apply (IH _ _ _ _ k t H). cbn. rewrite nth_error_upd_nth_neq; auto.
    + destruct (Nat.eq_dec k0 k) as [->|N].
      * destruct (IH _ _ _ _ k (t <| t_st := TRunning |>) H) as (t' & E' & P & Cn); eauto.
        cbn. erewrite nth_error_upd_nth_eq; eauto.
      * apply (IH _ _ _ _ k t H). cbn. rewrite nth_error_upd_nth_neq; auto.
Qed.

Lemma grant_started : forall fuel s acc s' os, grant fuel s acc = (s', os) ->
  forall k t', nth_error (tasks s') k = Some t' -> t_st t' = TRunning ->
  (exists t, nth_error (tasks s) k = Some t /\ t_st t = TRunning) \/ In (OStart (t_params t') (t_cancelled t')) os.
Proof.
  induction fuel as [|f IH]; cbn; intros s acc s' os H k t' E' St'.
  - injection H as <- _. eauto.
  - destruct (sem_wait s) as [|k0 r]; [injection H as <- _; eauto|].
    destruct (sem_free s) as [|fr]; [injection H as <- _; eauto|].
    destruct (nth_error (tasks s) k0) as [t0|] eqn:E0; [|injection H as <- _; eauto].
    destruct (t_builtin t0).
    + destruct (IH _ _ _ _ H _ _ E' St') as [(t & E & St)|Hin]; auto.
      cbn in E. rewrite nth_error_upd_nth in E. destruct (Nat.eqb_spec k0 k) as [->|N]; [|eauto].
      rewrite E0 in E. cbn in E. injection E as <-. cbn in St. discriminate.
    + destruct (IH _ _ _ _ H _ _ E' St') as [(t & E & St)|Hin]; auto.
      cbn in E. rewrite nth_error_upd_nth in E. destruct (Nat.eqb_spec k0 k) as [->|N]; [|eauto].
      right. rewrite E0 in E. cbn in E. injection E as <-.
      destruct (grant_keeps_pc _ _ _ _ _ k (t0 <| t_st := TRunning |>) H) as (t2 & E2 & P & Cn).
      { cbn. erewrite nth_error_upd_nth_eq; eauto. }
      rewrite E' in E2. injection E2 as <-. cbn in P, Cn. rewrite P, Cn.
      destruct (grant_obs _ _ _ _ _ H) as (ex & -> & _). apply in_or_app. left. apply in_or_app. right. left. reflexivity.
Qed.

(* the ways a task can be past the semaphore *)
Definition entered (os : list obs) (t : task) : Prop :=
  (t_st t = TRunning /\ t_builtin t = false /\ In (OStart (t_params t) (t_cancelled t)) os) \/
  t_builtin t = true \/ t_st t = TDone (Some cancel_err) \/ t_st t = TSkip.

Lemma raw_acquire_enter s k s1 os1 t t1 : step_raw s (LRelAcquire k) = Some (s1, os1) ->
  nth_error (tasks s) k = Some t -> nth_error (tasks s1) k = Some t1 -> 2 <= rank (t_st t1) -> entered os1 t1.
Proof.
  unfold step_raw. intros H E E1 Rk. rewrite E in H.
  destruct (t_st t) eqn:St; try discriminate.
  destruct (negb (unit_running s t)); [discriminate|].
  destruct (t_cancelled t) eqn:Cn.
  { injection H as <- <-. cbn in E1. erewrite nth_error_upd_nth_eq in E1 by eauto. injection E1 as <-.
    right. right. left. reflexivity. }
  destruct (sem_free s) as [|fr].
  { injection H as <- <-. cbn in E1. erewrite nth_error_upd_nth_eq in E1 by eauto. injection E1 as <-.
    cbn in Rk. lia. }
  destruct (sem_wait s).
  2:{ injection H as <- <-. cbn in E1. erewrite nth_error_upd_nth_eq in E1 by eauto. injection E1 as <-.
      cbn in Rk. lia. }
  destruct (t_builtin t) eqn:B; injection H as <- <-; cbn in E1; erewrite nth_error_upd_nth_eq in E1 by eauto;
    injection E1 as <-.
  - right. left. exact B.
  - left. cbn. rewrite Cn. repeat split; auto.
Qed.

Lemma raw_handled_enter s j s1 os1 k t t1 : step_raw s (LRelHandled j) = Some (s1, os1) -> j <> k ->
  nth_error (tasks s) k = Some t -> t_st t = TWaiting -> nth_error (tasks s1) k = Some t1 -> t_st t1 = TRunning ->
  In (OStart (t_params t1) (t_cancelled t1)) os1.
Proof.
  unfold step_raw. intros H N E St E1 St1.
  destruct (nth_error (tasks s) j) as [tj|] eqn:Ej; [|discriminate].
  destruct (t_st tj) eqn:Sj; try discriminate.
  set (s0 := set_task j (fun t => t <| t_st := TDone (body_of_outcome t o) |>) s <| sem_free ::= S |>) in *.
  destruct (grant (S (length (sem_wait s0))) s0 []) as [s2 os2] eqn:G.
  assert (T1 : tasks s1 = tasks s2 /\ incl os2 os1).
  { destruct (is_note tj); [destruct (nbar s2)|]; injection H as <- <-; cbn; split; auto;
      try apply incl_refl; apply incl_appl, incl_refl. }
  destruct T1 as [T1 Inc]. rewrite T1 in E1.
  destruct (grant_started _ _ _ _ _ G _ _ E1 St1) as [(t0 & E0 & S0)|Hin]; auto.
  exfalso. unfold s0 in E0. cbn in E0. rewrite nth_error_upd_nth_neq in E0; auto. congruence.
Qed.

Lemma raw_enter s l s1 os1 k t1 : inv s -> step_raw s l = Some (s1, os1) -> before_start s k = true ->
  nth_error (tasks s1) k = Some t1 -> 2 <= rank (t_st t1) -> entered os1 t1.
Proof.
  intros I H B E1 Rk. pose proof (raw_tchg _ _ _ _ I H) as X.
  assert (Same : length (tasks s1) = length (tasks s) -> entered os1 t1).
  { intros L. destruct (back_tchg _ _ _ _ _ X L E1) as (t & E & Ch).
    unfold before_start in B. rewrite E in B. apply Nat.ltb_lt in B.
    destruct Ch as [| O _ _ _ | p o _ St | Hl St _ Cn | x Hl St _ _ Hx | o _ St | j Hl Nj St].
    - lia.
    - unfold cancel_fn in *. destruct (t_st t) eqn:St; cbn in Rk, B; rewrite ?St in Rk; cbn in Rk; try lia.
      right. right. left. reflexivity.
    - rewrite St in B. cbn in B. lia.
    - right. right. left. reflexivity.
    - subst l. eapply raw_acquire_enter; eauto.
    - rewrite St in B. cbn in B. lia.
    - subst l. unfold granted in *. destruct (t_builtin t) eqn:Bt.
      + right. left. cbn. exact Bt.
      + left. cbn. repeat split; auto.
        pose proof (raw_handled_enter _ _ _ _ _ _ _ H Nj E St E1 eq_refl) as Hin. cbn in Hin. exact Hin. }
  destruct (raw_shape_ok _ _ _ _ I H) as [_ L| -> |u un _ _ _ _ L]; auto.
  apply dequeue_tasks in E1 as [E|(_ & [Z|Z])].
  - unfold before_start in B. rewrite E in B. apply Nat.ltb_lt in B. lia.
  - right. right. right. exact Z.
  - rewrite Z in Rk. cbn in Rk. lia.
Qed.

Lemma settle_new_tasks : forall fuel a acc b os k t, settle fuel a acc = (b, os) -> nth_error (tasks b) k = Some t ->
  nth_error (tasks a) k = Some t \/ (nth_error (tasks a) k = None /\ (t_st t = TSkip \/ t_st t = TAtAcquire)).
Proof.
  induction fuel as [|f IH]; cbn; intros a acc b os k t H E.
  - injection H as <- _. auto.
  - destruct (settle1 a) as [[a1 os1]|] eqn:S1; [|injection H as <- _; auto].
    destruct (IH _ _ _ _ _ _ H E) as [E1|(E1 & Z)].
    + apply settle1_inv in S1. destruct S1; cbn in E1; auto.
      apply dequeue_tasks in E1 as [E1|(L & Z)]; auto. right. split; auto. apply nth_error_None. auto.
    + right. split; auto. pose proof (settle1_keeps _ _ _ S1) as K.
      destruct (nth_error (tasks a) k) as [x|] eqn:Ea; auto. rewrite (K _ _ Ea) in E1. discriminate.
Qed.

Lemma entered_incl os os' t : incl os os' -> entered os t -> entered os' t.
Proof. intros Inc [(A & B & C)|H]; [left; auto|right; auto]. Qed.

Lemma step_enter c s l s' os k t' : reachf c s -> step s l = Some (s', os) -> before_start s k = true ->
  nth_error (tasks s') k = Some t' -> 2 <= rank (t_st t') -> entered os t'.
Proof.
  intros R H B E' Rk. pose proof (reachf_inv _ _ R) as I.
  apply step_decompose in H as (C & s1 & os1 & Hr & Hs).
  destruct Hs as [(_ & -> & ->)|(_ & Hs)]; [eapply raw_enter; eauto|].
  destruct (settle_obs_app _ _ _ _ _ Hs) as (ex & -> & _).
  destruct (settle_new_tasks _ _ _ _ _ _ _ Hs E') as [E1|(_ & [Z|Z])].
  - eapply entered_incl; [apply incl_appl, incl_refl|]. eapply raw_enter; eauto.
  - right. right. right. exact Z.
  - rewrite Z in Rk. cbn in Rk. lia.
Qed.

(* over a whole run: a task that was not yet past the semaphore at the beginning and is a finished user handler
   (not cancelled) at the end has its OStart among the observations *)
Lemma run_enter c : forall tr s s' oss k t', reachf c s -> run s tr = Some (s', oss) -> before_start s k = true ->
  nth_error (tasks s') k = Some t' -> 2 <= rank (t_st t') <= 4 -> t_builtin t' = false ->
  t_st t' <> TDone (Some cancel_err) -> In (OStart (t_params t') (t_cancelled t')) (concat oss) \/
  (exists cn, t_cancelled t' = true /\ In (OStart (t_params t') cn) (concat oss)).
Proof.
  induction tr as [|l r IH]; cbn [run]; intros s s' oss k t' R H B E' Rk Bt Nc.
  - injection H as <- _. unfold before_start in B. rewrite E' in B. apply Nat.ltb_lt in B. lia.
  - destruct (step s l) as [[s1 os]|] eqn:E; [|discriminate].
    destruct (run s1 r) as [[s2 oss2]|] eqn:E2; [|discriminate]. injection H as <- <-.
    pose proof (step_reachf _ _ _ _ _ R E) as R1. cbn [concat].
    destruct (before_start s1 k) eqn:B1.
    + destruct (IH _ _ _ _ _ R1 E2 B1 E' Rk Bt Nc) as [Hin|(cn & Cn & Hin)].
      * left. apply in_or_app. auto.
      * right. exists cn. split; auto. apply in_or_app. auto.
    + unfold before_start in B1. destruct (nth_error (tasks s1) k) as [t1|] eqn:E1; [|discriminate].
      apply Nat.ltb_ge in B1.
      destruct (run_task_le _ _ _ _ _ _ _ R1 E2 E1) as (t2 & Et2 & Le). rewrite E' in Et2. injection Et2 as <-.
      destruct Le as [_ _ _ P _ _ Bl Cl (Rl & Sk & Dn & _)].
      destruct (step_enter _ _ _ _ _ _ _ R E B E1 B1) as [(St1 & _ & Hin)|[Z|[Z|Z]]].
      * rewrite <- P in Hin. destruct (t_cancelled t1) eqn:C1.
        -- right. exists true. split; auto. apply in_or_app. auto.
        -- destruct (t_cancelled t') eqn:C2.
           ++ right. exists false. split; auto. apply in_or_app. auto.
           ++ left. apply in_or_app. auto.
      * congruence.
      * rewrite (Dn _ Z) in Nc. congruence.
      * apply Sk in Z. rewrite Z in Rk. cbn in Rk. lia.
Qed.

(** * C08.6: every valid notification received before the stop has been handed to its handler *)
(* what has become of the retained notification m, as task t, given the observations of the run *)
Definition note_handled (s : state) (obs : list obs) (m : jmsg) (t : task) : Prop :=
  t_method t = j_method m /\ t_params t = j_params m /\ is_note t = true /\ t_cancelled t = false /\
  ((assign_method s (j_method m) = None /\ t_st t = TSkip /\ t_pre t = Some err_not_found) \/
   (assign_method s (j_method m) = Some true /\ t_st t = TDone None /\ t_builtin t = true) \/
   (assign_method s (j_method m) = Some false /\ t_st t = TDone None /\ t_builtin t = false /\
    In (OStart (j_params m) false) obs)).

Theorem notifications_handled c s l s1 os tr s2 oss : reach c s -> step s l = Some (s1, os) ->
  running s = true -> running s1 = false -> run s1 tr = Some (s2, oss) -> ~ In LStart tr ->
  quiescent s2 = true -> (forall k t, nth_error (tasks s2) k = Some t -> t_st t <> TRunning) -> 0 < cf_K c ->
  inq s2 = [] /\
  length (tasks s2) = length (tasks s) + length (queue_notes (inq s)) /\
  (forall j m, nth_error (queue_notes (inq s)) j = Some m ->
     exists t, nth_error (tasks s2) (length (tasks s) + j) = Some t /\ note_handled s (concat (os :: oss)) m t) /\
  (forall k t, nth_error (tasks s) k = Some t -> runnable t = true -> is_note t = true ->
     exists t', nth_error (tasks s2) k = Some t' /\ t_st t' = TDone None /\ t_params t' = t_params t).
Proof.
  intros R H Rn Rn1 Hr Ns Q Hnr HK.
  pose proof (reach_reachf _ _ R) as Rf.
  assert (R1 : reach c s1) by (eapply reach_step; eauto). pose proof (reach_reachf _ _ R1) as Rf1.
  assert (R2 : reach c s2) by (eapply run_reach; eauto). pose proof (reach_reachf _ _ R2) as Rf2.
  destruct (acct_run c _ _ _ _ Rf1 Rn1 Ns Hr) as [A2 Rn2].
  rewrite (acct_stop _ _ _ _ _ R H Rn Rn1) in A2.
  destruct (notifications_drained _ _ R2 Q Rn2 Hnr HK) as (Q2 & _ & Fin & _).
  unfold acct in A2. rewrite Q2 in A2. cbn in A2. rewrite app_nil_r in A2.
  assert (Hrun : run s (l :: tr) = Some (s2, os :: oss)) by (cbn; rewrite H, Hr; reflexivity).
  pose proof (reachf_note_done _ _ Rf2) as Nd.
  pose proof (i8_t _ (reachf_inv8 _ _ Rf2)) as It2.
  split; auto. split.
  { apply (f_equal (@length _)) in A2. rewrite app_length, !map_length in A2. exact A2. }
  split.
  - intros j m Em.
    assert (Ed : nth_error (map tdesc (tasks s2)) (length (tasks s) + j) = Some (mdesc c m)).
    { rewrite A2, nth_error_app2 by (rewrite map_length; lia). rewrite map_length.
      replace (length (tasks s) + j - length (tasks s)) with j by lia. apply map_nth_error. exact Em. }
    rewrite nth_error_map in Ed. destruct (nth_error (tasks s2) (length (tasks s) + j)) as [t|] eqn:Et; [|discriminate].
    cbn in Ed. injection Ed as Ed. exists t. split; auto.
    pose proof (Fin _ _ Et) as F.
    assert (Nt : is_note t = true).
    { unfold is_note. unfold tdesc, mdesc in Ed. destruct (assign_method (init_of c) (j_method m)); injection Ed as _ _ _ _ ->; reflexivity. }
    pose proof (it_canc _ It2 _ _ Et Nt) as Cn.
    unfold note_handled. rewrite (assign_method_const c s (j_method m) Rf).
    unfold tdesc, mdesc in Ed.
    destruct (assign_method (init_of c) (j_method m)) as [b|] eqn:Am; injection Ed as M P Pr B Id.
    + assert (Sd : t_st t = TDone None).
      { pose proof (task_nopre_noskip _ _ _ _ Rf2 Et Pr) as Nk. unfold finished in F.
        destruct (t_st t) eqn:St; try discriminate; try congruence. f_equal. eapply Nd; eauto. }
      repeat split; auto. destruct b; [right; left; auto|right; right].
      repeat split; auto.
      assert (B0 : before_start s (length (tasks s) + j) = true).
      { unfold before_start. destruct (nth_error (tasks s) (length (tasks s) + j)) eqn:Z; auto.
        apply nth_error_some_lt in Z. lia. }
      destruct (run_enter c _ _ _ _ _ _ Rf Hrun B0 Et) as [Hin|(cn & Cn' & _)].
      * rewrite Sd. cbn. lia.
      * exact B.
      * rewrite Sd. discriminate.
      * rewrite P, Cn in Hin. exact Hin.
      * congruence.
    + repeat split; auto. left. repeat split; auto. eapply task_pre_skip; eauto.
  - intros k t E Ru Nt.
    destruct (run_task_le _ _ _ _ _ _ _ Rf Hrun E) as (t' & E' & Le). exists t'. split; auto.
    destruct Le as [_ Id _ P Pr _ _ _ _]. split; auto.
    assert (Pn : t_pre t' = None) by (unfold runnable in Ru; destruct (t_pre t); [discriminate|congruence]).
    pose proof (task_nopre_noskip _ _ _ _ Rf2 E' Pn) as Nk. pose proof (Fin _ _ E') as F. unfold finished in F.
    destruct (t_st t') eqn:St; try discriminate; try congruence. f_equal. eapply Nd; eauto.
    unfold is_note in *. congruence.
Qed.

Lemma note_handled_spec s obs m t : note_handled s obs m t <->
  t_method t = j_method m /\ t_params t = j_params m /\ is_note t = true /\ t_cancelled t = false /\
  ((assign_method s (j_method m) = None /\ t_st t = TSkip /\ t_pre t = Some err_not_found) \/
   (assign_method s (j_method m) = Some true /\ t_st t = TDone None /\ t_builtin t = true) \/
   (assign_method s (j_method m) = Some false /\ t_st t = TDone None /\ t_builtin t = false /\
    In (OStart (j_params m) false) obs)).
Proof. unfold note_handled. tauto. Qed.

(* a batch [notification 1; call "1"; notification to an unknown method] is queued when Stop comes; then both
   retained notifications get a task: the first is handled by its handler, the second is skipped *)
Definition x_batch3 : inbound := InMsgs true [ex_note [1%N]; ex_call [49%N] [2%N]; ex_msg [] [120%N] [3%N]].
Definition tr_b3_before : list label := [LStart; LFeed (FMsg x_batch3); LRelRead; LCallStop 1].
Definition tr_b3_after : list label :=
  [LRelNext; LRelBarrier; LRelAcquire 0; LGate [1%N] (ORes []); LRelHandled 0; LRelNext; LRelBarrier; LRelNext;
   LFeed (FErr SCClosing); LRelRead; LCallWait].
Example notifications_handled_nonvacuous :
  exists s s1 os s2 oss, reach ex_cfg s /\ step s (LRelStop 1) = Some (s1, os) /\ running s = true /\
    running s1 = false /\ run s1 tr_b3_after = Some (s2, oss) /\ ~ In LStart tr_b3_after /\ quiescent s2 = true /\
    forallb (fun t => match t_st t with TRunning => false | _ => true end) (tasks s2) = true /\ 0 < cf_K ex_cfg /\
    map j_params (queue_notes (inq s)) = [[1%N]; [3%N]] /\ tasks s = [] /\
    map t_st (tasks s2) = [TDone None; TSkip] /\ In (OStart [1%N] false) (concat (os :: oss)).
Proof.
  exists (st_of ex_cfg tr_b3_before). eexists _, _, _, _.
  split; [reach_ex|]. split; [vm_compute; reflexivity|]. split; [vm_compute; reflexivity|].
  split; [vm_compute; reflexivity|]. split; [vm_compute; reflexivity|]. split.
  { unfold tr_b3_after. intros H. repeat (destruct H as [H|H]; [discriminate H|]). exact H. }
  repeat split; try (vm_compute; reflexivity). vm_compute. tauto.
Qed.
