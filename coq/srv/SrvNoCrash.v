(* Consequences of crash freedom (SrvC08.no_crash: no reachable state of the server model has crashed):
   the theorems of the other server properties that were stated for crash-free states hold in every
   reachable state. *)
From Coq Require Import List NArith ZArith Bool Arith Lia.
From RecordUpdate Require Import RecordUpdate.
From JV Require Import Bytes Msg SrvModel SrvLemmas SrvBasics SrvC01 SrvC03 SrvC06 SrvC07 SrvC08 SrvC09.
Import ListNotations.

Lemma c01_quiescent_complete_nc c s : reach c s -> quiescent s = true ->
  (forall u un, nth_error (units s) u = Some un -> u_st un = URunning -> all_finished s u = false) /\
  (forall u un, nth_error (units s) u = Some un -> u_st un <> UAtDeliver).
Proof. intros R. exact (SrvC01.c01_quiescent_complete c s R (no_crash c s R)). Qed.

Lemma c03_calls_do_not_block_later_nc c s :
  reach c s -> quiescent s = true -> running s = true ->
  (inq s <> [] \/ exists u, dp s = DAtBarrier u \/ dp s = DBarrierWait u) ->
  exists u, dp s = DBarrierWait u /\ 0 < nbar s /\
    exists j n, nth_error (tasks s) j = Some n /\ t_unit n < u /\ runnable n = true /\ is_note n = true /\
      (t_st n = TRunning \/ (t_st n = TWaiting /\ sem_free s = 0)).
Proof. intros R. exact (SrvC03.calls_do_not_block_later c s R (no_crash c s R)). Qed.

Lemma c03_only_slot_nc c s k t :
  reach c s -> quiescent s = true ->
  nth_error (tasks s) k = Some t -> released s (t_unit t) = true ->
  (t_st t = TAtAcquire \/ t_st t = TWaiting) ->
  t_st t = TWaiting /\ sem_free s = 0 /\ SrvC06.slots_used s = cf_K c.
Proof. intros R. exact (SrvC03.released_waits_only_for_slot c s k t R (no_crash c s R)). Qed.

Lemma c03_all_dispatched_nc c s :
  reach c s -> quiescent s = true -> running s = true ->
  (forall j n, nth_error (tasks s) j = Some n -> runnable n = true -> is_note n = true ->
     released s (t_unit n) = true -> exists b, t_st n = TDone b) ->
  inq s = [] /\ dp s = DWaitWork /\ nbar s = 0 /\ forall v, v < length (units s) -> released s v = true.
Proof. intros R. exact (SrvC03.only_calls_all_dispatched c s R (no_crash c s R)). Qed.

Lemma c06_work_conserving_nc c s :
  reach c s -> quiescent s = true -> 0 < sem_free s ->
  forall k t, nth_error (tasks s) k = Some t -> t_st t <> TWaiting /\ at_acquire s t = false.
Proof. intros R. exact (SrvC06.work_conserving c s R (no_crash c s R)). Qed.

Lemma c07_inflight_reserved c s : reach c s -> running s = true ->
  forall k t un, nth_error (tasks s) k = Some t -> t_hasctx t = true -> t_id t <> [] ->
    nth_error (units s) (t_unit t) = Some un -> u_st un <> UFinished -> assoc (t_id t) (used s) = Some k.
Proof. intros R Run. exact (SrvC07.c07_inflight_reserved_partial c s R Run (no_crash c s R)). Qed.

Lemma c09_reply_passes_barrier_nc c s f ms m i cb0 :
  reach c s -> running s = true -> rd s = RHold f -> msgs_feed f ms ->
  In m ms -> is_req_or_notif m = false -> assoc (fix_id (j_id m)) (calls s) = Some i -> nth_error (cbs s) i = Some cb0 ->
  exists s' os, step s LRelRead = Some (s', os) /\
    assoc (fix_id (j_id m)) (calls s') = None /\ exists r, In (ORet (cb_op cb0) r) os /\ is_completion r = true.
Proof. intros R. exact (SrvC09.reply_passes_barrier c s f ms m i cb0 R (no_crash c s R)). Qed.

Lemma c09_quiescent_complete_nc c s k i :
  reach c s -> quiescent s = true -> In (k, i) (calls s) ->
  exists cb0, nth_error (cbs s) i = Some cb0 /\ cb_id cb0 = k /\
    cb_ctx cb0 = None /\ cb_cancelled cb0 = false /\ running s = true.
Proof. intros R. exact (SrvC09.quiescent_complete c s k i R (no_crash c s R)). Qed.
