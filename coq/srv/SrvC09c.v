(* SrvC09c: C09.3 every API call returns exactly once.  EVERY observation [ORet n _] is counted (results, errors,
   context errors, send failures, and also nil / ErrConnClosed / ErrPushUnsupported).  An exact conservation law:
   returns so far + operations pending + callbacks outstanding = calls so far, for every operation number,
   on every trace on which the environment numbers its API calls distinctly. *)
From Coq Require Import List NArith ZArith Bool Arith Lia.
From RecordUpdate Require Import RecordUpdate.
From JV Require Import Bytes Msg SrvModel SrvLemmas SrvBasics SrvC01 SrvC07 SrvC09 SrvC10 SrvC08 SrvC08q SrvC08w.
Import ListNotations.

Definition ret_n (n : nat) (o : obs) : bool := match o with ORet n' _ => n' =? n | _ => false end.
Definition op_n (n : nat) (o : op) : bool := op_num o =? n.
(* what operation number n can still produce: its pending operation and its outstanding callback *)
Definition pend (n : nat) (s : state) : nat := countb (op_n n) (ops s) + countb (live_n n) (cbs s).
Definition call_label_n (n : nat) (l : label) : nat :=
  match l with
  | LCallStop n' | LCallCancel n' _ | LCallPush n' _ _ _ => if n' =? n then 1 else 0
  | _ => 0
  end.

Lemma no_ret_count_n n os : Forall (fun o => ~ is_ret o) os -> countb (ret_n n) os = 0.
Proof. induction 1 as [|o l H _ IH]; cbn; auto. destruct o; cbn in *; auto. tauto. Qed.

Lemma settle_obs_no_ret_n n extra : Forall settle_obs extra -> countb (ret_n n) extra = 0.
Proof. induction 1 as [|o l H _ IH]; cbn; auto. destruct o; cbn in *; auto; tauto. Qed.

Lemma countb_del_op n n0 l : countb (op_n n) (del_op n0 l) = if n0 =? n then 0 else countb (op_n n) l.
Proof.
  unfold del_op, op_n. induction l as [|o l IH]; cbn; [destruct (n0 =? n); auto|].
  destruct (Nat.eqb_spec (op_num o) n0) as [E|E]; cbn; rewrite IH.
  - destruct (Nat.eqb_spec n0 n) as [->|Ne]; auto. destruct (Nat.eqb_spec (op_num o) n); [lia|auto].
  - destruct (Nat.eqb_spec n0 n) as [->|Ne]; auto. destruct (Nat.eqb_spec (op_num o) n); [lia|auto].
Qed.

Lemma nodup_count_le n l : NoDup (map op_num l) -> countb (op_n n) l <= 1.
Proof.
  induction l as [|o l IH]; cbn; [lia|]. intros N. inversion N as [|? ? Hn Hd]; subst. specialize (IH Hd).
  unfold op_n at 1. destruct (Nat.eqb_spec (op_num o) n) as [E|E]; [|lia].
  assert (Z : countb (op_n n) l = 0).
  { apply countb_false. intros x Hx. unfold op_n. apply Nat.eqb_neq. intros Ex. apply Hn. rewrite E, <- Ex.
    apply in_map; auto. }
  lia.
Qed.

Lemma find_count n0 l o : find_op n0 l = Some o -> 1 <= countb (op_n n0) l.
Proof.
  unfold find_op. induction l as [|x l IH]; cbn; [discriminate|]. unfold op_n at 1.
  destruct (op_num x =? n0); [lia|]. intros H. specialize (IH H). lia.
Qed.

(* releasing operation n0: exactly one unit of potential of number n0 goes *)
Lemma del_op_exact n n0 l o : NoDup (map op_num l) -> find_op n0 l = Some o ->
  countb (op_n n) (del_op n0 l) + (if n0 =? n then 1 else 0) = countb (op_n n) l.
Proof.
  intros N F. rewrite countb_del_op. destruct (Nat.eqb_spec n0 n) as [->|Ne]; [|lia].
  pose proof (nodup_count_le n l N). pose proof (find_count _ _ _ F). lia.
Qed.

Lemma nodup_del_op n l : NoDup (map op_num l) -> NoDup (map op_num (del_op n l)).
Proof.
  unfold del_op. induction l as [|o l IH]; cbn; auto. intros N. inversion N as [|? ? Hn Hd]; subst.
  destruct (negb (op_num o =? n)); cbn; auto. constructor; auto.
  intros I. apply Hn. apply in_map_iff in I as (x & Ex & Hx). apply filter_In in Hx as [Hx _].
  rewrite <- Ex. apply in_map; auto.
Qed.

(** * the helpers *)
Lemma complete_cb_pend n k i v s : inv_push s -> In (k, i) (calls s) ->
  countb (ret_n n) (snd (complete_cb i v s)) + pend n (fst (complete_cb i v s)) = pend n s.
Proof.
  intros H I. destruct (complete_cb_reg _ _ v _ H I) as (c & N & Eid & Rt & Sl & ->). cbn [fst snd].
  unfold pend. cbn [countb].
  change (ops (s <| cbs ::= upd_nth i (fun c => wake_watch (c <| cb_slot := Some v |>)) |> <| calls ::= assoc_del k |>)) with (ops s).
  change (cbs (s <| cbs ::= upd_nth i (fun c => wake_watch (c <| cb_slot := Some v |>)) |> <| calls ::= assoc_del k |>))
    with (upd_nth i (fun c => wake_watch (c <| cb_slot := Some v |>)) (cbs s)).
  pose proof (countb_upd_nth (live_n n) i (fun c => wake_watch (c <| cb_slot := Some v |>)) (cbs s) c N) as CU.
  unfold ret_n.
  assert (L1 : live_n n (wake_watch (c <| cb_slot := Some v |>)) = false).
  { unfold live_n, live. cbn. apply andb_false_r. }
  assert (L2 : live_n n c = (cb_op c =? n)).
  { unfold live_n, live. rewrite Sl, Rt. cbn. apply andb_true_r. }
  cbv beta in CU. rewrite L1, L2 in CU. destruct (cb_op c =? n); lia.
Qed.

Lemma filter_batch_pend n : forall ms s keep acc s' keep' acc',
  inv_push s -> filter_batch ms s keep acc = (s', keep', acc') ->
  countb (ret_n n) acc' + pend n s' = countb (ret_n n) acc + pend n s.
Proof.
  induction ms as [|m r IH]; intros s keep acc s' keep' acc' H E; cbn [filter_batch] in E.
  - injection E as <- <- <-. auto.
  - destruct (is_req_or_notif m); [eauto|].
    destruct (assoc (fix_id (j_id m)) (calls s)) as [i|] eqn:A.
    2:{ destruct (c_push s && is_nil (j_method m) && has_reply_fields m); eauto. }
    pose proof (complete_cb_pend n _ _ (member_val m) _ H (assoc_in _ _ _ A)) as P.
    pose proof (complete_cb_ip i (member_val m) s H) as H1.
    fold (member_val m) in E. destruct (complete_cb i (member_val m) s) as [s1 os1]. cbn [fst snd] in *.
    rewrite (IH _ _ _ _ _ _ H1 E), countb_app. lia.
Qed.

Lemma stop_locked_pend n sc s s' os : stop_locked sc s = (s', os) -> pend n s' = pend n s /\ countb (ret_n n) os = 0.
Proof.
  intros H. apply SrvC09.stop_locked_spec in H as [(_ & -> & ->)|(_ & -> & _ & _ & _ & _ & _ & _ & Eo & _ & _ & Ec)]; auto.
  unfold pend. rewrite Eo, Ec, countb_map_same; auto. intros; apply stop_cb_live.
Qed.

Lemma pend_frame n s s' : ops s' = ops s -> cbs s' = cbs s -> pend n s' = pend n s.
Proof. unfold pend. intros -> ->. reflexivity. Qed.

(** * one critical section *)
Lemma raw_pend n s l s' os : inv_push s -> NoDup (map op_num (ops s)) -> step_raw s l = Some (s', os) ->
  countb (ret_n n) os + pend n s' = pend n s + call_label_n n l.
Proof.
  intros IH ND H.
  destruct (neutral l) eqn:Neu.
  { apply step_raw_neutral in H as [P F]; auto. apply pv_fields in P.
    rewrite (no_ret_count_n _ _ F), (pend_frame n s s'); [|tauto|tauto].
    destruct l; try discriminate Neu; cbn; lia. }
  destruct l; try discriminate Neu; cbn [step_raw call_label_n] in *.
  - destruct (negb (running s) && (wg s =? 0)); [|discriminate]. injection H as <- <-. unfold pend; cbn; lia.
  - injection H as <- <-. unfold pend; cbn; lia.
  - injection H as <- <-. unfold pend. cbn. rewrite countb_app. cbn. unfold op_n. cbn. destruct (n0 =? n); lia.
  - injection H as <- <-. unfold pend. cbn. rewrite countb_app. cbn. unfold op_n. cbn. destruct (n0 =? n); lia.
  - destruct (c_push s); injection H as <- <-.
    + unfold pend. cbn. rewrite countb_app. cbn. unfold op_n. cbn. destruct (n0 =? n); lia.
    + cbn. lia.
  - destruct (find_idx _ 0 (cbs s)) as [i|]; injection H as <- <-; cbn; [|unfold pend; cbn; lia].
    unfold pend. cbn. rewrite countb_upd_nth_same; [lia|].
    intros x _. destruct (cb_cancelled x); reflexivity.
  - (* LRelRead *)
    destruct (rd s) as [| |f|]; try discriminate. injection H as H. unfold read_cs in H.
    destruct f as [i|i|sc].
    1,2: destruct (negb (running s)); [injection H as <- <-; unfold pend; cbn; lia|];
         destruct i as [|b ms]; [cbn in H; injection H as <- <-; unfold pend; cbn; lia|];
         destruct ms as [|m0 ms0]; [cbn in H; injection H as <- <-; unfold pend; cbn; lia|];
         destruct (filter_batch (m0 :: ms0) s [] []) as [[s1 keep] os1] eqn:FB;
         pose proof (filter_batch_pend n _ _ _ _ _ _ _ IH FB) as P; cbn [countb] in P;
         destruct keep; [injection H as <- <-; rewrite (pend_frame n s1 (s1 <| rd := RIdle |>)); auto; lia|];
         match type of H with (if ?b then _ else _) = _ => destruct b end; injection H as <- <-;
         rewrite ?countb_app; cbn [countb ret_n];
         match goal with |- context [pend _ ?x] => rewrite (pend_frame n s1 x) by reflexivity end; lia.
    destruct (stop_locked sc s) as [s2 os2] eqn:SL. injection H as <- <-.
    destruct (stop_locked_pend n _ _ _ _ SL) as [P Z]. rewrite Z, (pend_frame n s2); auto; lia.
  - (* LRelStop *)
    destruct (find_op n0 (ops s)) as [[| |]|] eqn:F; try discriminate.
    destruct (stop_locked SCStop _) as [s2 os2] eqn:SL. injection H as <- <-.
    destruct (stop_locked_pend n _ _ _ _ SL) as [P Z]. rewrite countb_app, Z, P. cbn.
    unfold pend.
    change (ops (s <| ops ::= del_op n0 |>)) with (del_op n0 (ops s)).
    change (cbs (s <| ops ::= del_op n0 |>)) with (cbs s).
    pose proof (del_op_exact n n0 _ _ ND F). lia.
  - (* LRelCancel *)
    destruct (find_op n0 (ops s)) as [[| |]|] eqn:F; try discriminate. cbn in H.
    assert (E : ops s' = del_op n0 (ops s) /\ cbs s' = cbs s /\ os = [ORet n0 AOk]).
    { destruct (assoc id (used s)); injection H as <- <-; [|auto].
      pose proof (cancel_task_pv n2 (s <| ops ::= del_op n0 |>)) as P. apply pv_fields in P.
      destruct P as (_ & _ & _ & _ & _ & _ & -> & -> & _). auto. }
    destruct E as (E1 & E2 & ->). unfold pend. rewrite E1, E2. cbn.
    pose proof (del_op_exact n n0 _ _ ND F). lia.
  - (* LRelPush *)
    destruct (find_op n0 (ops s)) as [[| |n' w m p]|] eqn:F; try discriminate.
    pose proof (del_op_exact n n0 _ _ ND F) as D.
    cbn in H.
    destruct (running s); cbn in H.
    2:{ injection H as <- <-. unfold pend. cbn. lia. }
    destruct w.
    + destruct (send_fail s); injection H as <- <-; unfold pend; cbn; rewrite countb_app; cbn.
      * unfold live_n at 2. cbn. rewrite andb_false_r. lia.
      * destruct (find _ (ended s)) as [[? ?]|]; unfold live_n at 2; cbn; rewrite andb_true_r; lia.
    + injection H as <- <-. unfold pend. cbn. lia.
  - (* LRelCbWatch *)
    rename c into i.
    destruct (watch_own _ _ _ _ IH H) as (cb0 & N & W & Cases).
    cbn [step_raw] in H. rewrite N, W in H.
    replace (calls (s <| cbs ::= upd_nth i (fun c => c <| cb_watch := WDone |>) |>)) with (calls s) in H by reflexivity.
    assert (P1 : pend n (s <| cbs ::= upd_nth i (fun c => c <| cb_watch := WDone |>) |>) = pend n s).
    { unfold pend. cbn. rewrite countb_upd_nth_same; auto. }
    destruct Cases as [(NI & -> & _)|(I & -> & _)].
    + assert (E : s' = s <| cbs ::= upd_nth i (fun c => c <| cb_watch := WDone |>) |>).
      { destruct (assoc (cb_id cb0) (calls s)) as [j|] eqn:A; [|injection H as <-; auto].
        destruct (cb_slot cb0) eqn:SL; [injection H as <-; auto|].
        destruct (Nat.eqb_spec j i) as [->|Ne]; [|injection H as <-; auto].
        exfalso. apply NI. apply assoc_in; auto. }
      rewrite E, P1. cbn. lia.
    + pose proof (NoDup_assoc _ _ _ (ip_nodup _ IH) I) as A. rewrite A in H.
      destruct (ip_reg _ IH _ _ I) as (c' & N' & _ & (O1 & O2 & _)).
      assert (c' = cb0) by congruence. subst c'. rewrite O1, Nat.eqb_refl in H.
      assert (E : exists v, complete_cb i v (s <| cbs ::= upd_nth i (fun c => c <| cb_watch := WDone |>) |>)
                            = (s', [ORet (cb_op cb0) (ACbCtx (ctx_why cb0))])).
      { destruct (cb_ctx cb0) as [[|]|]; injection H as H; eauto. }
      destruct E as (v & E). unfold complete_cb in E.
      match type of E with context [nth_error ?l i] =>
        change l with (upd_nth i (fun c => c <| cb_watch := WDone |>) (cbs s)) in E end.
      rewrite (nth_error_upd_nth_eq _ _ _ _ N) in E. injection E as <- _.
      unfold pend. cbn [countb ret_n].
      change (ops (s <| cbs ::= upd_nth i (fun x => x <| cb_watch := WDone |>) |>
                     <| cbs ::= upd_nth i (fun y => wake_watch (y <| cb_slot := Some v |>)) |>
                     <| calls ::= assoc_del (cb_id cb0) |>)) with (ops s).
      change (cbs (s <| cbs ::= upd_nth i (fun x => x <| cb_watch := WDone |>) |>
                     <| cbs ::= upd_nth i (fun y => wake_watch (y <| cb_slot := Some v |>)) |>
                     <| calls ::= assoc_del (cb_id cb0) |>))
        with (upd_nth i (fun y => wake_watch (y <| cb_slot := Some v |>)) (upd_nth i (fun x => x <| cb_watch := WDone |>) (cbs s))).
      rewrite SrvC09.upd_nth_upd_nth.
      pose proof (countb_upd_nth (live_n n) i (fun x => wake_watch ((x <| cb_watch := WDone |>) <| cb_slot := Some v |>)) (cbs s) cb0 N) as CU.
      assert (L1 : live_n n (wake_watch ((cb0 <| cb_watch := WDone |>) <| cb_slot := Some v |>)) = false).
      { unfold live_n, live. cbn. apply andb_false_r. }
      assert (L2 : live_n n cb0 = (cb_op cb0 =? n)).
      { unfold live_n, live. rewrite O1, O2. cbn. apply andb_true_r. }
      cbv beta in CU. rewrite L1, L2 in CU. destruct (cb_op cb0 =? n); lia.
Qed.

(** * whole windows *)
Lemma step_pend n s l s' os : inv_push s -> NoDup (map op_num (ops s)) -> step s l = Some (s', os) ->
  countb (ret_n n) os + pend n s' = pend n s + call_label_n n l.
Proof.
  intros IH ND H. apply step_obs_raw in H as (_ & s1 & os1 & ex & Raw & -> & Fx & P).
  pose proof (raw_pend n _ _ _ _ IH ND Raw) as B. apply pv_fields in P.
  rewrite countb_app, (settle_obs_no_ret_n _ _ Fx), (pend_frame n s1 s'); [lia|tauto|tauto].
Qed.

(** * the pending operations carry distinct numbers as long as the environment's calls do *)
Definition call_num (l : label) : list nat :=
  match l with LCallStop n | LCallCancel n _ | LCallPush n _ _ _ => [n] | _ => [] end.
Definition call_nums (tr : list label) : list nat := flat_map call_num tr.

Lemma raw_ops_shape s l s' os : step_raw s l = Some (s', os) ->
  ops s' = ops s \/ (exists o, ops s' = ops s ++ [o] /\ call_num l = [op_num o]) \/
  (exists n, ops s' = del_op n (ops s) /\ call_num l = []).
Proof.
  intros H.
  destruct (neutral l) eqn:Neu.
  { apply step_raw_neutral in H as [P _]; auto. apply pv_fields in P. left. tauto. }
  destruct l; try discriminate Neu; cbn [step_raw] in H.
  - destruct (negb (running s) && (wg s =? 0)); [|discriminate]. injection H as <- <-. auto.
  - injection H as <- <-. auto.
  - injection H as <- <-. right. left. eexists. split; reflexivity.
  - injection H as <- <-. right. left. eexists. split; reflexivity.
  - destruct (c_push s) eqn:P; injection H as <- <-; auto. right. left. eexists. split; reflexivity.
  - destruct (find_idx _ 0 (cbs s)); injection H as <- <-; auto.
  - destruct (rd s) as [| |f|]; try discriminate. injection H as H.
    destruct (read_cs_ops f s) as [E1 _]. rewrite H in E1. auto.
  - destruct (find_op n (ops s)) as [[| |]|]; try discriminate.
    destruct (stop_locked SCStop _) as [s2 os2] eqn:SL. injection H as <- <-.
    right. right. exists n. split; auto.
    apply SrvC09.stop_locked_spec in SL as [(_ & -> & _)|(_ & _ & _ & _ & _ & _ & _ & _ & O & _)]; auto.
  - destruct (find_op n (ops s)) as [[| |]|]; try discriminate. cbn in H.
    right. right. exists n. split; auto.
    destruct (assoc id (used s)); injection H as <- <-; [|auto].
    pose proof (cancel_task_pv n1 (s <| ops ::= del_op n |>)) as P. apply pv_fields in P.
    destruct P as (_ & _ & _ & _ & _ & _ & _ & -> & _). auto.
  - right. right. exists n. split; auto.
    destruct (find_op n (ops s)) as [[| |n' w' m' p']|]; try discriminate. cbn in H.
    destruct (running s); cbn in H; [|injection H as <- _; reflexivity].
    destruct w'; [destruct (send_fail s)|]; injection H as <- _; reflexivity.
  - left. destruct (nth_error (cbs s) c) as [cb0|] eqn:N; [|discriminate].
    destruct (cb_watch cb0); try discriminate.
    destruct (assoc _ _); [|injection H as <- <-; auto].
    destruct (cb_slot cb0); [injection H as <- <-; auto|].
    destruct (_ =? _); [|injection H as <- <-; auto].
    assert (E : exists v s1, ops s1 = ops s /\ complete_cb c v s1 = (s', os)).
    { destruct (cb_ctx cb0) as [[|]|]; injection H as H; eexists; eexists; (split; [|exact H]); reflexivity. }
    destruct E as (v & s1 & E1 & E).
    pose proof (complete_cb_sbc c v s1) as SB. rewrite E in SB. cbn [fst] in SB. apply sbc_fields in SB.
    destruct SB as (_ & _ & _ & _ & _ & -> & _). auto.
Qed.

Lemma NoDup_app_remove_l {A} (l l' : list A) : NoDup (l ++ l') -> NoDup l'.
Proof. induction l as [|x l IH]; cbn; auto. intros N. inversion N; auto. Qed.
Lemma NoDup_app_remove_r {A} (l l' : list A) : NoDup (l ++ l') -> NoDup l.
Proof.
  induction l as [|x l IH]; cbn; [constructor|]. intros N. inversion N as [|? ? Hx Hn]; subst.
  constructor; auto. intros I. apply Hx. apply in_or_app; auto.
Qed.

Lemma nodup_app_incl {A} (a a' b : list A) : NoDup (a ++ b) -> NoDup a' -> incl a' a -> NoDup (a' ++ b).
Proof.
  intros N N' I. induction a' as [|x r IH]; cbn.
  - apply NoDup_app_remove_l in N. exact N.
  - inversion N' as [|? ? Hx Hr]; subst. constructor.
    + rewrite in_app_iff. intros [H|H]; [auto|].
      assert (Ia : In x a) by (apply I; left; auto).
      clear - N Ia H. induction a as [|y a IHa]; [destruct Ia|]. cbn in N. inversion N as [|? ? Hy Hn]; subst.
      destruct Ia as [->|Ia]; [apply Hy; apply in_or_app; auto|auto].
    + apply IH; auto. intros y Hy. apply I. right. auto.
Qed.

Lemma step_nodup_ops s l s' os r : NoDup (map op_num (ops s) ++ call_nums (l :: r)) ->
  step s l = Some (s', os) -> NoDup (map op_num (ops s') ++ call_nums r).
Proof.
  intros N H. apply step_obs_raw in H as (_ & s1 & os1 & ex & Raw & _ & _ & P).
  apply pv_fields in P. destruct P as (_ & _ & _ & _ & _ & _ & _ & -> & _).
  unfold call_nums in N. cbn [flat_map] in N. fold (call_nums r) in N.
  destruct (raw_ops_shape _ _ _ _ Raw) as [-> |[(o & -> & E)|(n & -> & E)]].
  - induction (call_num l) as [|x q IHq]; [exact N|]. apply IHq. cbn in N. eapply NoDup_remove_1; eauto.
  - rewrite E in N. rewrite map_app, <- app_assoc. exact N.
  - rewrite E in N. cbn in N. eapply nodup_app_incl; [exact N| |].
    + apply nodup_del_op. apply NoDup_app_remove_r in N. exact N.
    + intros x Hx. apply in_map_iff in Hx as (o & <- & Ho). apply in_map. eapply in_del_op; eauto.
Qed.

(** * whole traces *)
Fixpoint count_ret (n : nat) (oss : list (list obs)) : nat :=
  match oss with [] => 0 | os :: r => countb (ret_n n) os + count_ret n r end.
Fixpoint count_calls (n : nat) (tr : list label) : nat :=
  match tr with [] => 0 | l :: r => call_label_n n l + count_calls n r end.

Lemma run_pend c n : forall tr s s' oss, reach c s -> NoDup (map op_num (ops s) ++ call_nums tr) ->
  run s tr = Some (s', oss) ->
  count_ret n oss + pend n s' = pend n s + count_calls n tr /\ NoDup (map op_num (ops s')).
Proof.
  induction tr as [|l r IH]; cbn [run]; intros s s' oss R N H.
  - injection H as <- <-. cbn. split; [lia|]. unfold call_nums in N. cbn in N. rewrite app_nil_r in N. exact N.
  - destruct (step s l) as [[s1 os]|] eqn:E; [|discriminate].
    destruct (run s1 r) as [[s2 oss2]|] eqn:E2; [|discriminate].
    injection H as <- <-. cbn [count_ret count_calls].
    assert (N0 : NoDup (map op_num (ops s))) by (apply NoDup_app_remove_r in N; exact N).
    pose proof (step_pend n _ _ _ _ (inv_push_reach _ _ R) N0 E) as B1.
    destruct (IH _ _ _ (reach_step _ _ _ _ _ R E) (step_nodup_ops _ _ _ _ _ N E) E2) as [B2 N2]. split; [lia|exact N2].
Qed.

Lemma count_calls_in n tr : NoDup (call_nums tr) -> In n (call_nums tr) -> count_calls n tr = 1.
Proof.
  induction tr as [|l r IH]; cbn; [tauto|]. unfold call_nums. cbn [flat_map]. fold (call_nums r). intros N I.
  assert (Nr : NoDup (call_nums r)) by (apply NoDup_app_remove_l in N; exact N).
  assert (Z : forall k, ~ In k (call_nums r) -> count_calls k r = 0).
  { clear. induction r as [|l r IH]; cbn; auto. unfold call_nums. cbn [flat_map]. fold (call_nums r).
    intros k Hk. rewrite IH by (intros X; apply Hk; apply in_or_app; auto).
    destruct l; cbn; auto; destruct (Nat.eqb_spec n k) as [->|]; auto; exfalso; apply Hk; cbn; auto. }
  destruct l; cbn [call_num call_label_n] in *; try (apply IH; auto; fail).
  all: cbn in N, I; inversion N as [|? ? Hn Hd]; subst; destruct (Nat.eqb_spec n0 n) as [->|Ne];
    [rewrite Z; auto|destruct I as [I|I]; [congruence|rewrite IH; auto]].
Qed.

Lemma quiescent_no_ops s : crash s = None -> quiescent s = true -> ops s = [].
Proof.
  intros Cr Q. destruct (ops s) as [|o r] eqn:E; auto. exfalso.
  assert (F : find_op (op_num o) (ops s) = Some o).
  { rewrite E. unfold find_op. cbn. rewrite Nat.eqb_refl. reflexivity. }
  destruct o as [n|n id|n w m p]; cbn [op_num] in F.
  - destruct (stop_locked SCStop (s <| ops ::= del_op n |>)) as [s0 os0] eqn:St.
    apply (quiescent_contra s (LRelStop n) (s0, os0 ++ [ORet n AOk]) Q Cr).
    + apply (in_cand s SStop); [cbn; tauto|]. cbn. rewrite E. cbn. auto.
    + cbn [step_raw]. rewrite F, St. reflexivity.
  - eapply (quiescent_contra s (LRelCancel n) _ Q Cr).
    + apply (in_cand s SCancel); [cbn; tauto|]. cbn. rewrite E. cbn. auto.
    + cbn [step_raw]. rewrite F. reflexivity.
  - assert (X : exists x, step_raw s (LRelPush n) = Some x).
    { cbn [step_raw]. rewrite F. cbn. destruct (negb (running s)); [eauto|].
      destruct w; [destruct (send_fail s)|]; eauto. }
    destruct X as (x & X). apply (quiescent_contra s (LRelPush n) x Q Cr); auto.
    apply (in_cand s SPush); [cbn; tauto|]. cbn. rewrite E. cbn. auto.
Qed.

(* C09.3, the conservation law at a quiescent point: every API call (Stop, CancelRequest, Notify, Callback) numbered n
   has returned exactly once, except a Callback that is still outstanding *)
Theorem returns_conservation c tr s oss n : run (init_of c) tr = Some (s, oss) -> NoDup (call_nums tr) ->
  quiescent s = true -> count_ret n oss + countb (live_n n) (cbs s) = count_calls n tr.
Proof.
  intros H N Q. destruct (run_pend c n tr _ _ _ (reach_init c) N H) as [B _].
  assert (R : reach c s) by (eapply run_reach; [apply reach_init|eauto]).
  assert (Z : pend n (init_of c) = 0) by reflexivity.
  unfold pend in B at 1. rewrite (quiescent_no_ops s (no_crash _ _ R) Q) in B. cbn in B. lia.
Qed.

(** * a callback that has not returned is registered *)
Section Registered.
  Variable P : cb -> bool.
  Hypothesis P_ctx : forall x w, P (wake_watch (x <| cb_ctx := Some w |>)) = true -> P x = true.
  Hypothesis P_stop : forall cl x, P (stop_cb cl x) = true -> P x = true.
  Hypothesis P_done : forall x, P (x <| cb_watch := WDone |>) = true -> P x = true.
  Hypothesis P_slot : forall x r, P (wake_watch (x <| cb_slot := Some r |>)) = false.
  Hypothesis P_fail : forall n id, P (mkCb n id None None true WParked true) = false.

  Definition inv_reg (s : state) : Prop :=
    forall i c, nth_error (cbs s) i = Some c -> P c = true -> In (cb_id c, i) (calls s).

  Lemma ir_frame s s' : calls s' = calls s -> cbs s' = cbs s -> inv_reg s -> inv_reg s'.
  Proof. intros E1 E2 H i c. rewrite E1, E2. apply H. Qed.

  Lemma ir_pv s s' : pv s' = pv s -> inv_reg s -> inv_reg s'.
  Proof.
    intros Q. apply pv_fields in Q. destruct Q as (_ & _ & _ & _ & P5 & _ & P7 & _). apply ir_frame; auto.
  Qed.

  Lemma ir_upd s s' i f : calls s' = calls s -> cbs s' = upd_nth i f (cbs s) ->
    (forall x, cb_id (f x) = cb_id x) -> (forall x, P (f x) = true -> P x = true) -> inv_reg s -> inv_reg s'.
  Proof.
    intros E1 E2 Fid Fw H j c N W. rewrite E1. rewrite E2, nth_error_upd_nth in N.
    destruct (Nat.eqb_spec i j) as [->|Ne]; [|auto].
    destruct (nth_error (cbs s) j) as [x|] eqn:Nx; cbn in N; [|discriminate]. injection N as <-.
    rewrite Fid. apply H; auto.
  Qed.

  Lemma ir_complete s s' i c f : nth_error (cbs s) i = Some c ->
    calls s' = assoc_del (cb_id c) (calls s) -> cbs s' = upd_nth i f (cbs s) ->
    (forall x, P (f x) = false) -> inv_push s -> inv_reg s -> inv_reg s'.
  Proof.
    intros N E1 E2 Fw Ip H j cj Nj W. rewrite E1. rewrite E2, nth_error_upd_nth in Nj.
    destruct (Nat.eqb_spec i j) as [->|Ne].
    - rewrite N in Nj. cbn in Nj. injection Nj as <-. rewrite Fw in W. discriminate.
    - apply in_assoc_del_intro; [apply H; auto|]. cbn. intros Eid. apply Ne.
      eapply cb_ids_distinct; eauto.
  Qed.

  Lemma ir_stop s s' : calls s' = calls s -> cbs s' = map (stop_cb (calls s)) (cbs s) -> inv_reg s -> inv_reg s'.
  Proof.
    intros E1 E2 H i c N W. rewrite E1. rewrite E2 in N. apply nth_error_map_some in N as (x & N & ->).
    rewrite stop_cb_id. apply H; auto. eapply P_stop; eauto.
  Qed.

  Lemma ir_append s s' c : calls s' = calls s -> cbs s' = cbs s ++ [c] -> P c = false -> inv_reg s -> inv_reg s'.
  Proof.
    intros E1 E2 Nw H i x N W. rewrite E1. rewrite E2 in N. apply nth_error_snoc in N as [N|[-> ->]]; [auto|congruence].
  Qed.

  Lemma ir_push s s' k c : calls s' = (k, length (cbs s)) :: assoc_del k (calls s) -> cbs s' = cbs s ++ [c] ->
    cb_id c = k -> (forall j cj, nth_error (cbs s) j = Some cj -> cb_id cj <> k) -> inv_reg s -> inv_reg s'.
  Proof.
    intros E1 E2 Eid Fr H i x N W. rewrite E1. rewrite E2 in N. apply nth_error_snoc in N as [N|[-> ->]].
    - right. apply in_assoc_del_intro; [auto|]. cbn. eauto.
    - left. congruence.
  Qed.

  Lemma complete_cb_ir i r s : inv_push s -> inv_reg s -> inv_reg (fst (complete_cb i r s)).
  Proof.
    intros Ip H. unfold complete_cb. destruct (nth_error (cbs s) i) as [c|] eqn:N; cbn [fst]; auto.
    eapply ir_complete with (i := i) (c := c) (f := fun c => wake_watch (c <| cb_slot := Some r |>)); eauto; reflexivity.
  Qed.

  Lemma filter_batch_ir : forall ms s keep acc, inv_push s -> inv_reg s ->
    inv_reg (fst (fst (filter_batch ms s keep acc))).
  Proof.
    induction ms as [|m r IH]; intros s keep acc Ip H; cbn [filter_batch]; auto.
    destruct (is_req_or_notif m); auto.
    destruct (assoc (fix_id (j_id m)) (calls s)) as [i|].
    - match goal with |- context [complete_cb ?i ?v ?s] =>
        pose proof (complete_cb_ip i v s Ip) as Ip'; pose proof (complete_cb_ir i v s Ip H) as H';
        destruct (complete_cb i v s) as [s' os] end.
      apply IH; auto.
    - destruct (c_push s && is_nil (j_method m) && has_reply_fields m); auto.
  Qed.

  Lemma stop_locked_ir sc s : inv_reg s -> inv_reg (fst (stop_locked sc s)).
  Proof.
    intros H. destruct (stop_locked sc s) as [s' os] eqn:E. cbn [fst].
    apply SrvC09.stop_locked_spec in E as [(_ & -> & _)|(R & _ & R' & _ & _ & _ & C & CI & _ & _ & _ & CB)]; auto.
    eapply ir_stop; eauto.
  Qed.

  Ltac irf H := eapply ir_frame; [| |exact H]; reflexivity.

  Lemma read_cs_ir f s s' os : inv_push s -> inv_reg s -> read_cs f s = (s', os) -> inv_reg s'.
  Proof.
    intros Ip H E. unfold read_cs in E.
    destruct f as [i|i|sc].
    1,2: destruct (negb (running s)); [injection E as <- <-; irf H|];
         destruct i as [|b ms]; [cbn in E; injection E as <- <-; irf H|];
         destruct ms as [|m0 ms0]; [cbn in E; injection E as <- <-; irf H|];
         pose proof (filter_batch_ir (m0 :: ms0) s [] [] Ip H) as H';
         destruct (filter_batch (m0 :: ms0) s [] []) as [[s1 keep] os1]; cbn [fst] in H';
         destruct keep; [injection E as <- <-; irf H'|];
         match type of E with (if ?b then _ else _) = _ => destruct b end;
         injection E as <- <-; irf H'.
    pose proof (stop_locked_ir sc s H) as H'. destruct (stop_locked sc s) as [s2 os2]. cbn [fst] in *.
    injection E as <- <-. irf H'.
  Qed.

  Theorem reachf_inv_reg c s : reachf c s -> inv_reg s.
  Proof.
    induction 1 as [|s l s' os R IH C H|s s' os R IH H].
    - intros [|?] ? N; discriminate.
    - pose proof (inv_push_reachf _ _ R) as Ip.
      destruct (neutral l) eqn:Neu.
      { apply step_raw_neutral in H as [Q _]; auto. eapply ir_pv; eauto. }
      destruct l; try discriminate Neu; cbn [step_raw] in H.
      + destruct (negb (running s) && (wg s =? 0)); [|discriminate]. injection H as <- <-. irf IH.
      + injection H as <- <-. irf IH.
      + injection H as <- <-. irf IH.
      + injection H as <- <-. irf IH.
      + destruct (c_push s); injection H as <- <-; auto.
      + destruct (find_idx (fun c => cb_op c =? n) 0 (cbs s)) as [i|]; injection H as <- <-.
        2:{ irf IH. }
        eapply ir_upd with (i := i); [| | | |exact IH]; [reflexivity|reflexivity| |].
        * intros x. cbv beta. destruct (cb_cancelled x); reflexivity.
        * intros x. cbv beta. destruct (cb_cancelled x); auto. apply P_ctx.
      + destruct (rd s); try discriminate. injection H as E. eapply read_cs_ir; eauto.
      + destruct (find_op n (ops s)) as [[| |]|]; try discriminate.
        assert (H0 : inv_reg (s <| ops ::= del_op n |>)) by (irf IH).
        pose proof (stop_locked_ir SCStop _ H0) as H'.
        destruct (stop_locked SCStop (s <| ops ::= del_op n |>)) as [s2 os2]. injection H as <- <-. exact H'.
      + destruct (find_op n (ops s)) as [[| |]|]; try discriminate. cbn in H.
        destruct (assoc id (used s)); injection H as <- <-.
        * eapply ir_pv; [apply cancel_task_pv|]. irf IH.
        * irf IH.
      + destruct (find_op n (ops s)) as [[| |n' wantid m p]|]; try discriminate.
        cbn in H. destruct (running s) eqn:Run; cbn in H; [|injection H as <- <-; irf IH].
        destruct wantid; [|injection H as <- <-; irf IH].
        destruct (send_fail s) eqn:SF.
        * injection H as <- <-. eapply ir_append; [| | |exact IH]; [reflexivity|reflexivity|apply P_fail].
        * injection H as <- <-.
          eapply ir_push; [| | | |exact IH]; [reflexivity|reflexivity| |].
          -- destruct (find _ (ended s)) as [[? ?]|]; reflexivity.
          -- intros j cj Nj. exact (proj2 (fresh_id s Ip) j cj Nj).
      + rename c0 into i.
        destruct (nth_error (cbs s) i) as [cb0|] eqn:N; [|discriminate].
        destruct (cb_watch cb0) eqn:W; try discriminate.
        assert (H1 : inv_reg (s <| cbs ::= upd_nth i (fun c => c <| cb_watch := WDone |>) |>)).
        { eapply ir_upd with (i := i); [| | | |exact IH]; [reflexivity|reflexivity|reflexivity|apply P_done]. }
        replace (calls (s <| cbs ::= upd_nth i (fun c => c <| cb_watch := WDone |>) |>)) with (calls s) in H by reflexivity.
        destruct (assoc (cb_id cb0) (calls s)) as [j|] eqn:A; [|injection H as <- <-; exact H1].
        destruct (cb_slot cb0) eqn:SL; [injection H as <- <-; exact H1|].
        destruct (Nat.eqb_spec j i) as [->|Ne]; [|injection H as <- <-; exact H1].
        assert (E : exists v, complete_cb i v (s <| cbs ::= upd_nth i (fun c => c <| cb_watch := WDone |>) |>) = (s', os)).
        { destruct (cb_ctx cb0) as [[|]|]; injection H as H; eauto. }
        destruct E as (v & E). clear H.
        replace s' with (fst (complete_cb i v (s <| cbs ::= upd_nth i (fun c => c <| cb_watch := WDone |>) |>)))
          by (rewrite E; reflexivity).
        clear E. unfold complete_cb.
        match goal with |- context [nth_error ?l i] =>
          change l with (upd_nth i (fun c => c <| cb_watch := WDone |>) (cbs s)) end.
        rewrite (nth_error_upd_nth_eq _ _ _ _ N). cbn [fst].
        eapply ir_complete with (i := i) (c := cb0)
          (f := fun x => wake_watch ((x <| cb_watch := WDone |>) <| cb_slot := Some v |>)); eauto; try reflexivity.
        all: try (intros x; apply (P_slot (x <| cb_watch := WDone |>))).
        cbn. rewrite SrvC09.upd_nth_upd_nth. reflexivity.
    - eapply ir_pv; [eapply settle1_pv; eauto|auto].
  Qed.
End Registered.

Theorem live_registered c s i cb0 : reach c s -> nth_error (cbs s) i = Some cb0 -> live cb0 = true ->
  In (cb_id cb0, i) (calls s).
Proof.
  intros R N L. refine (reachf_inv_reg live _ _ _ _ _ c s (reach_reachf _ _ R) i cb0 N L).
  - intros x w. unfold live. cbn. auto.
  - intros cl x. unfold stop_cb. destruct (assoc (cb_id x) cl); auto.
  - intros x. unfold live. cbn. auto.
  - reflexivity.
  - reflexivity.
Qed.

(* C09.3: at a quiescent point with no callback outstanding, every API call of the trace has returned exactly once,
   and nothing else has returned *)
Theorem returns_exactly_once c tr s oss : run (init_of c) tr = Some (s, oss) -> NoDup (call_nums tr) ->
  quiescent s = true -> calls s = [] ->
  (forall n, In n (call_nums tr) -> count_ret n oss = 1) /\ (forall n, ~ In n (call_nums tr) -> count_ret n oss = 0).
Proof.
  intros H N Q Cl.
  assert (R : reach c s) by (eapply run_reach; [apply reach_init|eauto]).
  assert (L : forall n, countb (live_n n) (cbs s) = 0).
  { intros n. apply countb_false. intros x Hx. apply In_nth_error in Hx as (i & Ni).
    unfold live_n. destruct (live x) eqn:Lx; [|apply andb_false_r].
    pose proof (live_registered _ _ _ _ R Ni Lx) as I. rewrite Cl in I. destruct I. }
  split; intros n Hn; pose proof (returns_conservation _ _ _ _ n H N Q) as B; rewrite L in B.
  - rewrite (count_calls_in n tr N Hn) in B. lia.
  - assert (Z : count_calls n tr = 0).
    { clear - Hn. induction tr as [|l r IH]; cbn; auto. unfold call_nums in Hn. cbn [flat_map] in Hn. fold (call_nums r) in Hn.
      rewrite IH by (intros X; apply Hn; apply in_or_app; auto).
      destruct l; cbn; auto; destruct (Nat.eqb_spec n0 n) as [->|]; auto; exfalso; apply Hn; cbn; auto. }
    lia.
Qed.

Lemma push_nums_call_nums tr n : In n (push_nums tr) -> In n (call_nums tr).
Proof.
  unfold push_nums, call_nums. rewrite !in_flat_map. intros (l & Hl & Hn). exists l. split; auto.
  destruct l; cbn in *; auto.
Qed.

(* as worded in the property: each Notify / Callback of the trace has exactly one return; after the server has
   stopped no hypothesis on the callbacks is needed (the stop has ended them all) *)
Theorem push_returns_exactly_once c tr s oss n w m p : run (init_of c) tr = Some (s, oss) -> NoDup (call_nums tr) ->
  quiescent s = true -> calls s = [] \/ running s = false -> In (LCallPush n w m p) tr -> count_ret n oss = 1.
Proof.
  intros H N Q Hc Hl.
  assert (R : reach c s) by (eapply run_reach; [apply reach_init|eauto]).
  assert (Cl : calls s = []) by (destruct Hc as [Hc|Hc]; [auto|apply (no_watcher_left c s R Q Hc)]).
  destruct (returns_exactly_once _ _ _ _ H N Q Cl) as [A _]. apply A.
  apply push_nums_call_nums. unfold push_nums. apply in_flat_map. exists (LCallPush n w m p). split; cbn; auto.
Qed.

(* one trace with a Notify, a Callback answered by the peer, a Callback ended by Stop, a Stop, and a push after the
   stop (ErrConnClosed): five calls, five returns *)
Definition tr_five : list label :=
  [LStart; LCallPush 1 false [109]%N [49]%N; LRelPush 1; LCallPush 2 true [109]%N [50]%N; LRelPush 2;
   LFeed (FMsg (InMsgs false [reply_msg [49]%N [51]%N])); LRelRead; LRelCbWatch 0; LCallPush 3 true [109]%N [52]%N; LRelPush 3;
   LCallStop 4; LRelStop 4; LRelCbWatch 1; LCallPush 5 false [109]%N [53]%N; LRelPush 5; LRelNext].
Example returns_exactly_once_nonvacuous :
  exists s oss, run (init_of cfg_push) tr_five = Some (s, oss) /\ NoDup (call_nums tr_five) /\ quiescent s = true /\
    calls s = [] /\ running s = false /\ call_nums tr_five = [1; 2; 3; 4; 5] /\
    map (fun n => count_ret n oss) [1; 2; 3; 4; 5; 6] = [1; 1; 1; 1; 1; 0] /\
    filter (fun o => match o with ORet _ _ => true | _ => false end) (concat oss) =
      [ORet 1 AOk; ORet 2 (ACbRes [51]%N); ORet 4 AOk; ORet 3 (ACbCtx WCancel); ORet 5 AConnClosed].
Proof.
  eexists _, _. split; [vm_compute; reflexivity|]. split; [vm_compute; repeat constructor; cbn; intuition lia|].
  repeat split; vm_compute; reflexivity.
Qed.

(* a Callback that nobody answers is the one exception at a quiescent point of a running server *)
Example returns_conservation_outstanding :
  exists s oss, run (init_of cfg_push) [LStart; LCallPush 2 true [109]%N [50]%N; LRelPush 2; LRelNext] = Some (s, oss) /\
    quiescent s = true /\ count_ret 2 oss = 0 /\ countb (live_n 2) (cbs s) = 1 /\ running s = true.
Proof. eexists _, _. split; [vm_compute; reflexivity|]. repeat split; vm_compute; reflexivity. Qed.
