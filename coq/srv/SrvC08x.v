(* SrvC08x: concrete scenarios for C08 (non-vacuity of every implication), closed by computation. *)
From Coq Require Import List NArith ZArith Bool Arith Lia.
From RecordUpdate Require Import RecordUpdate.
From JV Require Import Bytes Msg SrvModel SrvLemmas SrvBasics SrvC08 SrvC08b SrvC08c.
Import ListNotations.

(* one call "1" dispatched, its handler running *)
Definition x_call : jmsg := ex_call [49%N] [91;93]%N.
Definition tr_call : list label :=
  [LStart; LRelNext; LFeed (FMsg (InMsgs false [x_call])); LRelRead; LRelBarrier; LRelAcquire 0].
(* Stop() is called while the handler runs, and is about to take the lock *)
Definition tr_before_stop : list label := tr_call ++ [LCallStop 1].
Definition tr_stop : list label := tr_before_stop ++ [LRelStop 1].
(* ... the handler returns, the reply is sent into the closed channel, the dispatcher and the reader exit,
   a pending WaitStatus returns *)
Definition tr_stop_done : list label :=
  tr_stop ++ [LCallWait; LGate [91;93]%N (ORes [50%N]); LRelHandled 0; LRelDeliver 0; LRelNext; LFeed (FErr SCClosing)].
(* the peer closes: Recv returns EOF *)
Definition tr_before_eof : list label := [LStart; LRelNext; LCallWait; LFeed (FErr SCEOF)].
Definition tr_eof : list label := tr_before_eof ++ [LRelRead].
(* a batch with a notification and a call is queued (the dispatcher has not taken it) when Stop comes *)
Definition x_batch : inbound := InMsgs true [ex_note [1%N]; ex_call [49%N] [2%N]].
Definition tr_before_batch_stop : list label := [LStart; LFeed (FMsg x_batch); LRelRead; LCallStop 1].
Definition tr_batch_stop : list label := tr_before_batch_stop ++ [LRelStop 1].
(* ... the retained notification is dispatched through the nil channel and handled *)
Definition tr_batch_done : list label :=
  tr_batch_stop ++ [LRelNext; LRelBarrier; LRelAcquire 0; LGate [1%N] (ORes []); LRelHandled 0; LRelNext;
                    LFeed (FErr SCClosing); LRelRead; LCallWait].
(* restart after EOF, then a call is served normally *)
Definition tr_restart : list label := tr_eof ++ [LStart].
Definition tr_restart_served : list label :=
  tr_restart ++ [LRelNext; LFeed (FMsg (InMsgs false [x_call])); LRelRead; LRelBarrier; LRelAcquire 0;
                 LGate [91;93]%N (ORes [50%N]); LRelHandled 0; LRelDeliver 0].

Ltac reach_ex := apply reach_st_of; vm_compute; discriminate.

(* C08.1: reachable states on the dangerous paths: a unit dispatched through the nil channel, a reader that finds
   the server stopped, a second stop cause, WaitStatus with the queue drained *)
Example no_crash_nonvacuous :
  reach ex_cfg (st_of ex_cfg tr_batch_done) /\
  option_map u_chok (nth_error (units (st_of ex_cfg tr_batch_done)) 0) = Some false /\
  option_map u_st (nth_error (units (st_of ex_cfg tr_batch_done)) 0) = Some UFinished /\
  reach ex_cfg (st_of ex_cfg (tr_stop ++ [LFeed (FMsg InBad); LRelRead; LFeed (FErr SCEOF)])) /\
  crash (st_of ex_cfg (tr_stop ++ [LFeed (FMsg InBad); LRelRead; LFeed (FErr SCEOF)])) = None.
Proof. split; [reach_ex|]. split; [reflexivity|]. split; [reflexivity|]. split; [reach_ex|]. reflexivity. Qed.

(* C08.2 *)
Example stop_once_nonvacuous :
  reach ex_cfg (st_of ex_cfg tr_stop) /\ running (st_of ex_cfg tr_stop) = false /\
  closes (st_of ex_cfg tr_stop) = 1 /\ starts (st_of ex_cfg tr_stop) = 1 /\
  reach ex_cfg (st_of ex_cfg tr_call) /\ running (st_of ex_cfg tr_call) = true /\
  closes (st_of ex_cfg tr_call) = 0 /\ starts (st_of ex_cfg tr_call) = 1.
Proof. split; [reach_ex|]. do 3 (split; [reflexivity|]). split; [reach_ex|]. repeat split. Qed.

Example stop_window_nonvacuous :
  exists s s' os, reach ex_cfg s /\ step s (LRelStop 1) = Some (s', os) /\ running s = true /\ running s' = false /\
    stop_err s' = Some SCStop.
Proof.
  exists (st_of ex_cfg tr_before_stop). eexists _, _. split; [reach_ex|]. vm_compute. repeat split; reflexivity.
Qed.

Example stop_window_eof_nonvacuous :
  exists s s' os, reach ex_cfg s /\ step s LRelRead = Some (s', os) /\ running s = true /\ running s' = false /\
    rd s = RHold (FErr SCEOF) /\ stop_err s' = Some SCEOF.
Proof.
  exists (st_of ex_cfg tr_before_eof). eexists _, _. split; [reach_ex|]. vm_compute. repeat split; reflexivity.
Qed.

(* a Recv error arriving after Stop does not change the recorded cause *)
Example first_cause_wins_nonvacuous :
  exists s s' os, reach ex_cfg s /\ step s LRelRead = Some (s', os) /\ stop_err s = Some SCStop /\
    rd s = RHold (FErr SCEOF) /\ stop_err s' = Some SCStop.
Proof.
  exists (st_of ex_cfg (tr_stop ++ [LFeed (FErr SCEOF)])). eexists _, _. split; [reach_ex|].
  vm_compute. repeat split; reflexivity.
Qed.

(* C08.3 / C08.4: the window in which WaitStatus returns *)
Example status_nonvacuous :
  exists s s' os, reach ex_cfg s /\ step s LRelRead = Some (s', os) /\ In (OWaitRet (Some SCEOF)) os.
Proof.
  exists (st_of ex_cfg tr_before_eof). eexists _, _. split; [reach_ex|]. vm_compute. split; [reflexivity|]. vm_compute. tauto.
Qed.

Example status_stop_nonvacuous :
  exists s s' os, reach ex_cfg s /\ step s LRelRead = Some (s', os) /\ In (OWaitRet (Some SCStop)) os /\
    map t_st (tasks s') = [TDone (Some (BRes [50%N]))].
Proof.
  exists (st_of ex_cfg tr_stop_done). eexists _, _. split; [reach_ex|]. vm_compute. split; [reflexivity|]. vm_compute. tauto.
Qed.

Definition tr_after_stop : list label :=
  [LCallWait; LGate [91;93]%N (ORes [50%N]); LRelHandled 0; LRelDeliver 0; LRelNext; LFeed (FErr SCClosing); LRelRead].
Example status_cause_nonvacuous :
  exists s s1 os tr s2 oss, reach ex_cfg s /\ step s (LRelStop 1) = Some (s1, os) /\ running s = true /\
    running s1 = false /\ run s1 tr = Some (s2, oss) /\ ~ In LStart tr /\
    exists os', In os' oss /\ In (OWaitRet (Some SCStop)) os'.
Proof.
  exists (st_of ex_cfg tr_before_stop), (st_of ex_cfg tr_stop), [OClose; ORet 1 AOk], tr_after_stop,
         (st_of ex_cfg (tr_stop ++ tr_after_stop)), (skipn 8 (obs_of ex_cfg (tr_stop ++ tr_after_stop))).
  split; [reach_ex|]. split; [vm_compute; reflexivity|]. split; [vm_compute; reflexivity|].
  split; [vm_compute; reflexivity|]. split; [vm_compute; reflexivity|]. split.
  - unfold tr_after_stop. intros H. repeat (destruct H as [H|H]; [discriminate H|]). exact H.
  - exists [OWaitRet (Some SCStop)]. split; vm_compute; tauto.
Qed.

Example idle_until_start_nonvacuous :
  exists s s' os, reach ex_cfg s /\ wg s = 0 /\ step s (LFeed (FMsg InBad)) = Some (s', os) /\ starts s = 1.
Proof. exists (st_of ex_cfg tr_eof). eexists _, _. split; [reach_ex|]. vm_compute. repeat split; reflexivity. Qed.

(* C08.5: Stop with a call in flight: reserved, then cancelled *)
Example calls_cancelled_nonvacuous :
  exists s s' os t un, reach ex_cfg s /\ step s (LRelStop 1) = Some (s', os) /\ running s = true /\ running s' = false /\
    nth_error (tasks s) 0 = Some t /\ t_hasctx t = true /\ t_id t <> [] /\ t_cancelled t = false /\
    nth_error (units s) (t_unit t) = Some un /\ u_st un <> UFinished /\ used s <> [] /\
    option_map t_cancelled (nth_error (tasks s') 0) = Some true.
Proof.
  exists (st_of ex_cfg tr_before_stop). eexists _, _, _, _. split; [reach_ex|].
  vm_compute. repeat split; try reflexivity; discriminate.
Qed.

(* a call queued for a slot (K = 1, the slot is taken) is answered with the cancellation error *)
Definition tr_two_calls : list label :=
  [LStart; LRelNext; LFeed (FMsg (InMsgs true [ex_call [49%N] [1%N]; ex_call [50%N] [2%N]])); LRelRead; LRelBarrier;
   LRelAcquire 0; LRelAcquire 1; LCallStop 1].
Example calls_cancelled_waiting_nonvacuous :
  exists s s' os, reach ex_cfg s /\ step s (LRelStop 1) = Some (s', os) /\ running s = true /\ running s' = false /\
    map t_st (tasks s) = [TRunning; TWaiting] /\
    map t_st (tasks s') = [TRunning; TDone (Some cancel_err)] /\ map t_cancelled (tasks s') = [true; true].
Proof.
  exists (st_of ex_cfg tr_two_calls). eexists _, _. split; [reach_ex|]. vm_compute. repeat split; reflexivity.
Qed.

(* queued calls are dropped, the queued notification is kept and later gets a task: a notification *)
Example stopped_only_notes_nonvacuous :
  exists s s' os t, reach ex_cfg s /\ running s = false /\ step s LRelNext = Some (s', os) /\
    length (tasks s) = 0 /\ nth_error (tasks s') 0 = Some t /\ t_params t = [1%N] /\ length (tasks s') = 1.
Proof.
  exists (st_of ex_cfg tr_batch_stop). eexists _, _, _. split; [reach_ex|]. vm_compute. repeat split; reflexivity.
Qed.

(* C08.6: the stop window with a queued batch holding a notification and a call *)
Example notifications_kept_nonvacuous :
  exists s s' os, reach ex_cfg s /\ step s (LRelStop 1) = Some (s', os) /\ running s = true /\ running s' = false /\
    inq s = [(true, [ex_note [1%N]; ex_call [49%N] [2%N]])] /\ inq s' = [(true, [ex_note [1%N]])].
Proof.
  exists (st_of ex_cfg tr_before_batch_stop). eexists _, _. split; [reach_ex|]. vm_compute. repeat split; reflexivity.
Qed.

(* ... and the retained notification is handed to its handler after the stop *)
Example notification_handled_after_stop :
  In [OStart [1%N] false] (obs_of ex_cfg tr_batch_done) /\ In [OWaitRet (Some SCStop)] (obs_of ex_cfg tr_batch_done) /\
  map t_st (tasks (st_of ex_cfg tr_batch_done)) = [TDone None].
Proof. vm_compute. split; [do 7 right; left; reflexivity|]. split; [do 13 right; left; reflexivity|reflexivity]. Qed.

(* C08.8: restart after WaitStatus returned, and a call served by the restarted server *)
Example restart_fresh_nonvacuous :
  exists s, reach ex_cfg s /\ wg s = 0 /\ running s = false /\ starts s = 1 /\ stop_err s = Some SCEOF.
Proof. exists (st_of ex_cfg tr_eof). split; [reach_ex|]. vm_compute. repeat split; reflexivity. Qed.

Example restart_serves_nonvacuous :
  run (init_of ex_cfg) tr_restart_served <> None /\
  In [OSend true false [{| r_id := [49%N]; r_body := BRes [50%N] |}]] (obs_of ex_cfg tr_restart_served) /\
  starts (st_of ex_cfg tr_restart_served) = 2 /\ running (st_of ex_cfg tr_restart_served) = true.
Proof. vm_compute. split; [discriminate|]. split; [do 13 right; left; reflexivity|]. split; reflexivity. Qed.
